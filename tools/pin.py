#!/usr/bin/env python3
"""Re-pin the Props files (run by hand after a deliberate statement change)."""
import hashlib, json, glob, os
os.chdir(os.path.join(os.path.dirname(os.path.abspath(__file__)), "..", "coq"))
pins = {f: hashlib.sha256(open(f, 'rb').read()).hexdigest() for f in sorted(glob.glob('Props/*.v'))}
json.dump(pins, open('Pins/pins.json', 'w'), indent=1)
print(json.dumps(pins, indent=1))
