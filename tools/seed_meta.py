#!/usr/bin/env python3
"""write seeded/<id>/meta.json: seed_meta.py <id> <property> <needs> <caught_by>"""
import json, sys, os
sid, prop, needs, caught = sys.argv[1:5]
d = os.path.join(os.path.dirname(os.path.dirname(os.path.abspath(__file__))), "seeded", sid)
log = open(os.path.join(d, "confirm.log")).read() if os.path.exists(os.path.join(d, "confirm.log")) else ""
clean, mut = (log.split("== mutated tree + demo") + [""])[:2]
meta = {"property": prop, "needs_to_manifest": needs,
        "ran": ["tools/confirm_seed.sh: cargo test --workspace --no-fail-fast --offline on the clean tree + demo, then with patch.diff applied (log in confirm.log)",
                f"git -C /repo apply seeded/{sid}/patch.diff; python3 tools/check.py {prop}; git -C /repo checkout -- ."],
        # replay_* integration tests are timing sensitive under machine load (several are in the baseline's flaky list): ignore them
        "demo_passes_on_clean_tree": (not [l for l in clean.splitlines() if l.startswith("test ") and l.endswith("FAILED") and "replay_" not in l]) if clean else None,
        "demo_fails_with_patch": bool([l for l in mut.splitlines() if l.startswith("test ") and l.endswith("FAILED") and "replay_" not in l]),
        "failed_with_patch": [l for l in mut.splitlines() if l.startswith("test ") and l.endswith("FAILED")],
        "caught_by": caught}
json.dump(meta, open(os.path.join(d, "meta.json"), "w"), indent=1)
print(sid, meta["demo_passes_on_clean_tree"], meta["demo_fails_with_patch"])
