import json, sys, os, re, subprocess
sys.path.insert(0, os.path.dirname(os.path.abspath(__file__)))
import vlib
from props import c07
d = json.load(open(sys.argv[1])); c = d["replay"]["case"]
g = c07.gal_case(c)
inp = g[1:g.rindex(", [")]  # strip expected
txt = "From EC Require Import Base.Prelude Base.Bytes Cycle.Cycle Wire.Check.\nLocal Open Scope N_scope.\nEval vm_compute in (match %s with (cf, md, v, img, rs) => obs_cycle cf md v img rs end).\n" % inp
open("/tmp/d7.v","w").write(txt)
out = subprocess.run(["coqc","-noglob","-Q",vlib.COQ,"EC","/tmp/d7.v"],capture_output=True,text=True).stdout
v = vlib.parse_evals(out)[0]
model=[int(x) for x in re.findall(r"-?\d+", v.replace("%Z",""))]
exp=c07.expected(c)
print({k:c[k] for k in ("variant","cap","start","len","rlen","subs","dcref","res")}, c.get("err"))
for i,(a,b) in enumerate(zip(model,exp)):
    if a!=b: print("diff at",i,"model",model[max(0,i-6):i+8],"impl",exp[max(0,i-6):i+8]); break
else: print("prefix equal; lens", len(model), len(exp), model[-10:], exp[-10:])
