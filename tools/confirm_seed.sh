#!/bin/bash
# usage: confirm_seed.sh <worktree> <mX> <seed-id>   -- confirm a seeded mutation independently and store it under seeded/
set -u
WT=$1; M=$2; ID=$3
OUT=/verif/seeded/$ID
mkdir -p $OUT
cp $WT/out/$M/patch.diff $OUT/patch.diff
cp $WT/out/$M/demo.diff $OUT/demo.diff
cp $WT/out/$M/README.md $OUT/agent_README.md
export RUSTUP_TOOLCHAIN=1.88.0 CARGO_TARGET_DIR=$WT/target CARGO_NET_OFFLINE=true
cd $WT && git checkout -q -- . && git clean -fdq -e out -e target
LOG=$OUT/confirm.log; : > $LOG
git apply $OUT/demo.diff || { echo "demo.diff does not apply" >> $LOG; exit 1; }
DEMO_FILES=$(git status --porcelain | awk '{print $2}' | grep -v '^out/' | grep -v '^target' | tr '\n' ' ')
echo "demo files: $DEMO_FILES" >> $LOG
# which tests does the demo add?  run the whole workspace suite: demo must pass on the clean tree
echo "== clean tree + demo" >> $LOG
cargo test --workspace --no-fail-fast --offline 2>&1 | grep -E "^test result|FAILED|failed|panicked" >> $LOG
CLEAN_FAILS=$(grep -c "FAILED\|failed" $LOG)
git apply $OUT/patch.diff || { echo "patch.diff does not apply" >> $LOG; exit 1; }
echo "== mutated tree + demo" >> $LOG
cargo test --workspace --no-fail-fast --offline 2>&1 | grep -E "^test result|FAILED|failed|panicked" >> $LOG
git checkout -q -- . && git clean -fdq -e out -e target
echo "done" >> $LOG
