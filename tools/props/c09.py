"""C09: initialisation finds every SubDevice once and addresses each distinctly."""
import json, re
import vlib

TB = ["Coq 8.16.1 kernel + vm_compute", "hand-written model coq/Init/Discover.v (addressing, capacity, hand-out to groups) tied by differential runs (harness/src/bin/initnet.rs) of MainDevice::init against simulated networks",
      "the simulator (harness/src/sim) for the devices' registers, SII and AL state machine; what each device's EEPROM parses to is C12's subject"]


def oracle(c):
    n, mx = c["n"], c["max"]
    if c["res"] in ("PANIC", "HANG"):
        return "init-" + c["res"].lower(), "init of %d devices: %s" % (n, c["res"])
    if n > mx:
        if c["res"] != "Err" or "Capacity" not in c["err"]:
            return "capacity", "%d devices with capacity %d: %s %s" % (n, mx, c["res"], c.get("err"))
        return None
    if c["res"] != "Ok":
        return "init-error", "init of %d devices failed: %s" % (n, c["err"])
    if c["reported"] != n:
        return "count", "%d devices reported, %d on the wire" % (c["reported"], n)
    seen = {}
    for gi, g in enumerate(c["groups"]):
        for sd in g:
            pos = sd["addr"] - 0x1000
            if pos in seen:
                return "duplicate", "device %d is in two groups" % pos
            seen[pos] = gi
            if not (0 <= pos < n):
                return "address", "address %#x handed out" % sd["addr"]
            sim = c["sim"][pos]
            want_name = sim["name"] if sim["strings"] else "manu. %#010x, device %#010x, serial %#010x" % (sim["ident"][0], sim["ident"][1], sim["ident"][3])
            if sd["name"] != want_name or sd["ident"] != sim["ident"] or sd["alias"] != sim["alias"] or sd["dc"] != sim["dc"]:
                return "record", "device %d is recorded as %s, the device at that ring position is %s" % (pos, {k: sd[k] for k in ("name", "ident", "alias", "dc")}, {k: sim[k] for k in ("name", "ident", "alias", "dc")})
            if "ports" in sd and sd["ports"] != sim["ports"]:
                return "record-ports", "device %d is recorded with links on ports %s, the device at that ring position has links on %s" % (
                    pos, [i for i, b in enumerate(sd["ports"]) if b], [i for i, b in enumerate(sim["ports"]) if b])
            if c["assign"][pos] != gi:
                return "group", "device %d is in group %d, the filter said %d" % (pos, gi, c["assign"][pos])
    if sorted(seen) != list(range(n)):
        return "missing", "devices %s are in no group" % sorted(set(range(n)) - set(seen))
    for pos, sim in enumerate(c["sim"]):
        if sim["station"] != 0x1000 + pos:
            return "station-register", "device %d holds station address %#x" % (pos, sim["station"])
        if sim["al"] != 2:
            return "not-preop", "device %d is left in AL state %d" % (pos, sim["al"])
    return None


def exp_obs(c):
    if c["res"] == "Ok":
        out = [0]
        for gi in range(c["ng"]):
            for sd in c["groups"][gi]:
                out += [sd["addr"] - 0x1000, sd["addr"]]
            out.append(-7)
        return out
    if c["res"] == "Err":
        return [1] if "Capacity" in c["err"] else [3]
    return [-98] if c["res"] == "PANIC" else [-99]


def run(ctx, replay=None):
    quick = ctx.tier == "quick"
    vlib.proof_stage(ctx, "Props/C09.v")
    ctx.coverage["trusted_base"] = TB
    n = 400 if quick else 4000
    cases = []
    for rel in ([False] if quick else [False, True]):
        rc, out, exe = vlib.cargo_build("initnet", release=rel)
        if rc != 0:
            ctx.violation("harness does not build against the current tree: " + out[-400:], {"broken": "correspondence", "log": out[-3000:]}, no_input=True)
            return
        rc, out, _ = vlib.sh([exe, "c09", str(ctx.seed + (500 if rel else 0)), str(n)], timeout=2400)
        got = [json.loads(l) for l in out.splitlines() if l.startswith("{")]
        if rc != 0 or len(got) < n:
            ctx.violation("initnet harness did not finish: " + out[-300:], {"broken": "harness-run", "log": out[-1500:]}, no_input=False)
        cases += got
    if not cases:
        return
    sizes = {}
    for c in cases:
        sizes[c["n"]] = sizes.get(c["n"], 0) + 1
        r = oracle(c)
        if r:
            ctx.classify(r[0], "C09 oracle: " + r[1], c)
    items = ["((%d%%nat, %d%%nat, %d%%nat, %s), %s%%Z)" % (c["max"], c["ng"], c["n"], "[" + "; ".join("%d%%nat" % a for a in c["assign"]) + "]", vlib.gz(exp_obs(c))) for c in cases]
    nsh = 8
    texts = []
    for i in range(nsh):
        texts.append("\n".join(["From EC Require Import Base.Prelude Base.Bytes Init.Discover Wire.Check.", "Local Open Scope N_scope.",
                                "Definition cs : list ((nat * nat * nat * list nat) * list Z) := [" + ";\n".join(items[i::nsh]) + "].",
                                "Eval vm_compute in (0, map fst (mismatches (fun x => match x with (m, g, n, a) => obs_init m g n a end) cs 0))."]) + "\n")
    dis = 0
    for (rc, out), cs in zip(vlib.coq_eval_shards(ctx.pid, texts), [cases[i::nsh] for i in range(nsh)]):
        if rc != 0:
            ctx.violation("model evaluation failed: " + out[-300:], {"broken": "correspondence", "log": out[-2000:]}, no_input=True)
            continue
        v = vlib.parse_evals(out)
        if not v or not v[0].endswith(", [])"):
            idxs = [int(x) for x in re.findall(r"\d+", (v[0][3:] if v else "").replace("%N", ""))]
            dis += max(1, len(idxs))
            ctx.violation("model and implementation disagree on %d initialisation(s)" % len(idxs), {"broken": "correspondence", "case": cs[idxs[0]] if idxs and idxs[0] < len(cs) else None}, no_input=True)
    ctx.coverage.update(evaluations=len(cases), distinct_nontrivial=len({json.dumps([c["n"], c["assign"], c["sim"]]) for c in cases}),
                        rule="lines and (one in three) trees with junctions on ports 1..3 of 0..10 simulated devices (capacity 8); the recorded link state of the four ports is compared with the device at that ring position;: couplers, simple I/O, CoE devices; random identities, aliases, names or none, DC none/32/64 bit, 4/8 byte SII reads, vendor categories, arbitrary or duplicate pre-existing station addresses; 1..3 groups by a random filter",
                        network_sizes=sizes, disagreements=dis, samples=[{"n": cases[0]["n"], "assign": cases[0]["assign"], "res": cases[0]["res"]}])
