"""C20: tasks sharing one MainDevice do not disturb each other."""
import concurrent.futures, json
import vlib
from props import slots_common as sc

TB = ["Coq 8.16.1 kernel + vm_compute",
      "hand-written models coq/Pdu/Slots.v + Client.v (PDU loop at operation granularity), coq/Net/Commute.v (stations with memories, configured-address datagrams, logical datagrams through the FMMUs of coq/Pd/Layout.v)",
      "tie (a): differential multi-request histories of the real frame slots against Pdu/Slots.v (harness/src/bin/slots.rs, mode c01: responses delivered in any order, several requests outstanding)",
      "tie (b): harness/src/bin/c20.rs - 2..4 cooperative tasks of the real MainDevice over the simulated segment under a seeded scheduler, compared with the same tasks run one after the other on an identically built network",
      "the simulator (harness/src/sim) and the virtual clock; one OS thread, so interleavings are at await points only (atomics' weak-memory behaviour and pre-emption inside a poll are outside)"]


def judge(c):
    """the property's words on the implementation's observations"""
    if c["res"] == "Skip":
        return
    if c["res"] != "Ok":
        yield ("run-" + c["res"].lower(), "network/tasks did not run: %s" % c.get("err", c["res"]))
        return
    for t, (a, b) in enumerate(zip(c["seq"], c["conc"])):
        if a != b:
            k = next((i for i, (x, y) in enumerate(zip(a, b)) if x != y), min(len(a), len(b)))
            x = a[k] if k < len(a) else "<nothing>"
            y = b[k] if k < len(b) else "<nothing>"
            key = "failed-because-of-others" if " ERR " in y and " ERR " not in x else "result-differs"
            yield (key, "task %d (%s) step %d: alone it yields '%s', next to the others '%s'" % (t, c["tasks"][t], k, x[:120], y[:120]))
    if c["seq_digest"] != c["conc_digest"]:
        k = next(i for i, (x, y) in enumerate(zip(c["seq_digest"], c["conc_digest"])) if x != y)
        yield ("state-differs", "final state differs: sequential '%s', concurrent '%s'" % (c["seq_digest"][k][:140], c["conc_digest"][k][:140]))


def index_stage(ctx, rounds):
    """the shared PDU index counter.  The theorem (c20_indices_distinct) is about the program the
    translator read off next_pdu_idx; when it no longer applies, look for a failing execution: every
    two-thread schedule of up to 6 steps in the model, and OS threads released together against the
    real PduStorage.  The threaded run is also done when the proof stands (it cannot fail then)."""
    txt = "\n".join(["From EC Require Import Base.Prelude Pdu.IdxAlloc Gen.IdxProgram.",
                     "Eval vm_compute in (0, next_pdu_idx_program, find_dup next_pdu_idx_program 6).", ""])
    (rc, out), = vlib.coq_eval_shards(ctx.pid + "idx", [txt])
    witness = None
    if rc == 0:
        v = vlib.parse_evals(out)
        if v and "Some" in v[0]:
            witness = v[0]
    rc, out, exe = vlib.cargo_build("idxthreads")
    threads = None
    if rc != 0:
        ctx.violation("harness does not build against the current tree: " + out[-400:], {"broken": "correspondence", "log": out[-3000:]}, no_input=True)
    else:
        rc, out, _ = vlib.sh([exe, str(rounds), "4", "3"], timeout=900)
        lines = [json.loads(l) for l in out.splitlines() if l.startswith("{")]
        if rc != 0 or not lines:
            ctx.violation("threaded index run did not finish: " + out[-300:], {"broken": "harness-run", "log": out[-1500:]}, no_input=False)
        else:
            threads = lines[0]
    if threads and threads["duplicate_rounds"]:
        ctx.classify("index-duplicate", "C20 oracle: threads building frames at the same moment were handed the same PDU index (%d of %d rounds; round %d: %s): the response to one is routed to the other" % (
            threads["duplicate_rounds"], threads["rounds"], threads["first_round"], threads["indices"]), {"threads": threads, "model_schedule": witness})
    elif witness:
        ctx.classify("index-duplicate-model", "C20: the index allocation routine as it is in the source hands the same index to two threads under the schedule %s (model, coq/Pdu/IdxAlloc.v); the threaded run did not hit it in %s rounds" % (
            witness, threads and threads["rounds"]), {"model_schedule": witness, "threads": threads})
    ctx.coverage["index_allocation"] = {"model_search": "all 64 two-thread schedules of 6 steps: " + ("duplicate under " + witness if witness else "no duplicate"), "threads": threads}


def run(ctx, replay=None):
    quick = ctx.tier == "quick"
    vlib.proof_stage(ctx, "Props/C20.v")
    ctx.coverage["trusted_base"] = TB
    ctx.assumptions += ["tasks work on different groups / different SubDevices (the property's premise); at most as many frames in flight as the storage holds",
                        "interleaving at await points of one thread; sequentially consistent atomics",
                        "the C01 (view outlives its slot) and C06 (deadline windows) findings are not re-examined here: no deadline expires in these runs and no view is held across an await"]
    # (0) the shared PDU index counter: model search over schedules + real threads
    index_stage(ctx, 2000 if quick else 30000)
    # (a) the PDU loop under several outstanding requests, against the Coq slot model
    cases = sc.run_histories(ctx, "c01", 200 if quick else 2000, 90 if quick else 140)
    dis = -1
    if cases is not None:
        for c in cases:
            for note in c["oracle"]:
                key = note.split(":")[0]
                if key in ("view-unstable", "capacity-lost", "capacity-exceeded"):
                    continue          # C01's known finding / C03's business
                ctx.classify("slots-" + key, "C20 oracle (PDU loop): " + note, {"case": c, "note": note})
        dis = sc.compare_in_coq(ctx, cases)
    # (b) concurrent tasks against the sequential oracle
    rc, out, exe = vlib.cargo_build("c20")
    if rc != 0:
        ctx.violation("harness does not build against the current tree: " + out[-400:], {"broken": "correspondence", "log": out[-3000:]}, no_input=True)
        return
    n = 600 if quick else 8000
    nsh = 12
    runs = []

    def one(i):
        return vlib.sh([exe, str(ctx.seed * 100 + i), str(n // nsh)], timeout=3000)
    with concurrent.futures.ThreadPoolExecutor(max_workers=nsh) as ex:
        for rc, out, _ in ex.map(one, range(nsh)):
            got = [json.loads(l) for l in out.splitlines() if l.startswith("{")]
            if rc != 0 or len(got) < n // nsh:
                ctx.violation("c20 harness did not finish: " + out[-300:], {"broken": "harness-run", "log": out[-1500:]}, no_input=False)
            runs += got
    st = {"ok": 0, "skipped": 0, "tasks": {}, "slots": {}, "switches": 0, "reordered_deliveries": 0, "max_inflight": 0, "frames": 0, "kinds": {}, "late_poll_family": 0}
    for c in runs:
        for key, text in judge(c):
            ctx.classify(key, "C20 oracle: " + text, c)
        if c["res"] == "Skip":
            st["skipped"] += 1
        if c["res"] != "Ok":
            continue
        st["ok"] += 1
        st["late_poll_family"] += 1 if c.get("late") else 0
        st["tasks"][len(c["tasks"])] = st["tasks"].get(len(c["tasks"]), 0) + 1
        st["slots"][c["nslots"]] = st["slots"].get(c["nslots"], 0) + 1
        st["switches"] += c["switches"]
        st["reordered_deliveries"] += c["reordered"]
        st["max_inflight"] = max(st["max_inflight"], c["max_inflight"])
        st["frames"] += c["frames"]
        for t in c["tasks"]:
            k = t.split(" ")[0]
            st["kinds"][k] = st["kinds"].get(k, 0) + 1
    ctx.coverage.update(evaluations=len(runs) + (len(cases) if cases else 0),
                        distinct_nontrivial=len({json.dumps([c.get("tasks"), c.get("assign"), c.get("nslots"), c.get("steps")]) for c in runs}),
                        rule="(b) one evaluation = one network of 2..8 simulated devices in 2..3 groups (EEPROM-configured and CoE devices, loop-back / counter applications) brought to OP, then 2..4 tasks (process-data cycles of distinct groups, register accesses and SDO transfers incl. segmented uploads on distinct SubDevices) run concurrently with frame storage of 2/4/8/16 slots (never fewer than tasks) under a seeded scheduler that picks, at every step, a woken task, the transmit side or any in-flight response (0..500 us apart), versus the same tasks sequentially on an identically built network; compared: every task's result log, the groups' images, device memories and object dictionaries.  One network in four runs in the late-poll family instead: a 1.5 ms response deadline, frames sent as soon as they are sendable, responses delivered in arrival order 0..500 us after sending (so every response is stored inside its deadline) and one task that the scheduler keeps waiting, also past its deadline, while the others run.  (0) the shared PDU index counter: every two-thread schedule of 6 steps of the routine the translator read off next_pdu_idx, and 4 OS threads x 3 datagrams released together against the real storage.  (a) multi-request histories of the frame slots against the Coq model",
                        scheduler=st, slot_model_disagreements=dis,
                        samples=[{"tasks": runs[0].get("tasks"), "nslots": runs[0].get("nslots"), "switches": runs[0].get("switches")}] if runs else [])
