"""C02: a frame buffer never has two parties inside it at once."""
import json
import vlib
from props import slots_common as sc

TB = ["Coq 8.16.1 kernel + vm_compute", "hand-written model coq/Pdu/Slots.v + Pdu/Own2.v tied by differential histories with operations executed inside the TX/RX/poll/drop windows (harness/src/bin/slots.rs mode c02)",
      "cfg(ethercrab_verif) yield points and slot snapshot accessor", "atomics modelled as sequentially consistent single steps; finer interleavings inside alloc/push/mark_sendable are not explored"]


def run(ctx, replay=None):
    quick = ctx.tier == "quick"
    n, depth = (600, 36) if quick else (6000, 60)
    vlib.proof_stage(ctx, "Props/C02.v")
    ctx.coverage["trusted_base"] = TB
    cases = sc.run_histories(ctx, "c02", n, depth)
    if cases is None:
        return
    distinct, opk = set(), {}
    for c in cases:
        distinct.add(json.dumps(c["ops"], sort_keys=True))
        for o in c["ops"]:
            opk[o["o"]] = opk.get(o["o"], 0) + 1
        for note in c["oracle"]:
            key = note.split(":")[0]
            if key in ("lifecycle-order", "two-parties", "status-party-mismatch", "status-without-party", "alloc-live-slot", "tx-corrupt", "drop-panic", "rx-panic"):
                ctx.classify(key, "C02 oracle: " + note, {"case": c, "note": note})
    dis = sc.compare_in_coq(ctx, cases)
    windowed = sum(opk.get(k, 0) for k in ("rxbegin", "droprel", "pollbegin"))
    ctx.coverage.update(evaluations=len(cases), distinct_nontrivial=len(distinct),
                        rule="one evaluation = one history over 1..4 slots with TX claim/send split and RX, poll and response-drop optionally split at their yield points with other operations executed inside; after every step the implementation's statuses, live handles, TX claim and RX position are checked for <=1 party per buffer, status<->party agreement and lifecycle edges; no deadline fires and no future is dropped inside a window (C06)",
                        op_distribution=opk, windowed_operations=windowed, disagreements_checked=dis,
                        samples=[{"n": cases[1]["n"], "cap": cases[1]["cap"], "ops": cases[1]["ops"][:10]}])
