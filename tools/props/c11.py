"""C11: a device that did not answer is never mistaken for one that did."""
import json, re
import vlib

TB = ["Coq 8.16.1 kernel + vm_compute", "hand-written model coq/Cmd/Wkc.v (which datagrams of each entry point are checked) tied by differential runs (harness/src/bin/c11.rs) of the public entry points against a device whose counter is altered or which drops out",
      "translator tools/src2coq.py: the list of unchecked call sites (Gen/WkcSites.v) regenerated from the sources every run and compared with the reviewed list pinned in Props/C11.v",
      "cfg(ethercrab_verif) hook verif::subdevice_with_mailbox"]


def exempt(c, i, d, written):
    op = c["op"]
    if op in (2, 6):
        return True
    if op == 10:
        return i >= 2
    if op == 11:
        return d[0] == 5
    if op in (12, 13):
        return d[0] == 5 or (d[2] == 0x1400 and not written)
    return False


def expected_count(c):
    return c["expected"] if c["op"] in (1, 5, 7) else 1


def oracle(c):
    """the property's words on what the implementation did"""
    if c["res"] in ("PANIC", "HANG"):
        return "c11-" + c["res"].lower(), "entry point %d: %s" % (c["op"], c["res"])
    e = expected_count(c)
    written = False
    bad = None
    for i, d in enumerate(c["dgrams"]):
        if not exempt(c, i, d, written) and d[3] != e and bad is None:
            bad = (e, d[3])
        written = written or d[0] == 5
    if c["res"] == "Ok":
        if bad:
            return "data-from-absent-device", "entry point %d returned a value although a checked datagram was serviced by %d devices instead of %d" % (c["op"], bad[1], bad[0])
        op = c["op"]
        if op == 14:
            # the transition succeeded: the last status poll was answered
            last = c["dgrams"][-1] if c["dgrams"] else None
            if not last or last[2] != 0x0130 or last[3] != 1:
                return "state-from-absent-device", "into_safe_op returned Ok although its last status poll was not answered by the device"
            return None
        # what was returned is what the device holds
        answered = all(d[3] >= 1 for d in c["dgrams"]) and not c["drop_from_seen"] if "drop_from_seen" in c else all(d[3] >= 1 for d in c["dgrams"])
        if not answered:
            return None       # the caller expected nobody to answer (count 0) or opted out: no data to compare
        if op in (0, 1, 7) and c["out"] != [c["mem_at_reg"]]:
            return "wrong-data", "read returned %s, the register holds %s" % (c["out"], c["mem_at_reg"])
        if op == 3 and c["out"] != c["mem6"]:
            return "wrong-data", "receive_slice returned other bytes than the register holds"
        if op == 11 and c["out"] != [len(c["eeprom"])] + c["eeprom"]:
            return "wrong-data", "eeprom_read_raw returned other bytes than the EEPROM holds"
        if op == 12:
            obj = c["obj"]
            want = [obj[0]] if len(obj) == 1 else [obj[0] | obj[1] << 8] if len(obj) == 2 else obj[:3]
            if c["out"] != want:
                return "wrong-data", "sdo_read returned %s, the object is %s" % (c["out"], obj)
    else:
        m = re.match(r"WorkingCounter \{ expected: (\d+), received: (\d+) \}", c.get("err", ""))
        if bad:
            if not m or (int(m.group(1)), int(m.group(2))) != bad:
                return "wrong-error", "a checked datagram was serviced by %d devices instead of %d, the error is %s" % (bad[1], bad[0], c.get("err"))
        elif m:
            return "spurious-wkc-error", "working-counter error although every checked datagram was serviced as expected"
    return None


def exp_obs(c):
    if c["res"] == "Ok":
        return [0]
    m = re.match(r"WorkingCounter \{ expected: (\d+), received: (\d+) \}", c.get("err", ""))
    if m:
        return [1, int(m.group(1)), int(m.group(2))]
    if c["res"] == "Err":
        return [2]
    return [-98] if c["res"] == "PANIC" else [-99]


def run(ctx, replay=None):
    quick = ctx.tier == "quick"
    vlib.proof_stage(ctx, "Props/C11.v")
    ctx.coverage["trusted_base"] = TB
    ctx.assumptions += ["WrappedWrite::send and ignore_wkc callers are exempt as the property says; status() reads the AL status code a second time when the error flag is set and swallows that read's failure (an error is still returned)",
                        "the waiting half of group state transitions is covered by C10's check (absent members, wrong counters); the request write is entry point 14 here"]
    n = 3000 if quick else 30000
    cases = []
    for rel in ([False] if quick else [False, True]):
        rc, out, exe = vlib.cargo_build("c11", release=rel)
        if rc != 0:
            ctx.violation("harness does not build against the current tree: " + out[-400:], {"broken": "correspondence", "log": out[-3000:]}, no_input=True)
            return
        rc, out, _ = vlib.sh([exe, str(ctx.seed + (500 if rel else 0)), str(n)], timeout=1800)
        got = [json.loads(l) for l in out.splitlines() if l.startswith("{")]
        if rc != 0 or len(got) < n:
            ctx.violation("c11 harness did not finish: " + out[-300:], {"broken": "harness-run", "log": out[-1500:]}, no_input=False)
        cases += got
    if not cases:
        return
    per_op, faults = {}, {}
    for c in cases:
        per_op[c["op"]] = per_op.get(c["op"], 0) + 1
        faults[c["fault"]] = faults.get(c["fault"], 0) + 1
        r = oracle(c)
        if r:
            ctx.classify(r[0], "C11 oracle: " + r[1], c)
    nsh = 16
    texts, shards = [], []
    for i in range(nsh):
        cs = cases[i::nsh]
        shards.append(cs)
        items = []
        for c in cs:
            al = "true" if (c["op"] == 10 and c["res"] == "Err" and "SubDevice" in c.get("err", "")) or (c["op"] == 14 and c["res"] == "Err" and not c.get("err", "").startswith("WorkingCounter")) else "false"
            dgs = "[" + "; ".join("{| g_cmd := %d; g_ado := %d; g_wkc := %d |}" % (d[0], d[2], d[3]) for d in c["dgrams"]) + "]"
            items.append("((%d, %d, %s, %s), %s%%Z)" % (c["op"], c["expected"], al, dgs, vlib.gz(exp_obs(c))))
        lines = ["From EC Require Import Base.Prelude Base.Bytes Cmd.Wkc Wire.Check.", "Local Open Scope N_scope.",
                 "Definition cs : list ((N * N * bool * list dg) * list Z) := [" + ";\n".join(items) + "].",
                 "Eval vm_compute in (0, map fst (mismatches (fun x => match x with (o, e, a, l) => obs_outcome o e a l end) cs 0))."]
        texts.append("\n".join(lines) + "\n")
    results = vlib.coq_eval_shards(ctx.pid, texts)
    dis = 0
    for (rc, out), cs in zip(results, shards):
        if rc != 0:
            ctx.violation("model evaluation failed: " + out[-300:], {"broken": "correspondence", "log": out[-2000:]}, no_input=True)
            continue
        v = vlib.parse_evals(out)
        if not v or not v[0].endswith(", [])"):
            idxs = [int(x) for x in re.findall(r"\d+", (v[0][3:] if v else "").replace("%N", ""))]
            dis += max(1, len(idxs))
            first = cs[idxs[0]] if idxs and idxs[0] < len(cs) else None
            ctx.violation("model and implementation disagree on %d entry-point run(s) (first differing one in replay)" % len(idxs), {"broken": "correspondence", "case": first}, no_input=True)
    ctx.coverage.update(evaluations=len(cases), distinct_nontrivial=len({json.dumps([c["op"], c["fault"], c["at"], c["alter"], c["expected"]]) for c in cases}),
                        rule="15 entry points (request_into_op of a group (the AL control write of request_subdevice_state_nowait); Command::fprd/fpwr/brd receive, receive_slice, send_receive, send_receive_slice, send with default / caller-supplied 0..3 / ignored counts; register_read, register_write, status, eeprom_read_raw, sdo_read, sdo_write) x faults (none, one datagram's counter altered to 0/2/3/0xffff, device gone from the k-th datagram on, device absent)",
                        per_entry_point=per_op, faults=faults, disagreements=dis, optout_sites=17,
                        samples=[{"op": cases[0]["op"], "fault": cases[0]["fault"], "res": cases[0]["res"]}])
