"""C10: a group's typestate never claims a state its SubDevices are not in."""
import json, re
import vlib

TB = ["Coq 8.16.1 kernel + vm_compute", "hand-written model coq/Cycle/State.v tied by differential runs (harness/src/bin/c10.rs): summaries on state lists, transitions against scripted AL behaviour under a virtual clock",
      "cfg(ethercrab_verif) group and TxRxResponse constructors", "the wire answers are structurally well formed; the timeout is counted in frames of fixed virtual duration"]


def exp_transition(c):
    if c["res"] == "Ok":
        head = [0]
    elif c["res"] == "HANG":
        head = [-99]
    else:
        e = c["err"]
        m = re.match(r"WorkingCounter \{ expected: (\d+), received: (\d+) \}", e)
        if m:
            head = [1, int(m.group(1)), int(m.group(2))]
        elif e == "StateTransition":
            head = [2]
        elif e.startswith("Timeout"):
            head = [3]
        elif e == "Pdu(TooLong)":
            head = [5]
        else:
            head = [4]
    out = list(head)
    for fr in c["frames"]:
        for d in fr:
            out += d
        out.append(-7)
    return out


def oracle_transition(c):
    subs, want = c["subs"], c["desired"]
    if c["res"] == "HANG":
        return "transition-hang", "the transition neither succeeded nor failed"
    # members only
    w = [x[0] for x in c["writes"]]
    if any(a not in subs for a in w):
        return "write-outside-group", "a state request was written to a device outside the group"
    if c["res"] == "Ok":
        if w != subs:
            return "members-not-all-written", "success without a state request to every member"
        # the last full round of checks: every member reported the state
        checks = [(d[1], a[0][0] & 0x0f) for fr, ans in zip(c["frames"], c["answers"]) for d, a in zip(fr, ans) if d[0] == 3]
        last = checks[-len(subs):] if subs else []
        if any(a[0][0] & 0x10 for fr, ans in zip(c["frames"], c["answers"]) for d, a in zip(fr, ans) if d[0] == 3):
            return "error-ignored", "transition returned Ok although a member's status carried the error indication while the group waited"
        if [a for a, _ in last] != subs or any(s != want for _, s in last):
            return "unsound-success", "transition returned Ok although the last round of checks does not show every member in the requested state"
    else:
        # the transition timeout covers the wait phase; each request before it is one frame exchange
        nreq = sum(1 for fr in c["frames"] for d in fr if d[0] in (1, 2))
        if c["elapsed_us"] - 100 * nreq > c["timeout_us"] + 100:
            return "late-error", "the error came later than the transition timeout after the last state request"
    scripts = c["scripts"]
    never = any((s["polls"][-1] & 0x0f) != want and all((p & 0x0f) != want for p in s["polls"]) for s in scripts) or any(s["absent"] for s in scripts)
    if never and c["res"] == "Ok":
        return "unsound-success", "Ok although a member never reports the requested state"
    if any(s["refuse"] and not s["absent"] for s in scripts) and c["res"] == "Ok":
        return "refusal-ignored", "Ok although a member refused the request"
    return None


def oracle_waitall(c):
    """MainDevice::wait_for_state against the devices' own scripts (not the ORed answers)"""
    want = c["desired"]
    if c["res"] == "HANG":
        return "wait-hang", "the network-wide wait neither succeeded nor failed"
    polled = c["seen"]
    if c["res"] == "Ok":
        last = polled[-1] if polled else []
        if len(last) != c["counted"] or len(last) != c["n"] - sum(1 for s in c["scripts"] if s["absent"]):
            return "wait-unsound-success", "Ok although not every counted device answered the last poll"
        if any((v & 0x1f) != want for v in last):
            return "wait-unsound-success", f"Ok although the devices reported {last} on the last poll (requested {want})"
        if any(v & 0x10 for rnd in polled for v in rnd):
            return "wait-error-ignored", "Ok although a device signalled an error during the wait"
    else:
        if c["elapsed_us"] > c["timeout_us"] + 100:
            return "wait-late-error", "the error came later than the transition timeout"
    return None


def spec_summary(l):
    g = 0
    for s in l:
        g |= s
    same = all(s == l[0] for s in l) if l else True
    single = (l[0] if l else 0) if same and ((l[0] if l else 0) in (0, 1, 2, 4, 8)) else -1
    allop = 1 if l and all(s == 8 for s in l) else 0
    def ins(v):
        return 1 if ((all(s == v for s in l)) if l else v == 0) else 0
    return [g & 15, single, allop, ins(0), ins(1), ins(2), 0, ins(4), ins(8)]


def cycle_stage(ctx, n, distinct):
    """the state list of real cycles (C07 harness): one check per member in group order, the list is
    what the devices answered, the response's own summaries describe that list; compared with the
    model's state list and check order (coq/Cycle/CycleChecks.v obs_states)"""
    from props import c07 as C7
    rc, out, exe = vlib.cargo_build("c07")
    if rc != 0:
        ctx.violation("cycle harness does not build against the current tree: " + out[-400:], {"broken": "correspondence", "log": out[-3000:]}, no_input=True)
        return 0
    rc, out, _ = vlib.sh([exe, str(ctx.seed + 7), str(n)], timeout=600)
    cases = [json.loads(l) for l in out.splitlines() if l.startswith("{")]
    if rc != 0 or len(cases) < n:
        ctx.violation("cycle harness did not finish (%d of %d cases): %s" % (len(cases), n, out[-300:]),
                      {"broken": "harness-run", "completed": len(cases), "log": out[-1500:]}, no_input=False)
    multi = 0
    for c in cases:
        if c["res"] != "Ok":
            continue
        slim = {k: c[k] for k in c if k not in ("img", "img_after")}
        distinct.add(("c", json.dumps([c["variant"], c["cap"], c["subs"], c["states"]])))
        chk = [d[1] for fr in c["frames"] for d in fr if d[0] == 2]
        st = [a[0][0] & 0x0f for fr, ans in zip(c["frames"], c["answers"]) for d, a in zip(fr, ans) if d[0] == 2]
        if sum(1 for fr in c["frames"] if any(d[0] == 2 for d in fr)) > 1:
            multi += 1
        if chk != c["subs"]:
            ctx.classify("cycle-state-checks", f"C10 oracle: the cycle's status checks went to {chk[:8]}.. ({len(chk)}), the group is {c['subs'][:8]}.. ({len(c['subs'])})", slim)
        elif c["states"] != st:
            ctx.classify("cycle-states", f"C10 oracle: the cycle's state list {c['states']} is not what the devices answered {st}", slim)
        if c.get("summ") is not None and c["summ"] != spec_summary(c["states"]):
            ctx.classify("cycle-summary", f"C10 oracle: summaries of the cycle's state list {c['states']} say {c['summ']}, expected {spec_summary(c['states'])}", slim)
    nsh = 8
    shards = [cases[i::nsh] for i in range(nsh)]
    texts = []
    for sh in shards:
        rows = []
        for c in sh:
            exp = ([0] + c["states"] + [-5] + [d[1] for fr in c["frames"] for d in fr if d[0] == 2]) if c["res"] == "Ok" else [-1]
            subs = vlib.gz(c["subs"])
            dcref = "None" if c["dcref"] == 0 else f"(Some {c['dcref']})"
            cfg = "{| c_start := %d; c_len := %d%%nat; c_rlen := %d%%nat; c_subs := %s; c_room := %d%%nat; c_maxsd := 64%%nat; c_dcref := %s |}" % (
                c["start"], c["len"], c["rlen"], subs, c["cap"] - 16, dcref)
            resps = "[" + "; ".join("[" + "; ".join("(%s, %d)" % (vlib.gz(a[0]), a[1]) for a in fr) + "]" for fr in c["answers"]) + "]"
            rows.append("((%s, %s, %s, %s, %s), %s%%Z)" % (cfg, "Release" if c["release"] else "Debug", C7.VAR[c["variant"]], vlib.gz(c["img"]), resps, vlib.gz(exp)))
        texts.append("\n".join(["From EC Require Import Base.Prelude Base.Bytes Cycle.Cycle Cycle.CycleChecks Wire.Check.", "Local Open Scope N_scope.",
                                "Definition cases : list ((cfg * mode * variant * list N * list (list answer)) * list Z) := [",
                                ";\n".join(rows), "].",
                                "Eval vm_compute in (0, map fst (mismatches (fun c => match c with (cf, md, v, img, rs) => obs_states cf md v img rs end) cases 0))."]) + "\n")
    results = vlib.coq_eval_shards(ctx.pid + "cyc", texts)
    for (rc, out), sh in zip(results, shards):
        if rc != 0:
            ctx.violation("model evaluation failed (cycle state lists): " + out[-300:], {"broken": "correspondence", "log": out[-2000:]}, no_input=True)
            continue
        v = vlib.parse_evals(out)
        if not v or not v[0].endswith(", [])"):
            idxs = [int(x) for x in re.findall(r"\d+", v[0][3:])] if v else []
            first = sh[idxs[0]] if idxs and idxs[0] < len(sh) else None
            if first:
                first = {k: first[k] for k in first if k not in ("img", "img_after")}
            ctx.violation("model and implementation disagree on a cycle's state list / status checks (first differing case in replay)",
                          {"broken": "correspondence", "model": "coq/Cycle/CycleChecks.v obs_states", "case": first}, no_input=True)
    return {"cycles": len(cases), "ok": sum(1 for c in cases if c["res"] == "Ok"), "status_checks_in_more_than_one_frame": multi}


def run(ctx, replay=None):
    quick = ctx.tier == "quick"
    n = 3000 if quick else 24000
    vlib.proof_stage(ctx, "Props/C10.v")
    ctx.coverage["trusted_base"] = TB
    ctx.assumptions += ["request_into_op is documented not to wait and is outside the statement ('at the moment it was checked')",
                        "Bootstrap (3) is indistinguishable from INIT|PRE-OP in the bitmap: summaries answer 'not a single state' for it, as documented"]
    rc, out, exe = vlib.cargo_build("c10")
    if rc != 0:
        ctx.violation("harness does not build against the current tree: " + out[-400:], {"broken": "correspondence", "log": out[-3000:]}, no_input=True)
        return
    rc, out, _ = vlib.sh([exe, str(ctx.seed), str(n)], timeout=900)
    cases = [json.loads(l) for l in out.splitlines() if l.startswith("{")]
    if rc != 0 or len(cases) < n:
        ctx.violation("C10 harness did not finish: " + out[-300:], {"broken": "harness-run", "log": out[-1500:]}, no_input=False)
        if not cases:
            return
    summ = [c for c in cases if c["kind"] == "summary"]
    trans = [c for c in cases if c["kind"] == "transition"]
    waits = [c for c in cases if c["kind"] == "waitall"]
    distinct = set()
    for c in summ:
        distinct.add(("s", tuple(c["states"])))
        if c["obs"] != spec_summary(c["states"]) :
            # state 3 (Bootstrap) / other multi-bit values: 'single' is None by documented ambiguity
            ctx.classify("summary-wrong", f"summaries of {c['states']} say {c['obs']}, the devices reported {spec_summary(c['states'])}", c)
    outcomes = {}
    for c in trans:
        distinct.add(("t", json.dumps([c["subs"], c["scripts"], c["limit"], c["cap"]])))
        outcomes[c["res"] + ":" + c.get("err", "")[:14]] = outcomes.get(c["res"] + ":" + c.get("err", "")[:14], 0) + 1
        r = oracle_transition(c)
        if r:
            ctx.classify(r[0], "C10 oracle: " + r[1], c)
    for c in waits:
        distinct.add(("w", json.dumps([c["counted"], c["desired"], c["limit"], c["scripts"]])))
        k = "wait:" + c["res"] + ":" + c.get("err", "")[:14]
        outcomes[k] = outcomes.get(k, 0) + 1
        r = oracle_waitall(c)
        if r:
            ctx.classify(r[0], "C10 oracle: " + r[1], c)
    # model comparison
    nsh = 16
    texts = []
    shards = []
    for i in range(nsh):
        ss, ts, ws = summ[i::nsh], trans[i::nsh], waits[i::nsh]
        shards.append((ss, ts, ws))
        lines = ["From EC Require Import Base.Prelude Base.Bytes Cycle.Cycle Cycle.State Cycle.WaitAll Wire.Check.", "Local Open Scope N_scope.",
                 "Definition sc : list (list N * list Z) := [" + "; ".join("(%s, %s%%Z)" % (vlib.gz(c["states"]), vlib.gz(c["obs"])) for c in ss) + "].",
                 "Eval vm_compute in (0, map fst (mismatches obs_summary sc 0)).",
                 "Definition tc : list ((tcfg * list (list answer)) * list Z) := [" +
                 ";\n".join("(({| t_subs := %s; t_room := %d%%nat; t_desired := %d; t_limit := %d%%nat |}, %s), %s%%Z)" % (
                     vlib.gz(c["subs"]), c["cap"] - 16, c["desired"], c["limit"],
                     "[" + "; ".join("[" + "; ".join("(%s, %d)" % (vlib.gz(a[0]), a[1]) for a in fr) + "]" for fr in c["answers"]) + "]",
                     vlib.gz(exp_transition(c))) for c in ts) + "].",
                 "Eval vm_compute in (1, map fst (mismatches (fun c => obs_transition (fst c) (snd c)) tc 0)).",
                 "Definition wc : list ((bcfg * list (list answer)) * list Z) := [" +
                 ";\n".join("(({| b_n := %d; b_desired := %d; b_limit := %d%%nat |}, %s), %s%%Z)" % (
                     c["counted"], c["desired"], c["limit"],
                     "[" + "; ".join("[" + "; ".join("(%s, %d)" % (vlib.gz(a[0]), a[1]) for a in fr) + "]" for fr in c["answers"]) + "]",
                     vlib.gz(exp_transition(c))) for c in ws) + "].",
                 "Eval vm_compute in (2, map fst (mismatches (fun c => obs_waitall (fst c) (snd c)) wc 0))."]
        texts.append("\n".join(lines) + "\n")
    results = vlib.coq_eval_shards(ctx.pid, texts)
    dis = 0
    for (rc, out), (ss, ts, ws) in zip(results, shards):
        if rc != 0:
            ctx.violation("model evaluation failed: " + out[-300:], {"broken": "correspondence", "log": out[-2000:]}, no_input=True)
            continue
        v = vlib.parse_evals(out)
        for k, (val, group) in enumerate(zip(v, (ss, ts, ws))):
            if not val.endswith(", [])"):
                dis += 1
                idxs = [int(x) for x in re.findall(r"\d+", val[3:])]
                first = group[idxs[0]] if idxs and idxs[0] < len(group) else None
                ctx.violation("model and implementation disagree on a %s (first differing case in replay)" % ("summary", "transition", "network-wide wait")[k],
                              {"broken": "correspondence", "case": first}, no_input=True)
    # ---- the per-cycle state list: real tx_rx / tx_rx_sync_system_time / tx_rx_dc cycles ----
    cyc = cycle_stage(ctx, 400 if quick else 4000, distinct)
    ctx.coverage.update(evaluations=len(cases), distinct_nontrivial=len(distinct),
                        rule="summaries: all state lists of length <=3 over the 16 state values exhaustively (first cases) then random longer lists; transitions: groups of 0..64 members needing 1..32 status frames, every member independently accepting after 0..13 polls, stalling, falling back, refusing, absent, or answering with the error flag; virtual-time transition timeout of 3..12 frames; network-wide waits (MainDevice::wait_for_state, broadcast read): 0..20 devices each with its own script (stalls, late, falls back, error flag with the old or the requested state, identification bit, absent), a device count that is sometimes one too many, all four requested states",
                        summaries=len(summ), transitions=len(trans), network_waits=len(waits), cycles=cyc, transition_outcomes=outcomes, disagreements_checked=dis,
                        samples=[{k: trans[0][k] for k in ("subs", "desired", "limit", "scripts", "res")}] if trans else [summ[0]])
