"""C16: no mailbox reply can crash the MainDevice or make it read out of bounds."""
import json
import vlib
from props import coe_common as C

TB = ["Coq 8.16.1 kernel + vm_compute", "hand-written model coq/Coe/Sdo.v tied by differential runs (harness/src/bin/coe.rs): the public SDO API against a scripted mailbox device, debug and release builds",
      "cfg(ethercrab_verif) hook verif::subdevice_with_mailbox", "enum definitions translated from the sources for the header fields", "the wire answers register reads/writes with working counter 1 (C11 covers the rest)"]


def run(ctx, replay=None):
    quick = ctx.tier == "quick"
    vlib.proof_stage(ctx, "Props/C16.v")
    ctx.coverage["trusted_base"] = TB
    n = 1500 if quick else 12000
    cases = []
    for rel in ([False] if quick else [False, True]):
        cases += C.run_harness(ctx, "adv", n, release=rel, seed_off=500 if rel else 0)
        cases += C.run_harness(ctx, "srv", n // 3, release=rel, seed_off=500 if rel else 0)
    if not cases:
        return
    outcomes = {}
    for c in cases:
        k = "%s:%s" % (c["op"], c["res"])
        outcomes[k] = outcomes.get(k, 0) + 1
        if c["res"] in ("PANIC", "HANG"):
            ctx.classify("coe-" + c["res"].lower(), "C16 oracle: %s in SDO operation %d against a scripted mailbox (reply kind %d)" % (c["res"], c["op"], c["skind"]), c)
        elif c["status_polls"] > 2500:
            ctx.classify("coe-endless", "C16 oracle: the operation kept polling (more than 2500 status reads)", c)
    # operation 5 (read into a bounded heapless::Vec) is judged for totality only: the model has no such destination
    dis = C.compare_with_model(ctx, [c for c in cases if c["op"] != 5])
    ctx.coverage.update(evaluations=len(cases), distinct_nontrivial=len({json.dumps([c["per_req"], c["op"], c["tn"]]) for c in cases}),
                        rule="adversarial replies: plausible expedited/normal/segment/SDO-info replies or random bytes, then truncated at any length, mailbox length field over its range, service/command/type bytes over their range, byte noise, lengths 0..10, complete size over u32, endless empty segments, endless fragments, another opcode forever; mailbox sizes 16..1024; every entry point (sdo_read of 14 fixed destination sizes and into a bounded heapless::Vec<u8, 8> (totality only), sdo_write, sdo_write_array, sdo_read_array, sdo_info list/quantities); plus the faithful-server cases",
                        outcomes=outcomes, disagreements=dis, samples=[{"op": cases[0]["op"], "skind": cases[0]["skind"], "res": cases[0]["res"]}])
