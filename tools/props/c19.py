"""C19: derived wire encodings.  Proofs in coq/Props/C19.v; tie = translator (in-crate layouts) +
generated crates compiled with the real derive macro and compared with the model inside Coq."""
import json, os, random, subprocess, sys
import vlib

TB = ["Coq 8.16.1 kernel + vm_compute (finite byte sweeps, in-crate layout validity)",
      "tools/src2coq.py (attribute-level translator of #[wire]/#[repr] declarations)",
      "tools/gen_c19.py (type generator) and the coqc-evaluated comparison in coq/Wire/Check.v",
      "rustc/cargo; field types of delegated (multi-byte) fields are modelled as little-endian numbers"]


def coq_layout(t):
    fs = []
    for f in t["fields"]:
        w = "None" if f.get("bits") is None else f"(Some {f['bits']})"
        fs.append("{| fk := %s; fwidth := %s; fpre := %d; fpost := %d; fskip := %s |}" %
                  (f["kind"], w, f["pre"], f["post"], "true" if f["skip"] else "false"))
    return "{| lwidth := %d; lfields := [%s] |}" % (t["width"], "; ".join(fs))


def zl(v):
    return f"({v})" if v < 0 else str(v)


def coq_enum(e):
    vs = []
    for v in e["variants"]:
        d = "None" if v["disc"] is None else f"(Some {zl(v['disc'])})"
        vs.append("{| vdisc := %s; valts := [%s]; vcatch := %s; vdefault := %s |}" %
                  (d, "; ".join(zl(a) for a in v["alts"]), "true" if v["catch"] else "false",
                   "true" if v["default"] else "false"))
    return "{| erepr_bytes := %d; esigned := %s; evariants := [%s]%%Z |}" % (
        e["nbytes"], "true" if e["signed"] else "false", "; ".join(vs))


def expected_struct(c):
    if c["res"] == "ReadBufferTooShort":
        return [-1]
    if c["res"] == "InvalidValue":
        return [-3]
    if c["res"] != "Ok":
        return [-99]
    f = [int(x) for x in c["f"]]
    return [0, len(f)] + f + c["p"] + [-2 if c["ps"] == "WriteBufferTooShort" else 1]


def expected_enum(c):
    if c["res"] == "ReadBufferTooShort":
        return [-1]
    if c["res"] == "InvalidValue":
        return [-3]
    if c["res"] != "Ok":
        return [-99]
    return [0, c["vi"], int(c["pl"])] + c["p"]


def spec_positions(t, c):
    """independent statement of the layout: value of packed bytes = sum field << start"""
    cur, total = 0, 0
    for f, v in zip(t["fields"], [int(x) for x in c["f"]]):
        if f["skip"]:
            continue
        cur += f["pre"]
        if v >= (1 << f["bits"]):
            return False
        total += v << cur
        cur += f["bits"] + f["post"]
    packed = sum(b << (8 * i) for i, b in enumerate(c["p"]))
    return packed == total and cur == t["width"] and len(c["p"]) == (t["width"] + 7) // 8


def run(ctx, replay=None):
    quick = ctx.tier == "quick"
    ntypes, ncases = (70, 40) if quick else (400, 120)
    ok = vlib.proof_stage(ctx, "Props/C19.v", ["Wire/Check.vo"])
    ctx.coverage["trusted_base"] = TB
    ctx.assumptions += ["field types of byte-aligned multi-byte fields pack little-endian to exactly the declared width",
                        "widths 1..64 bits; zero-width fields and type/width mismatches are outside the quantifier"]
    # in-crate summary from translator
    summ = json.load(open(os.path.join(vlib.COQ, "Gen", "summary.json")))["summary"]
    ctx.coverage["incrate"] = summ
    if summ["implicit_enums"]:
        ctx.classify("implicit-discriminant-incrate", "in-crate enum with implicit discriminants: " +
                     ",".join(summ["implicit_enums"]), {"enums": summ["implicit_enums"]})
    # ---- generated crate with the real macro ----
    gdir = os.path.join(vlib.CACHE, "c19gen")
    rc, out, _ = vlib.sh([sys.executable, os.path.join(vlib.VERIF, "tools", "gen_c19.py"), gdir, str(ctx.seed), str(ntypes)])
    if rc != 0:
        raise RuntimeError("gen_c19 failed: " + out[-500:])
    import shutil
    shutil.copy(os.path.join(vlib.REPO, "Cargo.lock"), os.path.join(gdir, "Cargo.lock"))
    env = dict(vlib.ENV, CARGO_TARGET_DIR=os.path.join(vlib.CACHE, "target-c19"))
    rc, out, _ = vlib.sh(["cargo", "build", "--offline"], cwd=gdir, env=env, timeout=1200)
    if rc != 0:
        # the real macro rejects (or miscompiles) declarations the model accepts
        ctx.violation("generated declarations accepted by the model do not compile with the real macro: " + out[-400:],
                      {"broken": "correspondence", "stage": "cargo build of generated crate", "log": out[-3000:]}, no_input=True)
        return
    exe = os.path.join(vlib.CACHE, "target-c19", "debug", "c19gen")
    rc, out, _ = vlib.sh([exe, str(ctx.seed), str(ncases)], timeout=600)
    types = json.load(open(os.path.join(gdir, "types.json")))
    byname = {t["name"]: t for t in types}
    cases = {}
    for line in out.splitlines():
        if line.startswith("{"):
            c = json.loads(line)
            cases.setdefault(c["t"], []).append(c)
    # ---- spec oracle on the implementation's observations ----
    n_eval, distinct, okcount, errcount = 0, set(), 0, 0
    packcases = {}
    for t in types:
        pc = [c for c in cases.get(t["id"], []) if c.get("dir") == "pack"]
        cases[t["id"]] = [c for c in cases.get(t["id"], []) if c.get("dir") != "pack"]
        packcases[t["id"]] = pc
        for c in pc:
            n_eval += 1
            distinct.add((t["id"], "pack", tuple(c.get("f", []))))
            rep = {"type": t, "case": c}
            if c.get("res") == "PANIC":
                ctx.classify("panic", f"{t['name']}: pack panicked", rep); continue
            cur, total = 0, 0
            for f, v in zip(t["fields"], [int(x) for x in c["f"]]):
                if f["skip"]:
                    continue
                cur += f["pre"]
                vv = (1 if v else 0) if f["ty"] == "bool" else v
                total += (vv % (1 << f["bits"])) << cur
                cur += f["bits"] + f["post"]
            if sum(b << (8 * i) for i, b in enumerate(c["p"])) != total:
                ctx.classify("pack-positions", f"{t['name']}: packing a directly constructed value does not place each field (truncated to its width) at its declared bits, or sets undeclared bits", rep)
    for t in types:
        for c in cases.get(t["id"], []):
            n_eval += 1
            distinct.add((t["id"], tuple(c["buf"])))
            size = (t["width"] + 7) // 8 if t["kind"] == "struct" else t["nbytes"]
            rep = {"type": t, "case": c}
            if c["res"] == "PANIC":
                ctx.classify("panic", f"{t['name']}: unpack/pack panicked", rep); continue
            if len(c["buf"]) < size and c["res"] != "ReadBufferTooShort":
                ctx.classify("short-read", f"{t['name']}: short buffer not rejected", rep); continue
            if c["res"] != "Ok":
                errcount += 1
                continue
            okcount += 1
            implicit = t["kind"] == "enum" and t.get("implicit")
            if not c["rt"]:
                if implicit:
                    ctx.classify("implicit-discriminant", f"{t['name']}: round trip fails (implicit discriminants)", rep)
                else:
                    ctx.classify("roundtrip", f"{t['name']}: unpack(pack(x)) != x", rep)
                continue
            if t["kind"] == "enum" and not implicit:
                v = t["variants"][c["vi"]]
                if not v["catch"]:
                    want = v["disc"] % (1 << (8 * t["nbytes"]))
                    if sum(b << (8 * i) for i, b in enumerate(c["p"])) != want:
                        ctx.classify("enum-discriminant", f"{t['name']}: variant {v['name']} does not pack to its declared discriminant", rep)
            if t["kind"] == "struct":
                if not spec_positions(t, c):
                    ctx.classify("positions", f"{t['name']}: packed bytes are not the fields at their declared positions", rep)
                if (c["ps"] == "WriteBufferTooShort") != (c["dst_len"] < size) or (c["ps"] != "WriteBufferTooShort" and c["ps"] != c["p"]):
                    ctx.classify("checked-pack", f"{t['name']}: checked pack verdict wrong", rep)
                if c["plen"] != size:
                    ctx.classify("packed-len", f"{t['name']}: packed_len wrong", rep)
    # ---- correspondence: the same cases through the model, inside Coq ----
    shards = [[] for _ in range(16)]
    for i, t in enumerate(types):
        shards[i % 16].append(t)
    texts = []
    for sh_types in shards:
        lines = ["From Coq Require Import String.", "From EC Require Import Base.Prelude Base.Bytes Wire.Layout Wire.Check.",
                 "Local Open Scope Z_scope. Local Open Scope string_scope."]
        for t in sh_types:
            cs = cases.get(t["id"], [])
            if t["kind"] == "enum":
                lines.append(f"Definition d{t['id']} : enum_def := {coq_enum(t)}.")
                items = ["(%s%%N, %s)" % (vlib.gz(c["buf"]), vlib.gz(expected_enum(c))) for c in cs]
                lines.append(f"Definition c{t['id']} : list (list N * list Z) := [{'; '.join(items)}].")
                lines.append(f'Eval vm_compute in ({t["id"]}%N, mismatches (enum_case d{t["id"]}) c{t["id"]} 0%N).')
            else:
                lines.append(f"Definition d{t['id']} : layout := {coq_layout(t)}%N.")
                tys = []
                for f in t["fields"]:
                    if f.get("fty") == "enum":
                        tys.append(f"FEnum ({coq_enum(byname[f['enum']])})")
                    elif f.get("fty") == "inner":
                        tys.append(f"FInner ({coq_layout(byname[f['inner']])}%N)")
                    else:
                        tys.append("FRaw")
                lines.append(f"Definition y{t['id']} : list fty := [{'; '.join(tys)}].")
                items = ["((%s%%N, %d%%nat), %s)" % (vlib.gz(c["buf"]), c.get("dst_len", 0), vlib.gz(expected_struct(c))) for c in cs]
                lines.append(f"Definition c{t['id']} : list ((list N * nat) * list Z) := [{'; '.join(items)}].")
                lines.append(f'Eval vm_compute in ({t["id"]}%N, mismatches (fun c => struct_case d{t["id"]} y{t["id"]} (fst c) (snd c)) c{t["id"]} 0%N).')
                pitems = ["(%s%%N, %s)" % (vlib.gz([int(x) for x in c["f"]]), vlib.gz(c["p"])) for c in packcases.get(t["id"], []) if "p" in c]
                lines.append(f"Definition p{t['id']} : list (list N * list Z) := [{'; '.join(pitems)}].")
                lines.append(f'Eval vm_compute in ({t["id"]}%N, mismatches (pack_case d{t["id"]}) p{t["id"]} 0%N).')
        texts.append("\n".join(lines) + "\n")
    results = vlib.coq_eval_shards(ctx.pid, texts)
    disagreements = 0
    checked = 0
    for (rc, out), sh_types in zip(results, shards):
        if rc != 0:
            ctx.violation("model evaluation failed: " + out[-300:], {"broken": "correspondence", "log": out[-2000:]}, no_input=True)
            continue
        vals = vlib.parse_evals(out)
        owners = []
        for t in sh_types:
            owners.append(t)
            if t["kind"] == "struct":
                owners.append(t)
        for v, t in zip(vals, owners):
            checked += len(cases.get(t["id"], []))
            if not v.endswith(", [])"):
                disagreements += 1
                ctx.violation(f"model and implementation disagree on generated type {t['name']}: {v[:300]}",
                              {"broken": "correspondence", "type": t, "model_says": v, "cases": cases.get(t["id"], [])[:50]},
                              no_input=True)
    ctx.coverage.update(evaluations=n_eval, distinct_nontrivial=len(distinct),
                        rule="one case = (generated type, random buffer); distinct by (type, buffer); all are non-trivial (each exercises the derived unpack, pack and checked pack of a generated layout)",
                        generated_types=len(types), structs=sum(1 for t in types if t["kind"] == "struct"),
                        enums=sum(1 for t in types if t["kind"] == "enum"), decoded_ok=okcount, decode_errors=errcount,
                        cases_compared_in_coq=checked, disagreements_checked=disagreements)
    if types:
        t = next(t for t in types if t["kind"] == "struct")
        ctx.coverage["samples"] = [{"type": t["name"], "width_bits": t["width"],
                                    "fields": [{k: f.get(k) for k in ("ty", "bits", "pre", "post", "skip")} for f in t["fields"]],
                                    "case": cases.get(t["id"], [None])[0]}]
