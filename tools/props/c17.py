"""C17: topology and propagation delays are reconstructed correctly from port timestamps."""
import json, re
import vlib

TB = ["Coq 8.16.1 kernel + vm_compute", "hand-written model coq/Dc/Topo.v tied by differential runs (harness/src/bin/c17.rs): arbitrary port reports through the assignment hook, and simulated trees through the whole of configure_dc",
      "cfg(ethercrab_verif) hooks verif::assign_parents / verif::configure_dc", "the simulated segment's timing model (harness/src/sim/segment.rs): symmetric link delays, per-device processing/forwarding delays, free-running 32/64-bit local clocks"]


def exp_assign(c):
    if c["res"] == "Ok":
        return [0] + c["out"]
    if c["res"] == "Err":
        return [1] if c["err"] == "Topology" else [2]
    return {"PANIC": [-98], "HANG": [-99]}[c["res"]]


def gal_devs(devs):
    return "[" + "; ".join("([%s], %s, %s)" % ("; ".join("true" if a else "false" for a in d[0]), vlib.gz(d[1]), "true" if d[2] else "false") for d in devs) + "]"


def tree_as_assign(c):
    """what the master had in hand after the latch: port times of DC devices (others never read)"""
    return [[d["act"], d["times"] if d["dc"] else [0, 0, 0, 0], d["dc"]] for d in c["devs"]]


def oracle_assign(c):
    if c["res"] in ("PANIC", "HANG"):
        return "assign-" + c["res"].lower(), "the parent assignment %s on a port report (style %d, %d devices)" % ("panicked" if c["res"] == "PANIC" else "hung", c["style"], len(c["devs"]))
    if c["res"] == "Ok":
        delays = [c["out"][6 * i + 1] for i, d in enumerate(c["devs"]) if d[2]]
        if any(b < a for a, b in zip(delays, delays[1:])):
            return "delay-decreases", "propagation delays decrease in processing order: %s" % delays
    return None


def oracle_tree(c):
    devs = c["devs"]
    n = len(devs)
    if c["res"] in ("PANIC", "HANG"):
        return "tree-" + c["res"].lower(), "configure_dc %s on a valid tree of %d devices (wrap=%s, chain=%s)" % (c["res"], n, c["wrap"], c["chain"])
    if c["res"] != "Ok":
        return "tree-error", "configure_dc failed on a valid tree: %s" % c["err"]
    out = c["out"]
    if out[0] != c["reference"]:
        return "reference", "reference clock %s, the first DC device is %s" % (out[0], c["reference"])
    rows = [out[1 + 6 * i: 7 + 6 * i] for i in range(n)]
    dcs = [i for i in range(n) if devs[i]["dc"]]
    delays = [rows[i][1] for i in dcs]
    if any(b < a for a, b in zip(delays, delays[1:])):
        return "delay-decreases", "propagation delays decrease in processing order: %s" % delays
    now = int(c["now"])
    for i in dcs:
        d = devs[i]
        if d["delay"] != rows[i][1]:
            return "delay-register", "device %d: register 0x0928 holds %d, propagation delay is %d" % (i, d["delay"], rows[i][1])
        if int(d["off"]) != (now - int(d["recv"])) % (1 << 64):
            return "offset-register", "device %d: offset 0x0920 is not master time minus the latched receive time" % i
    for i in range(n):
        if rows[i][0] != devs[i]["true_parent"]:
            return "wrong-parent", "device %d is assigned parent %d, its true upstream neighbour is %d" % (i, rows[i][0], devs[i]["true_parent"])
    if c["chain"] and c["all_dc"]:
        for i in range(n):
            tol = 0 if c["uniform"] else max(max(d["proc"], d["fwd"]) for d in devs) * (i + 1)
            if abs(rows[i][1] - devs[i]["true_delay"]) > tol:
                # clocks that cross the 32-bit wrap between a port's outgoing and returning frame
                wrapped = any(d["act"][k] and d["times"][k] < d["times"][0] for d in devs for k in (1, 2, 3))
                return ("chain-delay-wrap" if wrapped else "chain-delay"), "pure chain: device %d delay %d, true one-way delay %d%s" % (i, rows[i][1], devs[i]["true_delay"], " (port times cross the 32-bit wrap)" if wrapped else "")
    return None


def gal_tree(parents):
    """the Gallina tree of a network given each device's true parent (ring positions, -1 = none)"""
    kids = {}
    for i, p in enumerate(parents):
        kids.setdefault(p, []).append(i)
    def go(i):
        return "T [" + "; ".join(go(k) for k in kids.get(i, [])) + "]"
    return go(kids[-1][0])


def tree_stage(ctx, trees):
    """c17_tree_parents on the simulated trees: the theorem's premise (open ports = children + 1, ring
    order = preorder) is what the simulated devices report, and its conclusion (the true parents,
    computed by Coq from the tree) is what the implementation recorded"""
    ok = [c for c in trees if c["res"] == "Ok" and c["n"] >= 1][:400]
    if not ok:
        return 0
    items = []
    for c in ok:
        n = c["n"]
        rows = [c["out"][1 + 6 * i: 7 + 6 * i] for i in range(n)]
        exp = [sum(d["act"]) for d in c["devs"]] + [-5] + [r[0] for r in rows]
        items.append("(%s, %s%%Z)" % (gal_tree([d["true_parent"] for d in c["devs"]]), vlib.gz(exp)))
    nsh = 4
    texts = []
    for k in range(nsh):
        texts.append("\n".join(["From EC Require Import Base.Prelude Dc.Tree Dc.TreeRefine Wire.Check.", "Local Open Scope N_scope.",
                                "Definition cs : list (tree * list Z) := [" + ";\n".join(items[k::nsh]) + "].",
                                "Eval vm_compute in (0, map fst (mismatches tree_obs cs 0))."]) + "\n")
    for k, (rc, out) in enumerate(vlib.coq_eval_shards(ctx.pid + "tree", texts)):
        v = vlib.parse_evals(out) if rc == 0 else None
        if rc != 0 or not v or not v[0].endswith(", [])"):
            idxs = [int(x) for x in re.findall(r"\d+", (v[0][3:] if v else "").replace("%N", ""))]
            first = ok[k::nsh][idxs[0]] if idxs and idxs[0] < len(ok[k::nsh]) else None
            ctx.violation("the parents recorded for a simulated tree are not the true parents of theorem c17_tree_parents (or the devices do not report children + 1 open ports in ring order)",
                          {"broken": "correspondence", "model": "coq/Dc/TreeRefine.v tree_obs", "case": first, "log": out[-600:] if rc != 0 else None}, no_input=(first is None))
    return len(ok)


def run(ctx, replay=None):
    quick = ctx.tier == "quick"
    vlib.proof_stage(ctx, "Props/C17.v")
    ctx.coverage["trusted_base"] = TB
    n_a, n_t = (1500, 500) if quick else (15000, 5000)
    cases = []
    for rel in ([False] if quick else [False, True]):
        rc, out, exe = vlib.cargo_build("c17", release=rel)
        if rc != 0:
            ctx.violation("harness does not build against the current tree: " + out[-400:], {"broken": "correspondence", "log": out[-3000:]}, no_input=True)
            return
        for mode, n in (("assign", n_a), ("tree", n_t)):
            rc, out, _ = vlib.sh([exe, mode, str(ctx.seed + (500 if rel else 0)), str(n)], timeout=1800)
            got = [json.loads(l) for l in out.splitlines() if l.startswith("{")]
            if rc != 0 or len(got) < n:
                ctx.violation("c17 harness (%s) did not finish: %s" % (mode, out[-300:]), {"broken": "harness-run", "log": out[-1500:]}, no_input=False)
            cases += got
    if not cases:
        return
    stats = {"assign": 0, "trees": 0, "chains": 0, "pure_chains": 0, "wrap_trees": 0, "max_devices": 0}
    outcomes = {}
    for c in cases:
        k = c["kind"] + ":" + c["res"]
        outcomes[k] = outcomes.get(k, 0) + 1
        if c["kind"] == "assign":
            stats["assign"] += 1
            r = oracle_assign(c)
        else:
            stats["trees"] += 1
            stats["chains"] += 1 if c["chain"] else 0
            stats["pure_chains"] += 1 if c["chain"] and c["all_dc"] else 0
            stats["wrap_trees"] += 1 if c["wrap"] else 0
            stats["max_devices"] = max(stats["max_devices"], c["n"])
            r = oracle_tree(c)
        if r:
            ctx.classify(r[0], "C17 oracle: " + r[1], c)
    # model comparison
    nsh = 16
    texts, shards = [], []
    for i in range(nsh):
        cs = cases[i::nsh]
        shards.append(cs)
        items = []
        for c in cs:
            md = "Release" if c["release"] else "Debug"
            if c["kind"] == "assign":
                items.append("((%s, %s), %s%%Z)" % (md, gal_devs([[d[0], d[1], d[2]] for d in c["devs"]]), vlib.gz(exp_assign(c))))
            else:
                e = dict(c)
                if c["res"] == "Ok":
                    e["out"] = c["out"][1:]
                items.append("((%s, %s), %s%%Z)" % (md, gal_devs(tree_as_assign(c)), vlib.gz(exp_assign(e))))
        lines = ["From EC Require Import Base.Prelude Base.Bytes Dc.Topo Wire.Check.", "Local Open Scope N_scope.",
                 "Definition cs : list ((mode * list (list bool * list N * bool)) * list Z) := [" + ";\n".join(items) + "].",
                 "Eval vm_compute in (0, map fst (mismatches (fun x => obs_assign (fst x) (snd x)) cs 0))."]
        texts.append("\n".join(lines) + "\n")
    results = vlib.coq_eval_shards(ctx.pid, texts)
    dis = 0
    for (rc, out), cs in zip(results, shards):
        if rc != 0:
            ctx.violation("model evaluation failed: " + out[-300:], {"broken": "correspondence", "log": out[-2000:]}, no_input=True)
            continue
        v = vlib.parse_evals(out)
        if not v or not v[0].endswith(", [])"):
            idxs = [int(x) for x in re.findall(r"\d+", (v[0][3:] if v else "").replace("%N", ""))]
            dis += max(1, len(idxs))
            first = cs[idxs[0]] if idxs and idxs[0] < len(cs) else None
            ctx.violation("model and implementation disagree on %d topology case(s) (first differing one in replay)" % len(idxs), {"broken": "correspondence", "case": first}, no_input=True)
    stats["trees_against_theorem"] = tree_stage(ctx, [c for c in cases if c["kind"] == "tree"])
    ctx.coverage.update(evaluations=len(cases), distinct_nontrivial=len({json.dumps(c["devs"]) for c in cases}),
                        rule="assign: 1..24 devices with arbitrary active flags and port times (also impossible ones: no open port, unordered times, near the 32-bit wrap), chain-like and port-0-first reports; tree: random trees of 1..24 simulated devices (1..4 open ports, link delays 10..2000 ns, equal or random per-device forwarding delays, DC/non-DC mixes, 32- and 64-bit clocks, local clocks near the 32-bit wrap) through the real configure_dc",
                        outcomes=outcomes, disagreements=dis, **stats, samples=[{"n": cases[-1].get("n"), "chain": cases[-1].get("chain")}])
