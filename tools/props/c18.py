"""C18: DC sync set-up and per-cycle timing arithmetic are exact and total."""
import json, re
import vlib

TB = ["Coq 8.16.1 kernel + vm_compute",
      "hand-written model coq/Dc/Sync.v (configure_dc_sync) and Cycle.cycle_info (tx_rx_dc arithmetic) tied by differential runs (harness/src/bin/c18.rs) in debug and release builds",
      "cfg(ethercrab_verif) group constructors and verif_dc_conf", "device answers are structurally well formed"]
T32, T64 = 1 << 32, 1 << 64


def wants(d):
    return d[1] != 0 and d[2] != 0


def exp_configure(c):
    if c["res"] == "Ok":
        h = c["hasdc"]
        head = [0, int(h[0]), int(h[1]), h[2]]
    elif c["res"] == "PANIC":
        head = [-98]
    elif c["res"] == "HANG":
        head = [-99]
    else:
        e = c["err"]
        m = re.match(r"WorkingCounter \{ expected: (\d+), received: (\d+) \}", e)
        if e == "DistributedClock(NoReference)":
            head = [1]
        elif e == "IntegerTypeConversion":
            head = [2]
        elif m:
            head = [3, int(m.group(1)), int(m.group(2))]
        else:
            head = [4]
    out = list(head)
    for op in c["ops"]:
        if op[0] == 4:
            out += [4, op[1], op[2], op[3], -7]
        elif op[0] == 5:
            out += [5, op[1], op[2], len(op[3])] + op[3] + [-7]
        else:
            out += [9] + op[1:] + [-7]
    return out


def exp_cycle(c):
    if c["res"] == "Ok":
        return [0, int(c["off"]), int(c["wait"])]
    return {"PANIC": [-98], "HANG": [-99]}.get(c["res"], [1])


def le(b):
    return sum(x << (8 * i) for i, x in enumerate(b))


def oracle_configure(c):
    """the property's own words, on what the implementation did"""
    devs = c["devs"]
    period, delay, shift, t = int(c["period"]), int(c["delay"]), int(c["shift"]), int(c["time"])
    if period == 0:
        return None        # outside the quantified domain (periods from 1 ns)
    writes = [op for op in c["ops"] if op[0] == 5]
    wanted = [d[0] for d in devs if wants(d)]
    if c["res"] == "HANG":
        return "configure-hang", "configure_dc_sync did not return"
    if c["res"] == "PANIC":
        return "configure-panic", "configure_dc_sync panicked (time %d + delay %d, period %d)" % (t, delay, period)
    if any(w[1] not in wanted for w in writes):
        return "touch-non-dc", "a device that does not support DC or did not ask for SYNC was written to"
    if c["dcref"] == 0:
        if c["res"] != "Err" or c["ops"]:
            return "no-reference-accepted", "no reference clock, yet no error (or datagrams were sent)"
        return None
    if period >= T32 or delay >= T32:
        if c["res"] != "Err" or writes:
            return "range-not-rejected", "period/delay beyond 32-bit nanoseconds not rejected (or devices written first)"
        return None
    bad_p1 = [d for d in devs if wants(d) and d[2] == 2 and int(d[3]) >= T32]
    wkc0 = bool(c["answers"]) and c["answers"][0][1] != 1    # only the reference time read checks its working counter
    overflow = t + delay >= T64 and wanted
    if c["res"] == "Err":
        if not (bad_p1 or wkc0 or overflow):
            return "spurious-error", "valid configuration rejected: " + c["err"]
        return None
    # Ok
    if bad_p1:
        return "sync1-range-not-rejected", "a SYNC1 period beyond 32-bit nanoseconds was accepted"
    h = c["hasdc"]
    if int(h[0]) != period or h[2] != c["dcref"] or (shift < T64 and int(h[1]) != shift):
        return "hasdc-wrong", "the captured DC configuration differs from the requested one"
    i = 0
    for d in devs:
        if not wants(d):
            continue
        a = d[0]
        exp_regs = [0x0981, 0x0990, 0x09A0] + ([0x09A4] if d[2] == 2 else []) + [0x0981]
        got = writes[i:i + len(exp_regs)]
        i += len(exp_regs)
        if [w[1] for w in got] != [a] * len(exp_regs) or [w[2] for w in got] != exp_regs:
            return "write-sequence", "device %#x did not get the expected register writes in order" % a
        if got[0][3] != [0]:
            return "write-sequence", "cyclic operation not disabled first"
        start = le(got[1][3])
        if len(got[1][3]) != 8 or start % period != 0 or not (t + delay - period < start <= t + delay):
            return "start-time-wrong", "SYNC0 start time %d is not the multiple of the period %d in (%d, %d]" % (start, period, t + delay - period, t + delay)
        if le(got[2][3]) != period:
            return "cycle-time-wrong", "SYNC0 cycle time written differs from the period"
        if d[2] == 2 and le(got[3][3]) != int(d[3]):
            return "cycle-time-wrong", "SYNC1 cycle time written differs from the requested one"
        if got[-1][3] != [7 if d[2] == 2 else 3]:
            return "flags-wrong", "activation flags do not match the requested mode"
    if i != len(writes):
        return "write-sequence", "more writes than the configuration calls for"
    return None


def oracle_cycle(c):
    period, shift, t = int(c["period"]), int(c["shift"]), int(c["time"])
    if period == 0:
        return None
    off = t % period
    wait = period - off + shift
    if wait >= T64:
        return None      # no 64-bit answer exists; shifts that large are outside the quantified domain
    if c["res"] != "Ok":
        return "cycle-panic", "tx_rx_dc failed on time %d period %d shift %d: %s" % (t, period, shift, c["res"])
    if int(c["off"]) != off or int(c["wait"]) != wait or int(c["dctime"]) != t:
        return "cycle-arith", "offset/wait are not time mod period and (period - offset) + shift"
    return None


def gal_dev(d):
    sync = {0: "SDisabled", 1: "SSync0"}.get(d[2]) or "(SSync01 %d)" % int(d[3])
    return "{| sd_addr := %d; sd_dc := %s; sd_sync := %s |}" % (d[0], "true" if d[1] != 0 else "false", sync)


def run(ctx, replay=None):
    quick = ctx.tier == "quick"
    n = 3000 if quick else 30000
    vlib.proof_stage(ctx, "Props/C18.v")
    ctx.coverage["trusted_base"] = TB
    ctx.assumptions += ["a period of 0 ns is outside the quantified domain (it divides by zero: a panic, modelled as such)",
                        "sync0_shift is stored modulo 2^64 without a range check; shifts so large that (period - offset) + shift exceeds 64 bits are outside the quantified domain",
                        "'supports DC' is dc_support().any() as in the code (RefOnly included)"]
    cases = []
    builds = [False] if quick else [False, True]
    for rel in builds:
        rc, out, exe = vlib.cargo_build("c18", release=rel)
        if rc != 0:
            ctx.violation("harness does not build against the current tree: " + out[-400:], {"broken": "correspondence", "log": out[-3000:]}, no_input=True)
            return
        rc, out, _ = vlib.sh([exe, str(ctx.seed + (1000 if rel else 0)), str(n // len(builds))], timeout=1200)
        got = [json.loads(l) for l in out.splitlines() if l.startswith("{")]
        if rc != 0 or len(got) < n // len(builds):
            ctx.violation("C18 harness did not finish: " + out[-300:], {"broken": "harness-run", "log": out[-1500:]}, no_input=False)
        cases += got
    if not cases:
        return
    conf = [c for c in cases if c["kind"] == "configure"]
    cyc = [c for c in cases if c["kind"] == "cycle"]
    outcomes, distinct, ood = {}, set(), 0
    for c in conf:
        k = c["res"] + ":" + c.get("err", "")[:16]
        outcomes[k] = outcomes.get(k, 0) + 1
        distinct.add(("c", json.dumps([c["devs"], c["dcref"], c["delay"], c["period"], c["shift"], c["time"], c["answers"]])))
        if int(c["period"]) == 0:
            ood += 1
        r = oracle_configure(c)
        if r:
            ctx.classify(r[0], "C18 oracle: " + r[1], c)
    for c in cyc:
        k = "cycle-" + c["res"]
        outcomes[k] = outcomes.get(k, 0) + 1
        distinct.add(("y", c["period"], c["shift"], c["time"]))
        r = oracle_cycle(c)
        if r:
            ctx.classify(r[0], "C18 oracle: " + r[1], c)
    nsh = 16
    texts, shards = [], []
    for i in range(nsh):
        cs, ys = conf[i::nsh], cyc[i::nsh]
        shards.append((cs, ys))
        lines = ["From EC Require Import Base.Prelude Base.Bytes Cycle.Cycle Dc.Sync Wire.Check.", "Local Open Scope N_scope.",
                 "Definition cc : list ((mode * option N * list sdev * dconf * list answer) * list Z) := [" +
                 ";\n".join("((%s, %s, [%s], {| d_delay := %s; d_period := %s; d_shift := %s |}, [%s]), %s%%Z)" % (
                     "Release" if c["release"] else "Debug", "None" if c["dcref"] == 0 else "Some %d" % c["dcref"],
                     "; ".join(gal_dev(d) for d in c["devs"]), c["delay"], c["period"], c["shift"],
                     "; ".join("(%s, %d)" % (vlib.gz(a[0]), a[1]) for a in c["answers"]), vlib.gz(exp_configure(c))) for c in cs) + "].",
                 "Eval vm_compute in (0, map fst (mismatches (fun x => match x with (md, r, ds, c, a) => obs_configure md r ds c a end) cc 0)).",
                 "Definition yc : list ((mode * N * N * N) * list Z) := [" +
                 ";\n".join("((%s, %s, %s, %s), %s%%Z)" % ("Release" if c["release"] else "Debug", c["time"], c["period"], c["shift"], vlib.gz(exp_cycle(c))) for c in ys) + "].",
                 "Eval vm_compute in (1, map fst (mismatches (fun x => match x with (md, t, p, s) => obs_cycle_info md t p s end) yc 0))."]
        texts.append("\n".join(lines) + "\n")
    results = vlib.coq_eval_shards(ctx.pid, texts)
    dis = 0
    for (rc, out), (cs, ys) in zip(results, shards):
        if rc != 0:
            ctx.violation("model evaluation failed: " + out[-300:], {"broken": "correspondence", "log": out[-2000:]}, no_input=True)
            continue
        v = vlib.parse_evals(out)
        for k, (val, group) in enumerate(zip(v, (cs, ys))):
            if not val.endswith(", [])"):
                dis += 1
                idxs = [int(x) for x in re.findall(r"\d+", val[3:])]
                first = group[idxs[0]] if idxs and idxs[0] < len(group) else None
                ctx.violation("model and implementation disagree on a %s (first differing case in replay)" % ("configuration" if k == 0 else "cycle"),
                              {"broken": "correspondence", "case": first}, no_input=True)
    ctx.coverage.update(evaluations=len(cases), distinct_nontrivial=len(distinct),
                        rule="configure: groups of 1..8 devices with every DC support level and Disabled/Sync0/Sync01 (SYNC1 periods around 2^32 and 2^64), reference present/absent/outside the group, delay/period/shift mostly within 32 bits with boundary and out-of-range values, reference times over all of u64 incl. values making time+delay cross 2^64 and multiples of the period, a device not answering from a random point; cycle: period/shift/time boundary-heavy over u64",
                        configures=len(conf), cycles=len(cyc), outcomes=outcomes, out_of_domain_period0=ood, disagreements=dis,
                        builds=["debug"] + (["release"] if not quick else []),
                        samples=[{k: conf[0][k] for k in ("devs", "dcref", "delay", "period", "shift", "time", "res")}] if conf else [])
