"""C14: writing a station alias changes the alias and its checksum, nothing else; generic writes."""
import json, re
import vlib
from props import sii_common as S

TB = ["Coq 8.16.1 kernel + vm_compute", "hand-written models coq/Sii/Range.v and coq/Sii/Parse.v (set_station_alias, EepromRange::write, DeviceEeprom::write_word retry rule) tied by differential runs: harness/src/bin/sii.rs (in-memory provider) and harness/src/bin/siidev.rs (public API against the simulated device's SII interface)",
      "cfg(ethercrab_verif) hooks verif::sii_query / sii_range / sii_raw", "the crc crate computes the CRC-8 the model defines bit by bit (compared on every alias case)",
      "the simulated device's SII state machine (harness/src/sim/device.rs)"]


def crc8(data):
    c = 0xff
    for b in data:
        c ^= b
        for _ in range(8):
            c = ((c << 1) ^ 0x07) & 0xff if c & 0x80 else (c << 1) & 0xff
    return c


def oracle_alias(c):
    img = bytes.fromhex(c["img"])
    first = [img[a] if a < len(img) else c["fill"] for a in range(16)]
    a = c["alias"]
    if c["res"] != "Ok":
        return "alias-failed", "set_station_alias(%d) did not succeed: %s %s" % (a, c["res"], c.get("err"))
    new = list(first)
    new[8], new[9] = a & 0xff, a >> 8
    cs = crc8(new[:14])
    want = [[8, a & 0xff], [9, a >> 8], [14, cs], [15, 0]]
    if c["writes"] != want:
        return "alias-writes", "set_station_alias(%d) wrote %s, expected exactly %s" % (a, c["writes"], want)
    new[14], new[15] = cs, 0
    if c["after16"] != new:
        return "alias-other-words", "words other than the alias and the checksum changed"
    if c["alias_after"] != [a]:
        return "alias-readback", "the alias reported afterwards is %s" % c["alias_after"]
    return None


def pattern(k, n):
    return [(i * 7 + k * 31 + 1) % 256 for i in range(n)]


def expected_words(w, payload):
    out = []
    for i in range(0, len(payload), 2):
        b1 = payload[i + 1] if i + 1 < len(payload) else 0
        out += [[2 * (w + i // 2), payload[i]], [2 * (w + i // 2) + 1, b1]]
    return out


def oracle_raw_write(c):
    if not c["write"]:
        return None
    w, n = c["word"], c["n"]
    want = expected_words(w, pattern(0, n))
    inside = w + (n + 1) // 2 <= 65536
    if c["res"] in ("PANIC", "HANG"):
        return "write-" + c["res"].lower(), "writing %d bytes at word %d: %s" % (n, w, c["res"])
    if c["res"] == "Ok":
        if c["writes"] != want:
            return "write-bytes", "writing %d bytes at word %d stored %s, expected %s" % (n, w, c["writes"][:6], want[:6])
    else:
        if inside:
            return "write-failed", "writing %d bytes at word %d failed: %s" % (n, w, c.get("err"))
        if c["writes"] != want[:len(c["writes"])]:
            return "write-bytes", "a failing write stored other bytes than given"
    return None


def oracle_range_writes(c):
    """write ops inside op sequences: only the given bytes, only inside the range, zero padding"""
    lo, end = 2 * c["start"], 2 * (c["start"] + c["len"])
    for a, _ in c["writes"]:
        if not (lo <= a < max(end, lo)) and not (a == end and False):
            return "write-outside-range", "byte %d written outside the range [%d,%d)" % (a, lo, end)
    return None


def oracle_dev(c):
    op = c["op"]
    img = bytes.fromhex(c["img"])
    after = bytes.fromhex(c["after"])
    if c["res"] in ("PANIC", "HANG"):
        return "dev-" + c["res"].lower(), "%s: %s" % (op, c["res"])
    if op[0] == "alias":
        # the alias the SubDevice reports is the new one exactly when the call succeeded (model:
        # set_alias_address, theorem c14_reported_alias); the SubDevice starts out reporting 0
        a = op[1]
        want = a if c["res"] == "Ok" else 0
        if c.get("alias_reported") is not None and c["alias_reported"] != want:
            return "dev-alias-reported", "set_alias_address(%d) ended with %s %s and alias_address() now reports %d (EEPROM alias word %d)" % (
                a, c["res"], c.get("err", ""), c["alias_reported"], after[8] | after[9] << 8)
    if c["stay_busy"]:
        # a device that refuses the write command more often than the retry bound (20) never
        # becomes busy with a write at all: write_word gives up and returns Ok (observation in
        # DESIGN 10.4; the property bounds the retries and is silent about the result then)
        gave_up = c.get("cmd_errors", 0) > 20
        if c["res"] == "Ok" and op[0] != "read_raw" and not gave_up:
            return "dev-busy-ok", "%s succeeded although the device never left busy" % op
        # the simulated device executes a command and then stays busy: what changed must be what
        # its write log shows, and each word must be one the operation was asked to store
        want = bytearray(img)
        for w, b0, b1 in c["writes"]:
            want[2 * w], want[2 * w + 1] = b0, b1
        if after != bytes(want):
            return "dev-busy-write", "the EEPROM changed in a way the device's write log does not show"
        return None
    byte = lambda a: img[a] if a < len(img) else 255
    if op[0] == "read_raw":
        w, n = op[1], op[2]
        if c["res"] != "Ok" or c["out"][0] != n or c["out"][1:] != [byte(2 * w + i) for i in range(n)]:
            return "dev-read", "eeprom_read_raw(word %d, %d bytes) gave %s %s" % (w, n, c["res"], c["out"][:10])
    elif op[0] == "read":
        w, n = op[1], op[2]
        if c["res"] != "Ok" or c["out"] != [byte(2 * w + i) for i in range(n)]:
            return "dev-read", "eeprom_read(word %d, %d bytes) gave %s %s %s" % (w, n, c["res"], c.get("err"), c["out"][:10])
    elif op[0] == "size":
        want = ((byte(0x7c) | byte(0x7d) << 8) + 1) * 128
        if c["res"] != "Ok" or c["out"] != [want]:
            return "dev-size", "eeprom_size gave %s, the size word encodes %d" % (c["out"], want)
    elif op[0] == "write":
        w, payload = op[1], op[2]
        words = expected_words(w, payload)
        errs = c["cmd_errors"]
        # the first word absorbs the command errors; retried at most 20 times
        cmds = (c["cmd_errors"] - c["cmd_errors_left"]) + len(c["writes"])
        per_word_bound = 21 * ((len(payload) + 1) // 2)
        if cmds > per_word_bound:
            return "dev-retry-bound", "%d write commands for %d words" % (cmds, (len(payload) + 1) // 2)
        want_after = bytearray(img)
        stored = []
        e = errs
        for i in range(0, len(words), 2):
            if e <= 20:
                stored.append([words[i][0] // 2, words[i][1], words[i + 1][1]])
                want_after[words[i][0]] = words[i][1]
                want_after[words[i + 1][0]] = words[i + 1][1]
                e = 0
            else:
                e -= 21
        if c["res"] != "Ok":
            return "dev-write-failed", "%s failed: %s" % (op, c.get("err"))
        if c["writes"] != stored or after != bytes(want_after):
            return "dev-write", "%s with %d command errors stored %s, expected %s" % (op, errs, c["writes"], stored)
    elif op[0] == "alias":
        a = op[1]
        new = bytearray(img)
        errs = c["cmd_errors"]
        new[8], new[9] = a & 0xff, a >> 8
        cs = crc8(new[:14])
        if errs <= 20:
            new[14], new[15] = cs, 0
            if c["res"] != "Ok" or after != bytes(new) or c["out"] != [a, a]:
                return "dev-alias", "set_alias_address(%d): result %s, alias afterwards %s, words changed: %s" % (a, c["res"], c["out"], [i for i in range(0, len(img), 2) if after[i:i + 2] != img[i:i + 2]])
    return None


def exp_dev(c):
    """expected model observation for a device-level case, and the Coq term"""
    op = c["op"]
    prov = S.gal_prov(c, "IMG")
    ok = c["res"] == "Ok"
    if op[0] == "read_raw":
        return "obs_raw %s %d %d%%nat false false" % (prov, op[1], op[2]), ([0] + c["out"] + [-7]) if ok else None
    if op[0] == "read":
        return "obs_raw %s %d %d%%nat true false" % (prov, op[1], op[2]), ([0] + c["out"] + [-7]) if ok else None
    if op[0] == "size":
        return "obs_query Debug %s 3 0" % prov, ([0] + c["out"] + [-7]) if ok else None
    if op[0] == "write":
        cmds = (c["cmd_errors"] - c["cmd_errors_left"]) + len(c["writes"])
        return "obs_dev_write %d%%nat %d %s" % (c["cmd_errors"], op[1], vlib.gz(op[2])), ([cmds] + [x for w in c["writes"] for x in w]) if ok else None
    return None, None


def run(ctx, replay=None):
    quick = ctx.tier == "quick"
    vlib.proof_stage(ctx, "Props/C14.v")
    ctx.coverage["trusted_base"] = TB
    ctx.assumptions += ["after 20 retries of a word the device-level write gives up and still returns Ok(()) (the property bounds the retries and says nothing about the result)"]
    n_alias, n_raw, n_rng, n_dev = (2500, 900, 900, 700) if quick else (66000, 9000, 9000, 6000)
    cases = S.run_harness(ctx, "alias", n_alias) + S.run_harness(ctx, "raw", n_raw) + S.run_harness(ctx, "range", n_rng)
    if not quick:
        cases += S.run_harness(ctx, "alias", 3000, release=True, seed_off=500) + S.run_harness(ctx, "raw", n_raw // 3, release=True, seed_off=500)
    stats = {"alias": 0, "raw_writes": 0, "odd_writes": 0, "range_seqs_with_writes": 0, "dev": 0, "dev_retry_cases": 0, "dev_busy": 0}
    for c in cases:
        if c["kind"] == "alias":
            stats["alias"] += 1
            r = oracle_alias(c)
        elif c["kind"] == "raw":
            stats["raw_writes"] += 1 if c["write"] else 0
            stats["odd_writes"] += c["n"] % 2 if c["write"] else 0
            r = oracle_raw_write(c)
        else:
            stats["range_seqs_with_writes"] += 1 if any(o[0] in (4, 5) for o in c["ops"]) else 0
            r = oracle_range_writes(c)
        if r:
            ctx.classify(r[0], "C14 oracle: " + r[1], c)
    dis = S.compare_with_model(ctx, cases if quick else cases[:20000], "c14")
    # device level
    devs = []
    for rel in ([False] if quick else [False, True]):
        rc, out, exe = vlib.cargo_build("siidev", release=rel)
        if rc != 0:
            ctx.violation("harness does not build against the current tree: " + out[-400:], {"broken": "correspondence", "log": out[-3000:]}, no_input=True)
            break
        rc, out, _ = vlib.sh([exe, str(ctx.seed + (500 if rel else 0)), str(n_dev)], timeout=1800)
        got = [json.loads(l) for l in out.splitlines() if l.startswith("{")]
        if rc != 0 or len(got) < n_dev:
            ctx.violation("siidev harness did not finish: " + out[-300:], {"broken": "harness-run", "log": out[-1500:]}, no_input=False)
        devs += got
    for c in devs:
        stats["dev"] += 1
        stats["dev_retry_cases"] += 1 if c["cmd_errors"] else 0
        stats["dev_busy"] += 1 if c["stay_busy"] else 0
        r = oracle_dev(c)
        if r:
            ctx.classify(r[0], "C14 oracle (device level): " + r[1], c)
    # device-level cases against the model
    nsh = 16
    texts, shards = [], []
    for i in range(nsh):
        cs = [c for c in devs[i::nsh] if not c["stay_busy"]]
        lines = ["From EC Require Import Base.Prelude Base.Bytes Sii.Range Sii.Parse Sii.Img Wire.Check.", "Local Open Scope N_scope."]
        evals, kept = [], []
        for c in cs:
            term, exp = exp_dev(c)
            if term is None or exp is None:
                continue
            k = len(kept)
            kept.append(c)
            lines.append("Definition i%d := Eval vm_compute in img_map %s." % (k, vlib.gz(list(bytes.fromhex(c["img"])))))
            lines.append("Definition c%d : list Z := %s." % (k, term.replace("IMG", "i%d" % k)))
            lines.append("Definition e%d : list Z := %s%%Z." % (k, vlib.gz(exp)))
            evals.append("(if list_eq_dec Z.eq_dec c%d e%d then [] else [(%d, 0)%%Z])" % (k, k, k))
        lines.append("Eval vm_compute in (0, (" + " ++\n ".join(evals) + ")%list)." if evals else "Eval vm_compute in (0, @nil (Z*Z)).")
        texts.append("\n".join(lines) + "\n")
        shards.append(kept)
    results = vlib.coq_eval_shards(ctx.pid + "_dev", texts, timeout=1500)
    for (rc, out), cs in zip(results, shards):
        if rc != 0:
            ctx.violation("model evaluation failed: " + out[-300:], {"broken": "correspondence", "log": out[-2000:]}, no_input=True)
            continue
        v = vlib.parse_evals(out)
        if not v or not v[0].endswith(", [])"):
            pairs = re.findall(r"\((\d+), (\d+)\)", (v[0][3:] if v else "").replace("%Z", ""))
            dis += max(1, len(pairs))
            first = cs[int(pairs[0][0])] if pairs else None
            ctx.violation("model and the device-level implementation disagree on %d case(s)" % len(pairs), {"broken": "correspondence", "case": first}, no_input=True)
    ctx.coverage.update(evaluations=len(cases) + len(devs), distinct_nontrivial=len({json.dumps([c.get("img"), c.get("alias"), c.get("op"), c.get("ops"), c.get("word"), c.get("n")]) for c in cases + devs}),
                        rule="alias: consecutive alias values from seed*7919 (thorough: all 65536) over random header words, 4/8 byte providers; raw writes of 0..64 pattern bytes (odd and even) at any word incl. the top of the address space; range op sequences with writes; device level: public API against the simulated SII interface with 0..25 command errors, 0..3 busy polls, a device that stays busy, typed writes of 1/2/3/4 bytes, typed reads of 1..8 bytes, raw reads of 0..120 bytes",
                        disagreements=dis, **stats, samples=[{"alias": cases[0].get("alias"), "writes": cases[0].get("writes")}])
