"""C08: process data of one SubDevice reaches that SubDevice and nothing else."""
import json, re
import vlib

TB = ["Coq 8.16.1 kernel + vm_compute",
      "hand-written model coq/Pd/Layout.v (PDO bit sums in u16, sync manager / FMMU programming of both configuration paths, window bookkeeping, group start addresses, device-side FMMU semantics) tied by differential runs (harness/src/bin/initnet.rs mode c08) of MainDevice::init + into_op + tx_rx against simulated networks",
      "the simulator (harness/src/sim): EEPROM images, CoE object dictionary, SM/FMMU registers, logical addressing; devices implement 8 FMMUs and 8 sync managers",
      "SDO reads of the PDO assignment are answered by a conforming server (C15/C16 cover the client)"]

SM_OUT, SM_IN = 3, 4


def groups_of(c):
    """group index -> device positions (push order = ring order)"""
    return [[p for p, g in enumerate(c["assign"]) if g == gi] for gi in range(3)]


def starts_of(c):
    order = []
    for g in c["assign"]:
        if g not in order:
            order.append(g)
    order.reverse()   # heapless IndexMap::into_iter pops from the back: last-inserted group first
    st, off = {}, 0
    for g in order:
        st[g] = off
        off += c["max_pdi"][g]
    return st, order


def want_len(dev, usage):
    return sum(w[3] for w in dev["want"] if w[1] == usage)


def adjacent(dev, usage):
    """process-data sync managers with data of one direction sit back to back in device memory"""
    ws = [w for w in dev["want"] if w[1] == usage and w[3] > 0]
    return all(a[2] + a[3] == b[2] for a, b in zip(ws, ws[1:]))


def expected_targets(dev, usage, win_start, gstart):
    """logical address -> physical address the description calls for"""
    m, la = {}, gstart + win_start
    for w in dev["want"]:
        if w[1] == usage:
            for j in range(w[3]):
                m[la] = w[2] + j
                la += 1
    return m


def fmmu_targets(dev, rd):
    m = {}
    for f in dev["fmmu_regs"]:
        ls, ln, sb, eb, ps, pb, r, w, en = f
        if not en or not (r if rd else w):
            continue
        for j in range(ln):
            m.setdefault(ls + j, []).append(ps + j)
    return m


def oracle(c):
    """judges the implementation's observations in the property's own words; yields (key, text)"""
    if c["res"] != "Ok":
        yield ("bringup-" + c["res"].lower(), "the network did not come up: %s %s" % (c["res"], c.get("err", "")))
        return
    gs = groups_of(c)
    starts, order = starts_of(c)
    ranges = []
    for gi, g in enumerate(c["groups"]):
        devs = [c["devs"][p] for p in gs[gi]]
        need = sum(want_len(d, SM_IN) + want_len(d, SM_OUT) for d in devs)
        mx = c["max_pdi"][gi]
        if g["res"].startswith("PdiTooLong"):
            if need <= mx:
                yield ("spurious-too-long", "group %d needs %d bytes, capacity %d, yet: %s" % (gi, need, mx, g["res"]))
            continue
        if g["res"].startswith("NotFound { item: Fmmu"):
            ok = any(d["coe"] and ((want_len(d, SM_IN) > 0 and 2 not in d["fmmu_usage"]) or (want_len(d, SM_OUT) > 0 and 1 not in d["fmmu_usage"])) for d in devs)
            if not ok:
                yield ("spurious-nofmmu", "group %d: %s although every device lists the FMMUs it needs" % (gi, g["res"]))
            continue
        if g["res"] != "Ok":
            yield ("bringup-error", "group %d did not reach OP: %s" % (gi, g["res"]))
            continue
        if need > mx:
            yield ("too-long-accepted", "group %d needs %d bytes but capacity %d was accepted" % (gi, need, mx))
        if g["pdi_len"] > mx:
            yield ("pdi-len", "group %d: image length %d exceeds the declared capacity %d" % (gi, g["pdi_len"], mx))
        if gs[gi]:
            ranges.append((starts[gi], starts[gi] + g["pdi_len"], gi))
        occupied = []
        for w, p in zip(g["wins"], gs[gi]):
            d = c["devs"][p]
            addr, i0, il, o0, ol = w
            if addr != 0x1000 + p:
                yield ("order", "group %d lists device %#x where position %d was pushed" % (gi, addr, p))
            if il != want_len(d, SM_IN) or ol != want_len(d, SM_OUT):
                yield ("window-length", "device %d: windows of %d input / %d output bytes, its PDO configuration requires %d / %d" % (p, il, ol, want_len(d, SM_IN), want_len(d, SM_OUT)))
            if il and not (0 <= i0 and i0 + il <= g["read_len"]):
                yield ("inputs-first", "device %d: inputs %d..%d are not inside the input part 0..%d" % (p, i0, i0 + il, g["read_len"]))
            if ol and not (g["read_len"] <= o0 and o0 + ol <= g["pdi_len"]):
                yield ("outputs-after", "device %d: outputs %d..%d are not inside the output part %d..%d" % (p, o0, o0 + ol, g["read_len"], g["pdi_len"]))
            for s, l in ((i0, il), (o0, ol)):
                if l:
                    for (s2, e2, p2) in occupied:
                        if s < e2 and s2 < s + l:
                            yield ("overlap", "windows of devices %d and %d overlap" % (p, p2))
                    occupied.append((s, s + l, p))
            # sync managers
            for k, usage, st, ln in d["want"]:
                r = d["sm_regs"][k]
                en = (d["sms"][k][2] == 1) and ln > 0
                if r[0] != st or r[1] != ln or (r[3] == 1) != en:
                    yield ("sm-register", "device %d SM%d is programmed %s, the description calls for start %d length %d enable %s" % (p, k, r, st, ln, en))
            # FMMUs map exactly the windows onto the device's process-data memory
            for usage, ws, rd in ((SM_IN, i0, True), (SM_OUT, o0, False)):
                exp = expected_targets(d, usage, max(ws, 0), starts[gi])
                got = fmmu_targets(d, rd)
                if {k: [v] for k, v in exp.items()} != got:
                    key = "coe-shared-fmmu" if d["coe"] and not adjacent(d, usage) else "mapping"
                    bad = sorted(set(k for k in set(exp) | set(got) if [exp.get(k)] != got.get(k, [None])))
                    yield (key, "device %d (%s): its %s FMMUs do not map its window onto its process-data memory (e.g. logical %#x -> %s, should be %s)" % (
                        p, "CoE" if d["coe"] else "EEPROM", "input" if rd else "output", bad[0], got.get(bad[0]), exp.get(bad[0])))
    ranges.sort()
    for a, b in zip(ranges, ranges[1:]):
        if a[1] > b[0]:
            yield ("group-overlap", "images of groups %d and %d overlap in the logical address space" % (a[2], b[2]))
    # end-to-end probe
    for pr in c.get("probes", []):
        if not pr["bad"]:
            continue
        gi = pr["group"]
        lo, hi = starts[gi], starts[gi] + c["groups"][gi]["pdi_len"]
        key = "probe"
        # a group whose configuration failed (PdiTooLong at the end, or a missing FMMU half way: the
        # capacity is only checked at the end) leaves FMMUs behind that can reach into later groups
        for gj, g in enumerate(c["groups"]):
            if gj != gi and (g["res"].startswith("PdiTooLong") or g["res"].startswith("NotFound { item: Fmmu")):
                for p in gs[gj]:
                    for f in c["devs"][p]["fmmu_regs"]:
                        if f[8] and f[1] > 0 and f[0] < hi and lo < f[0] + f[1]:
                            key = "too-long-leftover"
        if key == "probe":
            involved = set(int(x) for b in pr["bad"] for x in re.findall(r"device (\d+)", b))
            if involved and all(c["devs"][p]["coe"] and (not adjacent(c["devs"][p], SM_IN) or not adjacent(c["devs"][p], SM_OUT)) for p in involved):
                key = "coe-shared-fmmu"
        yield (key, "cycle of group %d: %s" % (gi, pr["bad"][0][:300]))


def coq_sms(d):
    return "[" + "; ".join("mkSm %d %d %s %d" % (u, st, "true" if en else "false", ctl) for u, st, en, ctl in d["sms"]) + "]"


def coq_mbx(d):
    m = d.get("mbx")
    return "None" if not m else "(Some (mkM %d %d %d %d %d))" % tuple(m)


def coq_dev(d):
    def pd(l):
        return "[" + "; ".join("mkPdo %d %d [%s]" % (i, sm, "; ".join(str(b) for b in bits)) for i, sm, bits in l) + "]"
    sms = coq_sms(d)
    # whether the device counts as a CoE device is the MODEL's decision from the mailbox settings
    return "mkDev (has_coe %s %s) %s [%s] %s %s [%s]" % (coq_mbx(d), sms, sms, "; ".join(str(u) for u in d["fmmu_usage"]), pd(d["rx"]), pd(d["tx"]),
                                            "; ".join("(%d, %d)" % (a, b) for a, b in d["over"]))


def exp_obs(c, gi, devs, g):
    """what the implementation did, in the layout of Pd.Layout.obs_group"""
    if g["res"] == "Ok":
        out = [0, g["pdi_len"], g["read_len"]]
        for w in g["wins"]:
            out += [w[1], w[2]] if w[2] else [-1, 0]
        out.append(-7)
        for w in g["wins"]:
            out += [w[3], w[4]] if w[4] else [-1, 0]
        out.append(-7)
        for d in devs:
            for f in d["fmmu_regs"]:
                out += [f[0], f[1], f[4], f[6], f[7], f[8]]
                if f[8] and (f[2], f[3], f[5]) != (0, 7, 0):
                    out.append(-55)   # bit-wise FMMU: never produced by the model
            out.append(-8)
            for usage in (SM_IN, SM_OUT):
                for k, u, st, ln in d["want"]:
                    if u == usage:
                        r = d["sm_regs"][k]
                        out += [k, r[0], r[1], r[2], r[3]]
            out.append(-9)
        return out
    if g["res"].startswith("NotFound { item: Fmmu"):
        return [1]
    m = re.match(r"PdiTooLong \{ max_length: (\d+), desired_length: (\d+)", g["res"])
    if m:
        return [2, int(m.group(1)), int(m.group(2))]
    return [-97]


def run(ctx, replay=None):
    quick = ctx.tier == "quick"
    vlib.proof_stage(ctx, "Props/C08.v")
    ctx.coverage["trusted_base"] = TB
    n = 240 if quick else 2400
    cases = []
    for rel in ([False] if quick else [False, True]):
        rc, out, exe = vlib.cargo_build("initnet", release=rel)
        if rc != 0:
            ctx.violation("harness does not build against the current tree: " + out[-400:], {"broken": "correspondence", "log": out[-3000:]}, no_input=True)
            return
        import concurrent.futures
        nsh = 12
        def one(i):
            return vlib.sh([exe, "c08", str(ctx.seed * 1000 + i + (500 if rel else 0)), str(n // nsh)], timeout=2400)
        with concurrent.futures.ThreadPoolExecutor(max_workers=nsh) as ex:
            for rc, out, _ in ex.map(one, range(nsh)):
                got = [json.loads(l) for l in out.splitlines() if l.startswith("{")]
                if rc != 0 or len(got) < n // nsh:
                    ctx.violation("initnet harness did not finish: " + out[-300:], {"broken": "harness-run", "log": out[-1500:]}, no_input=False)
                cases += got
    if not cases:
        return
    stats = {"groups_ok": 0, "too_long": 0, "no_fmmu": 0, "coe_devices": 0, "eeprom_devices": 0, "couplers": 0, "oversampled": 0, "multi_sm_dirs": 0, "probes": 0, "probes_bad": 0}
    items = []   # (coq term, expected)
    meta = []
    for ci, c in enumerate(cases):
        for key, text in oracle(c):
            ctx.classify(key, "C08 oracle: " + text, {"seed_case": ci, "case": c})
        for d in c["devs"]:
            stats["coe_devices" if d["coe"] else ("eeprom_devices" if d["want"] else "couplers")] += 1
            stats["oversampled"] += 1 if d["over"] else 0
            stats["multi_sm_dirs"] += sum(1 for u in (SM_IN, SM_OUT) if len([w for w in d["want"] if w[1] == u and w[3] > 0]) > 1)
        if c["res"] != "Ok":
            continue
        gs = groups_of(c)
        starts, order = starts_of(c)
        for pr in c["probes"]:
            stats["probes"] += 1
            stats["probes_bad"] += 1 if pr["bad"] else 0
        items.append(("obs_starts %s [%s]" % ("Release" if c["release"] else "Debug", "; ".join(str(c["max_pdi"][g]) for g in order)), [starts[g] for g in order]))
        meta.append((ci, "starts"))
        for gi, g in enumerate(c["groups"]):
            devs = [c["devs"][p] for p in gs[gi]]
            if g["res"] == "Ok":
                stats["groups_ok"] += 1
            elif g["res"].startswith("PdiTooLong"):
                stats["too_long"] += 1
            elif g["res"].startswith("NotFound"):
                stats["no_fmmu"] += 1
            e = exp_obs(c, gi, devs, g)
            if e == [-97]:
                continue        # the oracle has reported it; nothing to compare the model with
            items.append(("obs_group %s %d %d [%s]" % ("Release" if c["release"] else "Debug", starts.get(gi, 0), c["max_pdi"][gi], "; ".join(coq_dev(d) for d in devs)), e))
            meta.append((ci, gi))
    # the mailbox sync managers programmed during INIT -> PRE-OP and the CoE decision (Pd/Mailbox.v)
    nmb = 0
    for ci, c in enumerate(cases):
        if c["res"] != "Ok":
            continue
        for p, d in enumerate(c["devs"]):
            if "mbx" not in d:
                continue
            e = [1 if d["coe"] else 0]
            m = d["mbx"]
            has_mbx = bool(m) and ((m[4] != 0 and m[1] > 0) or m[3] > 0)
            for k, (u, st, en, ctl) in enumerate(d["sms"]):
                if u in (1, 2) and has_mbx:
                    r = d["sm_regs"][k]
                    e += [k, r[0], r[1], r[2], r[3]]
            items.append(("obs_mbx %s %s" % (coq_mbx(d), coq_sms(d)), e))
            meta.append((ci, "mailbox of device %d" % p))
            nmb += 1
    stats["mailbox_configs_compared"] = nmb
    # one probing cycle per group against the model's ring of devices (Net/Commute.v); groups next to
    # a group whose configuration failed are left to the oracle (the leftover FMMUs are foreign devices)
    ncyc = 0
    for ci, c in enumerate(cases):
        if c["res"] != "Ok" or any(g["res"].startswith("PdiTooLong") or g["res"].startswith("NotFound") for g in c["groups"]):
            continue
        gs = groups_of(c)
        starts, order = starts_of(c)
        for pr in c["probes"]:
            gi = pr["group"]
            if "regions" not in pr or c["groups"][gi]["res"] != "Ok":
                continue
            devs = [c["devs"][p] for p in gs[gi]]
            regs = {r["pos"]: r for r in pr["regions"]}
            mems = [list(bytes.fromhex(regs[p]["before"])) for p in gs[gi]]
            after = [list(bytes.fromhex(regs[p]["after"])) for p in gs[gi]]
            e = list(bytes.fromhex(pr["img_after"])) + [-7]
            for a in after:
                e += a + [-8]
            items.append(("obs_cycle %s %d %d [%s] [%s] 4352 %s" % ("Release" if c["release"] else "Debug", starts.get(gi, 0), c["max_pdi"][gi], "; ".join(coq_dev(d) for d in devs),
                                                                   "; ".join(vlib.gz(m) for m in mems), vlib.gz(list(bytes.fromhex(pr["img_before"])))), e))
            meta.append((ci, "cycle %d" % gi))
            ncyc += 1
    stats["cycles_compared"] = ncyc
    nsh = 16
    texts = []
    for i in range(nsh):
        its = items[i::nsh]
        texts.append("\n".join(["From EC Require Import Base.Prelude Base.Bytes Pd.Layout Pd.Mailbox Net.Commute Wire.Check.", "Local Open Scope N_scope.",
                                "Definition cs : list (list Z * list Z) := [" + ";\n".join("(%s, %s%%Z)" % (t, vlib.gz(e)) for t, e in its) + "].",
                                "Eval vm_compute in (0, map fst (mismatches (fun x => x) cs 0))."]) + "\n")
    dis = 0
    for si, (rc, out) in enumerate(vlib.coq_eval_shards(ctx.pid, texts)):
        if rc != 0:
            ctx.violation("model evaluation failed: " + out[-300:], {"broken": "correspondence", "log": out[-2000:]}, no_input=True)
            continue
        v = vlib.parse_evals(out)
        if not v or not v[0].endswith(", [])"):
            idxs = [int(x) for x in re.findall(r"\d+", (v[0][3:] if v else "").replace("%N", ""))]
            dis += max(1, len(idxs))
            ms = meta[si::nsh]
            first = ms[idxs[0]] if idxs and idxs[0] < len(ms) else None
            ctx.violation("model and implementation disagree on %d group configuration(s)" % len(idxs),
                          {"broken": "correspondence", "which": first, "case": cases[first[0]] if first else None}, no_input=True)
    sizes = {}
    for c in cases:
        sizes[c["n"]] = sizes.get(c["n"], 0) + 1
    ctx.coverage.update(evaluations=len(items), distinct_nontrivial=len({json.dumps([c["assign"], c["devs"]], sort_keys=True) for c in cases}),
                        rule="networks of 1..16 simulated devices (couplers, EEPROM-configured I/O, CoE devices) with 0..3 process-data sync managers per direction in any order, 0..3 PDOs each (at most 8 per direction), entries of 1..64 bits, oversampling x2..4 on some PDOs, FMMU usage lists in several orders or lacking a direction, optional FMMU_EX, adjacent or scattered sync manager memory; 1..3 groups of capacity 24/96/600 bytes brought to OP in a random order; one probing cycle per group with every device's memory watched",
                        network_sizes=sizes, disagreements=dis, stats=stats,
                        samples=[{"n": cases[0]["n"], "assign": cases[0]["assign"], "groups": [g["res"] for g in cases[0].get("groups", [])]}])
