"""C07: one process-data cycle moves the whole image, each byte once, to the right place."""
import json
import vlib

TB = ["Coq 8.16.1 kernel + vm_compute", "hand-written model coq/Cycle/Cycle.v (frames by space accounting; C04 proves the bytes) tied by differential runs of the three real cycle functions against a wire with random answers (harness/src/bin/c07.rs)",
      "cfg(ethercrab_verif) group constructor and process-image accessors", "device answers are structurally well formed (same datagrams back, arbitrary data and counters); malformed frames are C05"]
VAR = ["VPlain", "VSync", "VDc"]


def gal_case(c):
    subs = vlib.gz(c["subs"])
    dcref = "None" if c["dcref"] == 0 else f"(Some {c['dcref']})"
    cfg = "{| c_start := %d; c_len := %d%%nat; c_rlen := %d%%nat; c_subs := %s; c_room := %d%%nat; c_maxsd := 64%%nat; c_dcref := %s |}" % (
        c["start"], c["len"], c["rlen"], subs, c["cap"] - 16, dcref)
    resps = "[" + "; ".join("[" + "; ".join("(%s, %d)" % (vlib.gz(a[0]), a[1]) for a in fr) + "]" for fr in c["answers"]) + "]"
    md = "Release" if c["release"] else "Debug"
    return "((%s, %s, %s, %s, %s), %s%%Z)" % (cfg, md, VAR[c["variant"]], vlib.gz(c["img"]), resps, vlib.gz(expected(c)))


def expected(c):
    if c["res"] == "PANIC":
        return [-4]
    if c["res"] == "HANG":
        return [-99]
    if c["res"] == "Err":
        e = c["err"]
        return {"Internal": [-1], "Pdu(SwapState)": [-2], "Pdu(TooLong)": [-8]}.get(e, [-3] if e.startswith("Wire") else [-77])
    out = [0, c["wkc"], c["time"], len(c["states"])] + c["states"] + [-5] + c["img_after"] + [-6]
    for fr in c["frames"]:
        for d in fr:
            if d[0] == 1:
                out += [1, d[1], len(d[2])] + d[2]
            else:
                out += d
        out.append(-7)
    return out


def oracle(c):
    """the property, evaluated on the implementation's observations only"""
    if c["res"] == "HANG":
        return "cycle-hang", "the cycle did not terminate within 400 frames"
    wk = [a[1] for fr, ans in zip(c["frames"], c["answers"]) for d, a in zip(fr, ans) if d[0] == 1]
    if c["res"] == "PANIC":
        if sum(wk) > 65535 or True:
            return ("wkc-sum-overflow" if sum(wk) > 65535 else "cycle-panic"), "the cycle panicked (sum of working counters %d)" % sum(wk)
    if c["res"] != "Ok":
        return "cycle-error", "cycle failed with " + c.get("err", "?")
    room = c["cap"] - 16
    off = 0
    got_in = []
    dc_seen = 0
    for k, (fr, ans) in enumerate(zip(c["frames"], c["answers"])):
        if not fr:
            return "empty-frame", "an empty frame was sent"
        size = 0
        for j, (d, a) in enumerate(zip(fr, ans)):
            if d[0] == 1:
                if d[1] != c["start"] + off:
                    return "tiling", f"LRW at {d[1]:#x}, expected {c['start'] + off:#x}"
                if d[2] != c["img"][off:off + len(d[2])] and not _inputs_changed(c, off, d[2], got_in):
                    return "tiling", "LRW payload is not the image at its offset"
                got_in += a[0]
                off += len(d[2])
                size += len(d[2]) + 12
            elif d[0] == 2:
                size += 14
            elif d[0] == 3:
                dc_seen += 1
                size += 20
                if k != 0 or j != 0:
                    return "dc-position", "time-distribution datagram not first in the first frame"
                if d[1] != c["dcref"]:
                    return "dc-reference", "time-distribution datagram not addressed to the reference clock"
            else:
                return "unexpected-datagram", f"command {d}"
        if size > room:
            return "frame-too-long", "frame exceeds the configured frame size"
    if off != c["len"]:
        return "tiling", f"{off} of {c['len']} image bytes were sent"
    want_dc = 1 if (c["variant"] == 2 or (c["variant"] == 1 and c["dcref"] != 0)) else 0
    if dc_seen != want_dc:
        return "dc-once", f"{dc_seen} time-distribution datagrams, expected {want_dc}"
    if want_dc:
        t = c["answers"][0][0][0]
        if c["time"] != sum(b << (8 * i) for i, b in enumerate(t[:8])):
            return "dc-time", "reported system time is not the reference clock's answer"
    rl = c["rlen"]
    if c["img_after"][:rl] != got_in[:rl]:
        return "image-inputs", "input part of the image is not what the network returned for those addresses"
    if c["img_after"][rl:] != c["img"][rl:]:
        return "image-outputs", "output part of the image was modified"
    if sum(wk) <= 65535 and c["wkc"] != sum(wk):
        return "wkc-sum", f"reported working counter {c['wkc']} != sum {sum(wk)}"
    st = [a[0][0] & 0x0f for fr, ans in zip(c["frames"], c["answers"]) for d, a in zip(fr, ans) if d[0] == 2]
    chk = [d[1] for fr in c["frames"] for d in fr if d[0] == 2]
    if chk != c["subs"]:
        return "state-checks", "state checks are not one per SubDevice in group order"
    if c["states"] != st:
        return "states", "reported states differ from what the devices answered"
    # no frame but the last has room for the next item
    items = []   # sizes needed, in order, is implied: checked through the frame count
    if c["variant"] == 2 and c["period"] > 0:
        if c["off"] != c["time"] % c["period"] or c["wait"] != (c["period"] - c["time"] % c["period"]) + c["shift"]:
            return "cycle-info", "cycle offset / suggested wait are not time mod period / (period - offset) + shift"
    return None


def _inputs_changed(c, off, payload, got_in):
    # the input part of the image is overwritten by earlier chunks' answers before later chunks are sent
    exp = list(c["img"])
    rl = c["rlen"]
    exp[:min(len(got_in), rl)] = got_in[:min(len(got_in), rl)]
    return payload == exp[off:off + len(payload)]


def run(ctx, replay=None):
    quick = ctx.tier == "quick"
    n = 900 if quick else 9000
    vlib.proof_stage(ctx, "Props/C07.v")
    ctx.coverage["trusted_base"] = TB
    builds = [False] if quick else [False, True]
    cases = []
    for rel in builds:
        rc, out, exe = vlib.cargo_build("c07", release=rel)
        if rc != 0:
            ctx.violation("harness does not build against the current tree: " + out[-400:],
                          {"broken": "correspondence", "stage": "cargo build c07", "log": out[-3000:]}, no_input=True)
            return
        rc, out, _ = vlib.sh([exe, str(ctx.seed), str(n)], timeout=600)
        got = [json.loads(l) for l in out.splitlines() if l.startswith("{")]
        if rc != 0 or len(got) < n:
            ctx.violation("cycle harness did not finish (%d of %d cases): a cycle call hung or crashed: %s" % (len(got), n, out[-300:]),
                          {"broken": "harness-run", "completed": len(got), "last_case": got[-1] if got else None, "log": out[-1500:]}, no_input=False)
        cases += got
    if not cases:
        return
    distinct, vk = set(), {}
    for c in cases:
        distinct.add(json.dumps([c["variant"], c["cap"], c["start"], c["len"], c["rlen"], c["subs"], c["img"]], sort_keys=True))
        vk[c["variant"]] = vk.get(c["variant"], 0) + 1
        r = oracle(c)
        if r:
            slim = {k: c[k] for k in c if k not in ("img", "img_after")} if len(c["img"]) > 400 else c
            ctx.classify(r[0], "C07 oracle: " + r[1], slim)
    nsh = 16 if quick else 96
    shards = [cases[i::nsh] for i in range(nsh)]
    texts = []
    for sh in shards:
        lines = ["From EC Require Import Base.Prelude Base.Bytes Cycle.Cycle Wire.Check.", "Local Open Scope N_scope.",
                 "Definition cases : list ((cfg * mode * variant * list N * list (list answer)) * list Z) := [",
                 ";\n".join(gal_case(c) for c in sh), "].",
                 "Eval vm_compute in (0, map fst (mismatches (fun c => match c with (cf, md, v, img, rs) => obs_cycle cf md v img rs end) cases 0))."]
        texts.append("\n".join(lines) + "\n")
    results = vlib.coq_eval_shards(ctx.pid, texts)
    dis = 0
    import re
    for (rc, out), sh in zip(results, shards):
        if rc != 0:
            ctx.violation("model evaluation failed: " + out[-300:], {"broken": "correspondence", "log": out[-2000:]}, no_input=True)
            continue
        v = vlib.parse_evals(out)
        if not v or not v[0].endswith(", [])"):
            dis += 1
            idxs = [int(x) for x in re.findall(r"\d+", v[0][3:])] if v else []
            first = sh[idxs[0]] if idxs and idxs[0] < len(sh) else None
            ctx.violation("model and implementation disagree on a cycle (first differing case in replay)",
                          {"broken": "correspondence", "model": "coq/Cycle/Cycle.v obs_cycle", "case": first}, no_input=True)
    ctx.coverage.update(evaluations=len(cases), distinct_nontrivial=len(distinct),
                        rule="one case = (variant, frame size, logical start, image length, input/output split, 0..64 SubDevices, image bytes, random device answers incl. large working counters); distinct by configuration+image",
                        variants=vk, frame_sizes=sorted({c["cap"] for c in cases}), disagreements_checked=dis,
                        samples=[{k: cases[0][k] for k in ("variant", "cap", "start", "len", "rlen", "subs", "frames")}])
