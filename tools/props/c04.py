"""C04: every transmitted frame is well formed.  Model coq/Pdu/Frame.v, theorems Props/C04.v,
tie: random push programs through the cfg(ethercrab_verif) frame wrappers vs the model in Coq,
plus an independent Python encoder as spec oracle on the implementation's bytes."""
import json, os
import vlib

KINDS = ["CNop", "CAprd", "CFprd", "CBrd", "CLrd", "CBwr", "CApwr", "CFpwr", "CFrmw", "CLwr", "CLrw"]
CODES = [0, 1, 4, 7, 10, 8, 2, 5, 14, 11, 12]
TB = ["Coq 8.16.1 kernel + vm_compute", "hand-written model coq/Pdu/Frame.v tied by differential runs of harness/src/bin/c04.rs",
      "cfg(ethercrab_verif) wrappers in /repo/src/verif.rs (thin delegation)", "frame sizes above 2063 bytes are outside the quantifier"]


def spec_frame(case):
    """independent encoder (ETG.1000.4 5.4): returns expected frame bytes from the accepted pushes"""
    dgs = []
    for p, r in zip(case["prog"], case["results"]):
        k, a, reg = p["kind"], p["a"], p["r"]
        if k in (1, 6):
            adp, ado = (-a) & 0xffff, reg
        elif k in (3, 5):
            adp, ado = 0, reg
        elif k in (4, 9, 10):
            adp, ado = a & 0xffff, (a >> 16) & 0xffff
        elif k == 0:
            adp, ado = 0, 0
        else:
            adp, ado = a & 0xffff, reg
        if r[0] == 1:
            data = p["data"]
            ln = max(len(data), p["ovr"]) if p.get("ovr") is not None else len(data)
            if r[3] != ln + 12:
                return None, f"alloc_size {r[3]} != len+12 ({ln + 12})"
            dgs.append((CODES[k], r[1], adp, ado, ln, data))
        elif r[0] == 4:
            n = r[1]
            dgs.append((CODES[k], r[2], adp, ado, n, p["data"][:n]))
    body = []
    for i, (code, idx, adp, ado, ln, data) in enumerate(dgs):
        more = 0x8000 if i < len(dgs) - 1 else 0
        lf = ln | more
        body += [code, idx, adp & 255, adp >> 8, ado & 255, ado >> 8, lf & 255, lf >> 8, 0, 0]
        body += list(data) + [0] * (ln - len(data)) + [0, 0]
    hdr = len(body) | 0x1000
    return [255] * 6 + [0x10] * 6 + [0x88, 0xA4, hdr & 255, hdr >> 8] + body, None


def oracle(ctx, case):
    cap = case["cap"]
    room = cap - 16
    used = 0
    idx = case["idx0"]
    for p, r in zip(case["prog"], case["results"]):
        if p["p"] == "pdu":
            ln = max(len(p["data"]), p["ovr"]) if p["ovr"] is not None else len(p["data"])
            fits = used + ln + 12 <= room
            if fits != (r[0] == 1):
                return "a datagram that %s was %s" % ("fits" if fits else "does not fit", "refused" if fits else "accepted")
            if fits:
                if r[1] != idx:
                    return "wrong datagram index"
                used += ln + 12
            idx = (idx + 1) % 256
        else:
            avail = max(room - used - 12, 0)
            expect_none = len(p["data"]) == 0 or avail == 0
            if expect_none != (r[0] == 3):
                return "fill-the-rest push: None/Some verdict wrong"
            if not expect_none:
                n = min(avail, len(p["data"]))
                if r[0] != 4 or r[1] != n:
                    return f"fill-the-rest push took {r} bytes, expected {n}"
                if r[2] != idx:
                    return "wrong datagram index"
                used += n + 12
                idx = (idx + 1) % 256
    exp, err = spec_frame(case)
    if err:
        return err
    if exp != case["bytes"]:
        return "transmitted bytes differ from the independent encoding of the accepted datagrams"
    if len(case["bytes"]) > cap:
        return "frame exceeds the configured frame size"
    if case["nframes"] != 1:
        return "expected exactly one sendable frame"
    return None


def gal_case(c):
    ps = []
    for p in c["prog"]:
        cmd = f"(mk_command {KINDS[p['kind']]} {p['a']} {p['r']})"
        if p["p"] == "pdu":
            o = "None" if p["ovr"] is None else f"(Some {p['ovr']}%nat)"
            ps.append(f"PPdu {cmd} {vlib.gz(p['data'])} {o}")
        else:
            ps.append(f"PRest {cmd} {vlib.gz(p['data'])}")
    exp = []
    for r in c["results"]:
        exp += r
    exp += [-7] + c["bytes"]
    return "((%d%%nat, %d, [%s]), %s%%Z)" % (c["cap"], c["idx0"], "; ".join(ps), vlib.gz(exp))


def run(ctx, replay=None):
    quick = ctx.tier == "quick"
    n = 1500 if quick else 12000
    ok = vlib.proof_stage(ctx, "Props/C04.v")
    ctx.coverage["trusted_base"] = TB
    rc, out, exe = vlib.cargo_build("c04")
    if rc != 0:
        ctx.violation("harness does not build against the current tree: " + out[-400:],
                      {"broken": "correspondence", "stage": "cargo build c04", "log": out[-3000:]}, no_input=True)
        return
    rc, out, _ = vlib.sh([exe, str(ctx.seed), str(n)] + (["all"] if not quick else []), timeout=900)
    cases = [json.loads(l) for l in out.splitlines() if l.startswith("{")]
    if rc != 0 or not cases:
        ctx.violation("harness run failed (panic in the implementation?): " + out[-400:],
                      {"broken": "harness-run", "log": out[-3000:]}, no_input=False)
        return
    distinct = set()
    kinds = {}
    panicked = [c for c in cases if c.get("panic")]
    for c in panicked[:3]:
        ctx.classify("push-panic", "C04 oracle: building and sending this frame panicked inside the frame builder", c)
    cases = [c for c in cases if not c.get("panic")]
    for c in cases:
        distinct.add(json.dumps([c["cap"], c["prog"]], sort_keys=True))
        for r in c["results"]:
            kinds[r[0]] = kinds.get(r[0], 0) + 1
        msg = oracle(ctx, c)
        if msg:
            ctx.classify("frame-malformed", "C04 oracle: " + msg, c)
    # correspondence inside Coq
    nsh = 16
    shards = [cases[i::nsh] for i in range(nsh)]
    texts = []
    for sh in shards:
        lines = ["From EC Require Import Base.Prelude Base.Bytes Pdu.Frame Wire.Check.", "Local Open Scope N_scope.",
                 "Definition cases : list ((nat * N * list push) * list Z) := ["]
        lines.append(";\n".join(gal_case(c) for c in sh))
        lines.append("].")
        lines.append("Eval vm_compute in (0, mismatches (fun c => obs_run (fst (fst c)) (snd (fst c)) (snd c)) cases 0).")
        texts.append("\n".join(lines) + "\n")
    results = vlib.coq_eval_shards(ctx.pid, texts)
    dis = 0
    for (rc, out), sh in zip(results, shards):
        if rc != 0:
            ctx.violation("model evaluation failed: " + out[-300:], {"broken": "correspondence", "log": out[-2000:]}, no_input=True)
            continue
        v = vlib.parse_evals(out)
        if not v or not v[0].endswith(", [])"):
            dis += 1
            import re
            m = re.search(r"\((\d+), \[", v[0][4:]) if v else None
            first = sh[int(m.group(1))] if m else None
            ctx.violation("model and implementation disagree on a push program: " + (v[0][:200] if v else "no output"),
                          {"broken": "correspondence", "first_case": first, "model_says": v[0][:2000] if v else None}, no_input=True)
    ctx.coverage.update(evaluations=len(cases), distinct_nontrivial=len(distinct),
                        rule="one case = (frame size, initial datagram index, program of 1..7 pushes); distinct by (size, program); every case builds and transmits a frame",
                        result_kinds={"push_ok": kinds.get(1, 0), "too_long": kinds.get(2, 0), "rest_none": kinds.get(3, 0), "rest_some": kinds.get(4, 0)},
                        frame_sizes=len({c["cap"] for c in cases}), disagreements_checked=dis,
                        samples=[{k: cases[1][k] for k in ("cap", "idx0", "prog", "results")}])
