"""Shared by C12/C13/C14: run the sii harness, compare every run with the Coq model
(Sii/Range.v, Sii/Parse.v), and give the per-property oracles their cases."""
import json, re
import vlib

ITEMS = {"SyncManager": 1, "FmmuEx": 2, "Pdo": 3}


def err_obs(e):
    if e == "Eeprom(SectionOverrun)":
        return [1]
    if e == "Eeprom(NoCategory)":
        return [2]
    if e == "Eeprom(Decode)":
        return [3]
    m = re.match(r"Capacity\((\w+)\)", e)
    if m:
        return [4, ITEMS.get(m.group(1), 99)]
    if e == "Wire(InvalidValue)":
        return [5, 1]
    if e == "Wire(ReadBufferTooShort)":
        return [5, 0]
    m = re.match(r"StringTooLong \{ max_length: \d+, string_length: (\d+) \}", e)
    if m:
        return [6, int(m.group(1))]
    if e == "Internal":
        return [7]
    return [99]


def exp_run(r, patches):
    """expected observation of one query run"""
    if r["res"] == "Ok":
        w = [x for kv in patches + r["writes"] for x in kv]
        return [0] + r["out"] + [-7] + w
    if r["res"] == "Err":
        return [-1] + err_obs(r["err"])
    return {"PANIC": [-98], "HANG": [-99]}.get(r["res"], [-97])


def exp_range(c):
    head = {"Ok": [0], "PANIC": [-98], "HANG": [-99]}.get(c["res"])
    if c["res"] == "Err":
        head = [-1] + err_obs(c["err"])
    if c["res"] == "Err" and not c["out"] and c.get("new_failed"):
        return head
    w = [x for kv in c["patches"] + c["writes"] for x in kv] if c["res"] == "Ok" else []
    return head + [-7] + c["out"] + [-7] + w


def gal_prov(c, name):
    return "{| p_byte := img_fun %s %d; p_cs := %d%%nat; p_writes := [%s] |}" % (
        name, c["fill"], c["cs"], "; ".join("(%d, %d)" % (a, v) for a, v in reversed(c["patches"])))


ROP = {0: "RRead %d%%nat", 1: "RReadExact %d%%nat", 2: "RReadByte", 3: "RSkip %d", 4: "RWrite %d%%nat", 5: "RWriteAll %d%%nat"}


def gal_rop(op):
    k, n = op
    return "(" + (ROP[k] % n if "%d" in ROP[k] else ROP[k]) + ")"


def run_harness(ctx, mode, n, release=False, seed_off=0):
    rc, out, exe = vlib.cargo_build("sii", release=release)
    if rc != 0:
        ctx.violation("harness does not build against the current tree: " + out[-400:], {"broken": "correspondence", "log": out[-3000:]}, no_input=True)
        return []
    rc, out, _ = vlib.sh([exe, mode, str(ctx.seed + seed_off), str(n)], timeout=1800)
    cases = [json.loads(l) for l in out.splitlines() if l.startswith("{")]
    if rc != 0 or len(cases) < n:
        ctx.violation("sii harness (%s) did not finish: %s" % (mode, out[-300:]), {"broken": "harness-run", "log": out[-1500:]}, no_input=False)
    return cases


def compare_with_model(ctx, cases, label):
    """cases: range cases and image cases (wf/adv/alias).  Returns number of disagreements."""
    nsh = 16
    texts, shards = [], []
    for i in range(nsh):
        cs = cases[i::nsh]
        shards.append(cs)
        lines = ["From EC Require Import Base.Prelude Base.Bytes Sii.Range Sii.Parse Sii.Img Wire.Check.", "Local Open Scope N_scope."]
        evals = []
        for k, c in enumerate(cs):
            md = "Release" if c["release"] else "Debug"
            lines.append("Definition i%d := Eval vm_compute in img_map %s." % (k, vlib.gz(list(bytes.fromhex(c["img"])))))
            if c["kind"] == "raw":
                lines.append("Definition c%d : list Z := obs_raw %s %d %d%%nat %s %s." % (
                    k, gal_prov(c, "i%d" % k), c["word"], c["n"], "true" if c["exact"] else "false", "true" if c["write"] else "false"))
                lines.append("Definition e%d : list Z := %s%%Z." % (k, vlib.gz(exp_run(dict(c, q=0, arg=0), c["patches"]))))
                evals.append("(if list_eq_dec Z.eq_dec c%d e%d then [] else [(%d, 0)%%Z])" % (k, k, k))
            elif c["kind"] == "range":
                lines.append("Definition c%d : list Z := obs_range %s %d %d [%s]." % (
                    k, gal_prov(c, "i%d" % k), c["start"], c["len"], "; ".join(gal_rop(o) for o in c["ops"])))
                lines.append("Definition e%d : list Z := %s%%Z." % (k, vlib.gz(exp_range(c))))
                evals.append("(if list_eq_dec Z.eq_dec c%d e%d then [] else [(%d, 0)%%Z])" % (k, k, k))
            else:
                runs = c["runs"] if "runs" in c else [dict(q=13, arg=c["alias"], res=c["res"], err=c.get("err", ""), out=[], writes=c["writes"])]
                for j, r in enumerate(runs):
                    lines.append("Definition c%d_%d : list Z := obs_query %s %s %d %d." % (k, j, md, gal_prov(c, "i%d" % k), r["q"], r["arg"]))
                    lines.append("Definition e%d_%d : list Z := %s%%Z." % (k, j, vlib.gz(exp_run(r, c["patches"]))))
                    evals.append("(if list_eq_dec Z.eq_dec c%d_%d e%d_%d then [] else [(%d, %d)%%Z])" % (k, j, k, j, k, j))
        lines.append("Eval vm_compute in (0, (" + " ++\n ".join(evals or ["[]"]) + ")%list)." if evals else "Eval vm_compute in (0, @nil (Z*Z)).")
        texts.append("\n".join(lines) + "\n")
    results = vlib.coq_eval_shards(ctx.pid + "_" + label, texts, timeout=1500)
    dis = 0
    for (rc, out), cs in zip(results, shards):
        if rc != 0:
            ctx.violation("model evaluation failed: " + out[-300:], {"broken": "correspondence", "log": out[-2000:]}, no_input=True)
            continue
        v = vlib.parse_evals(out)
        if not v or not v[0].endswith(", [])"):
            pairs = re.findall(r"\((\d+), (\d+)\)", (v[0][3:] if v else "").replace("%Z", ""))
            dis += max(len(pairs), 1)
            if not pairs:
                ctx.violation("model evaluation gave no verdict: " + out[-300:], {"broken": "correspondence", "log": out[-2000:]}, no_input=True)
            else:
                k, j = int(pairs[0][0]), int(pairs[0][1])
                c = cs[k]
                first = dict(c)
                if "runs" in c:
                    first["runs"] = [c["runs"][j]]
                ctx.violation("model and implementation disagree on %d %s run(s) (first differing one in replay)" % (len(pairs), label),
                              {"broken": "correspondence", "case": first}, no_input=True)
    return dis
