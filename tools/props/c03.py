"""C03: frame slots are always returned."""
import json
import vlib
from props import slots_common as sc

TB = ["Coq 8.16.1 kernel + vm_compute", "hand-written model coq/Pdu/Slots.v tied by differential histories (harness/src/bin/slots.rs)",
      "cfg(ethercrab_verif) frame wrappers and slot snapshot accessor", "atomics modelled as sequentially consistent single steps; each API call atomic (no pre-emption inside a call)"]


def run(ctx, replay=None):
    quick = ctx.tier == "quick"
    n, depth = (600, 30) if quick else (6000, 60)
    vlib.proof_stage(ctx, "Props/C03.v")
    ctx.coverage["trusted_base"] = TB
    cases = sc.run_histories(ctx, "c03", n, depth)
    if cases is None:
        return
    distinct = set()
    opk = {}
    for c in cases:
        distinct.add(json.dumps(c["ops"], sort_keys=True))
        for o in c["ops"]:
            opk[o["o"]] = opk.get(o["o"], 0) + 1
        for note in c["oracle"]:
            key = note.split(":")[0]
            if key.startswith("capacity") or key.startswith("alloc"):
                ctx.classify(key, "C03 oracle: " + note, {"case": c, "note": note})
    dis = sc.compare_in_coq(ctx, cases)
    # the same question inside the transmit/receive windows (C06's window-granular histories: a
    # request abandoned or timing out while the other side is inside its buffer): is every slot
    # allocatable again once all handles are gone?  Only the capacity notes are C03's business here.
    wcases = sc.run_histories(ctx, "c06", n // 2, depth)
    wnotes = 0
    for c in wcases or []:
        for note in c["oracle"]:
            key = note.split(":")[0]
            if key.startswith("capacity") or key.startswith("alloc"):
                wnotes += 1
                # a request that went away while TX held its frame: the known tx-window defect (C06),
                # which loses the slot; anything else that loses or duplicates a slot is new
                tx = any(w.split(":")[0].endswith("-tx") for w in c["windows"])
                ctx.classify("tx-window-slot-lost" if tx and key in ("capacity-lost", "alloc-live-slot", "capacity-exceeded") else key,
                             "C03 oracle (window-granular history): " + note, {"case": c, "note": note})
    ctx.coverage.update(evaluations=len(cases), distinct_nontrivial=len(distinct),
                        rule="one evaluation = one operation history over 1..4 slots (alloc, pushes, mark, drops, TX ok/partial/error, genuine/duplicate/garbage responses, polls with virtual-time deadlines and retries) followed by the drain-and-reallocate probe; distinct by op list",
                        op_distribution=opk, disagreements_checked=dis, window_histories=len(wcases or []),
                        samples=[{"n": cases[0]["n"], "cap": cases[0]["cap"], "ops": cases[0]["ops"][:8]}])
