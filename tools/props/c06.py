"""C06: deadlines and retries."""
import json
import vlib
from props import slots_common as sc

TB = ["Coq 8.16.1 kernel + vm_compute", "hand-written model coq/Pdu/Slots.v + Pdu/Deadline.v tied by differential histories (harness/src/bin/slots.rs, modes c06/count)",
      "virtual clock (embassy-time driver implemented by the harness); the embassy Timer fires from its second poll on",
      "cfg(ethercrab_verif) yield points RX_CLAIMED, RX_COPIED, DROP_RELEASED, POLL_NOT_READY", "atomics modelled as sequentially consistent single steps"]

# oracle keys that are the consequences of the documented windows
WINDOW_KEYS = {"capacity-lost", "tx-corrupt", "alloc-live-slot", "drop-panic", "capacity-exceeded"}


def run(ctx, replay=None):
    quick = ctx.tier == "quick"
    n, depth = (900, 30) if quick else (9000, 50)
    vlib.proof_stage(ctx, "Props/C06.v")
    ctx.coverage["trusted_base"] = TB
    ctx.assumptions += ["the transmission-count clause assumes the transmit task services every sendable frame before the next deadline (as the property states)",
                        "the safety clause is refuted on the model (c06_safe_refuted_tx_window / _rx_window) and reproduced on the implementation: known findings"]
    cases = sc.run_histories(ctx, "c06", n, depth)
    if cases is None:
        return
    distinct, kinds, wins = set(), {}, {}
    for c in cases:
        distinct.add(json.dumps(c["ops"], sort_keys=True))
        kinds[c["kind"]] = kinds.get(c["kind"], 0) + 1
        wset = sorted({w.split(":")[0] for w in c["windows"]})
        for w in wset:
            wins[w] = wins.get(w, 0) + 1
        for note in c["oracle"]:
            key = note.split(":")[0]
            tx = any(w.endswith("-tx") for w in wset)
            rx = any(w.endswith("-rx") for w in wset)
            pr = any(w.startswith("expiry-after-rxdone") for w in wset)
            if key in WINDOW_KEYS and pr and not tx:
                ctx.classify("poll-rx-race", "C06 oracle: " + note, {"case": c, "note": note})
            elif key in WINDOW_KEYS and tx:
                ctx.classify("tx-window", "C06 oracle: " + note, {"case": c, "note": note})
            elif key in WINDOW_KEYS and rx:
                ctx.classify("rx-window", "C06 oracle: " + note, {"case": c, "note": note})
            else:
                ctx.classify(key, "C06 oracle: " + note, {"case": c, "note": note})
    dis = sc.compare_in_coq(ctx, cases)
    ctx.coverage.update(evaluations=len(cases), distinct_nontrivial=len(distinct),
                        rule="two kinds of case: 'count' = one request, retries 0..3, response lost always or delivered after transmission k, deadline passing before the caller polls; 'history' = random operation histories in which drops, expiries and allocations are also executed INSIDE the windows (while TX holds the frame, between RX claim/copy/done, between the poll's CAS and its stores, between release and key clear); distinct by op list",
                        kinds=kinds, windows_entered=wins, disagreements_checked=dis,
                        samples=[{"kind": cases[0]["kind"], "n": cases[0]["n"], "ops": cases[0]["ops"][:10]}])
