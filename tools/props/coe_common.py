"""Shared by C15/C16: run the coe harness, compare every case with coq/Coe/Sdo.v."""
import json, re
import vlib

ABORT = None


def abort_codes():
    global ABORT
    if ABORT is None:
        txt = open(vlib.REPO + "/src/mailbox/coe/abort_code.rs").read()
        ABORT = {m.group(1): int(m.group(2).replace("_", ""), 16) for m in re.finditer(r"^\s*(\w+) = (0x[0-9a-fA-F_]+),", txt, flags=re.M)}
    return ABORT


def err_obs(e):
    m = re.match(r"Mailbox\(Emergency \{ error_code: (\d+), error_register: (\d+) \}\)", e)
    if m:
        return [10, int(m.group(1)), int(m.group(2))]
    m = re.match(r"Mailbox\(Aborted \{ code: (\w+)(?:\((\d+)\))?, address: (\d+), sub_index: (\d+) \}\)", e)
    if m:
        code = int(m.group(2)) if m.group(2) else abort_codes().get(m.group(1), -1)
        return [11, code, int(m.group(3)), int(m.group(4))]
    m = re.match(r"Mailbox\(SdoResponseInvalid \{ address: (\d+), sub_index: (\d+) \}\)", e)
    if m:
        return [12, int(m.group(1)), int(m.group(2))]
    m = re.match(r"Mailbox\(TooLong \{ address: (\d+), sub_index: (\d+) \}\)", e)
    if m:
        return [13, int(m.group(1)), int(m.group(2))]
    if e == "Wire(InvalidValue)":
        return [5, 1]
    if e == "Wire(ReadBufferTooShort)":
        return [5, 0]
    if e == "Pdu(Decode)":
        return [14]
    if e == "Internal":
        return [7]
    if e.startswith("Timeout"):
        return [15]
    if e.startswith("Capacity"):
        return [16]
    return [99]


def expected(c):
    reqs = [x for r in c["requests"] for x in list(bytes.fromhex(r)) + [-7]]
    if c["res"] == "Ok":
        return [0] + c["out"] + [-7] + reqs
    if c["res"] == "Err":
        return [-1] + err_obs(c["err"]) + [-7] + reqs
    return {"PANIC": [-98], "HANG": [-99]}.get(c["res"], [-97])


def hexl(h):
    return vlib.gz(list(bytes.fromhex(h)))


def gal_case(c):
    dev = "{| d_mlen := %d%%nat; d_wlen := %d%%nat; d_pad := %d; d_q := [%s]; d_per := [%s]; d_reqs := []; d_counter := 1 |}" % (
        c["mlen"], c.get("wmlen", c["mlen"]), c["pad"], "; ".join(hexl(x) for x in c["stale"]),
        "; ".join("[" + "; ".join(hexl(x) for x in rs) + "]" for rs in c["per_req"]))
    op = c["op"]
    if op == 0:
        call = "OpRead %d %d %d%%nat" % (c["idx"], c["sub"], c["tn"])
    elif op == 1:
        v = (c["wr_vals"][0] if c["wr_vals"] else 7) & ((1 << (8 * c["wlen"])) - 1)
        call = "OpWrite %d %d %s" % (c["idx"], c["sub"], vlib.gz(list(v.to_bytes(c["wlen"], "little"))))
    elif op == 2:
        call = "OpWriteArray %d [%s]" % (c["idx"], "; ".join(vlib.gz(list(v.to_bytes(4, "little"))) for v in c["wr_vals"]))
    elif op == 3:
        call = "OpReadArray %d 6%%nat" % c["idx"]
    else:
        call = "OpInfo %s" % ("true" if c["idx"] % 2 == 0 else "false")
    return "((%s, %s), %s%%Z)" % (dev, call, vlib.gz(expected(c)))


def run_harness(ctx, mode, n, release=False, seed_off=0):
    rc, out, exe = vlib.cargo_build("coe", release=release)
    if rc != 0:
        ctx.violation("harness does not build against the current tree: " + out[-400:], {"broken": "correspondence", "log": out[-3000:]}, no_input=True)
        return []
    rc, out, _ = vlib.sh([exe, mode, str(ctx.seed + seed_off), str(n)], timeout=1800)
    cases = [json.loads(l) for l in out.splitlines() if l.startswith("{")]
    if rc != 0 or len(cases) < n:
        ctx.violation("coe harness (%s) did not finish: %s" % (mode, out[-300:]), {"broken": "harness-run", "log": out[-1500:]}, no_input=False)
    return cases


def compare_with_model(ctx, cases):
    nsh = 16
    texts, shards = [], []
    for i in range(nsh):
        cs = cases[i::nsh]
        shards.append(cs)
        lines = ["From EC Require Import Base.Prelude Base.Bytes Coe.Sdo Coe.Run Wire.Check.", "Local Open Scope N_scope.",
                 "Definition cs : list ((dev * cop) * list Z) := [" + ";\n".join(gal_case(c) for c in cs) + "].",
                 "Eval vm_compute in (0, map fst (mismatches (fun x => obs_run (fst x) (snd x)) cs 0))."]
        texts.append("\n".join(lines) + "\n")
    results = vlib.coq_eval_shards(ctx.pid, texts, timeout=1500)
    dis = 0
    for (rc, out), cs in zip(results, shards):
        if rc != 0:
            ctx.violation("model evaluation failed: " + out[-300:], {"broken": "correspondence", "log": out[-2000:]}, no_input=True)
            continue
        v = vlib.parse_evals(out)
        if not v or not v[0].endswith(", [])"):
            idxs = [int(x) for x in re.findall(r"\d+", (v[0][3:] if v else "").replace("%N", ""))]
            dis += max(1, len(idxs))
            first = cs[idxs[0]] if idxs and idxs[0] < len(cs) else None
            ctx.violation("model and implementation disagree on %d CoE case(s) (first differing one in replay)" % len(idxs), {"broken": "correspondence", "case": first}, no_input=True)
    return dis
