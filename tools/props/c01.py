"""C01: every response reaches exactly the request that caused it, byte-exact."""
import json
import vlib
from props import slots_common as sc

TB = ["Coq 8.16.1 kernel + vm_compute", "hand-written models coq/Pdu/Slots.v, View.v tied by differential histories that read responses (harness/src/bin/slots.rs mode c01)",
      "cfg(ethercrab_verif) wrappers (first_pdu, iterator, view accessors), yield points and slot snapshots",
      "atomics modelled as sequentially consistent single steps; views read memory as the model of the slot buffer says it is now"]


def run(ctx, replay=None):
    quick = ctx.tier == "quick"
    n, depth = (500, 90) if quick else (5000, 140)
    vlib.proof_stage(ctx, "Props/C01.v")
    ctx.coverage["trusted_base"] = TB
    ctx.assumptions += ["fewer than 256 datagram indices are allocated while a request is outstanding: formalised as 'no other live slot carries the same first index' (hypothesis of c01_routing)",
                        "no deadline expires for the request under observation (C06)",
                        "the view-stability clause is refuted (c01_view_stable_refuted) and carried as a known finding"]
    cases = sc.run_histories(ctx, "c01", n, depth)
    if cases is None:
        return
    distinct, opk = set(), {}
    for c in cases:
        distinct.add(json.dumps(c["ops"], sort_keys=True))
        for o in c["ops"]:
            opk[o["o"]] = opk.get(o["o"], 0) + 1
        for note in c["oracle"]:
            key = note.split(":")[0]
            if key == "view-unstable":
                ctx.classify("view-outlives-slot", "C01 oracle: " + note, {"case": c, "note": note})
            elif key in ("capacity-lost", "capacity-exceeded"):
                continue
            else:
                ctx.classify(key, "C01 oracle: " + note, {"case": c, "note": note})
    dis = sc.compare_in_coq(ctx, cases)
    # requests that END by their deadline (retries exhausted) next to later requests: the slot they
    # give back must not keep advertising its old first index (c01_no_stale_keys) - call-granular
    # histories with virtual-time deadlines, compared with the model slot by slot (status, key, bytes)
    tcases = sc.run_histories(ctx, "c03", n // 2, 40)
    for c in tcases or []:
        for note in c["oracle"]:
            key = note.split(":")[0]
            if key.startswith("routing") or key.startswith("stale"):
                ctx.classify(key, "C01 oracle (histories with deadlines): " + note, {"case": c, "note": note})
    dis += sc.compare_in_coq(ctx, tcases) if tcases else 0
    ctx.coverage.update(deadline_histories=len(tcases or []), evaluations=len(cases), distinct_nontrivial=len(distinct),
                        rule="one evaluation = one history over 1..4 slots biased towards complete round trips: responses (genuine, duplicate, late, reordered, mutated) delivered in any order and inside windows, completed requests read through first_pdu (right and wrong handles) or the datagram iterator, views trimmed by 0..len+2 and re-read after later operations; oracles on the implementation: the response completes the request with the same first index, returned data/working counters equal the delivered frame's datagrams, trimmed views show the rest of their data area, held views keep their bytes",
                        op_distribution=opk, responses_read=opk.get("take", 0) + opk.get("iter", 0),
                        view_reads=opk.get("vread", 0), disagreements_checked=dis,
                        samples=[{"n": cases[1]["n"], "cap": cases[1]["cap"], "ops": cases[1]["ops"][:12]}])
