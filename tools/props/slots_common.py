"""Shared by the PDU-loop properties (C03, C05, C06, ...): run the `slots` harness, compare every
history with coq/Pdu/Slots.v inside Coq, hand back the cases with their oracle notes."""
import json, re
import vlib

KINDS = ["CNop", "CAprd", "CFprd", "CBrd", "CLrd", "CBwr", "CApwr", "CFpwr", "CFrmw", "CLwr", "CLrw"]


def gal_op(o):
    k = o["o"]
    if k == "alloc":
        return "OAlloc"
    if k == "push":
        ov = "None" if o["ovr"] is None else f"(Some {o['ovr']}%nat)"
        return f"OPush {o['i']}%nat (mk_command {KINDS[o['kind']]} {o['a']} {o['r']}) {vlib.gz(o['data'])} {ov}"
    if k == "rest":
        return f"OPushRest {o['i']}%nat (mk_command {KINDS[o['kind']]} {o['a']} {o['r']}) {vlib.gz(o['data'])}"
    if k == "mark":
        return f"OMark {o['i']}%nat"
    if k == "dropc":
        return f"ODropCreated {o['i']}%nat"
    if k == "txclaim":
        return "OTxClaim"
    if k == "txdone":
        return f"OTxDone {o['i']}%nat {o['oc']}"
    if k == "rx":
        return f"ORx {vlib.gz(o['bytes'])}"
    if k == "poll":
        return f"OPoll {o['i']}%nat {'true' if o['expired'] else 'false'} {o['retries']}%nat"
    if k == "dropf":
        return f"ODropFut {o['i']}%nat"
    if k == "dropr":
        return f"ODropReceived {o['i']}%nat"
    if k == "reset":
        return "OReset"
    if k == "rxbegin":
        return f"ORxBegin {vlib.gz(o['bytes'])}"
    if k == "rxcopy":
        return f"ORxCopy {o['k']}%nat {vlib.gz(o['i'])}"
    if k == "rxend":
        return f"ORxEnd {o['k']}%nat"
    if k == "droprel":
        return f"ODropRelease {o['i']}%nat"
    if k == "dropclear":
        return f"ODropClear {o['i']}%nat"
    if k == "take":
        return f"OTake {o['i']}%nat {o['code']} {o['idx']}"
    if k == "iter":
        return f"OIter {o['i']}%nat"
    if k == "vread":
        return f"OViewRead {o['i']}%nat {o['start']}%nat {o['len']}%nat"
    if k == "pollbegin":
        return f"OPollBegin {o['i']}%nat"
    if k == "pollend":
        return f"OPollEnd {o['i']}%nat {o['was']} {'true' if o['expired'] else 'false'} {o['retries']}%nat"
    raise ValueError(k)


def gal_case(c):
    return "((%s, %d%%nat, %d%%nat, [%s]), %s%%Z)" % ("true" if c["full"] else "false", c["n"], c["cap"],
                                                     "; ".join(gal_op(o) for o in c["ops"]), vlib.gz(c["obs"]))


def run_histories(ctx, mode, n, depth, extra_args=()):
    rc, out, exe = vlib.cargo_build("slots")
    if rc != 0:
        ctx.violation("harness does not build against the current tree: " + out[-400:],
                      {"broken": "correspondence", "stage": "cargo build slots", "log": out[-3000:]}, no_input=True)
        return None
    rc, out, _ = vlib.sh([exe, mode, str(ctx.seed), str(n), str(depth)] + list(extra_args), timeout=1200)
    cases = []
    for l in out.splitlines():
        if l.startswith("{"):
            try:
                cases.append(json.loads(l))
            except Exception:
                pass
    if rc != 0 or not cases:
        ctx.violation("harness run failed (panic in the implementation?): " + out[-600:],
                      {"broken": "harness-run", "log": out[-3000:]}, no_input=False)
        return None
    return cases


def compare_in_coq(ctx, cases, nsh=16):
    shards = [cases[i::nsh] for i in range(nsh)]
    shards = [s for s in shards if s]
    texts = []
    for sh in shards:
        lines = ["From EC Require Import Base.Prelude Base.Bytes Pdu.Frame Pdu.Slots Pdu.View Pdu.Hist Wire.Check.", "Local Open Scope N_scope.",
                 "Definition cases : list ((bool * nat * nat * list op) * list Z) := [",
                 ";\n".join(gal_case(c) for c in sh), "].",
                 "Eval vm_compute in (0, map fst (mismatches (fun c => obs_history (fst (fst (fst c))) (snd (fst (fst c))) (snd (fst c)) (snd c)) cases 0))."]
        texts.append("\n".join(lines) + "\n")
    results = vlib.coq_eval_shards(ctx.pid, texts)
    dis = 0
    for (rc, out), sh in zip(results, shards):
        if rc != 0:
            ctx.violation("model evaluation failed: " + out[-300:], {"broken": "correspondence", "log": out[-2000:]}, no_input=True)
            dis += 1
            continue
        v = vlib.parse_evals(out)
        if not v or not v[0].endswith(", [])"):
            dis += 1
            idxs = [int(x) for x in re.findall(r"\d+", v[0][3:])] if v else []
            first = sh[idxs[0]] if idxs and idxs[0] < len(sh) else None
            ctx.violation("model and implementation disagree on an operation history (first differing case in replay)",
                          {"broken": "correspondence", "model": "coq/Pdu/Slots.v obs_history", "case": first,
                           "mismatching_cases_in_shard": idxs[:20]}, no_input=True)
    return dis
