"""C12: EEPROM reads return exactly the stored bytes and parse to what they encode."""
import json
import vlib
from props import sii_common as S

TB = ["Coq 8.16.1 kernel + vm_compute", "hand-written models coq/Sii/Range.v and coq/Sii/Parse.v tied by differential runs (harness/src/bin/sii.rs) of the real EepromRange and SubDeviceEeprom queries over an in-memory provider",
      "cfg(ethercrab_verif) hooks verif::sii_query / verif::sii_range", "enum definitions translated from the sources (Gen/SrcLayouts.v) for the typed fields",
      "the device-level SII register protocol (DeviceEeprom) is exercised through the simulator in C14's check, not here"]


def img_byte(c, writes, a):
    for k, v in reversed(c["patches"] + writes):
        if k == a:
            return v
    img = bytes.fromhex(c["img"])
    return img[a] if a < len(img) else c["fill"]


def oracle_range(c):
    """reads deliver exactly the stored bytes of the range, never more"""
    if c["res"] in ("PANIC", "HANG"):
        return None           # C13's subject
    pos, end = 2 * c["start"], 2 * (c["start"] + c["len"])
    out = list(c["out"])
    writes = []
    for op in c["ops"]:
        k, n = op
        n600 = min(n, 600)
        if not out:
            return None       # the sequence stopped with an error before this op
        if k == 0:
            want = min(n600, max(end - pos, 0))
            got = out.pop(0)
            data, out = out[:max(got, 0)], out[max(got, 0):]
            lim = max(0, min(want, 131072 - pos))
            if got > want or data != [img_byte(c, writes, pos + i) for i in range(got)] or (got < lim):
                return "range-read", "read(%d) at byte %d of the range [%d,%d) delivered %d bytes %s" % (n600, pos, 2 * c["start"], end, got, data[:8])
            pos += got
        elif k == 1:
            code = out.pop(0)
            if code == 1:
                data, out = out[:n600], out[n600:]
                if (n600 > 0 and end - pos < n600) or data != [img_byte(c, writes, pos + i) for i in range(n600)]:
                    return "range-read", "read_exact(%d) at byte %d of the range [%d,%d) delivered %s" % (n600, pos, 2 * c["start"], end, data[:8])
                pos += n600
            else:
                if end - pos >= n600 and pos + n600 <= 131072:
                    return "range-read", "read_exact(%d) inside the range reported end of data" % n600
                pos = max(pos, min(end, 131072))
        elif k == 2:
            b = out.pop(0)
            if b != img_byte(c, writes, pos):
                return "range-read", "read_byte at %d delivered %d" % (pos, b)
            pos += 1
        elif k == 3:
            code = out.pop(0)
            if code == 0:
                pos += n
        else:
            return None       # writes: C14's subject
    return None


def oracle_raw(c):
    if c["write"] or c["res"] in ("PANIC", "HANG"):
        return None
    w, n = c["word"], c["n"]
    want = [img_byte(c, [], 2 * w + i) for i in range(n)]
    inside = 2 * w + n <= 131072
    if c["res"] == "Ok":
        data = c["out"] if c["exact"] else c["out"][1:]
        if not c["exact"] and c["out"][0] != len(data):
            return "raw-read", "eeprom_read_raw reported %d bytes but delivered %d" % (c["out"][0], len(data))
        if data != want[:len(data)] or (inside and len(data) != n) or len(data) > n:
            return "raw-read", "reading %d bytes at word %d delivered %d bytes %s, stored are %s" % (n, w, len(data), data[:8], want[:8])
    elif inside:
        return "raw-read", "reading %d bytes at word %d failed: %s" % (n, w, c.get("err"))
    return None


def clean(s, cap):
    if len(s) > cap:
        return ("err", [6, len(s)])
    b = [x if x < 128 else 63 for x in s if x != 0]
    return ("ok", [len(b)] + b)


def find_string(d, idx, cap):
    strings = [bytes.fromhex(x) for x in d["strings"]]
    has_cat = any(o[0] == 10 for o in d["order"])
    if idx == 0 or not has_cat or idx > len(strings):
        return ("ok", [-1])
    return clean(strings[idx - 1], cap)


def expected_query(d, q, arg):
    g = d["general"]
    if q == 0:
        return ("ok", d["ident"])
    if q == 1:
        return ("ok", [-1]) if g is None else find_string(d, g[2], 64)
    if q == 2:
        return ("err", [2]) if g is None else find_string(d, g[3], 128)
    if q == 3:
        return ("ok", [d["kbit"] * 128])
    if q == 4:
        return ("ok", d["mbx"] + [d["protos"]])
    if q == 5:
        return ("err", [2]) if g is None else ("ok", g[:9] + g[9] + [g[10]])
    if q == 6:
        out = [len(d["sms"])]
        for s in d["sms"]:
            st, ln, om, dr, e0, e1, e2, en, ty = s
            derived = ty if ty != 0 else {(0, 0): 4, (0, 1): 3, (2, 0): 2, (2, 1): 1}[(om, dr)]
            out += [st, ln, om, dr, e0, e1, e2, en, ty, derived]
        return ("ok", out)
    if q == 7:
        f = [0 if x == 255 else x for x in d["fmmus"]]
        return ("ok-fmmu", f)
    if q == 8:
        return ("ok", [len(d["fmmu_ex"])] + d["fmmu_ex"])
    if q in (9, 10):
        ps = d["txpdos"] if q == 9 else d["rxpdos"]
        return ("ok", [len(ps)] + [x for p in ps for x in p])
    if q == 11:
        return find_string(d, arg, 64)
    if q == 12:
        return ("ok", [d["alias"]])
    return None


def oracle_wf(c):
    d = c["desc"]
    for r in c["runs"]:
        if r["res"] in ("PANIC", "HANG"):
            continue
        e = expected_query(d, r["q"], r["arg"])
        if e is None:
            continue
        kind, val = e
        if kind == "err":
            ok = r["res"] == "Err" and S.err_obs(r["err"])[:len(val)] == val
        elif kind == "ok-fmmu":
            # the category length is in words: an odd number of FMMUs is followed by one pad byte,
            # which reads as one more unused FMMU
            ok = r["res"] == "Ok" and r["out"][0] == len(r["out"]) - 1 and (r["out"][1:] == val or (len(val) % 2 == 1 and r["out"][1:] == val + [0]))
        else:
            ok = r["res"] == "Ok" and r["out"] == val
        if not ok:
            small = dict(c)
            small["runs"] = [r]
            return ("query-%d" % r["q"], "query %d (arg %d) reported %s %s, the EEPROM encodes %s" % (r["q"], r["arg"], r["res"], (r.get("err") or r["out"][:12]), val[:12]), small)
    return None


def encoder_stage(ctx, wf):
    """ties the specification-side encoders of the round-trip theorems (coq/Sii/Encode.v,
    EncodeGeneral.v) to the images the harness builds: the string table, the General category (the
    bytes the implementation reads) and every sync manager item of each generated device are what
    the Coq encoders produce from the device description"""
    strs, gens, sms = [], [], []
    for c in wf[:200]:
        img = bytes.fromhex(c["img"])
        d = c["desc"]
        pos = 128
        for ty, words in d["order"]:
            body = img[pos + 4: pos + 4 + 2 * words]
            pos += 4 + 2 * words
            if ty == 10:
                ss = [bytes.fromhex(x) for x in d["strings"]]
                n = 1 + sum(1 + len(x) for x in ss)
                strs.append("(%s, %s%%Z)" % ("[" + "; ".join(vlib.gz(list(x)) for x in ss) + "]", vlib.gz(list(body[:n]))))
            elif ty == 30 and d["general"]:
                g = d["general"]
                v = "{| gv_group := %d; gv_img := %d; gv_order := %d; gv_name := %d; gv_coe := %d; gv_foe := %s; gv_eoe := %s; gv_flags := %d; gv_ebus := (%d)%%Z; gv_p0 := %d; gv_p1 := %d; gv_p2 := %d; gv_p3 := %d; gv_pma := %d |}" % (
                    g[0], g[1], g[2], g[3], g[4], "true" if g[5] else "false", "true" if g[6] else "false", g[7], g[8], g[9][0], g[9][1], g[9][2], g[9][3], g[10])
                sel = [0, 1, 2, 3, 5, 11, 12, 13, 14, 15, 16, 17]
                gens.append("(%s, %s%%Z)" % (v, vlib.gz([body[k] for k in sel])))
            elif ty == 41:
                for k, sm in enumerate(d["sms"]):
                    it = body[8 * k: 8 * k + 8]
                    v = "{| v_start := %d; v_len := %d; v_om := %d; v_dir := %d; v_b4 := %s; v_b5 := %s; v_b6 := %s; v_status := %d; v_en := %d; v_ut := %d |}" % (
                        sm[0], sm[1], sm[2], sm[3], "true" if sm[4] else "false", "true" if sm[5] else "false", "true" if sm[6] else "false", it[5], sm[7], sm[8])
                    sms.append("(%s, %s%%Z)" % (v, vlib.gz(list(it))))
    txt = "\n".join(["From EC Require Import Base.Prelude Base.Bytes Sii.Encode Sii.EncodeGeneral Wire.Check.", "Local Open Scope N_scope.",
                     "Definition sel (l : list N) : list Z := map (fun k => Z.of_N (nth k l 0)) [0; 1; 2; 3; 5; 11; 12; 13; 14; 15; 16; 17]%nat.",
                     "Definition cs : list (list (list N) * list Z) := [" + ";\n".join(strs) + "].",
                     "Eval vm_compute in (0, map fst (mismatches (fun ss => map Z.of_N (strings_encode ss)) cs 0)).",
                     "Definition cg : list (genv * list Z) := [" + ";\n".join(gens) + "].",
                     "Eval vm_compute in (1, map fst (mismatches (fun v => sel (general_encode v)) cg 0)).",
                     "Definition cm : list (smv * list Z) := [" + ";\n".join(sms) + "].",
                     "Eval vm_compute in (2, map fst (mismatches (fun v => map Z.of_N (sm_encode v)) cm 0)).", ""])
    (rc, out), = vlib.coq_eval_shards(ctx.pid + "enc", [txt])
    v = vlib.parse_evals(out) if rc == 0 else []
    names = ["string table", "General category", "sync manager item"]
    if rc != 0 or len(v) < 3:
        ctx.violation("encoder comparison could not be evaluated: " + out[-300:], {"broken": "correspondence", "log": out[-2000:]}, no_input=True)
    else:
        for k, val in enumerate(v):
            if not val.endswith(", [])"):
                ctx.violation("the %s of a generated image is not what the Coq encoder of the round-trip theorem produces from its description: %s" % (names[k], val[:200]),
                              {"broken": "correspondence", "model": "coq/Sii/Encode.v, EncodeGeneral.v", "mismatches": val[:1000]}, no_input=True)
    return {"string_tables": len(strs), "general_categories": len(gens), "sync_manager_items": len(sms)}


def run(ctx, replay=None):
    quick = ctx.tier == "quick"
    vlib.proof_stage(ctx, "Props/C12.v")
    ctx.coverage["trusted_base"] = TB
    n_wf, n_rng = (150, 900) if quick else (1500, 12000)
    cases = S.run_harness(ctx, "wf", n_wf) + S.run_harness(ctx, "range", n_rng) + S.run_harness(ctx, "raw", n_rng)
    if not quick:
        cases += S.run_harness(ctx, "wf", n_wf // 3, release=True, seed_off=500) + S.run_harness(ctx, "range", n_rng // 3, release=True, seed_off=500) + S.run_harness(ctx, "raw", n_rng // 3, release=True, seed_off=500)
    if not cases:
        return
    nq, stats = 0, {"raw_reads": 0, "range_seqs": 0, "devices": 0, "strings": 0, "pdos": 0, "odd_raw": 0}
    for c in cases:
        if c["kind"] == "raw":
            stats["raw_reads"] += 0 if c["write"] else 1
            stats["odd_raw"] += 0 if c["write"] else c["n"] % 2
            r = oracle_raw(c)
            if r:
                ctx.classify(r[0], "C12 oracle: " + r[1], c)
        elif c["kind"] == "range":
            stats["range_seqs"] += 1
            if c.get("raw"):
                stats["raw_reads"] += 1
                stats["odd_raw"] += c["ops"][0][1] % 2
            r = oracle_range(c)
            if r:
                ctx.classify(r[0], "C12 oracle: " + r[1], c)
        else:
            stats["devices"] += 1
            stats["strings"] += len(c["desc"]["strings"])
            stats["pdos"] += len(c["desc"]["txpdos"]) + len(c["desc"]["rxpdos"])
            nq += len(c["runs"])
            r = oracle_wf(c)
            if r:
                ctx.classify(r[0], "C12 oracle: " + r[1], r[2])
    dis = S.compare_with_model(ctx, cases, "c12")
    stats["encoders_vs_images"] = encoder_stage(ctx, [c for c in cases if c["kind"] == "wf"])
    ctx.coverage.update(evaluations=nq + stats["range_seqs"], distinct_nontrivial=len({json.dumps([c.get("img"), c.get("ops"), c.get("start")]) for c in cases}),
                        rule="well-formed devices generated from random descriptions (0..50 strings of 0..255 bytes with NULs and non-ASCII, 0..8 sync managers, 0..16 FMMUs and mappings, 0..64 PDOs per direction with 0..255 entries, optional/unknown categories in random order, sizes 1 Kbit..4 Mbit) with every query incl. string indices 0, 1, n, n+1, n+2, 255; range cases: public-API shaped reads of 0..600 bytes (odd and even) at any word, and op sequences (read/read_exact/read_byte/skip) with boundary starts and lengths; 4 and 8 byte providers",
                        disagreements=dis, **stats, samples=[{"kind": cases[0]["kind"], "order": cases[0].get("desc", {}).get("order")}])
