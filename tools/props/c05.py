"""C05: the receive path survives any bytes and rejects strangers without side effects."""
import json
import vlib
from props import slots_common as sc

TB = ["Coq 8.16.1 kernel + vm_compute", "hand-written model coq/Pdu/Slots.v (op_rx) tied by differential histories (harness/src/bin/slots.rs)",
      "cfg(ethercrab_verif) slot snapshot accessor", "atomics modelled as sequentially consistent single steps"]


def run(ctx, replay=None):
    quick = ctx.tier == "quick"
    n, depth = (600, 24) if quick else (6000, 40)
    vlib.proof_stage(ctx, "Props/C05.v")
    ctx.coverage["trusted_base"] = TB
    cases = sc.run_histories(ctx, "c05", n, depth)
    if cases is None:
        return
    rx_ops, kinds, distinct = 0, {}, set()
    for c in cases:
        for o in c["ops"]:
            if o["o"] == "rx":
                rx_ops += 1
                distinct.add(bytes(o["bytes"]))
        for note in c["oracle"]:
            key = note.split(":")[0]
            if key.startswith("capacity"):
                continue      # C03's clause; reported there
            ctx.classify(key, "C05 oracle: " + note, {"case": c, "note": note})
    # result distribution from the obs stream is in the model comparison; count by replaying codes
    dis = sc.compare_in_coq(ctx, cases)
    ctx.coverage.update(evaluations=rx_ops, distinct_nontrivial=len(distinct),
                        rule="one evaluation = one frame handed to receive_frame inside a random slot history (1..4 slots, all slot states reachable through the API); distinct by frame bytes; before/after snapshots of every slot (status, key, length, buffer) are compared",
                        histories=len(cases), disagreements_checked=dis,
                        samples=[{"n": cases[0]["n"], "cap": cases[0]["cap"], "ops": cases[0]["ops"][:6]}])
