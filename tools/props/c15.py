"""C15: SDO transfers deliver exactly the object's bytes, whatever the transfer type."""
import json
import vlib
from props import coe_common as C

TB = ["Coq 8.16.1 kernel + vm_compute", "hand-written model coq/Coe/Sdo.v tied by differential runs (harness/src/bin/coe.rs): the public SDO API against a faithful CoE server scripted in the harness (expedited / normal / segmented, any segment sizes, aborts, emergencies, wrong-object replies, stale mailbox data)",
      "cfg(ethercrab_verif) hook verif::subdevice_with_mailbox", "the harness' server is the specification of a conforming device (CiA 301 / ETG 1000.6 SDO upload: initiate response carries size and first data, segment responses carry command 0)"]


def oracle(c):
    obj = list(bytes.fromhex(c["obj"]))
    n, tn, k = len(obj), c["tn"], c["skind"]
    reqs = [list(bytes.fromhex(r)) for r in c["requests"]]
    if c["res"] in ("PANIC", "HANG"):
        return None      # C16's subject
    # every request carries the next mailbox counter 1..7
    for i, r in enumerate(reqs):
        if (r[5] >> 4) & 7 != i % 7 + 1:
            return "counter", "request %d carries mailbox counter %d" % (i, (r[5] >> 4) & 7)
        if r[5] & 0x0f != 3 or any(x != 0 for x in r[16:]):
            return "request-shape", "request %d is not a CoE mailbox telegram padded with zeros" % i
    err = C.err_obs(c["err"]) if c["res"] == "Err" else None
    if c["op"] == 0:
        first = reqs[0]
        if first[:12] != [10, 0, 0, 0, 0, 0x13, 0, 0x20, 0x40, c["idx"] & 0xff, c["idx"] >> 8, c["sub"]]:
            return "upload-request", "the upload request does not name object %#x:%d" % (c["idx"], c["sub"])
        if k == 6:
            want = ("err", [11, c["abort"], c["idx"], c["sub"]])
        elif k == 7:
            want = ("err", [10, c.get("em_code", 0x8130), c.get("em_reg", 0x11)])
        elif k == 8:
            want = ("err", [12, (c["idx"] + 1) & 0xffff, c["sub"]])
        else:
            expedited = len(c["replies"]) >= 1 and len(reqs) == 1 and n <= 4 and n > 0 and c["upload_mode"] == 0
            if expedited:
                want = ("ok", obj[:tn]) if tn <= n else ("err", [14])
            elif n > tn:
                want = ("err", [13, c["idx"], c["sub"]])
            elif n < tn:
                want = ("err", [14])
            else:
                want = ("ok", obj)
        got = ("ok", c["out"]) if c["res"] == "Ok" else ("err", err)
        if got != want:
            return "sdo-read", "sdo_read of a %d byte object into %d bytes (%s, mailbox %d): got %s %s, expected %s %s" % (
                n, tn, "abort" if k == 6 else "emergency" if k == 7 else "other object" if k == 8 else ["expedited ok", "normal ok", "segmented"][c["upload_mode"]], c["mlen"], got[0], str(got[1])[:60], want[0], str(want[1])[:60])
    elif c["op"] == 1:
        v = (c["wr_vals"][0] if c["wr_vals"] else 7) & ((1 << (8 * c["wlen"])) - 1)
        data = list(v.to_bytes(c["wlen"], "little")) + [0] * (4 - c["wlen"])
        want_req = [10, 0, 0, 0, 0, 0x13, 0, 0x20, 0x23 | ((4 - c["wlen"]) << 2), c["idx"] & 0xff, c["idx"] >> 8, c["sub"]] + data
        if reqs[0][:16] != want_req:
            return "download-request", "sdo_write sent %s, expected %s" % (reqs[0][:16], want_req)
        want = {6: ("err", [11, c["abort"], c["idx"], c["sub"]]), 7: ("err", [10, c.get("em_code", 0x8130), c.get("em_reg", 0x11)])}.get(k, ("ok", None))
        got = ("ok", None) if c["res"] == "Ok" else ("err", err)
        if got != want:
            return "sdo-write", "sdo_write result %s, expected %s" % (got, want)
    elif c["op"] == 2 and k not in (6, 7):
        vals = c["wr_vals"]
        subs = [(r[11], r[8], r[12:16]) for r in reqs]
        want = [(0, 0x2f, [0, 0, 0, 0])] + [(i + 1, 0x23, list(v.to_bytes(4, "little"))) for i, v in enumerate(vals)] + [(0, 0x2f, [len(vals), 0, 0, 0])]
        if c["res"] != "Ok" or subs != want:
            return "write-array", "sdo_write_array of %d values wrote sub-indices %s" % (len(vals), [s[0] for s in subs])
    return None


def run(ctx, replay=None):
    quick = ctx.tier == "quick"
    vlib.proof_stage(ctx, "Props/C15.v")
    ctx.coverage["trusted_base"] = TB
    n = 2500 if quick else 25000
    cases = C.run_harness(ctx, "srv", n)
    if not quick:
        cases += C.run_harness(ctx, "srv", n // 4, release=True, seed_off=500)
    if not cases:
        return
    stats = {"reads": 0, "expedited": 0, "normal": 0, "segmented": 0, "aborts": 0, "emergencies": 0, "wrong_object": 0, "stale": 0, "writes": 0, "write_arrays": 0, "info": 0, "max_segments": 0}
    for c in cases:
        k = c["skind"]
        if c["op"] == 0:
            stats["reads"] += 1
            stats["aborts"] += k == 6
            stats["emergencies"] += k == 7
            stats["wrong_object"] += k == 8
            stats["stale"] += k == 9
            nreq = len(c["requests"])
            stats["segmented"] += nreq > 1
            stats["max_segments"] = max(stats["max_segments"], nreq - 1)
            if nreq == 1 and k not in (6, 7, 8):
                stats["expedited" if len(c["obj"]) // 2 <= 4 and c["upload_mode"] == 0 and c["obj"] else "normal"] += 1
        elif c["op"] == 1:
            stats["writes"] += 1
        elif c["op"] == 2:
            stats["write_arrays"] += 1
        elif c["op"] == 4:
            stats["info"] += 1
        r = oracle(c)
        if r:
            ctx.classify(r[0], "C15 oracle: " + r[1], c)
    dis = C.compare_with_model(ctx, cases)
    ctx.coverage.update(evaluations=len(cases), distinct_nontrivial=len({json.dumps([c["per_req"], c["op"], c["tn"]]) for c in cases}),
                        rule="objects of 0..512 bytes, mailbox sizes 16..1024, expedited / normal / segmented uploads with random segment sizes (incl. <7 byte last segments and data in the initiate response), destinations of 14 sizes (equal, larger, smaller), aborts with 6 codes, emergencies, replies for another object, 1-2 stale telegrams in the out mailbox before the request, segment responses with command 0 and 3; sdo_write of 1/2/4 bytes, sdo_write_array of 0..4 values, sdo_read_array, SDO info list/quantities over 1..n fragments",
                        disagreements=dis, **stats, samples=[{"op": cases[0]["op"], "skind": cases[0]["skind"], "res": cases[0]["res"]}])
