"""C13: no EEPROM content can hang or crash the MainDevice."""
import json
import vlib
from props import sii_common as S

TB = ["Coq 8.16.1 kernel + vm_compute", "hand-written models coq/Sii/Range.v and coq/Sii/Parse.v tied by differential runs (harness/src/bin/sii.rs) of the real EepromRange and SubDeviceEeprom queries over an in-memory provider, debug and release builds",
      "cfg(ethercrab_verif) hooks verif::sii_query / verif::sii_range", "the provider answers every access (device timeouts are C11's subject)"]


def run(ctx, replay=None):
    quick = ctx.tier == "quick"
    vlib.proof_stage(ctx, "Props/C13.v")
    ctx.coverage["trusted_base"] = TB
    n_adv, n_wf, n_rng = (260, 60, 400) if quick else (2500, 500, 4000)
    builds = [False, True]
    cases = []
    for rel in builds:
        off = 500 if rel else 0
        cases += S.run_harness(ctx, "adv", n_adv // (1 if quick else 1), release=rel, seed_off=off)
        cases += S.run_harness(ctx, "wf", n_wf, release=rel, seed_off=off)
        cases += S.run_harness(ctx, "range", n_rng, release=rel, seed_off=off)
    if not cases:
        return
    outcomes, nruns, maxacc = {}, 0, 0
    for c in cases:
        runs = c.get("runs") or [c]
        for r in runs:
            nruns += 1
            k = r["res"]
            outcomes[k] = outcomes.get(k, 0) + 1
            maxacc = max(maxacc, r.get("accesses", 0))
            if r["res"] in ("PANIC", "HANG", "PENDING"):
                key = ("range-" if c["kind"] == "range" else "query-%d-" % r["q"]) + r["res"].lower()
                small = dict(c)
                if "runs" in c:
                    small["runs"] = [r]
                ctx.classify(key, "C13 oracle: %s in %s (%s build)" % (r["res"], "an EepromRange operation sequence" if c["kind"] == "range" else "EEPROM query %d" % r["q"], "release" if c["release"] else "debug"), small)
    dis = S.compare_with_model(ctx, cases, "c13")
    ctx.coverage.update(evaluations=nruns, distinct_nontrivial=len({json.dumps([c.get("img"), c.get("patches"), c.get("ops"), c.get("start"), c.get("len")]) for c in cases}),
                        rule="adversarial images (14 mutation kinds over generated devices: blank, all ones, truncated, length 0xFFFF/0xFFFE/0x8000 categories, wrap-to-self chains, size word >= 511, no end marker with fills that chain on, byte noise, categories patched in high in the address space, lying string tables, 255x255-bit PDOs, random images, over-capacity lists) + well-formed devices + random EepromRange operation sequences with boundary starts/lengths; both chunk sizes; debug and release builds; every query 0..13",
                        outcomes=outcomes, max_provider_accesses=maxacc, disagreements=dis, images=len(cases),
                        samples=[{"kind": cases[0]["kind"], "what": cases[0].get("what"), "img_len": len(cases[0]["img"]) // 2}])
