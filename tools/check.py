#!/usr/bin/env python3
"""Single entry point registered in MANIFEST.json:  check.py <ID> [--tier quick|thorough]"""
import argparse, importlib, os, sys
sys.path.insert(0, os.path.dirname(os.path.abspath(__file__)))
import vlib


def main():
    ap = argparse.ArgumentParser()
    ap.add_argument("pid")
    ap.add_argument("--tier", default=os.environ.get("VERIF_TIER", "quick"))
    ap.add_argument("--replay", default=None)
    a = ap.parse_args()
    tier = a.tier if a.tier in ("quick", "thorough") else "quick"
    seed = int(os.environ.get("VERIF_SEED", "1") or "1")
    mod = importlib.import_module(f"props.{a.pid.lower()}")
    ctx = vlib.Ctx(a.pid, tier, seed)
    try:
        mod.run(ctx, replay=a.replay)
    except Exception as e:  # the machinery itself failed: the property is not shown
        import traceback
        tb = traceback.format_exc()
        ctx.violation(f"check machinery failed: {e}", {"broken": "machinery", "traceback": tb[-3000:]}, no_input=True)
        if "evaluations" not in ctx.coverage and "obligations" not in ctx.coverage:
            ctx.coverage.update(obligations=1, discharged=0, checker_cmd="n/a", trusted_base=[])
    sys.exit(ctx.finish(level="proof"))


if __name__ == "__main__":
    main()
