import json, sys, os, re, subprocess
sys.path.insert(0, os.path.dirname(os.path.abspath(__file__)))
import vlib
from props import c18
d = json.load(open(sys.argv[1])); c = d["replay"]["case"]
inp = "(%s) (%s) [%s] {| d_delay := %s; d_period := %s; d_shift := %s |} [%s]" % (
    "Release" if c["release"] else "Debug", "None" if c["dcref"] == 0 else "Some %d" % c["dcref"],
    "; ".join(c18.gal_dev(x) for x in c["devs"]), c["delay"], c["period"], c["shift"],
    "; ".join("(%s, %d)" % (vlib.gz(a[0]), a[1]) for a in c["answers"]))
txt = "From EC Require Import Base.Prelude Base.Bytes Cycle.Cycle Dc.Sync Wire.Check.\nLocal Open Scope N_scope.\nEval vm_compute in (obs_configure %s).\n" % inp
os.makedirs("/verif/run/dbg", exist_ok=True)
open("/verif/run/dbg/d18.v","w").write(txt)
out = subprocess.run(["coqc","-noglob","-Q",vlib.COQ,"EC","/verif/run/dbg/d18.v"],capture_output=True,text=True).stdout
v = vlib.parse_evals(out)[0]
model=[int(x) for x in re.findall(r"-?\d+", v.replace("%Z",""))]
exp=c18.exp_configure(c)
for i,(a,b) in enumerate(zip(model,exp)):
    if a!=b: print("diff at",i,"model",model[max(0,i-6):i+12],"impl",exp[max(0,i-6):i+12]); break
else: print("prefix equal; lens", len(model), len(exp), model[-10:], exp[-10:])
