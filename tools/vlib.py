"""Shared machinery of the checks: translator run, Coq build, assumption audit, case evaluation
inside Coq, harness build, evidence and known-finding handling."""
import concurrent.futures, hashlib, json, os, re, subprocess, sys, time

VERIF = os.path.dirname(os.path.dirname(os.path.abspath(__file__)))
COQ = os.path.join(VERIF, "coq")
CACHE = os.path.join(VERIF, ".cache")
REPO = os.environ.get("VERIF_REPO", "/repo")
RUN = os.path.join(VERIF, "run")
ENV = dict(os.environ, CARGO_NET_OFFLINE="true", RUSTUP_TOOLCHAIN="1.88.0")

FORBIDDEN = re.compile(r"\b(Admitted|admit|Axiom|Parameter|Conjecture)\b|Unset Guard|bypass_check|type-in-type|Admit Obligations")

ALLOWED_AXIOMS = set()   # nothing beyond "Closed under the global context"


def sh(cmd, timeout=600, cwd=None, env=None, inp=None):
    t0 = time.time()
    try:
        p = subprocess.run(cmd, shell=isinstance(cmd, str), cwd=cwd, env=env or ENV, input=inp,
                           stdout=subprocess.PIPE, stderr=subprocess.STDOUT, timeout=timeout, text=True)
        return p.returncode, p.stdout, time.time() - t0
    except subprocess.TimeoutExpired as e:
        out = e.stdout if isinstance(e.stdout, str) else (e.stdout or b"").decode(errors="replace")
        return 124, out + "\n[timeout]", time.time() - t0


class Ctx:
    """One run of one property's check."""

    def __init__(self, pid, tier, seed):
        self.pid, self.tier, self.seed = pid, tier, seed
        self.t0 = time.time()
        self.violations = []          # (what, replay_path, no_input_found)
        self.known = []               # KNOWN-FINDING lines
        self.coverage = {"samples": []}
        self.assumptions = []
        self.notes = []
        os.makedirs(os.path.join(RUN, pid), exist_ok=True)
        self.rundir = os.path.join(RUN, pid)
        self.findings = load_findings()

    # ---------- reporting ----------
    def violation(self, what, replay_obj, no_input=False):
        h = hashlib.sha256(json.dumps(replay_obj, sort_keys=True, default=str).encode()).hexdigest()[:12]
        path = os.path.join(VERIF, "replays", f"{self.pid}-{h}.json")
        os.makedirs(os.path.dirname(path), exist_ok=True)
        with open(path, "w") as f:
            json.dump({"property": self.pid, "what": what, "seed": self.seed, "tier": self.tier,
                       "replay": replay_obj}, f, indent=1, default=str)
        self.violations.append((what, path, no_input))

    def classify(self, key, what, replay_obj):
        """A concrete failing case on the implementation: known finding or violation."""
        for k in self.findings:
            if k["property"] == self.pid and k["key"] == key and k.get("status") == "known":
                line = f"KNOWN-FINDING: property={self.pid} {k['what']}"
                if line not in self.known:
                    self.known.append(line)
                return "known"
        self.key_counts = getattr(self, "key_counts", {})
        self.key_counts[key] = self.key_counts.get(key, 0) + 1
        if self.key_counts[key] <= 3:      # a few replays per kind of failure are enough
            self.violation(what, replay_obj)
        else:
            self.suppressed = getattr(self, "suppressed", 0) + 1
        return "violation"

    def finish(self, level="proof"):
        wall = time.time() - self.t0
        cov = self.coverage
        ev = {"property_id": self.pid, "tier": self.tier, "seed": self.seed, "level": level,
              "coverage": cov, "assumptions": self.assumptions, "wall_s": round(wall, 2),
              "violations": len(self.violations), "known_findings": self.known, "notes": self.notes}
        os.makedirs(os.path.join(VERIF, "evidence"), exist_ok=True)
        with open(os.path.join(VERIF, "evidence", f"{self.pid}.json"), "w") as f:
            json.dump(ev, f, indent=1, default=str)
        for line in self.known:
            print(line)
        seen = set()
        for what, path, no_input in self.violations:
            if path in seen:
                continue
            seen.add(path)
            print(f"# {what}")
            print(f"VIOLATION property={self.pid} replay={path}" + (" no-failing-input-found" if no_input else ""))
        print(f"[{self.pid}] tier={self.tier} seed={self.seed} wall={wall:.1f}s violations={len(seen)} known={len(self.known)}")
        return 1 if self.violations else 0


def load_findings():
    p = os.path.join(VERIF, "findings", "known_findings.json")
    if not os.path.exists(p):
        return []
    return json.load(open(p))


# ---------- translator + Coq ----------
def regen():
    rc, out, _ = sh([sys.executable, os.path.join(VERIF, "tools", "src2coq.py")], timeout=120)
    return rc, out


def vfiles():
    out = []
    for dp, dn, fn in os.walk(COQ):
        for f in fn:
            if f.endswith(".v") and not f.startswith("_") and "/run" not in dp:
                out.append(os.path.relpath(os.path.join(dp, f), COQ))
    return sorted(out)


def ensure_makefile():
    files = vfiles()
    stamp = os.path.join(COQ, ".filelist")
    cur = "\n".join(files)
    if not os.path.exists(os.path.join(COQ, "Makefile")) or not os.path.exists(stamp) or open(stamp).read() != cur:
        rc, out, _ = sh(["coq_makefile", "-f", "_CoqProject", "-o", "Makefile"] + files, cwd=COQ, timeout=60)
        if rc != 0:
            return rc, out
        open(stamp, "w").write(cur)
    return 0, ""


def coq_build(targets, timeout=1500):
    """full .vo build of the given targets (and what they depend on)"""
    rc, out = ensure_makefile()
    if rc != 0:
        return rc, out
    rc, out, _ = sh(["make", "-j16"] + targets, cwd=COQ, timeout=timeout)
    return rc, out


def theorem_names(propfile):
    txt = open(os.path.join(COQ, propfile)).read()
    return re.findall(r"^Theorem\s+(\w+)", txt, flags=re.M)


def audit_assumptions(pid, propfile):
    """Print Assumptions for every pinned theorem; returns (ok, details, n)"""
    names = theorem_names(propfile)
    mod = propfile[:-2].replace("/", ".")
    tmpd = os.path.join(RUN, pid)
    os.makedirs(tmpd, exist_ok=True)
    tmp = os.path.join(tmpd, f"assum_{pid}.v")
    with open(tmp, "w") as f:
        f.write(f"From EC Require Import {mod}.\n")
        for n in names:
            f.write(f'Redirect "{tmpd}/assum_{n}" Print Assumptions {n}.\n')
    rc, out, _ = sh(["coqc", "-Q", COQ, "EC", tmp], timeout=600)
    details = {}
    ok = rc == 0
    for n in names:
        p = os.path.join(tmpd, f"assum_{n}.out")
        txt = open(p).read().strip() if os.path.exists(p) else "MISSING"
        if "Closed under the global context" in txt:
            details[n] = "closed"
        else:
            axs = set(re.findall(r"^(\S+)\s*:", txt, flags=re.M))
            details[n] = sorted(axs) if axs else txt[:200]
            if not axs or not axs <= ALLOWED_AXIOMS:
                ok = False
    return ok, details, out if rc != 0 else ""


def audit_forbidden():
    bad = []
    for f in vfiles():
        txt = open(os.path.join(COQ, f)).read()
        txt_nc = re.sub(r"\(\*.*?\*\)", "", txt, flags=re.S)
        for m in FORBIDDEN.finditer(txt_nc):
            bad.append(f"{f}: {m.group(0)}")
    return bad


def pins_ok(propfile):
    """Props files are pinned by hash so a statement cannot be weakened silently."""
    pins = json.load(open(os.path.join(COQ, "Pins", "pins.json")))
    h = hashlib.sha256(open(os.path.join(COQ, propfile), "rb").read()).hexdigest()
    return pins.get(propfile) == h, h


def proof_stage(ctx, propfile, extra_targets=()):
    """regen + build + audits. Records violations (no-failing-input-found kind) on failure.
    Returns True when the proofs stand."""
    ok = True
    rc, out = regen()
    ctx.notes.append(out.strip()[-300:])
    if rc != 0:
        ctx.violation("translator refused the current sources: " + out.strip()[-300:],
                      {"broken": "translator", "message": out[-2000:]}, no_input=True)
        ok = False
    target = propfile[:-2] + ".vo"
    rc, out = coq_build([target] + list(extra_targets))
    if rc != 0:
        m = re.search(r'File "([^"]+)", line (\d+).*?\n(Error:.*?)(?:\n\n|\nmake)', out, flags=re.S)
        what = f"proof obligation no longer checks: {m.group(1)}:{m.group(2)} {m.group(3)[:300]}" if m else "coq build failed"
        ctx.violation(what, {"broken": "theorem", "file": m.group(1) if m else None, "log": out[-3000:]}, no_input=True)
        ctx.coverage.update(obligations=len(theorem_names(propfile)), discharged=0)
        return False
    names = theorem_names(propfile)
    aok, details, log = audit_assumptions(ctx.pid, propfile)
    bad = audit_forbidden()
    pok, h = pins_ok(propfile)
    discharged = sum(1 for n in names if details.get(n) == "closed")
    ctx.coverage.update(obligations=len(names), discharged=discharged,
                        checker_cmd=f"make -C coq {target} && coqc Print Assumptions (tools/vlib.py audit_assumptions)",
                        theorems=details)
    if not aok:
        ctx.violation("a pinned theorem depends on unexpected assumptions: " + json.dumps(details)[:400],
                      {"broken": "assumptions", "details": details, "log": log[-2000:]}, no_input=True)
        ok = False
    if bad:
        ctx.violation("forbidden construct in the development: " + "; ".join(bad[:5]),
                      {"broken": "forbidden", "where": bad}, no_input=True)
        ok = False
    if not pok:
        ctx.violation(f"{propfile} does not match its pinned hash (statement changed?)",
                      {"broken": "pin", "file": propfile, "hash": h}, no_input=True)
        ok = False
    if getattr(ctx, "tier", "quick") == "thorough":
        # independent re-check of the compiled closure of this property's theorems
        mod = "EC." + propfile[:-2].replace("/", ".")
        rc, out, _ = sh(["coqchk", "-silent", "-o", "-Q", COQ, "EC", mod], cwd=COQ, timeout=1800)
        summary = out[out.find("CONTEXT SUMMARY"):] if "CONTEXT SUMMARY" in out else out[-600:]
        clean = rc == 0 and all(re.search(r"\* %s:\s*<none>" % k, summary) for k in
                                ("Axioms", "Constants/Inductives relying on type-in-type", "Constants/Inductives relying on unsafe \\(co\\)fixpoints", "Inductives whose positivity is assumed"))
        ctx.coverage["coqchk"] = "Axioms: <none>; no type-in-type, unsafe fixpoints or assumed positivity" if clean else summary[-400:]
        if not clean:
            ctx.violation("coqchk does not accept the compiled theorems as closed: " + summary[-300:], {"broken": "coqchk", "log": out[-2000:]}, no_input=True)
            ok = False
    return ok


def coq_eval_shards(pid, shards, timeout=900):
    """shards: list of .v texts; each is compiled with coqc (vm_compute inside).  Returns list of
    (rc, output)."""
    d = os.path.join(RUN, pid)
    os.makedirs(d, exist_ok=True)
    paths = []
    for i, txt in enumerate(shards):
        p = os.path.join(d, f"cases_{i}.v")
        with open(p, "w") as f:
            f.write(txt)
        paths.append(p)

    def one(p):
        # long case literals overflow coqc's default stack
        rc, out, dt = sh("ulimit -s unlimited 2>/dev/null || ulimit -s 1000000 2>/dev/null; exec coqc -noglob -Q '%s' EC -Q '%s' Cases '%s'" % (COQ, d, p), timeout=timeout)
        return rc, out

    # coqc needs roughly 1 GB per MB of case literal: keep the shards that run at once within memory
    biggest = max([len(t) for t in shards] + [1]) / 1e6
    workers = max(1, min(16, int(36 / max(0.3, biggest))))
    with concurrent.futures.ThreadPoolExecutor(max_workers=workers) as ex:
        return list(ex.map(one, paths))


def parse_evals(out):
    """split coqc output into the values printed by successive Eval commands"""
    vals = re.findall(r"^\s*= (.*?)\n\s*: ", out, flags=re.S | re.M)
    return [re.sub(r"\s+", " ", v).strip() for v in vals]


# ---------- Rust harness ----------
def cargo_build(bin_name, release=False, hooks=True, timeout=1500):
    env = dict(ENV)
    if hooks:
        env["RUSTFLAGS"] = "--cfg ethercrab_verif"
    tdir = os.path.join(CACHE, "target")
    lock = os.path.join(VERIF, "harness", "Cargo.lock")
    if not os.path.exists(lock):
        import shutil
        shutil.copy(os.path.join(REPO, "Cargo.lock"), lock)
    cmd = ["cargo", "build", "--offline", "--bin", bin_name] + (["--release"] if release else [])
    env["CARGO_TARGET_DIR"] = tdir
    rc, out, dt = sh(cmd, cwd=os.path.join(VERIF, "harness"), env=env, timeout=timeout)
    exe = os.path.join(tdir, "release" if release else "debug", bin_name)
    return rc, out, exe


def gz(l):
    return "[" + "; ".join(str(x) if x >= 0 else f"({x})" for x in l) + "]"
