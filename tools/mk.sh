#!/bin/bash
# mk.sh <targets...> : refresh the Makefile when the file list changed, then make the targets
cd /verif/coq && rm -f .filelist && python3 -c "
import sys; sys.path.insert(0,'/verif/tools'); import vlib; rc,out=vlib.ensure_makefile(); print(out) if rc else None" && timeout 1500 make -j16 "$@" 2>&1 | tail -30
