#!/bin/bash
# try_patch.sh <patch-file> PROP... : apply a patch to /repo, run the quick checks, restore
PATCH=$1; shift
cd /verif
git -C /repo apply $PATCH || { echo "patch does not apply"; exit 2; }
TAG=$(basename $(dirname $PATCH))_$(basename $(dirname $(dirname $(dirname $PATCH))))
for P in "$@"; do
  timeout 3000 python3 tools/check.py $P --tier quick > run/try_${TAG}_$P.log 2>&1
  echo "$TAG $P exit=$? $(grep -c '^VIOLATION' run/try_${TAG}_$P.log) violations; $(grep '^#' run/try_${TAG}_$P.log | cut -c1-180 | sort | uniq -c | sort -rn | head -3 | tr '\n' '|')"
done
git -C /repo checkout -- .
rm -f replays/*
