#!/usr/bin/env python3
"""debug helper: show where model and implementation observations diverge for a slots-history replay"""
import json, sys, os, re, subprocess
sys.path.insert(0, os.path.dirname(os.path.abspath(__file__)))
import vlib
from props import slots_common as sc
d = json.load(open(sys.argv[1]))
c = d["replay"]["case"]
txt = "\n".join(["From EC Require Import Base.Prelude Base.Bytes Pdu.Frame Pdu.Slots Pdu.View Pdu.Hist Wire.Check.", "Local Open Scope N_scope.",
  "Eval vm_compute in obs_history %s %d%%nat %d%%nat [%s]." % ("true" if c["full"] else "false", c["n"], c["cap"], "; ".join(sc.gal_op(o) for o in c["ops"]))])
open("/tmp/diffcase.v", "w").write(txt)
out = subprocess.run(["coqc", "-noglob", "-Q", vlib.COQ, "EC", "/tmp/diffcase.v"], capture_output=True, text=True).stdout
v = vlib.parse_evals(out)[0]
model = [int(x) for x in re.findall(r"-?\d+", v.replace("%Z", ""))]
impl = c["obs"]
# split per op at -2 markers
def split(l):
    out, cur = [], []
    for x in l:
        cur.append(x)
        if x == -2:
            out.append(cur); cur = []
    return out
ms, is_ = split(model), split(impl)
for k, (a, b) in enumerate(zip(ms, is_)):
    if a != b:
        print("first difference at op", k, json.dumps(c["ops"][k])[:300])
        print(" model:", a[:80])
        print(" impl :", b[:80])
        if k: print(" prev op:", json.dumps(c["ops"][k-1])[:300], is_[k-1][:40])
        break
else:
    print("no difference in common prefix", len(ms), len(is_))
