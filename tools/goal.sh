#!/bin/bash
# usage: goal.sh <file.v relative to coq/> <line>  -- show the proof state after <line>
cd /verif/coq
f=$1; n=$2
tmp=$(dirname $f)/_goal_tmp.v
head -n $n $f > $tmp
echo "Show. Abort." >> $tmp
coqc -Q . EC $tmp 2>&1 | tail -${3:-40}
rm -f $tmp $(dirname $f)/_goal_tmp.vo $(dirname $f)/_goal_tmp.glob $(dirname $f)/._goal_tmp.aux $(dirname $f)/_goal_tmp.vok $(dirname $f)/_goal_tmp.vos
