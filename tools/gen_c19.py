#!/usr/bin/env python3
"""C19: generate random `#[derive(EtherCrabWire*)]` type definitions, a Rust crate that exercises
them with the REAL derive macro from /repo, and the description of each type for the Coq model.

Everything derives from one seed.  Layout rules obeyed are the macro's own (sub-byte fields do not
cross a byte, multi-byte fields are byte aligned); widths 1..64 bits.
"""
import json, os, random, sys

PRIMS = {"u8": (1, False), "u16": (2, False), "u32": (4, False), "u64": (8, False),
         "i8": (1, True), "i16": (2, True), "i32": (4, True), "i64": (8, True)}


class Gen:
    def __init__(self, seed):
        self.r = random.Random(seed)
        self.types = []      # description dicts
        self.rust = []       # rust source of each type

    # ---------------- enums ----------------
    def gen_enum(self, name, repr_ty=None, maxval=None, implicit=False, probe=False, subcatch=False):
        r = self.r
        repr_ty = repr_ty or r.choice(["u8", "u8", "u16", "u32", "i8", "i16", "i32", "u64", "i64"])
        nbytes, signed = PRIMS[repr_ty]
        lo, hi = (-(1 << (8 * nbytes - 1)), (1 << (8 * nbytes - 1)) - 1) if signed else (0, (1 << (8 * nbytes)) - 1)
        if maxval is not None:
            lo, hi = 0, maxval
        nvar = r.randint(2, min(6, hi - lo + 1))
        used = set()

        def fresh():
            for _ in range(1000):
                k = r.choice([r.randint(lo, hi), r.randint(max(lo, -4), min(hi, 12)), lo, hi])
                if k not in used:
                    used.add(k)
                    return k
            raise RuntimeError("no fresh discriminant")
        variants = []
        has_catch = (maxval is None or maxval >= 255 or subcatch) and r.random() < (0.6 if subcatch else 0.35) and not implicit
        # both attributes on one enum are legal (the catch-all wins for unlisted values)
        has_default = r.random() < (0.4 if has_catch else 0.35)
        default_at = r.randrange(nvar) if has_default else -1
        for i in range(nvar):
            v = {"name": f"V{i}", "disc": None if implicit else fresh(), "alts": [], "catch": False,
                 "default": i == default_at}
            if not implicit and r.random() < 0.25 and hi - lo > 16:
                v["alts"] = [a for a in (fresh() for _ in range(r.randint(1, 3))) if a >= 0]
            variants.append(v)
        if implicit:
            # explicit first discriminant sometimes, rest implicit
            if r.random() < 0.5 and not probe:
                variants[0]["disc"] = r.randint(0, 3)
        if has_catch:
            # rustc gives the data-carrying variant the discriminant last+1: keep that legal
            last = variants[-1]["disc"]
            if last + 1 <= hi and (last + 1) not in used:
                variants.append({"name": "Other", "disc": None, "alts": [], "catch": True, "default": False})
        d = {"kind": "enum", "name": name, "repr": repr_ty, "nbytes": nbytes, "signed": signed,
             "variants": variants, "implicit": implicit}
        src = ["#[derive(Debug, Copy, Clone, PartialEq, Eq, %sethercrab_wire::EtherCrabWireReadWrite)]" %
               ("Default, " if has_default else ""),
               f"#[repr({repr_ty})]", f"pub enum {name} {{"]
        for v in variants:
            if v["alts"]:
                src.append("    #[wire(alternatives = [%s])]" % ", ".join(str(a) for a in v["alts"]))
            if v["default"]:
                src.append("    #[default]")
            if v["catch"]:
                src.append("    #[wire(catch_all)]")
                src.append(f"    {v['name']}({repr_ty}),")
            elif v["disc"] is None:
                src.append(f"    {v['name']},")
            else:
                src.append(f"    {v['name']} = {v['disc']},")
        src.append("}")
        # index/payload accessor
        src.append(f"impl {name} {{ pub fn vp(&self) -> (usize, i128) {{ match self {{")
        for i, v in enumerate(variants):
            if v["catch"]:
                src.append(f"    {name}::{v['name']}(x) => ({i}, *x as i128),")
            else:
                src.append(f"    {name}::{v['name']} => ({i}, 0),")
        src.append("} } }")
        # random constructor
        src.append(f"impl {name} {{ pub fn mk(rng: &mut Rng) -> Self {{ match rng.below({len(variants)}) {{")
        for i, v in enumerate(variants):
            if v["catch"]:
                src.append(f"    {i} => {name}::{v['name']}(rng.next() as {repr_ty}),")
            else:
                src.append(f"    {i} => {name}::{v['name']},")
        src.append(f"    _ => {name}::{variants[0]['name'] if not variants[0]['catch'] else variants[-1]['name']},")
        src.append("} } }")
        self.types.append(d)
        self.rust.append("\n".join(src))
        return d

    # ---------------- structs ----------------
    def gen_struct(self, name, flat=False):
        r = self.r
        fields = []
        cur = 0
        nfields = r.randint(1, 12)
        extra_types = []
        for i in range(nfields):
            fname = f"f{i}"
            off = cur % 8
            pre = 0
            choices = []
            if off == 0:
                choices += ["prim", "prim", "arr", "u8bits", "bool", "byteenum", "multienum", "nested", "skipf", "subenum", "i8bits"]
            else:
                choices += ["u8bits", "u8bits", "bool", "bool", "subenum", "subenum", "i8bits", "pad", "skipf"]
            if flat:
                choices = [c for c in choices if c not in ("byteenum", "multienum", "nested", "subenum", "i8bits")]
            c = r.choice(choices)
            f = {"name": fname, "pre": 0, "post": 0, "skip": False}
            if c == "pad":
                # pre-skip to the next byte boundary, then a byte-aligned primitive
                f["pre"] = 8 - off
                cur += f["pre"]
                off = 0
                c = r.choice(["prim", "arr"])
            if c == "prim":
                ty = r.choice(list(PRIMS))
                nb, sg = PRIMS[ty]
                f.update(ty=ty, bits=8 * nb, kind="KU8" if ty == "u8" else ("KByteT" if nb == 1 else "KMulti"),
                         fty="raw", signed=sg, width_attr=r.random() < 0.5)
            elif c == "arr":
                n = r.randint(2, 8)
                f.update(ty=f"[u8; {n}]", bits=8 * n, kind="KMulti", fty="raw", signed=False, width_attr=True, arr=n)
            elif c == "u8bits":
                b = r.randint(1, 8 - off)
                f.update(ty="u8", bits=b, kind="KU8", fty="raw", signed=False, width_attr=True)
            elif c == "bool":
                b = 1 if r.random() < 0.8 else r.randint(1, 8 - off)
                f.update(ty="bool", bits=b, kind="KBool", fty="raw", signed=False, width_attr=True)
            elif c == "i8bits":
                b = r.randint(1, min(7, 8 - off))
                f.update(ty="i8", bits=b, kind="KByteT", fty="i8sub", signed=True, width_attr=True)
            elif c == "subenum":
                b = r.randint(1, min(7, 8 - off))
                e = self.gen_enum(f"{name}E{i}", "u8", maxval=(1 << b) - 1, subcatch=True)
                f.update(ty=e["name"], bits=b, kind="KByteT", fty="enum", enum=e["name"], signed=False, width_attr=True)
            elif c == "byteenum":
                e = self.gen_enum(f"{name}E{i}", r.choice(["u8", "i8"]))
                f.update(ty=e["name"], bits=8, kind="KByteT", fty="enum", enum=e["name"], signed=False, width_attr=True)
            elif c == "multienum":
                e = self.gen_enum(f"{name}E{i}", r.choice(["u16", "u32", "i16", "i32", "u64"]))
                f.update(ty=e["name"], bits=8 * e["nbytes"], kind="KMulti", fty="enum", enum=e["name"],
                         signed=False, width_attr=True)
            elif c == "nested":
                while True:
                    inner = self.gen_struct(f"{name}N{i}", flat=True)
                    if inner["width"] % 8 == 0 and inner["width"] <= 64:
                        break
                    # discard (remove last generated type)
                    self.types.pop(); self.rust.pop()
                nb = inner["width"] // 8
                f.update(ty=inner["name"], bits=8 * nb, kind="KByteT" if nb == 1 else "KMulti", fty="inner",
                         inner=inner["name"], signed=False, width_attr=True)
            elif c == "skipf":
                f.update(ty=r.choice(["u8", "u16", "bool"]), bits=None, kind="KU8", fty="raw", signed=False,
                         width_attr=False, skip=True)
            if not f["skip"]:
                cur += f["bits"]
                # post skip
                if r.random() < 0.25:
                    o = cur % 8
                    f["post"] = r.choice([8 - o if o else 8, r.randint(1, 8 - o) if o else 16])
                    cur += f["post"]
            fields.append(f)
        # avoid structs made only of skipped fields (width 0)
        if cur == 0:
            fields.append({"name": "fz", "pre": 0, "post": 0, "skip": False, "ty": "u8", "bits": 8, "kind": "KU8",
                           "fty": "raw", "signed": False, "width_attr": True})
            cur = 8
        if flat and cur % 8 and r.random() < 0.8:
            fields[-1]["post"] = fields[-1].get("post", 0) + (8 - cur % 8) if not fields[-1]["skip"] else 0
            if fields[-1]["skip"]:
                fields.append({"name": "fz", "pre": 8 - cur % 8, "post": 0, "skip": False, "ty": "u8", "bits": 8,
                               "kind": "KU8", "fty": "raw", "signed": False, "width_attr": True})
                cur += 8 - cur % 8 + 8
            else:
                cur += 8 - cur % 8
        d = {"kind": "struct", "name": name, "width": cur, "fields": fields}
        src = ["#[derive(Debug, Clone, PartialEq, ethercrab_wire::EtherCrabWireReadWrite)]"]
        if cur % 8 == 0 and r.random() < 0.5:
            src.append(f"#[wire(bytes = {cur // 8})]")
        else:
            src.append(f"#[wire(bits = {cur})]")
        src.append(f"pub struct {name} {{")
        for f in fields:
            attrs = []
            if f["skip"]:
                attrs.append("skip")
            else:
                if f["width_attr"]:
                    if f["bits"] % 8 == 0 and r.random() < 0.6:
                        attrs.append(f"bytes = {f['bits'] // 8}")
                    else:
                        attrs.append(f"bits = {f['bits']}")
                if f["pre"]:
                    attrs.append(f"pre_skip_bytes = {f['pre'] // 8}" if f["pre"] % 8 == 0 and r.random() < 0.5
                                 else f"pre_skip = {f['pre']}")
                if f["post"]:
                    attrs.append(f"post_skip_bytes = {f['post'] // 8}" if f["post"] % 8 == 0 and r.random() < 0.5
                                 else f"post_skip = {f['post']}")
            if attrs:
                src.append("    #[wire(%s)]" % ", ".join(attrs))
            src.append(f"    pub {f['name']}: {f['ty']},")
        src.append("}")
        # field number accessor
        src.append(f"impl {name} {{ pub fn fields(&self) -> Vec<u128> {{ let mut v = Vec::new();")
        for f in fields:
            if f["skip"]:
                src.append("    v.push(0);")
            elif f["ty"] == "bool":
                src.append(f"    v.push(self.{f['name']} as u128);")
            elif f["ty"] in PRIMS:
                nb, sg = PRIMS[f["ty"]]
                uty = "u" + f["ty"][1:]
                src.append(f"    v.push(self.{f['name']} as {uty} as u128);")
            elif "arr" in f:
                src.append(f"    v.push(le(&self.{f['name']}));")
            else:
                src.append(f"    v.push(le(ethercrab_wire::EtherCrabWireWriteSized::pack(&self.{f['name']}).as_ref()));")
        src.append("    v } }")
        src.append(f"impl {name} {{ pub fn mk(rng: &mut Rng) -> Self {{ {name} {{")
        for f in fields:
            if f["ty"] == "bool":
                src.append(f"    {f['name']}: rng.below(2) == 1,")
            elif f["ty"] in PRIMS:
                src.append(f"    {f['name']}: rng.next() as {f['ty']},")
            elif "arr" in f:
                src.append(f"    {f['name']}: {{ let mut a = [0u8; {f['arr']}]; for x in a.iter_mut() {{ *x = rng.next() as u8; }} a }},")
            else:
                src.append(f"    {f['name']}: {f['ty']}::mk(rng),")
        src.append("} } }")
        self.types.append(d)
        self.rust.append("\n".join(src))
        return d


MAIN_TMPL = r'''// GENERATED by tools/gen_c19.py -- do not edit
#![allow(dead_code, unused_imports, clippy::all)]
use ethercrab_wire::{EtherCrabWireRead, EtherCrabWireWrite, EtherCrabWireSized, EtherCrabWireWriteSized, WireError};

fn le(b: &[u8]) -> u128 { let mut x = 0u128; for (i, v) in b.iter().enumerate() { x |= (*v as u128) << (8 * i); } x }

struct Rng(u64);
impl Rng {
    fn next(&mut self) -> u64 { self.0 = self.0.wrapping_add(0x9E3779B97F4A7C15); let mut z = self.0;
        z = (z ^ (z >> 30)).wrapping_mul(0xBF58476D1CE4E5B9); z = (z ^ (z >> 27)).wrapping_mul(0x94D049BB133111EB); z ^ (z >> 31) }
    fn below(&mut self, n: u64) -> u64 { self.next() %% n }
}
fn errname(e: WireError) -> &'static str { match e { WireError::ReadBufferTooShort => "ReadBufferTooShort",
    WireError::WriteBufferTooShort => "WriteBufferTooShort", WireError::InvalidValue => "InvalidValue",
    WireError::ArrayLength => "ArrayLength", WireError::InvalidUtf8 => "InvalidUtf8" } }
fn bytes_json(b: &[u8]) -> String { format!("[{}]", b.iter().map(|x| x.to_string()).collect::<Vec<_>>().join(",")) }

fn gen_buf(rng: &mut Rng, size: usize) -> Vec<u8> {
    let len = match rng.below(10) { 0 => rng.below(size as u64 + 1) as usize, 1 => size.saturating_sub(1), 2..=5 => size,
        _ => size + rng.below(4) as usize };
    let mode = rng.below(4);
    (0..len).map(|_| match mode { 0 => rng.next() as u8, 1 => 0xff, 2 => if rng.below(4) == 0 { 1u8 << rng.below(8) } else { 0 },
        _ => (rng.next() as u8) & (rng.next() as u8) }).collect()
}

%(types)s

%(runners)s

fn main() {
    let args: Vec<String> = std::env::args().collect();
    let seed: u64 = args[1].parse().unwrap();
    let n: usize = args[2].parse().unwrap();
    let mut rng = Rng(seed);
%(calls)s
}
'''

STRUCT_RUNNER = r'''
fn run_%(id)d(rng: &mut Rng, n: usize) {
    let size = <%(name)s as EtherCrabWireSized>::PACKED_LEN;
    for _ in 0..n {
        let buf = gen_buf(rng, size);
        let dst_len = match rng.below(4) { 0 => rng.below(size as u64 + 1) as usize, _ => size + rng.below(3) as usize };
        let r = std::panic::catch_unwind(|| {
            match <%(name)s>::unpack_from_slice(&buf) {
                Err(e) => format!("\"res\":\"{}\"", errname(e)),
                Ok(x) => {
                    let f: Vec<String> = x.fields().iter().map(|v| format!("\"{}\"", v)).collect();
                    let p = x.pack();
                    let mut dst = vec![0xAAu8; dst_len];
                    let ps = match x.pack_to_slice(&mut dst) { Err(e) => format!("\"{}\"", errname(e)), Ok(b) => bytes_json(b) };
                    let again = <%(name)s>::unpack_from_slice(p.as_ref()).map(|y| y == x).unwrap_or(false);
                    format!("\"res\":\"Ok\",\"f\":[{}],\"p\":{},\"ps\":{},\"dst_len\":{},\"rt\":{},\"plen\":{}",
                        f.join(","), bytes_json(p.as_ref()), ps, dst_len, again, x.packed_len())
                }
            }
        });
        let body = match r { Ok(s) => s, Err(_) => "\"res\":\"PANIC\"".to_string() };
        println!("{{\"t\":%(id)d,\"buf\":{},{}}}", bytes_json(&buf), body);
    }
    // pack direction: values constructed directly (every field over its full type range)
    for _ in 0..(n / 2 + 1) {
        let x = <%(name)s>::mk(rng);
        let r = std::panic::catch_unwind(|| {
            let f: Vec<String> = x.fields().iter().map(|v| format!("\"{}\"", v)).collect();
            format!("\"dir\":\"pack\",\"f\":[{}],\"p\":{}", f.join(","), bytes_json(x.pack().as_ref()))
        });
        let body = match r { Ok(s) => s, Err(_) => "\"dir\":\"pack\",\"res\":\"PANIC\"".to_string() };
        println!("{{\"t\":%(id)d,{}}}", body);
    }
}
'''

ENUM_RUNNER = r'''
fn run_%(id)d(rng: &mut Rng, n: usize) {
    let size: usize = %(nbytes)d;
    let discs: &[i128] = &[%(discs)s];
    for _ in 0..n {
        let mut buf = gen_buf(rng, size);
        // bias towards defined discriminants and their neighbours
        if buf.len() >= size && !discs.is_empty() && rng.below(3) != 0 {
            let d = discs[rng.below(discs.len() as u64) as usize] + (rng.below(3) as i128 - 1) * ((rng.below(2)) as i128);
            let b = (d as i64 as u64).to_le_bytes();
            buf[..size].copy_from_slice(&b[..size]);
        }
        let r = std::panic::catch_unwind(|| {
            match <%(name)s>::unpack_from_slice(&buf) {
                Err(e) => format!("\"res\":\"{}\"", errname(e)),
                Ok(x) => {
                    let (i, pl) = x.vp();
                    let p = x.pack();
                    let again = <%(name)s>::unpack_from_slice(p.as_ref()).map(|y| y == x).unwrap_or(false);
                    format!("\"res\":\"Ok\",\"vi\":{},\"pl\":\"{}\",\"p\":{},\"rt\":{}", i, pl, bytes_json(p.as_ref()), again)
                }
            }
        });
        let body = match r { Ok(s) => s, Err(_) => "\"res\":\"PANIC\"".to_string() };
        println!("{{\"t\":%(id)d,\"buf\":{},{}}}", bytes_json(&buf), body);
    }
}
'''


def main():
    out, seed, ntypes = sys.argv[1], int(sys.argv[2]), int(sys.argv[3])
    g = Gen(seed)
    # fixed probe for the implicit-discriminant finding (F28)
    g.gen_enum("ProbeImplicit", "u8", implicit=True, probe=True)
    i = 0
    while len([t for t in g.types if not t["name"].startswith("S") or True]) < ntypes:
        if g.r.random() < 0.3:
            g.gen_enum(f"E{i}", implicit=g.r.random() < 0.1)
        else:
            g.gen_struct(f"S{i}")
        i += 1
    runners, calls = [], []
    for tid, t in enumerate(g.types):
        t["id"] = tid
        if t["kind"] == "struct":
            runners.append(STRUCT_RUNNER % {"id": tid, "name": t["name"]})
        else:
            discs = list(range(0, len(t["variants"]) + 2)) if t.get("implicit") else []
            for v in t["variants"]:
                if v["disc"] is not None:
                    discs.append(v["disc"])
                discs += v["alts"]
            runners.append(ENUM_RUNNER % {"id": tid, "name": t["name"], "nbytes": t["nbytes"],
                                          "discs": ", ".join(str(d) for d in discs)})
        calls.append(f"    run_{tid}(&mut rng, n);")
    os.makedirs(os.path.join(out, "src"), exist_ok=True)
    main_rs = MAIN_TMPL % {"types": "\n\n".join(g.rust), "runners": "\n".join(runners), "calls": "\n".join(calls)}
    with open(os.path.join(out, "src", "main.rs"), "w") as f:
        f.write(main_rs)
    with open(os.path.join(out, "Cargo.toml"), "w") as f:
        f.write('[package]\nname = "c19gen"\nversion = "0.1.0"\nedition = "2021"\n\n[workspace]\n\n[dependencies]\n'
                'ethercrab-wire = { path = "/repo/ethercrab-wire" }\n\n[profile.dev]\nopt-level = 0\ndebug = false\n')
    with open(os.path.join(out, "types.json"), "w") as f:
        json.dump(g.types, f)
    print(f"generated {len(g.types)} types")


if __name__ == "__main__":
    main()
