import json, sys, os, re, subprocess
sys.path.insert(0, os.path.dirname(os.path.abspath(__file__)))
import vlib
from props import sii_common as S
d = json.load(open(sys.argv[1])); c = d["replay"]["case"] if "case" in d["replay"] else d["replay"]
lines = ["From EC Require Import Base.Prelude Base.Bytes Sii.Range Sii.Parse Sii.Img Wire.Check.", "Local Open Scope N_scope.",
         "Definition i0 := Eval vm_compute in img_map %s." % vlib.gz(list(bytes.fromhex(c["img"])))]
md = "Release" if c["release"] else "Debug"
exps = []
if c["kind"] == "raw":
    lines.append("Eval vm_compute in obs_raw %s %d %d%%nat %s %s." % (S.gal_prov(c, "i0"), c["word"], c["n"], "true" if c["exact"] else "false", "true" if c["write"] else "false"))
    exps.append(S.exp_run(dict(c, q=0, arg=0), c["patches"]))
elif c["kind"] == "range":
    lines.append("Eval vm_compute in obs_range %s %d %d [%s]." % (S.gal_prov(c, "i0"), c["start"], c["len"], "; ".join(S.gal_rop(o) for o in c["ops"])))
    exps.append(S.exp_range(c))
else:
    runs = c["runs"] if "runs" in c else [dict(q=13, arg=c["alias"], res=c["res"], err=c.get("err", ""), out=[], writes=c["writes"])]
    for r in runs:
        lines.append("Eval vm_compute in obs_query %s %s %d %d." % (md, S.gal_prov(c, "i0"), r["q"], r["arg"]))
        exps.append(S.exp_run(r, c["patches"]))
os.makedirs("/verif/run/dbg", exist_ok=True)
open("/verif/run/dbg/dsii.v", "w").write("\n".join(lines) + "\n")
out = subprocess.run(["coqc", "-noglob", "-Q", vlib.COQ, "EC", "/verif/run/dbg/dsii.v"], capture_output=True, text=True)
vals = vlib.parse_evals(out.stdout)
print({k: c.get(k) for k in ("kind", "cs", "start", "len", "ops", "fill", "patches", "what", "raw", "word", "n", "exact", "write", "res", "err")}, "imglen", len(c["img"]) // 2)
for v, e in zip(vals, exps):
    model = [int(x) for x in re.findall(r"-?\d+", v.replace("%Z", ""))]
    if model != e:
        for i, (a, b) in enumerate(zip(model, e)):
            if a != b:
                print("diff at", i, "model", model[max(0, i - 6):i + 10], "impl", e[max(0, i - 6):i + 10]); break
        else:
            print("prefix equal; lens", len(model), len(e), model[-8:], e[-8:])
    else:
        print("equal", model[:6])
if out.returncode: print(out.stdout[-500:], out.stderr[-500:])
