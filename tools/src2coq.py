#!/usr/bin/env python3
"""Translator: regenerate coq/Gen/*.v from /repo's current sources on every run.

 * SrcLayouts.v : every `derive(EtherCrabWire*)` struct / enum found under /repo/src and
                  /repo/ethercrab-wire/src (outside `#[cfg(test)] mod tests`) as a Coq `layout`
                  / `enum_def` term, read off the `#[wire(..)]` / `#[repr(..)]` attributes.
 * SrcConsts.v  : named constants the hand-written models depend on, extracted by anchored
                  regexes; a missing anchor is a hard error.

The parser is attribute-level only (regex + bracket matching).  It refuses what it does not
understand: the refusal is reported (exit status 2 with a message naming the item) instead of the
item being skipped.
"""
import os, re, sys, json

REPO = os.environ.get("VERIF_REPO", "/repo")
OUT = os.path.join(os.path.dirname(os.path.abspath(__file__)), "..", "coq", "Gen")

PRIM_BITS = {"u8": 8, "i8": 8, "u16": 16, "i16": 16, "u32": 32, "i32": 32, "u64": 64, "i64": 64,
             "f32": 64, "f64": 64, "u128": 128, "i128": 128}   # as in parse_struct.rs (f32 => 8 bytes there)


class Refuse(Exception):
    pass


def strip_comments(s):
    s = re.sub(r"//[^\n]*", "", s)
    s = re.sub(r"/\*.*?\*/", "", s, flags=re.S)
    return s


def match_bracket(s, i, open_c, close_c):
    assert s[i] == open_c
    depth = 0
    for j in range(i, len(s)):
        if s[j] == open_c:
            depth += 1
        elif s[j] == close_c:
            depth -= 1
            if depth == 0:
                return j
    raise Refuse("unbalanced bracket")


def split_top(s, sep=","):
    out, depth, cur = [], 0, ""
    for ch in s:
        if ch in "([{<":
            depth += 1
        elif ch in ")]}>":
            depth -= 1
        if ch == sep and depth == 0:
            out.append(cur)
            cur = ""
        else:
            cur += ch
    if cur.strip():
        out.append(cur)
    return out


def parse_attrs(text):
    """return (list of attribute strings, rest)"""
    attrs = []
    i = 0
    while True:
        m = re.match(r"\s*#\s*\[", text[i:])
        if not m:
            break
        j = i + m.end() - 1
        k = match_bracket(text, j, "[", "]")
        attrs.append(text[j + 1:k].strip())
        i = k + 1
    return attrs, text[i:]


def num(s):
    s = s.strip().replace("_", "")
    s = re.sub(r"(u8|u16|u32|u64|i8|i16|i32|i64|usize)$", "", s)
    neg = s.startswith("-")
    if neg:
        s = s[1:].strip()
    v = int(s, 0)
    return -v if neg else v


def wire_args(attrs):
    d = {}
    for a in attrs:
        # cfg_attr(cond, derive(..)) and friends are not wire attrs
        m = re.match(r"wire\s*\((.*)\)\s*$", a, flags=re.S)
        if not m:
            continue
        for part in split_top(m.group(1)):
            part = part.strip()
            if not part:
                continue
            if "=" in part:
                k, v = part.split("=", 1)
                d[k.strip()] = v.strip()
            else:
                d[part] = True
    return d


def find_items(path):
    src = strip_comments(open(path).read())
    # cut `#[cfg(test)] mod tests { ... }`
    m = re.search(r"#\[cfg\(test\)\]\s*mod\s+\w+\s*\{", src)
    if m:
        src = src[:m.start()]
    items = []
    for m in re.finditer(r"#\s*\[", src):
        pass
    i = 0
    n = len(src)
    while i < n:
        m = re.compile(r"#\s*\[").search(src, i)
        if not m:
            break
        start = m.start()
        attrs, rest = parse_attrs(src[start:])
        consumed = len(src[start:]) - len(rest)
        i = start + consumed
        if not any("EtherCrabWire" in a and "derive" in a for a in attrs):
            continue
        hm = re.match(r"\s*(pub(\s*\([^)]*\))?\s+)?(struct|enum)\s+(\w+)\s*(<[^{]*>)?\s*(where[^{]*)?\{", rest, flags=re.S)
        if not hm:
            raise Refuse(f"{path}: derive(EtherCrabWire*) on an item I cannot parse: {rest[:60]!r}")
        body_open = i + hm.end() - 1
        body_close = match_bracket(src, body_open, "{", "}")
        items.append({"file": os.path.relpath(path, REPO), "kind": hm.group(3), "name": hm.group(4),
                      "attrs": attrs, "body": src[body_open + 1:body_close],
                      "line": src[:start].count("\n") + 1})
        i = body_close + 1
    return items


def translate_struct(it):
    w = wire_args(it["attrs"])
    if "bits" in w:
        width = num(w["bits"])
    elif "bytes" in w:
        width = num(w["bytes"]) * 8
    else:
        raise Refuse(f"{it['name']}: struct without #[wire(bits|bytes)]")
    for k in w:
        if k not in ("bits", "bytes"):
            raise Refuse(f"{it['name']}: unknown struct attribute {k}")
    fields = []
    for part in split_top(it["body"]):
        part = part.strip()
        if not part:
            continue
        attrs, rest = parse_attrs(part)
        fm = re.match(r"\s*(pub(\s*\([^)]*\))?\s+)?(\w+)\s*:\s*(.+)$", rest.strip(), flags=re.S)
        if not fm:
            raise Refuse(f"{it['name']}: cannot parse field {rest[:40]!r}")
        fname, fty = fm.group(3), fm.group(4).strip()
        fw = wire_args(attrs)
        for k in fw:
            if k not in ("bits", "bytes", "skip", "pre_skip", "pre_skip_bytes", "post_skip", "post_skip_bytes"):
                raise Refuse(f"{it['name']}.{fname}: unknown field attribute {k}")
        ty_ident = re.match(r"\w+", fty)
        ty_ident = ty_ident.group(0) if ty_ident and not fty.startswith("[") else None
        if "bits" in fw:
            bits = num(fw["bits"])
        elif "bytes" in fw:
            bits = num(fw["bytes"]) * 8
        elif ty_ident in PRIM_BITS:
            bits = PRIM_BITS[ty_ident]
        else:
            bits = None
        skip = "skip" in fw
        pre = 0 if skip else (num(fw["pre_skip"]) if "pre_skip" in fw else
                              num(fw["pre_skip_bytes"]) * 8 if "pre_skip_bytes" in fw else 0)
        post = 0 if skip else (num(fw["post_skip"]) if "post_skip" in fw else
                               num(fw["post_skip_bytes"]) * 8 if "post_skip_bytes" in fw else 0)
        if ty_ident == "u8":
            kind = "KU8"
        elif ty_ident == "bool":
            kind = "KBool"
        elif bits is not None and bits <= 8:
            kind = "KByteT"
        else:
            kind = "KMulti"
        fields.append({"name": fname, "ty": fty, "kind": kind, "bits": bits, "pre": pre, "post": post, "skip": skip})
    return {"name": it["name"], "file": it["file"], "line": it["line"], "width": width, "fields": fields}


def translate_enum(it):
    repr_ty = None
    for a in it["attrs"]:
        m = re.match(r"repr\s*\(\s*(\w+)\s*\)", a)
        if m:
            repr_ty = m.group(1)
    if repr_ty not in ("u8", "u16", "u32", "u64", "i8", "i16", "i32", "i64"):
        raise Refuse(f"{it['name']}: enum without a usable #[repr]")
    variants = []
    for part in split_top(it["body"]):
        part = part.strip()
        if not part:
            continue
        attrs, rest = parse_attrs(part)
        rest = rest.strip()
        vm = re.match(r"(\w+)\s*(\([^)]*\))?\s*(=\s*(.+))?$", rest, flags=re.S)
        if not vm:
            raise Refuse(f"{it['name']}: cannot parse variant {rest[:40]!r}")
        vw = wire_args(attrs)
        for k in vw:
            if k not in ("alternatives", "catch_all"):
                raise Refuse(f"{it['name']}::{vm.group(1)}: unknown variant attribute {k}")
        alts = []
        if "alternatives" in vw:
            inner = vw["alternatives"].strip()
            if not (inner.startswith("[") and inner.endswith("]")):
                raise Refuse(f"{it['name']}: alternatives not a list")
            alts = [num(x) for x in split_top(inner[1:-1]) if x.strip()]
        disc = num(vm.group(4)) if vm.group(4) else None
        variants.append({"name": vm.group(1), "disc": disc, "alts": alts, "catch": "catch_all" in vw,
                         "default": any(a.strip() == "default" for a in attrs)})
    return {"name": it["name"], "file": it["file"], "line": it["line"], "repr": repr_ty,
            "nbytes": int(repr_ty[1:]) // 8, "signed": repr_ty.startswith("i"), "variants": variants}


def coq_layout(s):
    fs = []
    for f in s["fields"]:
        w = "None" if f["bits"] is None else f"(Some {f['bits']})"
        fs.append("{| fk := %s; fwidth := %s; fpre := %d; fpost := %d; fskip := %s |}" %
                  (f["kind"], w, f["pre"], f["post"], "true" if f["skip"] else "false"))
    return "{| lwidth := %d; lfields := [%s] |}" % (s["width"], ";\n      ".join(fs))


def zlit(v):
    return f"({v})" if v < 0 else str(v)


def coq_enum(e):
    vs = []
    for v in e["variants"]:
        d = "None" if v["disc"] is None else f"(Some {zlit(v['disc'])})"
        vs.append("{| vdisc := %s; valts := [%s]; vcatch := %s; vdefault := %s |}" %
                  (d, "; ".join(zlit(a) for a in v["alts"]), "true" if v["catch"] else "false",
                   "true" if v["default"] else "false"))
    return "{| erepr_bytes := %d; esigned := %s; evariants := [%s]%%Z |}" % (
        e["nbytes"], "true" if e["signed"] else "false", ";\n      ".join(vs))


CONSTS = [
    # (coq name, file, regex with one group, base)
    ("c_LEN_MASK", "src/lib.rs", r"const LEN_MASK: u16 = (0b[01_]+);"),
    ("c_ETHERCAT_ETHERTYPE", "src/lib.rs", r"const ETHERCAT_ETHERTYPE: u16 = (0x[0-9a-fA-F_]+);"),
    ("c_BASE_SUBDEVICE_ADDRESS", "src/lib.rs", r"const BASE_SUBDEVICE_ADDRESS: u16 = (0x[0-9a-fA-F_]+);"),
    ("c_FIRST_PDU_EMPTY", "src/pdu_loop/frame_element/mod.rs", r"const FIRST_PDU_EMPTY: u16 = (0x[0-9a-fA-F_]+);"),
]


def write_if_changed(path, text):
    if os.path.exists(path) and open(path).read() == text:
        return False
    os.makedirs(os.path.dirname(path), exist_ok=True)
    with open(path, "w") as f:
        f.write(text)
    return True


def collect():
    roots = [os.path.join(REPO, "src"), os.path.join(REPO, "ethercrab-wire", "src")]
    structs, enums = [], []
    for root in roots:
        for dp, dn, fn in os.walk(root):
            for f in sorted(fn):
                if not f.endswith(".rs") or f == "vendors.rs":
                    continue
                for it in find_items(os.path.join(dp, f)):
                    if it["kind"] == "struct":
                        structs.append(translate_struct(it))
                    else:
                        enums.append(translate_enum(it))
    structs.sort(key=lambda s: (s["file"], s["line"]))
    enums.sort(key=lambda s: (s["file"], s["line"]))
    return structs, enums


def consts():
    out = []
    for name, rel, rx in CONSTS:
        txt = open(os.path.join(REPO, rel)).read()
        m = re.search(rx, txt)
        if not m:
            raise Refuse(f"constant anchor for {name} not found in {rel}")
        line = txt[:m.start()].count("\n") + 1
        out.append((name, num(m.group(1)), f"{rel}:{line}"))
    return out


def wkc_sites():
    """Every place outside src/command where a datagram's working counter is not checked: a read
    or write chain with `.ignore_wkc()`, and the fire-and-forget `.send(maindevice, ..)` of
    WrappedWrite.  One entry per site: (file, enclosing fn, what the chain ends in)."""
    sites = []
    for dp, dn, fn in os.walk(os.path.join(REPO, "src")):
        for f in sorted(fn):
            if not f.endswith(".rs"):
                continue
            path = os.path.join(dp, f)
            rel = os.path.relpath(path, REPO)
            if rel.startswith("src/command") or rel == "src/verif.rs":
                continue
            txt = strip_comments(open(path).read())
            cut = txt.find("#[cfg(test)]\nmod tests")
            if cut >= 0:
                txt = txt[:cut]
            fns = [(m.start(), m.group(1)) for m in re.finditer(r"\bfn\s+(\w+)", txt)]
            def enclosing(pos):
                name = "?"
                for st, n in fns:
                    if st <= pos:
                        name = n
                return name
            for m in re.finditer(r"\.ignore_wkc\(\)", txt):
                tail = txt[m.end():m.end() + 400]
                t = re.search(r"\.(receive_slice|receive_wkc|receive|send_receive_slice|send_receive|send)\s*(::<[^>]*>)?\s*\(", tail)
                sites.append((rel, enclosing(m.start()), "ignore_wkc+" + (t.group(1) if t else "?")))
            for m in re.finditer(r"\.send\(\s*(self\.)?(self\.subdevice\.)?maindevice|\.send\(\s*self\s*,", txt):
                head = txt[max(0, m.start() - 400):m.start()]
                if ".ignore_wkc()" in head[head.rfind(";") + 1:]:
                    continue          # already listed through its ignore_wkc
                sites.append((rel, enclosing(m.start()), "send"))
            # frame-level users: a function that takes the datagrams out of a received frame itself
            # (into_pdu_iter / first_pdu) and never calls wkc()/maybe_wkc() on them
            if rel.startswith("src/pdu_loop"):
                continue
            for k, (st, name) in enumerate(fns):
                b = txt.find("{", st)
                if b < 0 or (k + 1 < len(fns) and b > fns[k + 1][0]):
                    continue
                depth, j = 0, b
                while j < len(txt):
                    if txt[j] == "{":
                        depth += 1
                    elif txt[j] == "}":
                        depth -= 1
                        if depth == 0:
                            break
                    j += 1
                body = txt[b:j]
                if re.search(r"\.into_pdu_iter\(\)|\.first_pdu\(", body) and not re.search(r"\.(maybe_)?wkc\(", body):
                    sites.append((rel, name, "frame-level+no-wkc-check"))
    return sorted(set(sites))


def registers():
    """src/register.rs: the RegisterAddress enum, every variant with its explicit discriminant."""
    rel = "src/register.rs"
    txt = strip_comments(open(os.path.join(REPO, rel)).read())
    m = re.search(r"pub\s+enum\s+RegisterAddress\s*\{", txt)
    if not m:
        raise Refuse("enum RegisterAddress not found in " + rel)
    i = m.end() - 1
    depth, j = 0, i
    while True:
        if txt[j] == "{":
            depth += 1
        elif txt[j] == "}":
            depth -= 1
            if depth == 0:
                break
        j += 1
    body = txt[i + 1:j]
    out = []
    for part in body.split(","):
        part = part.strip()
        if not part:
            continue
        part = re.sub(r"#\[[^\]]*\]", "", part).strip()
        mm = re.match(r"^(\w+)\s*=\s*(0x[0-9a-fA-F_]+|\d[\d_]*)\s*(u16)?$", part)
        if not mm:
            raise Refuse(f"RegisterAddress variant not understood: {part[:60]!r}")
        out.append((mm.group(1), int(mm.group(2).replace("_", ""), 0)))
    return out


def wake_order():
    """The order of the two pairs of steps the no-lost-wake-up argument rests on, read off the
    source text: in ReceiveFrameFut::poll the waker is registered BEFORE the RxDone check; in
    ReceivingFrame::mark_received the status becomes RxDone BEFORE the waker is taken and woken."""
    rel = "src/pdu_loop/frame_element/receiving_frame.rs"
    txt = strip_comments(open(os.path.join(REPO, rel)).read())
    def body(after, name):
        m = re.search(r"fn\s+" + name + r"\s*\(", txt[after:])
        if not m:
            raise Refuse(f"fn {name} not found in {rel}")
        st = after + m.start()
        i = txt.index("{", st)
        depth, j = 0, i
        while True:
            if txt[j] == "{":
                depth += 1
            elif txt[j] == "}":
                depth -= 1
                if depth == 0:
                    break
            j += 1
        return txt[i:j]
    fut = txt.find("impl<'sto> Future for ReceiveFrameFut")
    if fut < 0:
        raise Refuse("impl Future for ReceiveFrameFut not found")
    poll = body(fut, "poll")
    mr = body(0, "mark_received")
    reg = poll.find("replace_waker(")
    chk = poll.find("swap_state(FrameState::RxDone")
    if chk < 0:
        chk = poll.find("FrameState::RxDone")          # however the test is written
    done = mr.find("swap_state(FrameState::RxBusy, FrameState::RxDone")
    if done < 0:
        done = mr.find("FrameState::RxDone")           # however RxDone is stored
    wake = mr.find(".wake()")
    if min(reg, chk, done, wake) < 0:
        raise Refuse(f"wake protocol anchors not found in {rel} (reg {reg}, check {chk}, done {done}, wake {wake})")
    return reg < chk, done < wake


def idx_program():
    """FrameBox::next_pdu_idx as a program of atomic primitives on the shared PDU index counter
    (model: coq/Pdu/IdxAlloc.v).  Every method call on self.pdu_idx in the body, in source order."""
    rel = "src/pdu_loop/frame_element/frame_box.rs"
    txt = strip_comments(open(os.path.join(REPO, rel)).read())
    m = re.search(r"fn\s+next_pdu_idx\s*\(", txt)
    if not m:
        raise Refuse(f"fn next_pdu_idx not found in {rel}")
    i = txt.index("{", m.start())
    depth, j = 0, i
    while True:
        if txt[j] == "{":
            depth += 1
        elif txt[j] == "}":
            depth -= 1
            if depth == 0:
                break
        j += 1
    body = txt[i:j]
    if re.search(r"\b(loop|while|for|if|match)\b", body):
        raise Refuse(f"next_pdu_idx has control flow the index-allocation model does not cover: {body.strip()[:120]}")
    prog = []
    for mm in re.finditer(r"pdu_idx\s*\.\s*(\w+)\s*\(([^;]*?)\)\s*[;\n}]", body + "\n"):
        op, args = mm.group(1), mm.group(2)
        if op == "fetch_add" and re.match(r"\s*1\s*,", args):
            prog.append("PFetchAdd")
        elif op == "load":
            prog.append("PLoad")
        elif op == "store":
            prog.append("PStore")
        else:
            raise Refuse(f"next_pdu_idx uses pdu_idx.{op}({args.strip()[:40]}), which the index-allocation model does not cover")
    if not prog:
        raise Refuse("next_pdu_idx does not touch the shared PDU index counter")
    return prog


def main():
    try:
        structs, enums = collect()
        cs = consts()
    except Refuse as e:
        print(f"src2coq: REFUSED: {e}")
        sys.exit(2)
    lines = ["(* GENERATED by tools/src2coq.py from /repo's working tree -- do not edit *)",
             "From Coq Require Import String.", "From EC Require Import Base.Prelude Wire.Layout.",
             "Local Open Scope N_scope. Local Open Scope string_scope.", ""]
    for s in structs:
        lines.append(f"(* {s['file']}:{s['line']} *)")
        lines.append(f"Definition layout_{s['name']} : layout :=\n  {coq_layout(s)}.")
    lines.append("")
    lines.append("Definition src_layouts : list (string * layout) :=\n  [%s]." %
                 ";\n   ".join(f'("{s["name"]}", layout_{s["name"]})' for s in structs))
    lines.append("")
    for e in enums:
        lines.append(f"(* {e['file']}:{e['line']} *)")
        lines.append(f"Definition enum_{e['name']} : enum_def :=\n  {coq_enum(e)}.")
    lines.append("")
    lines.append("Definition src_enums : list (string * enum_def) :=\n  [%s]." %
                 ";\n   ".join(f'("{e["name"]}", enum_{e["name"]})' for e in enums))
    lines.append("")
    changed = write_if_changed(os.path.join(OUT, "SrcLayouts.v"), "\n".join(lines) + "\n")
    cl = ["(* GENERATED by tools/src2coq.py from /repo's working tree -- do not edit *)",
          "From EC Require Import Base.Prelude.", "Local Open Scope N_scope.", ""]
    for name, v, where in cs:
        cl.append(f"Definition {name} : N := {v}. (* {where} *)")
    changed2 = write_if_changed(os.path.join(OUT, "SrcConsts.v"), "\n".join(cl) + "\n")
    ws = wkc_sites()
    wl = ["(* GENERATED by tools/src2coq.py from /repo's working tree -- do not edit *)",
          "From Coq Require Import String List.", "Import ListNotations.", "Local Open Scope string_scope.", "",
          "(* every call site outside src/command that does not check a working counter *)",
          "Definition wkc_optout_sites : list (string * string * string) :=\n  [%s]." % ";\n   ".join('("%s", "%s", "%s")' % w for w in ws)]
    changed3 = write_if_changed(os.path.join(OUT, "WkcSites.v"), "\n".join(wl) + "\n")
    changed = changed or changed3
    try:
        rf, df = wake_order()
    except Refuse as e:
        print(f"src2coq: REFUSED: {e}")
        sys.exit(2)
    wo = ["(* GENERATED by tools/src2coq.py from /repo's working tree -- do not edit *)",
          "(* ReceiveFrameFut::poll registers its waker before it tests for RxDone *)",
          "Definition register_before_check : bool := %s." % ("true" if rf else "false"),
          "(* ReceivingFrame::mark_received stores RxDone before it takes and wakes the waker *)",
          "Definition done_before_wake : bool := %s." % ("true" if df else "false")]
    changed4 = write_if_changed(os.path.join(OUT, "WakeOrder.v"), "\n".join(wo) + "\n")
    changed = changed or changed4
    try:
        regs = registers()
    except Refuse as e:
        print(f"src2coq: REFUSED: {e}")
        sys.exit(2)
    rl = ["(* GENERATED by tools/src2coq.py from /repo's working tree -- do not edit *)",
          "From Coq Require Import String List NArith.", "Import ListNotations.", "Local Open Scope N_scope.", "",
          "(* src/register.rs: RegisterAddress *)"]
    for name, v in regs:
        rl.append(f"Definition reg_{name} : N := {v}.")
    rl.append("Definition src_registers : list (string * N) :=\n  [%s]." % ";\n   ".join('("%s"%%string, %d)' % r for r in regs))
    changed5 = write_if_changed(os.path.join(OUT, "SrcRegisters.v"), "\n".join(rl) + "\n")
    changed = changed or changed5
    try:
        prog = idx_program()
    except Refuse as e:
        print(f"src2coq: REFUSED: {e}")
        sys.exit(2)
    il = ["(* GENERATED by tools/src2coq.py from /repo's working tree -- do not edit *)",
          "From EC Require Import Base.Prelude Pdu.IdxAlloc.",
          "(* FrameBox::next_pdu_idx (src/pdu_loop/frame_element/frame_box.rs): its accesses to the shared",
          "   PDU index counter, in program order *)",
          "Definition next_pdu_idx_program : list prim := [%s]." % "; ".join(prog)]
    changed6 = write_if_changed(os.path.join(OUT, "IdxProgram.v"), "\n".join(il) + "\n")
    changed = changed or changed6
    summary = {"structs": len(structs), "enums": len(enums), "wkc_optout_sites": len(ws),
               "implicit_enums": [e["name"] for e in enums if any(v["disc"] is None and not v["catch"] for v in e["variants"])],
               "consts": len(cs), "changed": bool(changed or changed2)}
    write_if_changed(os.path.join(OUT, "summary.json"), json.dumps({"summary": summary, "structs": structs, "enums": enums}, indent=1))
    print("src2coq:", json.dumps(summary))


if __name__ == "__main__":
    main()
