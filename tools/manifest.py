#!/usr/bin/env python3
"""Single source of MANIFEST.json: per-property metadata lives here; run after adding a check."""
import json, os
V = os.path.dirname(os.path.dirname(os.path.abspath(__file__)))
COMMON_NOTE = ("Trusted: Coq 8.16.1 kernel + vm_compute; hand-written Gallina models of the function bodies tied to /repo by "
               "the correspondence harness (same inputs through the real code and the model, compared inside coqc); "
               "tools/src2coq.py for generated declarations; cfg(ethercrab_verif) wrappers in /repo/src/verif.rs. "
               "All pinned theorems are closed under the global context (no axioms). ")
CHECKS = {
 "C19": dict(
   technique="Coq proof (induction over the field list; finite byte sweeps by vm_compute) + translator-regenerated in-crate layouts + differential check of generated derive types against the model",
   text="Theorems for every layout accepted by the model of parse_struct and every in-range value vector: packed number = sum of fields at their declared bit positions (all other bits zero), unpack reads exactly those positions, unpack(pack)=id, short buffers are errors; enums: round trip, alternatives, undefined values, macro numbering = rustc numbering. Instantiated at every in-crate layout (regenerated from source each run). Tied to the macro by compiling dozens (quick) / hundreds (thorough) of generated declarations with the real derive and comparing unpack/pack/checked-pack results with the model inside Coq.",
   note="Field types of delegated multi-byte fields assumed to pack little-endian to the declared width; zero-width fields and type/width mismatches outside the quantifier."),
 "C04": dict(
   technique="Coq proof (frame invariant by induction over the push program, list surgery lemmas) + differential runs of random push programs through the real CreatedFrame/SendableFrame",
   text="Theorem c04_bytes: for every push program (both push kinds, any data, any override) into a frame of every size 28..2063 the bytes given to the driver equal an independent ETG-style encoding of exactly the accepted datagrams (header fields, length = max(override,data), zero padding, IRQ/WKC 0, more-follows on all but the last) and never exceed the frame size; c04_refuse / c04_rest: a datagram that does not fit is refused with the frame untouched, fill-the-rest takes exactly min(room, len). Tied by 1500 (quick) / 12000 over all 1487 sizes (thorough) random programs whose return values and transmitted bytes are compared with the model inside Coq, plus an independent Python encoder as oracle on the implementation's bytes.",
   note="Frame sizes above 2063 bytes are outside the quantifier (11-bit length field). The generated PduHeader layout and constants are pinned to the hand model by c04_header_layout."),
 "C03": dict(
   technique="Coq proof (ownership invariant between handle typestate and slot status preserved by every client operation; counting argument for alloc with a finite sweep over the 8 legal slot counts) + differential operation histories on the real frame slots with a drain-and-reallocate probe",
   text="Theorem c03_capacity: for every history a client can issue (alloc, pushes, mark, drops, TX ok/partial/error, arbitrary bytes to RX, polls with/without expired deadline and any retry budget) over n slots (n any power of two <= 128), after all handles are dropped exactly n allocations succeed and the next fails; c03_alloc_fails_iff_full: alloc errs iff every slot is held by a live handle; c03_created_drop. Tied by 600 (quick) / 6000 (thorough) random histories over 1..4 slots whose every return value and per-op slot snapshot (status, key, length) are compared with the model inside Coq, with the probe evaluated on the implementation as oracle.",
   note="Each API call is one atomic step (no pre-emption inside a call); TX claim+send is one step in this alphabet - abandonment while TX/RX is inside the buffer is the C06 window and quantified there. Atomics are sequentially consistent single steps."),
 "C05": dict(
   technique="Coq proof (case analysis of the receive path model against the slot-state algebra) + differential histories with structure-aware mutated frames and full before/after slot snapshots",
   text="Theorems: non-EtherCAT / own-source frames are ignored with the state untouched (c05_ignore); for ANY bytes, unless the frame is accepted the whole state is unchanged (c05_reject_pure); an accepted frame changes exactly the first slot carrying its first datagram index, which was awaiting a response, copying the datagram area in and leaving key, length, other slots and counters alone (c05_accept_local); a frame matching no awaiting request is never accepted (c05_stranger). Tied by 600/6000 histories delivering genuine, duplicate, late, truncated, oversized, length-lying, index-perturbed and random frames in every reachable slot-state combination for 1..4 slots, comparing results and full slot contents with the model; the no-panic clause is checked by catch_unwind on every delivery.",
   note="'Never panics' is shown by the model being total with every Rust slice/index mapped to a guarded branch plus catch_unwind on all generated inputs - the model itself cannot exhibit a panic that the guards miss. Buffer-length well-formedness (wf_pstate) is an invariant proved preserved by every operation."),
 "C06": dict(
   technique="Coq proof (induction on the retry budget over the slot model; case analysis of poll) + model witnesses (vm_compute) for the refuted safety clause + differential histories under a virtual clock with operations executed inside the TX / RX / poll / drop windows via cfg yield points",
   text="Proved: c06_count (R retries, no response => exactly R+1 byte-identical transmissions, PDU timeout, slot free), c06_forever (any budget outlasting the observation: k deadlines => k identical transmissions, still pending), c06_done_wins (a received response beats the deadline), c06_never_success / c06_done_needs_response (no success without an accepted response). REFUTED with machine-checked witnesses: the safety clause (c06_safe_refuted_tx_window, c06_safe_refuted_rx_window) - reproduced on the real code and carried as known findings; any breach outside those two window classes is still reported. Tied by 900/9000 cases: count scenarios (retries 0..3, response lost always or after transmission k, late poll) with the oracle evaluated on the implementation, and random histories with drops/expiries/allocations executed inside every window, all compared step by step with the model.",
   note="PARTIAL: 'safe outside the windows' is validated by the correspondence runs (every oracle failure seen lies in a window class) and by the C03 ownership theorem for histories with atomic TX, not yet by a theorem over the split-TX alphabet. The count clause assumes TX services every sendable frame before the next deadline (as the property states). Virtual time only; the embassy Timer fires from its second poll on (modelled in the harness)."),
 "C02": dict(
   technique="Coq proof (ownership invariant over the window-granular alphabet: handle typestate x TX claim x RX position <-> slot status, preserved by all 15 step kinds; lifecycle edges by case analysis) + differential histories with operations executed inside the TX/RX/poll/drop windows",
   text="Theorems over every history of the window-granular alphabet (application ops on held handles, TX claim/send outcome, RX claim/copy/done, poll and response-drop split at their yield points), with no deadline acting and no abandonment while TX or RX is inside that buffer: c02_mutex (at most one of builder/TX/RX/reader inside each buffer and the status names it), c02_alloc_only_free (a buffer is handed out only when nobody is inside), c02_lifecycle (every status change is an edge of the documented order plus the pending-future release edges). Tied by 600/6000 histories on the real slots with other operations executed from inside the yield-point callbacks; after every step the implementation's statuses, handles, TX claim and RX position are checked by an oracle and the whole trace is compared with the model.",
   note="Granularity: one step per API call or per half of a call that contains a yield point; interleavings finer than that (inside alloc_frame, push_pdu, mark_sendable) and weak-memory effects are not covered. The reader's ReceivedPdu view outliving its frame (first_pdu) is C01's finding, not part of this statement's model (a view is not a handle here)."),
 "C01": dict(
   technique="Coq proof (routing through the receive path + poll + first_pdu composed; free-slot key invariant by induction over client histories; list lemmas for views) + model witness for the refuted view-stability clause + differential histories that read responses through views",
   text="Proved: c01_routing (in any state where free slots carry no key and no other live request has the same first index, ANY well-formed response to the request in slot i - any data, working counter, further datagrams, source address - is accepted into slot i only, completes that request, and first_pdu's view shows exactly the returned data and working counter); c01_no_stale_keys (the first hypothesis holds in every state reachable by any client history - timeouts, abandonment, unsent drops, send errors included); c01_view_exact (trim_front shows exactly the rest of the data area for every amount); c01_first_pdu_exact. REFUTED: view stability (c01_view_stable_refuted; first_pdu releases the slot before returning the view) - known finding, reproduced on the real code. Tied by 500/5000 round-trip-biased histories with responses in any order and inside windows, read through first_pdu/iterator, views trimmed and re-read later; oracles on the implementation for routing, byte-exactness, trim and stability.",
   note="PARTIAL: the no-lost-wakeup clause is not modelled (wakers are outside the model; the single-threaded harness polls explicitly). Routing is proved at operation granularity; the window-granular races (response drop vs. concurrent allocation) are covered by the fix 1527fcbd + correspondence histories with yield points, not by a theorem. 'Fewer than 256 indices while outstanding' enters as the distinct-first-index hypothesis."),
 "C07": dict(
   technique="Coq proof (loop invariant + decreasing measure over the three cycle loops, induction on fuel; list lemmas for tiling and image update) + differential runs of the real tx_rx / tx_rx_sync_system_time / tx_rx_dc against a wire with random answers",
   text="Theorem c07_complete: for all three variants, every image/split/SubDevice list/logical start, every frame size from the smallest that carries one state check (plus the clock datagram), both integer modes and ANY device answers: the cycle terminates, and on success every image byte was sent exactly once in LRW datagrams tiling the logical window from its start, every frame fits the frame size and exactly one state check per SubDevice was sent. c07_frame (what each frame contains), c07_dc_once (one FRMW, first in the first frame, to the reference), c07_image_chunk (inputs take the returned bytes, outputs and all other bytes untouched), c07_cycle_info. Tied by 900 (quick) / 18000 debug+release (thorough) cycles on groups built through the hook constructor with every frame, final image, counter, state list and time compared with the model, and an independent Python oracle on the implementation's frames.",
   note="PARTIAL: the whole-cycle statements for the final image, the working-counter sum and the state list are proved per chunk / per frame (c07_image_chunk, model fields) and validated by the oracle, not yet lifted over the loop. Device answers are structurally well formed (arbitrary data and counters). The u16 counter sum overflow is a known finding. Known fixed: the no-DC-reference deadlock."),
 "C10": dict(
   technique="Coq proof (finite sweep over the 16 state values lifted to all lists; induction on the member list and on the wait rounds) + differential runs of the real TxRxResponse summaries and into_safe_op against scripted AL behaviour under a virtual clock",
   text="Theorem c10_summaries: for EVERY list of reported 4-bit states the summaries say exactly what the devices reported (single state iff all equal and named; all_op iff non-empty and all OP; is_in_state(v) iff all report v). c10_transition_sound: for all groups, frame sizes, limits and ANY device answers, Ok implies the requested state was written to every member in group order and to nobody else, and then - before the timeout - a complete round of status checks (one per member, in order) had every answer naming the requested state. c10_members_only (also on failing paths), c10_refusal_is_error (working counter != 1 or error flag -> error), c10_no_room, c10_transition_ends (never a hang). Tied by 3000 (quick) / 40000 (thorough) cases: summaries on all lists up to length 3 and random longer ones, transitions of 0..64 members with storage sizes from 28 bytes (no room) to 1100, members accepting late, stalling, falling back, refusing or absent, with every frame and the result compared with the model, plus an independent Python oracle.",
   note="The timeout is counted in frames of fixed virtual duration (the harness advances the clock per frame). request_into_op is documented not to wait and is outside the statement. Known fixed: summaries computed from the OR of the states (4fc6860b)."),
 "C18": dict(
   technique="Coq proof (N arithmetic with lia/nia over division and modulo; induction over the group) + differential runs of the real configure_dc_sync and tx_rx_dc in debug and release builds against a wire recording every datagram",
   text="Theorems c18_touches_only (on every path only the reference clock is read and only SubDevices that support DC and asked for SYNC are written), c18_configure_ok (success implies reference present, period/delay/SYNC1 periods within 32-bit ns, the captured configuration is the requested one and the datagrams are exactly: time read, then per DC device in order [sync off; start time; SYNC0 cycle; (SYNC1 cycle); flags 3|7]), c18_start_time (the multiple of the period in (time+delay-period, time+delay], fits 64 bits) and c18_start_time_overflow (error beyond 64 bits), c18_no_reference, c18_range_rejected (nothing written), c18_configure_total (no panic/hang for periods from 1 ns), c18_cycle (for EVERY 64-bit time, period >= 1 and period+shift < 2^64: offset = time mod period, wait = (period - offset) + shift, in both build modes). Tied by 3000 (quick) / 30000 debug+release (thorough) cases: groups of 1..8 devices of every support level and sync mode, boundary-heavy delays/periods/shifts/times incl. time+delay crossing 2^64, with every datagram, result and captured configuration compared with the model, plus an independent Python oracle phrased in the property's words.",
   note="Writes go through WrappedWrite::send which ignores the response, so an unacknowledged register write is not noticed (modelled as such; the property does not speak of it). A period of 0 ns divides by zero (outside the quantified domain; modelled as a panic). sync0_shift is not range-checked and is stored modulo 2^64. 'Supports DC' is dc_support().any(), RefOnly included. Known fixed: start-time overflow (9f0f3c3a), SYNC1 period range (4883306c)."),
}
ORDER = [f"C{i:02d}" for i in range(1, 21)]

def main():
    checks = []
    for pid in ORDER:
        if pid not in CHECKS:
            continue
        c = CHECKS[pid]
        checks.append({
            "property_id": pid,
            "quick_cmd": f"python3 tools/check.py {pid} --tier quick",
            "thorough_cmd": f"python3 tools/check.py {pid} --tier thorough",
            "evidence_file": f"evidence/{pid}.json",
            "replay_cmd_template": f"python3 tools/check.py {pid} --replay {{path}}",
            "engine": "coq+correspondence",
            "technique": c["technique"],
            "level_claimed": {"category": "proof", "text": c["text"], "design_ref": f"DESIGN.md section 6, {pid}"},
            "level_note": COMMON_NOTE + c["note"],
        })
    m = {
        "version": 1,
        "setup_cmd": "./setup.sh",
        "hooks": {
            "guard": "ethercrab_verif",
            "enable": "RUSTFLAGS=\"--cfg ethercrab_verif\" RUSTUP_TOOLCHAIN=1.88.0 cargo build --offline (harness crate /verif/harness path-depends on /repo)",
            "baseline_off_cmd": "cd /repo && export RUSTUP_TOOLCHAIN=1.88.0 && (cargo nextest run --workspace --no-fail-fast --tool-config-file pb:/w/lib/nextest.toml --profile pb --test-threads 8 --offline || cargo test --workspace --no-fail-fast --offline)",
            "source_commits": json.load(open(os.path.join(V, "tools", "hook_commits.json"))),
            "add_only": True,
        },
        "engines": [{"name": "coq+correspondence", "path": "tools/check.py", "serves_properties": [c["property_id"] for c in checks],
                     "kind_free_text": "Coq 8.16.1 theorems over executable Gallina models (coq/), translator tools/src2coq.py regenerating coq/Gen from /repo on every run, correspondence harness (Rust, harness/ and generated crates) whose observations are compared with the model by vm_compute inside coqc"}],
        "checks": checks,
        "not_applicable": [{"property_id": p, "reason": "check under construction in this round; will be claimed once its model, theorems and correspondence harness are committed (not a judgement that the technique cannot apply)"} for p in ORDER if p not in CHECKS],
        "notes": "See DESIGN.md. Known findings: findings/known_findings.json.",
    }
    json.dump(m, open(os.path.join(V, "MANIFEST.json"), "w"), indent=1)
    print("MANIFEST: claimed", [c["property_id"] for c in checks])

if __name__ == "__main__":
    main()
