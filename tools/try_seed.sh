#!/bin/bash
# try_seed.sh <seed-id> [PROP...] : apply seeded/<id>/patch.diff to /repo, run the quick checks, restore
ID=$1; shift
PROPS=${@:-$(echo $ID | cut -d- -f1)}
cd /verif
git -C /repo apply /verif/seeded/$ID/patch.diff || { echo "patch does not apply"; exit 2; }
for P in $PROPS; do
  timeout 3000 python3 tools/check.py $P --tier quick > run/try_${ID}_$P.log 2>&1
  echo "$ID $P exit=$? $(grep -c '^VIOLATION' run/try_${ID}_$P.log) violations; $(grep '^#' run/try_${ID}_$P.log | cut -c1-150 | sort | uniq -c | sort -rn | head -3 | tr '\n' '|')"
done
git -C /repo checkout -- .
rm -f replays/*  # replays of seeded runs are not kept
