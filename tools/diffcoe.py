import json, sys, os, re, subprocess
sys.path.insert(0, os.path.dirname(os.path.abspath(__file__)))
import vlib
from props import coe_common as C
d = json.load(open(sys.argv[1])); c = d["replay"]["case"] if "case" in d["replay"] else d["replay"]
g = C.gal_case(c)
inp = g[1:g.rindex(", [")]
txt = "From EC Require Import Base.Prelude Base.Bytes Coe.Sdo Coe.Run Wire.Check.\nLocal Open Scope N_scope.\nEval vm_compute in (match %s with (dv, o) => obs_run dv o end).\n" % inp
os.makedirs("/verif/run/dbg", exist_ok=True)
open("/verif/run/dbg/dcoe.v", "w").write(txt)
out = subprocess.run(["coqc", "-noglob", "-Q", vlib.COQ, "EC", "/verif/run/dbg/dcoe.v"], capture_output=True, text=True)
v = vlib.parse_evals(out.stdout)[0]
model = [int(x) for x in re.findall(r"-?\d+", v.replace("%Z", ""))]
exp = C.expected(c)
print({k: c[k] for k in ("op", "skind", "mlen", "tn", "idx", "sub", "res", "err", "upload_mode") if k in c}, "obj", len(c["obj"]) // 2, "replies", [r[:36] for r in c["replies"]][:4])
for i, (a, b) in enumerate(zip(model, exp)):
    if a != b:
        print("diff at", i, "model", model[max(0, i - 6):i + 12], "impl", exp[max(0, i - 6):i + 12]); break
else:
    print("prefix equal; lens", len(model), len(exp), model[-10:], exp[-10:])
