#!/usr/bin/env python3
"""mk_mut_prompt.py <PID> : create a scratch worktree /tmp/wt_<pid> of /repo and print the prompt
for a mutation-seeding sub-agent (property text only; nothing from /verif)."""
import json, os, subprocess, sys
pid = sys.argv[1]
wt = f"/tmp/wt_{pid.lower()}"
here = os.path.dirname(os.path.abspath(__file__))
prop = next(json.loads(l) for l in open(os.path.join(os.path.dirname(here), "properties.jsonl")) if json.loads(l)["id"] == pid)
if not os.path.exists(wt):
    subprocess.check_call(["git", "-C", "/repo", "worktree", "add", "--detach", wt, "HEAD"], stdout=subprocess.DEVNULL, stderr=subprocess.DEVNULL)
t = open(os.path.join(here, "mut_prompt_template.txt")).read()
print(t.replace("{WT}", wt).replace("{PROP}", json.dumps(prop, indent=1)))
