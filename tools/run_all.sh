#!/bin/bash
# run_all.sh [tier] : every registered check once, one line per check
TIER=${1:-quick}
cd /verif
for P in $(python3 -c "import json;print(' '.join(c['property_id'] for c in json.load(open('MANIFEST.json'))['checks']))"); do
  S=$(date +%s)
  timeout 7200 python3 tools/check.py $P --tier $TIER > run/all_$P.log 2>&1
  RC=$?
  echo "$P exit=$RC $(( $(date +%s) - S ))s $(grep -c '^VIOLATION' run/all_$P.log) violations $(grep -c '^KNOWN' run/all_$P.log) known"
done
