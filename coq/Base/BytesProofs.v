From EC Require Import Base.Prelude Base.Bytes.
Local Open Scope N_scope.

Lemma le_bytes_length n v : length (le_bytes n v) = n.
Proof. revert v; induction n; intros; simpl; auto. Qed.

Lemma le_bytes_wf n v : wf_bytes (le_bytes n v).
Proof.
  unfold wf_bytes. revert v; induction n; intros; simpl; constructor.
  - apply N.mod_lt; lia.
  - apply IHn.
Qed.

Lemma of_le_bound l : wf_bytes l -> of_le l < 256 ^ N.of_nat (length l).
Proof.
  induction 1 as [|b r Hb Hr IH]; cbn [of_le length].
  - simpl. lia.
  - rewrite Nat2N.inj_succ, N.pow_succ_r'. nia.
Qed.

Lemma of_le_le_bytes n v : v < 256 ^ N.of_nat n -> of_le (le_bytes n v) = v.
Proof.
  revert v; induction n; intros v Hv.
  - simpl in *. lia.
  - cbn [le_bytes of_le]. rewrite Nat2N.inj_succ, N.pow_succ_r' in Hv.
    rewrite IHn.
    + pose proof (N.div_mod v 256). lia.
    + apply N.div_lt_upper_bound; lia.
Qed.

Lemma le_bytes_of_le l : wf_bytes l -> le_bytes (length l) (of_le l) = l.
Proof.
  induction 1 as [|b r Hb Hr IH]; cbn [of_le length le_bytes]; auto.
  f_equal.
  - replace (b + 256 * of_le r) with (b + of_le r * 256) by lia.
    rewrite N.mod_add by lia. apply N.mod_small; auto.
  - assert (E : (b + 256 * of_le r) / 256 = of_le r).
    { replace (b + 256 * of_le r) with (b + of_le r * 256) by lia.
      rewrite N.div_add by lia. rewrite N.div_small by auto. lia. }
    rewrite E. exact IH.
Qed.

Lemma of_le_app a b : of_le (a ++ b) = of_le a + 256 ^ N.of_nat (length a) * of_le b.
Proof.
  induction a as [|x a IH]; cbn [app of_le length].
  - simpl. lia.
  - rewrite IH, Nat2N.inj_succ, N.pow_succ_r'. lia.
Qed.

Lemma of_le_zeros n : of_le (zeros n) = 0.
Proof. induction n; simpl; auto. unfold zeros in *. rewrite IHn. reflexivity. Qed.

Lemma zeros_length n : length (zeros n) = n.
Proof. apply repeat_length. Qed.

Lemma upd_length {A} k (x : A) l : length (upd k x l) = length l.
Proof. revert k; induction l; intros [|k]; simpl; auto. Qed.

Lemma splice_length {A} k (s l : list A) : length (splice k s l) = length l.
Proof.
  revert k s; induction l as [|a l IH]; intros [|k] s; simpl; auto.
  destruct s; simpl; auto.
Qed.

Lemma nth_upd_eq {A} k (x d : A) l : (k < length l)%nat -> nth k (upd k x l) d = x.
Proof. revert k; induction l; intros [|k] H; simpl in *; try lia; auto. apply IHl; lia. Qed.

Lemma nth_upd_ne {A} k j (x d : A) l : j <> k -> nth j (upd k x l) d = nth j l d.
Proof.
  revert k j; induction l; intros [|k] [|j] H; simpl; auto; try congruence.
Qed.

Lemma of_le_upd k x l :
  (k < length l)%nat ->
  of_le (upd k x l) + nth k l 0 * 256 ^ N.of_nat k = of_le l + x * 256 ^ N.of_nat k.
Proof.
  revert k; induction l as [|a l IH]; intros [|k] H; cbn [length] in H; try lia.
  - cbn [upd of_le nth]. simpl N.of_nat. rewrite N.pow_0_r. lia.
  - cbn [upd of_le nth]. specialize (IH k ltac:(lia)).
    rewrite Nat2N.inj_succ, N.pow_succ_r'. nia.
Qed.

Lemma wf_upd k x l : wf_bytes l -> x < 256 -> wf_bytes (upd k x l).
Proof.
  unfold wf_bytes. intros H Hx; revert k; induction H as [|a l Ha Hl IH]; intros [|k]; simpl;
    try constructor; auto.
Qed.

Lemma wf_zeros n : wf_bytes (zeros n).
Proof. unfold wf_bytes, zeros. induction n; simpl; constructor; auto. lia. Qed.

Lemma wf_firstn n l : wf_bytes l -> wf_bytes (firstn n l).
Proof.
  unfold wf_bytes. intros H; revert n; induction H; intros [|n]; simpl; constructor; auto.
Qed.

Lemma wf_skipn n l : wf_bytes l -> wf_bytes (skipn n l).
Proof.
  unfold wf_bytes. intros H; revert n; induction H; intros [|n]; simpl; auto.
Qed.

Lemma wf_app a b : wf_bytes a -> wf_bytes b -> wf_bytes (a ++ b).
Proof. unfold wf_bytes. intros; apply Forall_app; auto. Qed.

Lemma nth_firstn_lt {A} (l : list A) n k d : (n < k)%nat -> nth n (firstn k l) d = nth n l d.
Proof.
  revert n k; induction l as [|a l IH]; intros n k H.
  - rewrite firstn_nil. reflexivity.
  - destruct k; [lia|]. destruct n; cbn; auto. apply IH. lia.
Qed.

Lemma nth_skipn_add {A} (l : list A) n k d : nth n (skipn k l) d = nth (k + n) l d.
Proof.
  revert l; induction k as [|k IH]; intros l; cbn [skipn Nat.add]; auto.
  destruct l; cbn [nth]; [destruct n; reflexivity|]. apply IH.
Qed.

Lemma skipn_skipn_add {A} (l : list A) a b : skipn a (skipn b l) = skipn (b + a) l.
Proof.
  revert l; induction b as [|b IH]; intros l; cbn [skipn Nat.add]; auto.
  destruct l; [destruct a; reflexivity|]. apply IH.
Qed.
