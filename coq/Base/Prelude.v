(* Conventions shared by every model file: imports, outcome type, integer modes. *)
From Coq Require Export List NArith ZArith Lia Bool Arith.
From Coq Require Export ZifyBool ZifyNat ZifyN.
Export ListNotations.



Ltac Zify.zify_post_hook ::= Z.div_mod_to_equations.

Arguments N.add : simpl never.
Arguments N.sub : simpl never.
Arguments N.mul : simpl never.
Arguments N.div : simpl never.
Arguments N.modulo : simpl never.
Arguments N.pow : simpl never.
Arguments N.eqb : simpl never.
Arguments N.ltb : simpl never.
Arguments N.leb : simpl never.
Arguments N.shiftl : simpl never.
Arguments N.shiftr : simpl never.
Arguments N.land : simpl never.
Arguments N.lor : simpl never.
Arguments Z.add : simpl never.
Arguments Z.sub : simpl never.
Arguments Z.mul : simpl never.
Arguments Z.div : simpl never.
Arguments Z.modulo : simpl never.
Arguments Z.pow : simpl never.

(* Outcome of a modelled Rust computation.  [Panic] carries a site number, [Hang]
   is fuel exhaustion; neither is ever a "normal looking" value. *)
Inductive res (E A : Type) : Type :=
| Ok (a : A)
| Err (e : E)
| Panic (site : N)
| Hang.
Arguments Ok {E A} a.
Arguments Err {E A} e.
Arguments Panic {E A} site.
Arguments Hang {E A}.

Definition rbind {E A B} (r : res E A) (f : A -> res E B) : res E B :=
  match r with
  | Ok a => f a
  | Err e => Err e
  | Panic s => Panic s
  | Hang => Hang
  end.
Notation "'let?' x ':=' r 'in' k" := (rbind r (fun x => k))
  (at level 200, x name, r at level 100, k at level 200, right associativity).
Notation "'let?' ' p ':=' r 'in' k" := (rbind r (fun x => match x with p => k end))
  (at level 200, p strict pattern, r at level 100, k at level 200, right associativity).

Definition is_panic {E A} (r : res E A) : bool :=
  match r with Panic _ => true | _ => false end.
Definition is_hang {E A} (r : res E A) : bool :=
  match r with Hang => true | _ => false end.

(* Debug = overflow checks on (panic); Release = wrap. *)
Inductive mode := Debug | Release.

Definition byte := N.
Definition wf_bytes (l : list N) : Prop := Forall (fun b => (b < 256)%N) l.
Definition wf_bytesb (l : list N) : bool := forallb (fun b => (b <? 256)%N) l.

Lemma wf_bytesb_spec l : wf_bytesb l = true <-> wf_bytes l.
Proof.
  unfold wf_bytesb, wf_bytes. rewrite forallb_forall, Forall_forall.
  split; intros H x Hx; specialize (H x Hx); lia.
Qed.
