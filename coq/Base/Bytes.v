(* Little-endian byte strings <-> numbers. *)
From EC Require Import Base.Prelude.
Local Open Scope N_scope.

Fixpoint of_le (l : list N) : N :=
  match l with
  | [] => 0
  | b :: r => b + 256 * of_le r
  end.

Fixpoint le_bytes (n : nat) (v : N) : list N :=
  match n with
  | O => []
  | S k => (v mod 256) :: le_bytes k (v / 256)
  end.

Definition zeros (n : nat) : list N := repeat 0 n.

(* replace element k *)
Fixpoint upd {A} (k : nat) (x : A) (l : list A) : list A :=
  match l, k with
  | [], _ => []
  | _ :: r, O => x :: r
  | a :: r, S k' => a :: upd k' x r
  end.

(* overwrite l[k .. k+len src) with src (clipped to l) *)
Fixpoint splice {A} (k : nat) (src : list A) (l : list A) : list A :=
  match l, k with
  | [], _ => []
  | _ :: r, O => match src with [] => l | s :: src' => s :: splice O src' r end
  | a :: r, S k' => a :: splice k' src r
  end.

Definition slice {A} (s e : nat) (l : list A) : list A := firstn (e - s) (skipn s l).
