(* C11: which datagrams of each public entry point have their working counter checked, and what the
   entry point returns for given counters (src/command/{reads,writes}.rs maybe_wkc and the callers
   in subdevice/mod.rs, eeprom/device_provider.rs, mailbox/coe/mod.rs).  No proofs here. *)
From EC Require Import Base.Prelude Base.Bytes.
Local Open Scope N_scope.

Inductive cls := Checked (expected : N) | Exempt.

(* a datagram as the wire saw it: command code, register address, working counter answered *)
Record dg := { g_cmd : N; g_ado : N; g_wkc : N }.

Definition mailbox_read_addr : N := 5120.   (* the harness' read mailbox, 0x1400 *)

(* the entry points the harness drives, numbered as in harness/src/bin/c11.rs *)
Fixpoint classify (op : N) (expected : N) (i : nat) (written : bool) (l : list dg) : list (cls * N) :=
  match l with
  | [] => []
  | g :: r =>
    let c :=
      match op with
      | 0 | 3 | 4 | 8 | 9 => Checked 1
      | 14 => Checked 1     (* a group transition: the AL control write, the status code read after a refusal and every status poll *)
      | 1 | 5 | 7 => Checked expected
      | 2 | 6 => Exempt                        (* ignore_wkc / WrappedWrite::send *)
      | 10 => if (i <? 2)%nat then Checked 1 else Exempt      (* the code read of the error path is best effort *)
      | 11 => if g_cmd g =? 5 then Exempt else Checked 1      (* SII command write is fire-and-forget *)
      | _ => if g_cmd g =? 5 then Exempt                      (* mailbox write *)
             else if (g_ado g =? mailbox_read_addr) && negb written then Exempt   (* clearing a stale mailbox *)
             else Checked 1
      end in
    (c, g_wkc g) :: classify op expected (S i) (written || (g_cmd g =? 5)) r
  end.

Fixpoint first_mismatch (l : list (cls * N)) : option (N * N) :=
  match l with
  | [] => None
  | (Checked e, w) :: r => if w =? e then first_mismatch r else Some (e, w)
  | (Exempt, _) :: r => first_mismatch r
  end.

Inductive werr := WWkc (expected received : N) | WDevice.

(* what the entry point returns: a working-counter error for the first checked datagram whose
   counter differs; otherwise its value (or, for status(), the device's own error report) *)
Definition outcome (op expected : N) (al_error : bool) (l : list dg) : res werr unit :=
  match first_mismatch (classify op expected 0 false l) with
  | Some (e, w) => Err (WWkc e w)
  | None => if ((op =? 10) || (op =? 14)) && al_error then Err WDevice else Ok tt
  end.

Definition obs_outcome (op expected : N) (al_error : bool) (l : list dg) : list Z :=
  match outcome op expected al_error l with
  | Ok _ => [0]
  | Err (WWkc e w) => [1; Z.of_N e; Z.of_N w]
  | Err WDevice => [2]
  | Panic _ => [-98] | Hang => [-99]
  end%Z.
