From EC Require Import Base.Prelude Base.Bytes Cmd.Wkc.
Local Open Scope N_scope.

(* no mismatch <-> every checked datagram was serviced by exactly the expected number of devices *)
Lemma first_mismatch_none l :
  first_mismatch l = None <-> Forall (fun cw => match fst cw with Checked e => snd cw = e | Exempt => True end) l.
Proof.
  induction l as [|[[e|] w] r IH]; cbn [first_mismatch].
  - split; [constructor|reflexivity].
  - destruct (N.eqb_spec w e) as [->|NE].
    + rewrite IH. split; [intros H; constructor; [reflexivity|exact H]|intros H; inversion H; assumption].
    + split; [discriminate|]. intros H. inversion H as [|? ? H1 _]. cbn in H1. congruence.
  - rewrite IH. split; [intros H; constructor; [exact I|exact H]|intros H; inversion H; assumption].
Qed.

(* a mismatch is reported with the counts of the FIRST checked datagram that differs *)
Lemma first_mismatch_some l e w :
  first_mismatch l = Some (e, w) ->
  exists pre post, l = pre ++ (Checked e, w) :: post /\ w <> e /\ first_mismatch pre = None.
Proof.
  induction l as [|[[e0|] w0] r IH]; cbn [first_mismatch]; [discriminate| |].
  - destruct (N.eqb_spec w0 e0) as [->|NE].
    + intros H. destruct (IH H) as (pre & post & E & N1 & N2). exists ((Checked e0, e0) :: pre), post.
      subst. repeat split; auto. cbn [first_mismatch]. rewrite N.eqb_refl. exact N2.
    + intros H. inversion H; subst. exists [], r. repeat split; auto.
  - intros H. destruct (IH H) as (pre & post & E & N1 & N2). exists ((Exempt, w0) :: pre), post. subst. repeat split; auto.
Qed.

(* the entry point hands back a value only if every checked datagram was serviced as expected *)
Theorem ok_only_if_counted op expected al l :
  outcome op expected al l = Ok tt ->
  Forall (fun cw => match fst cw with Checked e => snd cw = e | Exempt => True end) (classify op expected 0 false l).
Proof.
  unfold outcome. destruct (first_mismatch _) as [[e w]|] eqn:E; [discriminate|]. intros _. apply first_mismatch_none. exact E.
Qed.

(* and a differing counter on a checked datagram is a working-counter error with both counts *)
Theorem mismatch_is_wkc_error op expected al l e w pre post :
  classify op expected 0 false l = pre ++ (Checked e, w) :: post -> w <> e -> first_mismatch pre = None ->
  outcome op expected al l = Err (WWkc e w).
Proof.
  intros C NE P. unfold outcome. rewrite C.
  assert (G : first_mismatch (pre ++ (Checked e, w) :: post) = Some (e, w)).
  { clear C. induction pre as [|[[e0|] w0] r IH]; cbn [app first_mismatch] in *.
    - replace (w =? e) with false by (symmetry; apply N.eqb_neq; exact NE). reflexivity.
    - destruct (w0 =? e0); [apply IH; exact P|discriminate].
    - apply IH. exact P. }
  rewrite G. reflexivity.
Qed.

(* the single-datagram entry points: receive / receive_slice / send_receive / register access *)
Theorem single_checked op expected al g :
  In op [0; 3; 4; 8; 9] -> outcome op expected al [g] = if g_wkc g =? 1 then Ok tt else Err (WWkc 1 (g_wkc g)).
Proof.
  intros H. unfold outcome. cbn in H.
  destruct H as [<-|[<-|[<-|[<-|[<-|[]]]]]]; cbn [classify first_mismatch]; destruct (g_wkc g =? 1); reflexivity.
Qed.

Theorem single_expected op expected al g :
  In op [1; 5; 7] -> outcome op expected al [g] = if g_wkc g =? expected then Ok tt else Err (WWkc expected (g_wkc g)).
Proof.
  intros H. unfold outcome. cbn in H.
  destruct H as [<-|[<-|[<-|[]]]]; cbn [classify first_mismatch]; destruct (g_wkc g =? expected); reflexivity.
Qed.
