From EC Require Import Base.Prelude Base.Bytes Cycle.Cycle Cycle.State Cycle.StateProofs Cycle.WaitAll.
Local Open Scope N_scope.

Lemma read_codes_not_ok c k : forall addr resps used fs, read_codes c k addr resps used <> (Ok tt, fs).
Proof.
  induction k as [|k IH]; intros addr resps used fs; cbn [read_codes]; [discriminate|].
  destruct resps as [|a more]; [discriminate|].
  destruct (b_limit c <=? S used)%nat; [discriminate|].
  destruct (read_codes c k (addr + 1) more (S used)) as [r fs'] eqn:E.
  intros H; injection H as Hr Hf; subst r. eapply IH; exact E.
Qed.

(* Ok: the polls before the last did not show the state, the last one - received before the
   timeout - was answered by exactly b_n devices, none signalling an error, and names the state *)
Theorem wait_all_ok fuel : forall c resps used fs,
  wait_all fuel c resps used = (Ok tt, fs) ->
  exists before data after,
    resps = before ++ [[(data, b_n c)]] ++ after /\
    al_error data = false /\ al_state data = b_desired c /\
    fs = repeat [BStatus] (S (length before)) /\
    (used + S (length before) < b_limit c)%nat.
Proof.
  induction fuel as [|f IH]; intros c resps used fs H; cbn [wait_all] in H; [discriminate|].
  destruct resps as [|ans more]; [discriminate|].
  destruct (b_limit c <=? S used)%nat eqn:El; [discriminate|].
  apply Nat.leb_gt in El.
  destruct ans as [|[data wkc] [|? ?]]; try discriminate.
  destruct (wkc =? b_n c) eqn:Ew; cbn [negb] in H; [|discriminate].
  apply N.eqb_eq in Ew; subst wkc.
  destruct (al_error data) eqn:Ee.
  { destruct (read_codes c (N.to_nat (b_n c)) 4096 more (S used)) as [r fs'] eqn:E.
    injection H as Hr Hf; subst r. exfalso; eapply read_codes_not_ok; exact E. }
  destruct (al_state data =? b_desired c) eqn:Es.
  { apply N.eqb_eq in Es. injection H as Hf; subst fs.
    exists [], data, more. repeat split; auto. cbn [length]. lia. }
  destruct (wait_all f c more (S used)) as [r fs'] eqn:E.
  injection H as Hr Hf; subst r fs.
  destruct (IH _ _ _ _ E) as (before & d & after & Hre & He & Hs & Hfs & Hl).
  exists ([(data, b_n c)] :: before), d, after. subst more fs'. repeat split; auto.
  cbn [length]. lia.
Qed.

Lemma read_codes_ends c k : forall addr resps used, fst (read_codes c k addr resps used) <> Hang.
Proof.
  induction k as [|k IH]; intros addr resps used; cbn [read_codes]; [discriminate|].
  destruct resps as [|a more]; [discriminate|].
  destruct (b_limit c <=? S used)%nat; [discriminate|].
  specialize (IH (addr + 1) more (S used)).
  destruct (read_codes c k (addr + 1) more (S used)) as [r fs']; exact IH.
Qed.

(* the wait ends at the latest with the timeout *)
Theorem wait_all_ends fuel : forall c resps used, (0 < fuel)%nat -> (b_limit c <= fuel + used)%nat ->
  fst (wait_all fuel c resps used) <> Hang.
Proof.
  induction fuel as [|f IH]; intros c resps used H0 Hf; [lia|]. cbn [wait_all].
  destruct resps as [|ans more]; [discriminate|].
  destruct (b_limit c <=? S used)%nat eqn:El; [discriminate|].
  apply Nat.leb_gt in El.
  destruct ans as [|[data wkc] [|? ?]]; try discriminate.
  destruct (negb (wkc =? b_n c)); [discriminate|].
  destruct (al_error data).
  { pose proof (read_codes_ends c (N.to_nat (b_n c)) 4096 more (S used)) as Hc.
    destruct (read_codes c (N.to_nat (b_n c)) 4096 more (S used)) as [r fs']; exact Hc. }
  destruct (al_state data =? b_desired c); [discriminate|].
  assert (Hi : fst (wait_all f c more (S used)) <> Hang) by (apply IH; lia).
  destruct (wait_all f c more (S used)) as [r fs']; exact Hi.
Qed.

Theorem wait_network_ends c resps : fst (wait_network c resps) <> Hang.
Proof. unfold wait_network. apply wait_all_ends; lia. Qed.

Theorem wait_network_ok c resps fs : wait_network c resps = (Ok tt, fs) ->
  exists before data after,
    resps = before ++ [[(data, b_n c)]] ++ after /\
    al_error data = false /\ al_state data = b_desired c /\
    fs = repeat [BStatus] (S (length before)) /\ (S (length before) < b_limit c)%nat.
Proof.
  intros H. destruct (wait_all_ok _ _ _ _ _ H) as (b & d & a & H1 & H2 & H3 & H4 & H5).
  exists b, d, a. repeat split; auto.
Qed.

(* a poll that shows the error flag (from whichever device) ends the wait with an error, also when
   the state bits name the requested state; so does a poll not answered by every device *)
Theorem wait_error_flag f c data more used : (S used < b_limit c)%nat -> al_error data = true ->
  forall fs, wait_all (S f) c ([(data, b_n c)] :: more) used <> (Ok tt, fs).
Proof.
  intros Hl He fs. cbn [wait_all]. apply Nat.leb_gt in Hl. rewrite Hl, N.eqb_refl, He. cbn [negb].
  destruct (read_codes c (N.to_nat (b_n c)) 4096 more (S used)) as [r fs'] eqn:E.
  intros H; injection H as Hr Hf; subst r. eapply read_codes_not_ok; exact E.
Qed.

Theorem wait_missing_device f c data wkc more used : (S used < b_limit c)%nat -> wkc <> b_n c ->
  wait_all (S f) c ([(data, wkc)] :: more) used = (Err (TWkc (b_n c) wkc), [[BStatus]]).
Proof.
  intros Hl Hw. cbn [wait_all]. apply Nat.leb_gt in Hl. rewrite Hl.
  apply N.eqb_neq in Hw. rewrite Hw. reflexivity.
Qed.

(* ---- device side: what a broadcast answer says about the individual devices ---- *)

Definition onehot (d : N) : bool := (d =? 1) || (d =? 2) || (d =? 4) || (d =? 8).
Definition sub (x d : N) : bool := N.lor x d =? d.

Lemma lor_sweep : forallb (fun a => forallb (fun b =>
    (N.lor a b <? 32) && forallb (fun d => implb (sub (N.lor a b) d) (sub a d && sub b d)) [1; 2; 4; 8])
    (map N.of_nat (seq 0 32))) (map N.of_nat (seq 0 32)) = true.
Proof. vm_compute. reflexivity. Qed.

Lemma in32 a : a < 32 -> In a (map N.of_nat (seq 0 32)).
Proof. intros H. apply in_map_iff. exists (N.to_nat a). split; [lia|]. apply in_seq. lia. Qed.

Lemma onehot_in d : onehot d = true -> In d [1; 2; 4; 8].
Proof.
  unfold onehot. intros H. repeat (apply orb_true_iff in H as [H|H]); apply N.eqb_eq in H; subst; cbn; auto.
Qed.

Lemma lor_step a b d : a < 32 -> b < 32 -> onehot d = true ->
  N.lor a b < 32 /\ (sub (N.lor a b) d = true -> sub a d = true /\ sub b d = true).
Proof.
  intros Ha Hb Hd. pose proof lor_sweep as S. rewrite forallb_forall in S.
  specialize (S a (in32 a Ha)). rewrite forallb_forall in S. specialize (S b (in32 b Hb)).
  apply andb_true_iff in S as [S1 S2]. split; [apply N.ltb_lt; exact S1|].
  rewrite forallb_forall in S2. specialize (S2 d (onehot_in d Hd)). intros Hs. rewrite Hs in S2.
  cbn [implb] in S2. apply andb_true_iff in S2. exact S2.
Qed.

Lemma fold_sub d : onehot d = true -> forall sts acc, acc < 32 -> Forall (fun s => s < 32) sts ->
  sub (fold_left N.lor sts acc) d = true -> sub acc d = true /\ Forall (fun s => sub s d = true) sts.
Proof.
  intros Hd. induction sts as [|s r IH]; intros acc Ha Hf H; cbn [fold_left] in H; [split; [exact H|constructor]|].
  inversion Hf as [|? ? Hs Hr]; subst.
  destruct (lor_step acc s d Ha Hs Hd) as [Hl Hsub].
  destruct (IH _ Hl Hr H) as [H1 H2]. destruct (Hsub H1) as [H3 H4].
  split; [exact H3|constructor; assumption].
Qed.

Lemma sub_exact_sweep : forallb (fun s => forallb (fun d =>
    implb (sub s d && negb (N.land s 15 =? 0)) (s =? d)) [1; 2; 4; 8]) (map N.of_nat (seq 0 32)) = true.
Proof. vm_compute. reflexivity. Qed.

Lemma sub_exact s d : s < 32 -> onehot d = true -> sub s d = true -> N.land s 15 <> 0 -> s = d.
Proof.
  intros Hs Hd H Hn. pose proof sub_exact_sweep as S. rewrite forallb_forall in S.
  specialize (S s (in32 s Hs)). rewrite forallb_forall in S. specialize (S d (onehot_in d Hd)).
  rewrite H in S. apply N.eqb_neq in Hn. rewrite Hn in S. cbn in S. apply N.eqb_eq. exact S.
Qed.

Lemma land31_lt s : N.land s 31 < 32.
Proof. change 31 with (N.ones 5). rewrite N.land_ones. apply N.mod_lt. discriminate. Qed.

Lemma fold_land sts : forall acc,
  N.land (fold_left N.lor sts acc) 31 = fold_left N.lor (map (fun s => N.land s 31) sts) (N.land acc 31).
Proof.
  induction sts as [|s r IH]; intros acc; cbn [fold_left map]; [reflexivity|].
  rewrite IH, N.land_lor_distr_l. reflexivity.
Qed.

Lemma sub_of_eq x d : x = d -> sub x d = true.
Proof. intros ->. unfold sub. rewrite N.lor_diag. apply N.eqb_refl. Qed.

(* The answer to a broadcast read ORs the status registers of the devices it passed and counts them.
   If the state bits and error flag of the OR are exactly a single requested state (INIT, PRE-OP,
   SAFE-OP or OP), every device that answered reports exactly that state and no error - provided
   each reports some state at all (state bits 0 are no AL state).  BOOTSTRAP (3) is outside: an
   INIT and a PRE-OP device OR to 3. *)
Theorem brd_all_in_state sts d : onehot d = true ->
  Forall (fun s => N.land s 15 <> 0) sts ->
  al_state (fst (brd_answer sts)) = d -> al_error (fst (brd_answer sts)) = false ->
  Forall (fun s => N.land s 31 = d) sts /\ snd (brd_answer sts) = N.of_nat (length sts).
Proof.
  intros Hd Hnz Hs He. split; [|reflexivity].
  unfold brd_answer, al_state, al_error in *. cbn [fst nth] in *.
  set (o := fold_left N.lor sts 0) in *.
  assert (Ho : N.land o 31 = d).
  { apply N.bits_inj. intros k. rewrite N.land_spec.
    assert (Hk : N.testbit d k = N.testbit (N.land o 15) k) by (rewrite Hs; reflexivity).
    rewrite N.land_spec in Hk.
    destruct (N.eq_dec k 4) as [->|Hk4].
    { rewrite He. cbn [andb]. rewrite Hk, He. reflexivity. }
    rewrite Hk. f_equal.
    change 31 with (N.ones 5). change 15 with (N.ones 4).
    destruct (N.lt_ge_cases k 4) as [L|G].
    - rewrite !N.ones_spec_low by lia. reflexivity.
    - rewrite !N.ones_spec_high by lia. reflexivity. }
  unfold o in Ho. rewrite fold_land in Ho. change (N.land 0 31) with 0 in Ho.
  destruct (fold_sub d Hd (map (fun s => N.land s 31) sts) 0) as [_ Hall]; [lia| | |].
  { apply Forall_forall. intros x Hx. apply in_map_iff in Hx as (s & <- & _). apply land31_lt. }
  { apply sub_of_eq. exact Ho. }
  rewrite Forall_forall in *. intros s Hin.
  apply sub_exact; [apply land31_lt|exact Hd| |].
  { apply Hall. apply in_map_iff. exists s. split; [reflexivity|exact Hin]. }
  { replace (N.land (N.land s 31) 15) with (N.land s 15); [apply Hnz; exact Hin|].
    rewrite <- N.land_assoc. reflexivity. }
Qed.

(* ... and the caveat is real *)
Theorem brd_bootstrap_ambiguous :
  al_state (fst (brd_answer [1; 2])) = 3 /\ al_error (fst (brd_answer [1; 2])) = false.
Proof. split; reflexivity. Qed.

(* end to end: a successful network-wide wait whose last poll was answered by the devices [sts]
   (as many as the MainDevice counted) means every one of them is in the requested state *)
Theorem wait_network_sound c sts before after fs : onehot (b_desired c) = true ->
  Forall (fun s => N.land s 15 <> 0) sts ->
  wait_network c (before ++ [[brd_answer sts]] ++ after) = (Ok tt, fs) ->
  length fs = S (length before) ->
  N.of_nat (length sts) = b_n c /\ Forall (fun s => N.land s 31 = b_desired c) sts.
Proof.
  intros Hd Hnz H Hlen.
  destruct (wait_network_ok _ _ _ H) as (b & data & a & Hre & He & Hs & Hfs & Hl).
  assert (Hb : length b = length before).
  { rewrite Hfs, repeat_length in Hlen. lia. }
  assert (Heq : [(data, b_n c)] = [brd_answer sts]).
  { assert (Hn : nth_error (before ++ [[brd_answer sts]] ++ after) (length before) = Some [brd_answer sts]).
    { rewrite nth_error_app2 by lia. rewrite Nat.sub_diag. reflexivity. }
    rewrite Hre, <- Hb, nth_error_app2 in Hn by lia. rewrite Nat.sub_diag in Hn.
    cbn [app nth_error] in Hn. congruence. }
  assert (Hp : (data, b_n c) = brd_answer sts) by exact (f_equal (fun l => hd (data, b_n c) l) Heq).
  assert (Hd1 : data = fst (brd_answer sts)) by (rewrite <- Hp; reflexivity).
  assert (Hn1 : b_n c = snd (brd_answer sts)) by (rewrite <- Hp; reflexivity).
  subst data. split; [rewrite Hn1; reflexivity|].
  apply (brd_all_in_state sts (b_desired c) Hd Hnz Hs He).
Qed.

Lemma wait_network_example :
  wait_network {| b_n := 3; b_desired := 4; b_limit := 5 |}
    [[brd_answer [8; 8; 4]]; [brd_answer [8; 4; 4]]; [brd_answer [4; 4; 4]]] = (Ok tt, [[BStatus]; [BStatus]; [BStatus]]) /\
  fst (wait_network {| b_n := 3; b_desired := 4; b_limit := 5 |} [[brd_answer [4; 20; 4]]; [([17; 0], 1)]; [([17; 0], 1)]; [([17; 0], 1)]]) = Err TStateTransition /\
  fst (wait_network {| b_n := 3; b_desired := 4; b_limit := 3 |} [[brd_answer [8; 8; 4]]; [brd_answer [8; 4; 4]]; [brd_answer [4; 4; 4]]]) = Err TTimeout.
Proof. repeat split; vm_compute; reflexivity. Qed.
