From EC Require Import Base.Prelude Base.Bytes Base.BytesProofs Cycle.Cycle.
Local Open Scope N_scope.

Definition frame_size (f : list dgram) : nat := fold_right (fun d a => (dg_size d + a)%nat) 0%nat f.

Lemma frame_size_app a b : frame_size (a ++ b) = (frame_size a + frame_size b)%nat.
Proof. induction a as [|x a IH]; cbn [app frame_size fold_right]; [reflexivity|]. fold (frame_size (a ++ b)). fold (frame_size a). lia. Qed.

(* ---------- state checks: group order, as many as fit ---------- *)

Lemma push_checks_spec room subs : forall used count ds rest c,
  push_checks room used subs count = (ds, rest, c) ->
  exists k, ds = map DCheck (firstn k subs) /\ rest = skipn k subs /\ c = (count + k)%nat /\
            (k <= length subs)%nat /\ (k = 0%nat \/ used + 14 * k <= room)%nat /\
            (* it stopped because nothing is left, nothing more fits, or the per-frame cap *)
            (rest = [] \/ (room < used + 14 * k + 14)%nat \/ (128 < c)%nat).
Proof.
  induction subs as [|sd r IH]; intros used count ds rest c H; cbn [push_checks] in H.
  - inversion H; subst. exists 0%nat. cbn. repeat split; auto; lia.
  - destruct (used + 14 <=? room)%nat eqn:E.
    + destruct (128 <? count + 1)%nat eqn:E2.
      * inversion H; subst. exists 1%nat. cbn. repeat split; auto; try lia.
      * destruct (push_checks room (used + 14) r (S count)) as [[ds' rest'] c'] eqn:E3.
        inversion H; subst. destruct (IH _ _ _ _ _ E3) as (k & A & B & C & D & F & G).
        exists (S k). cbn [firstn map skipn length]. subst. repeat split; auto; try lia.
        destruct G as [G|[G|G]]; auto. right. left. lia.
    + inversion H; subst. exists 0%nat. cbn. repeat split; auto; try lia.
Qed.

Lemma frame_size_checks l : frame_size (map DCheck l) = (14 * length l)%nat.
Proof. induction l; cbn [map frame_size fold_right length]; [reflexivity|]. fold (frame_size (map DCheck l)). cbn [dg_size]. lia. Qed.

(* ---------- what one frame contains ---------- *)

Definition dc_part (c : cfg) (v : variant) (st : lstate) : list dgram :=
  match v, c_dcref c with
  | VPlain, _ => []
  | _, Some r => if l_time_read st then [] else [DDc r]
  | _, None => []
  end.

Theorem build_frame_spec c v st frame st' :
  build_frame c v st = Ok (frame, st') -> (c_len c <= length (l_img st))%nat ->
  let dc := dc_part c v st in
  let used0 := frame_size dc in
  let remaining := (c_len c - l_sent st)%nat in
  let n := Nat.min (c_room c - used0 - 12) remaining in
  exists lrw k,
    frame = dc ++ lrw ++ map DCheck (firstn k (l_subs st)) /\
    (* the process-data datagram: the next bytes of the image at the next logical address *)
    (lrw = [] \/ lrw = [DLrw (c_start c + N.of_nat (l_sent st))
                             (firstn n (skipn (Nat.min (l_sent st) (c_len c)) (l_img st)))]) /\
    (lrw = [] <-> firstn remaining (skipn (Nat.min (l_sent st) (c_len c)) (l_img st)) = [] \/
                  (c_room c - used0 - 12 = 0)%nat) /\
    (* the frame never exceeds the configured frame size *)
    (frame_size frame <= c_room c)%nat /\
    (* the state checks stop only when none is left, none fits any more, or at the per-frame cap *)
    (skipn k (l_subs st) = [] \/ (c_room c < frame_size (dc ++ lrw) + 14 * k + 14)%nat \/ (128 < k)%nat) /\
    (k <= length (l_subs st))%nat /\
    l_subs st' = skipn k (l_subs st) /\ l_checks st' = (l_checks st + k)%nat /\
    l_img st' = l_img st /\ l_sent st' = l_sent st /\ l_wkc st' = l_wkc st /\
    l_states st' = l_states st /\ l_frames st' = l_frames st /\
    l_time st' = l_time st /\ l_time_read st' = l_time_read st.
Proof.
  unfold build_frame. intros H Limg. cbv zeta.
  fold (dc_part c v st) in H. set (dc := dc_part c v st) in *.
  assert (Hdc : match dc with [] => 0%nat | _ => 20%nat end = frame_size dc).
  { subst dc. unfold dc_part. destruct v, (c_dcref c); try reflexivity; destruct (l_time_read st); reflexivity. }
  rewrite Hdc in H. set (used0 := frame_size dc) in *.
  destruct (c_room c <? used0)%nat eqn:E0; [discriminate|]. apply Nat.ltb_ge in E0.
  set (chunk := firstn (c_len c - l_sent st) (skipn (Nat.min (l_sent st) (c_len c)) (l_img st))) in *.
  set (mx := (c_room c - used0 - 12)%nat) in *.
  set (lrw := match chunk with
              | [] => []
              | _ => if (mx =? 0)%nat then []
                     else [DLrw (c_start c + N.of_nat (l_sent st)) (firstn (Nat.min mx (length chunk)) chunk)]
              end) in *.
  set (used1 := (used0 + match lrw with [d] => dg_size d | _ => 0%nat end)%nat) in *.
  destruct (push_checks (c_room c) used1 (l_subs st) 0) as [[checks rest] cnt] eqn:Ep.
  inversion H; subst frame st'; clear H. cbn [l_subs l_checks l_img l_sent l_wkc l_states l_frames l_time l_time_read].
  destruct (push_checks_spec _ _ _ _ _ _ _ Ep) as (k & A & B & Cc & D & F & G).
  assert (Lc : length chunk = (c_len c - l_sent st)%nat).
  { subst chunk. rewrite firstn_length, skipn_length. lia. }
  assert (Hl : lrw = [] \/ lrw = [DLrw (c_start c + N.of_nat (l_sent st))
             (firstn (Nat.min mx (c_len c - l_sent st)) (skipn (Nat.min (l_sent st) (c_len c)) (l_img st)))]).
  { subst lrw. destruct chunk as [|b0 ch] eqn:Ech; [left; reflexivity|].
    destruct (mx =? 0)%nat; [left; reflexivity|right]. rewrite <- Ech. f_equal. f_equal.
    rewrite <- Ech in Lc. rewrite Lc. subst chunk. rewrite firstn_firstn. f_equal. lia. }
  assert (Su : (used1 <= c_room c)%nat /\ frame_size lrw = (used1 - used0)%nat).
  { subst used1 lrw. destruct chunk as [|b0 ch] eqn:Ech; [cbn; lia|].
    destruct (mx =? 0)%nat eqn:Em; [cbn; lia|]. apply Nat.eqb_neq in Em.
    cbn [dg_size frame_size fold_right]. rewrite firstn_length. subst mx. lia. }
  exists lrw, k. rewrite A, B, Cc. repeat split; auto.
  - subst lrw. destruct chunk; [auto|]. destruct (mx =? 0)%nat eqn:Em; [|intros X; discriminate].
    intros _. right. apply Nat.eqb_eq. exact Em.
  - intros [X|X].
    + subst lrw. fold chunk in X. rewrite X. reflexivity.
    + subst lrw. destruct chunk; [reflexivity|]. fold mx in X. rewrite X. reflexivity.
  - rewrite !frame_size_app, frame_size_checks, firstn_length. destruct Su as [S1 S2]. rewrite S2.
    fold used0. destruct F as [F|F]; [subst k; cbn; lia|].
    assert (Nat.min k (length (l_subs st)) = k) by lia. lia.
  - rewrite frame_size_app. destruct Su as [S1 S2]. rewrite S2. fold used0.
    replace (used0 + (used1 - used0))%nat with used1 by lia.
    destruct G as [G|[G|G]]; [left; rewrite <- B; exact G|right; left; lia|right; right; lia].
Qed.

(* the time-distribution datagram: only in the DC variants, only until its answer was read,
   always first *)
Theorem dc_datagram_once c v st frame st' :
  build_frame c v st = Ok (frame, st') -> (c_len c <= length (l_img st))%nat ->
  (l_time_read st = true \/ v = VPlain \/ c_dcref c = None ->
     forall r, ~ In (DDc r) frame) /\
  (l_time_read st = false -> v <> VPlain -> forall r, c_dcref c = Some r ->
     exists tl, frame = DDc r :: tl /\ forall r', ~ In (DDc r') tl).
Proof.
  intros H Limg. destruct (build_frame_spec _ _ _ _ _ H Limg) as (lrw & k & F & L & _). cbv zeta in *.
  assert (NoDc : forall r', ~ In (DDc r') (lrw ++ map DCheck (firstn k (l_subs st)))).
  { intros r' I. apply in_app_or in I as [I|I].
    - destruct L as [->| ->]; [destruct I|destruct I as [I|[]]; discriminate].
    - apply in_map_iff in I as (x & I & _). discriminate. }
  split.
  - intros Hc r I. rewrite F in I. apply in_app_or in I as [I|I]; [|exact (NoDc r I)].
    unfold dc_part in I. destruct Hc as [Hc|[Hc|Hc]].
    + rewrite Hc in I. destruct v, (c_dcref c); destruct I.
    + subst v. destruct I.
    + rewrite Hc in I. destruct v; destruct I.
  - intros T V r R. rewrite F. unfold dc_part. rewrite R, T. destruct v; [congruence| |]; cbn [app]; eauto.
Qed.

Lemma nth_splice (src l : list N) : forall a q, (a + length src <= length l)%nat ->
  nth q (splice a src l) 0 =
  if ((a <=? q) && (q <? a + length src))%nat then nth (q - a) src 0 else nth q l 0.
Proof.
  revert src. induction l as [|x l IH]; intros src a q Hl.
  - cbn [length] in Hl. assert (src = []) by (destruct src; cbn [length] in Hl; [auto|lia]). subst.
    assert (E : splice a (@nil N) [] = []) by (destruct a; reflexivity). rewrite E.
    destruct ((a <=? q) && (q <? a + length (@nil N)))%nat; [destruct (q - a)%nat|]; destruct q; reflexivity.
  - destruct a as [|a].
    + destruct src as [|s src].
      * cbn [splice length]. replace ((0 <=? q) && (q <? 0 + 0))%nat with false by lia. reflexivity.
      * change (splice 0 (s :: src) (x :: l)) with (s :: splice 0 src l).
        cbn [length] in Hl. destruct q as [|q]; cbn [nth].
        -- reflexivity.
        -- rewrite IH by lia. cbn [length].
           replace ((0 <=? S q) && (S q <? 0 + S (length src)))%nat
             with ((0 <=? q) && (q <? 0 + length src))%nat by lia.
           replace (S q - 0)%nat with (S (q - 0)) by lia. reflexivity.
    + cbn [splice]. destruct q as [|q]; cbn [nth].
      * replace ((S a <=? 0) && (0 <? S a + length src))%nat with false by lia. reflexivity.
      * cbn [length] in Hl. rewrite IH by lia.
        replace ((S a <=? S q) && (S q <? S a + length src))%nat
          with ((a <=? q) && (q <? a + length src))%nat by lia.
        replace (S q - S a)%nat with (q - a)%nat by lia. reflexivity.
Qed.

(* ---------- receiving a process-data answer ---------- *)

(* the input part of the local image takes what the network returned for those addresses, the
   output part (and every input byte of other chunks) is untouched *)
Theorem process_chunk_spec c img sent n data img' :
  process_chunk c img sent n data = Ok img' -> (sent + n <= length img)%nat ->
  length img' = length img /\
  forall p, nth p img' 0 =
    if ((Nat.min sent (c_rlen c) <=? p) && (p <? Nat.min (sent + n) (c_rlen c)))%nat
    then nth (p - Nat.min sent (c_rlen c)) data 0 else nth p img 0.
Proof.
  unfold process_chunk, write_at. set (lo := Nat.min sent (c_rlen c)). set (hi := Nat.min (sent + n) (c_rlen c)).
  destruct (length data <? hi - lo)%nat eqn:E; [discriminate|]. apply Nat.ltb_ge in E.
  intros H L. inversion H; subst img'; clear H. split; [apply splice_length|].
  intros p.
  assert (Lf : length (firstn (hi - lo) data) = (hi - lo)%nat) by (rewrite firstn_length; lia).
  pose proof nth_splice as G.
  rewrite G by (rewrite Lf; subst lo hi; lia). rewrite Lf.
  replace (lo + (hi - lo))%nat with hi by (subst lo hi; lia).
  destruct ((lo <=? p) && (p <? hi))%nat eqn:Ep; [|reflexivity].
  apply nth_firstn_lt. lia.
Qed.

(* ---------- per-cycle DC timing ---------- *)

Theorem cycle_info_spec md time period shift :
  1 <= period -> time < 2 ^ 64 -> period < 2 ^ 64 -> shift < 2 ^ 63 -> period < 2 ^ 63 ->
  cycle_info md time period shift = Ok (time mod period, (period - time mod period) + shift).
Proof.
  intros P T Pp S P2. unfold cycle_info. replace (period =? 0) with false by lia.
  assert (time mod period < period) by (apply N.mod_lt; lia).
  change (2^64) with 18446744073709551616 in *. change (2^63) with 9223372036854775808 in *.
  replace (18446744073709551615 <? period - time mod period + shift) with false by lia. reflexivity.
Qed.

(* ---------- the whole cycle: termination, tiling, completeness ---------- *)

Fixpoint lrws (f : list dgram) : list (N * list N) :=
  match f with
  | [] => []
  | DLrw a d :: r => (a, d) :: lrws r
  | _ :: r => lrws r
  end.

Lemma lrws_app a b : lrws (a ++ b) = lrws a ++ lrws b.
Proof. induction a as [|x a IH]; cbn [app lrws]; [reflexivity|]. destruct x; cbn [app]; rewrite IH; reflexivity. Qed.

Lemma lrws_checks l : lrws (map DCheck l) = [].
Proof. induction l; cbn; auto. Qed.

(* the address ranges of consecutive LRW datagrams tile a window starting at [start]+[off] *)
Fixpoint tiles (start : N) (off : nat) (l : list (N * list N)) : option nat :=
  match l with
  | [] => Some off
  | (a, d) :: r => if a =? start + N.of_nat off then tiles start (off + length d)%nat r else None
  end.

Lemma tiles_app start l1 : forall off l2 mid,
  tiles start off l1 = Some mid -> tiles start off (l1 ++ l2) = tiles start mid l2.
Proof.
  induction l1 as [|[a d] r IH]; intros off l2 mid H; cbn [tiles app] in *.
  - inversion H; reflexivity.
  - destruct (a =? start + N.of_nat off); [|discriminate]. eapply IH; eauto.
Qed.

Definition all_lrws (st : lstate) : list (N * list N) := concat (map lrws (l_frames st)).

(* bytes announced by the LRW datagrams of a frame *)
Definition lrw_bytes (f : list dgram) : nat := fold_right (fun p a => (length (snd p) + a)%nat) 0%nat (lrws f).

(* whether a frame contains a time-distribution datagram is decidable *)
Lemma classic_dc (f : list dgram) : (exists r, In (DDc r) f) \/ (forall r, ~ In (DDc r) f).
Proof.
  induction f as [|d f IH]; [right; intros r []|].
  destruct d; try (destruct IH as [[r I]|N]; [left; exists r; right; exact I|right; intros r [X|X]; [discriminate|exact (N r X)]]).
  left. exists reference. left. reflexivity.
Qed.

(* effect of consuming one frame's answers on the bookkeeping *)
Lemma handle_response_book c md frame : forall resp st st',
  handle_response c md st frame resp = Ok st' ->
  l_frames st' = l_frames st /\ l_subs st' = l_subs st /\ l_checks st' = l_checks st /\
  l_sent st' = (l_sent st + lrw_bytes frame)%nat /\
  ((exists r, In (DDc r) frame) -> l_time_read st' = true) /\
  ((forall r, ~ In (DDc r) frame) -> l_time_read st' = l_time_read st) /\
  ((l_sent st + lrw_bytes frame <= length (l_img st))%nat -> length (l_img st') = length (l_img st)).
Proof.
  unfold handle_response.
  induction frame as [|d dr IH]; intros resp st st' H.
  - inversion H; subst. unfold lrw_bytes. cbn. repeat split; auto; try lia.
    intros [r []].
  - destruct resp as [|[data wkc] rr]; [discriminate|]. destruct d.
    + (* LRW *)
      destruct (process_chunk c (l_img st) (l_sent st) (length data0) data) as [img'| | |] eqn:Ep;
        cbn [rbind] in H; try discriminate.
      destruct ((65535 <? l_wkc st + wkc) && _); [discriminate|].
      apply IH in H. cbn [l_frames l_subs l_checks l_sent l_time_read l_img] in H.
      destruct H as (A & B & Cc & D & E & F & G).
      unfold lrw_bytes in *. cbn [lrws fold_right snd].
      repeat split; auto; try lia.
      * intros [r [X|X]]; [discriminate|]. apply E. eauto.
      * intros X. apply F. intros r I. apply (X r). right. exact I.
      * intros L. assert (Li : length img' = length (l_img st)).
        { unfold process_chunk in Ep. destruct (_ <? _)%nat; [discriminate|]. inversion Ep; subst.
          unfold write_at. apply splice_length. }
        rewrite G by lia. exact Li.
    + (* check *)
      destruct (length data <? 2)%nat; [discriminate|].
      apply IH in H. cbn [l_frames l_subs l_checks l_sent l_time_read l_img] in H.
      destruct H as (A & B & Cc & D & E & F & G).
      unfold lrw_bytes in *. cbn [lrws].
      repeat split; auto.
      * intros [r [X|X]]; [discriminate|]. apply E. eauto.
      * intros X. apply F. intros r I. apply (X r). right. exact I.
    + (* dc *)
      destruct (length data <? 8)%nat; [discriminate|].
      apply IH in H. cbn [l_frames l_subs l_checks l_sent l_time_read l_img] in H.
      destruct H as (A & B & Cc & D & E & F & G).
      unfold lrw_bytes in *. cbn [lrws].
      repeat split; auto.
      * intros _. destruct (classic_dc dr) as [[r I]|N]; [apply E; eauto|]. rewrite F by exact N. reflexivity.
      * intros X. exfalso. apply (X reference). left. reflexivity.
Qed.

Definition needs_dc (c : cfg) (v : variant) (st : lstate) : bool :=
  match v, c_dcref c with
  | VPlain, _ => false
  | _, Some _ => negb (l_time_read st)
  | _, None => false
  end.

Definition measure (c : cfg) (v : variant) (st : lstate) : nat :=
  ((c_len c - l_sent st) + length (l_subs st) + (if needs_dc c v st then 1 else 0))%nat.

(* the smallest frames of the quantifier: one state check (plus the clock datagram) *)
Definition room_ok (c : cfg) (v : variant) : Prop :=
  match v with VPlain => (14 <= c_room c)%nat | _ => (34 <= c_room c)%nat end.

Record LI (c : cfg) (img0 : list N) (st : lstate) : Prop := {
  li_sent : (l_sent st <= c_len c)%nat;
  li_len : (c_len c <= length img0)%nat;
  li_img : length (l_img st) = length img0;
  li_tiles : tiles (c_start c) 0 (all_lrws st) = Some (l_sent st);
  li_subs : l_subs st = skipn (l_checks st) (c_subs c);
  li_checks : (l_checks st <= length (c_subs c))%nat;
  li_fit : Forall (fun f => (frame_size f <= c_room c)%nat) (l_frames st)
}.

Lemma li_init c img : (c_len c <= length img)%nat -> LI c img (init_state c img).
Proof. intros H. constructor; cbn; auto; lia. Qed.

Lemma dc_part_needs c v st : dc_part c v st <> [] <-> needs_dc c v st = true.
Proof.
  unfold dc_part, needs_dc. destruct v, (c_dcref c); try (split; [intros X; contradiction|discriminate]);
    destruct (l_time_read st); cbn; split; try discriminate; try (intros X; contradiction); auto.
Qed.

Lemma dc_part_size c v st : frame_size (dc_part c v st) = if needs_dc c v st then 20%nat else 0%nat.
Proof. unfold dc_part, needs_dc. destruct v, (c_dcref c); try reflexivity; destruct (l_time_read st); reflexivity. Qed.

(* one iteration of the loop body *)
Lemma step_inv c md v img0 st frame st1 r st3 :
  LI c img0 st -> room_ok c v ->
  build_frame c v st = Ok (frame, st1) -> frame <> [] ->
  handle_response c md
    {| l_img := l_img st1; l_sent := l_sent st1; l_wkc := l_wkc st1; l_subs := l_subs st1;
       l_checks := l_checks st1; l_states := l_states st1; l_time := l_time st1;
       l_time_read := l_time_read st1; l_frames := l_frames st1 ++ [frame] |} frame r = Ok st3 ->
  LI c img0 st3 /\ (measure c v st3 < measure c v st)%nat /\
  ((c_len c - l_sent st = 0)%nat -> l_sent st3 = l_sent st).
Proof.
  intros I Rk B Ne H. destruct I as [Is Il Ii It Isub Ic If].
  destruct (build_frame_spec _ _ _ _ _ B ltac:(rewrite Ii; exact Il))
    as (lrw & k & F & L & Lz & Fit & Stop & Kl & E1 & E2 & E3 & E4 & E5 & E6 & E7 & E8 & E9).
  cbv zeta in *.
  destruct (handle_response_book _ _ _ _ _ _ H) as (A1 & A2 & A3 & A4 & A5 & A6 & A7).
  cbn [l_frames l_subs l_checks l_sent l_time_read l_img] in *.
  set (dc := dc_part c v st) in *. set (used0 := frame_size dc) in *.
  set (remaining := (c_len c - l_sent st)%nat) in *.
  set (n := Nat.min (c_room c - used0 - 12) remaining) in *.
  (* the LRW bytes of this frame *)
  assert (Hdc0 : lrws dc = []).
  { subst dc. unfold dc_part. destruct v, (c_dcref c); try reflexivity; destruct (l_time_read st); reflexivity. }
  assert (Lsk : length (skipn (Nat.min (l_sent st) (c_len c)) (l_img st)) = (length img0 - l_sent st)%nat).
  { rewrite skipn_length, Ii. lia. }
  assert (Hb : lrws frame = lrws lrw /\ (lrw = [] -> lrw_bytes frame = 0%nat) /\
               (lrw <> [] -> lrw_bytes frame = n /\ (1 <= n)%nat)).
  { split; [rewrite F, !lrws_app, Hdc0, lrws_checks, app_nil_r; reflexivity|]. split.
    - intros ->. unfold lrw_bytes. rewrite F, !lrws_app, Hdc0, lrws_checks. reflexivity.
    - intros Nl. destruct L as [L|L]; [contradiction|].
      unfold lrw_bytes. rewrite F, !lrws_app, Hdc0, lrws_checks, L. cbn [app lrws fold_right snd].
      rewrite firstn_length, Lsk.
      assert (Nz : ~ (firstn remaining (skipn (Nat.min (l_sent st) (c_len c)) (l_img st)) = [] \/
                     (c_room c - used0 - 12)%nat = 0%nat)) by (intros X; apply Nl, Lz; exact X).
      assert (R1 : (1 <= remaining)%nat).
      { destruct remaining; [exfalso; apply Nz; left; reflexivity|lia]. }
      assert (M1 : (c_room c - used0 - 12 <> 0)%nat) by (intros X; apply Nz; right; exact X).
      subst n remaining. split; lia. }
  destruct Hb as (Hb1 & Hb2 & Hb3).
  assert (Sent3 : l_sent st3 = (l_sent st + lrw_bytes frame)%nat) by (rewrite A4, E4; reflexivity).
  assert (Bytes_le : (lrw_bytes frame <= remaining)%nat).
  { destruct lrw as [|x xs] eqn:El; [rewrite Hb2 by reflexivity; lia|].
    destruct (Hb3 ltac:(discriminate)) as [X _]. rewrite X. subst n. lia. }
  split; [|split].
  - constructor.
    + rewrite Sent3. subst remaining. lia.
    + exact Il.
    + rewrite A7; [rewrite E3; exact Ii|]. rewrite E3, E4, Ii. subst remaining. lia.
    + unfold all_lrws. rewrite A1, E7, map_app, concat_app. cbn [map concat]. rewrite app_nil_r.
      fold (all_lrws st). rewrite (tiles_app _ _ _ _ _ It). rewrite Hb1, Sent3.
      destruct L as [->| ->].
      * rewrite Hb2 by reflexivity. cbn. f_equal; lia.
      * cbn [lrws tiles]. rewrite N.eqb_refl. destruct (Hb3 ltac:(discriminate)) as [X _]. rewrite X.
        rewrite firstn_length, Lsk. f_equal. subst n remaining. lia.
    + rewrite A2, A3, E1, E2, Isub. rewrite skipn_skipn_add. reflexivity.
    + rewrite A3, E2. rewrite Isub in Kl. rewrite skipn_length in Kl. lia.
    + rewrite A1, E7. apply Forall_app. split; [exact If|]. constructor; [exact Fit|constructor].
  - (* progress *)
    unfold measure. rewrite Sent3, A2, E1, skipn_length.
    assert (Nd3 : needs_dc c v st3 = true -> needs_dc c v st = true /\ dc = []).
    { intros X. destruct (classic_dc frame) as [[r0 Ir]|Nn].
      - unfold needs_dc in X. rewrite (A5 (ex_intro _ r0 Ir)) in X. destruct v, (c_dcref c); discriminate.
      - unfold needs_dc in X. rewrite (A6 Nn), E9 in X. fold (needs_dc c v st) in X. split; [exact X|].
        destruct dc as [|d0 dl] eqn:Ed; [reflexivity|exfalso].
        assert (Id : In d0 frame) by (rewrite F; left; reflexivity).
        subst dc. unfold dc_part in Ed. destruct v, (c_dcref c); try discriminate;
          destruct (l_time_read st); try discriminate; inversion Ed; subst; exact (Nn _ Id). }
    destruct (needs_dc c v st3) eqn:N3.
    + destruct (Nd3 eq_refl) as [N0 Dn]. rewrite N0.
      (* no clock datagram in this frame: it carries image bytes or state checks *)
      rewrite F, Dn in Ne. cbn [app] in Ne.
      destruct lrw as [|x xs] eqn:El.
      * destruct k as [|k]; [exfalso; apply Ne; reflexivity|]. subst remaining. lia.
      * destruct (Hb3 ltac:(discriminate)) as [X Y]. subst remaining. lia.
    + destruct (needs_dc c v st) eqn:N0; [subst remaining; lia|].
      assert (Dn : dc = []).
      { destruct dc eqn:Ed; [reflexivity|]. exfalso.
        assert (X : dc_part c v st <> []) by (fold dc; rewrite Ed; discriminate).
        apply dc_part_needs in X. congruence. }
      rewrite F, Dn in Ne. cbn [app] in Ne.
      destruct lrw as [|x xs] eqn:El.
      * destruct k as [|k]; [exfalso; apply Ne; reflexivity|]. subst remaining. lia.
      * destruct (Hb3 ltac:(discriminate)) as [X Y]. subst remaining. lia.
  - intros Z. rewrite Sent3. fold remaining in Z. lia.
Qed.

Lemma handle_response_total c md frame : forall resp st,
  (forall site, handle_response c md st frame resp <> Panic site) /\ handle_response c md st frame resp <> Hang.
Proof.
  unfold handle_response.
  induction frame as [|d l IH]; intros resp st; [split; [intros site|]; discriminate|].
  destruct resp as [|[data wkc] rr]; [split; [intros site|]; discriminate|]. destruct d.
  - unfold process_chunk. destruct (_ <? _)%nat; cbn [rbind]; [split; [intros site|]; discriminate|].
    destruct (_ && _); [split; [intros site|]; discriminate|]. apply IH.
  - destruct (_ <? 2)%nat; [split; [intros site|]; discriminate|]. apply IH.
  - destruct (_ <? 8)%nat; [split; [intros site|]; discriminate|]. apply IH.
Qed.

Lemma build_frame_total c v st : build_frame c v st <> Hang /\ forall site, build_frame c v st <> Panic site.
Proof.
  unfold build_frame. destruct (_ <? _)%nat; [split; [|intros site]; discriminate|].
  destruct (push_checks _ _ _ _) as [[a b] d]. split; [|intros site]; discriminate.
Qed.

(* when nothing at all could be put into a frame, everything has been sent *)
Lemma empty_frame_done c v img0 st st1 :
  LI c img0 st -> room_ok c v -> build_frame c v st = Ok ([], st1) ->
  l_sent st1 = c_len c /\ l_subs st1 = [] /\ LI c img0 st1.
Proof.
  intros I Rk B. destruct I as [Is Il Ii It Isub Ic If].
  destruct (build_frame_spec _ _ _ _ _ B ltac:(rewrite Ii; exact Il))
    as (lrw & k & F & L & Lz & Fit & Stop & Kl & E1 & E2 & E3 & E4 & E5 & E6 & E7 & E8 & E9).
  cbv zeta in *. symmetry in F. apply app_eq_nil in F as [Fd F]. apply app_eq_nil in F as [Fl Fc].
  rewrite Fd in *. cbn [frame_size fold_right app] in *. subst lrw.
  assert (K0 : k = 0%nat).
  { destruct k; [reflexivity|]. destruct (l_subs st) as [|x xs]; [cbn in Kl; lia|discriminate]. }
  subst k. cbn [skipn] in *.
  assert (Room : (14 <= c_room c)%nat) by (unfold room_ok in Rk; destruct v; lia).
  assert (Rem : (c_len c - l_sent st = 0)%nat).
  { destruct (proj1 Lz eq_refl) as [X|X]; [|lia].
    apply (f_equal (@length N)) in X. rewrite firstn_length, skipn_length, Ii in X. cbn in X. lia. }
  assert (Sub : l_subs st = []).
  { destruct Stop as [S|[S|S]]; [exact S|cbn in S; lia|lia]. }
  split; [rewrite E4; lia|]. split; [rewrite E1; exact Sub|].
  constructor; rewrite ?E1, ?E2, ?E3, ?E4, ?E7; auto.
  - unfold all_lrws. rewrite E7. exact It.
  - rewrite Nat.add_0_r. exact Isub.
  - lia.
Qed.

(* The cycle always terminates, within the fuel the model gives it, whatever the devices answer;
   and when it succeeds the whole image has been sent, each byte once, in LRW datagrams whose
   ranges tile the logical window from its start, every frame fits the frame size, and every
   SubDevice's state has been asked for. *)
Lemma loop_complete fuel : forall c md v img0 st resps,
  LI c img0 st -> room_ok c v -> (measure c v st < fuel)%nat ->
  loop fuel c md v st resps <> Hang /\
  forall st', loop fuel c md v st resps = Ok st' ->
    LI c img0 st' /\ l_sent st' = c_len c /\ l_subs st' = [].
Proof.
  induction fuel as [|f IH]; intros c md v img0 st resps I Rk M; [lia|].
  cbn [loop].
  destruct (match v with VPlain => done c st | _ => false end) eqn:Ed.
  - split; [discriminate|]. intros st' H; inversion H; subst st'.
    destruct v; try discriminate. unfold done in Ed. apply andb_true_iff in Ed as [D1 D2].
    apply Nat.eqb_eq in D1. apply Nat.leb_le in D2.
    pose proof (li_sent _ _ _ I). split; [exact I|]. split; [lia|].
    rewrite (li_subs _ _ _ I). apply skipn_all2. exact D2.
  - destruct (build_frame c v st) as [[frame st1]|e| |] eqn:B; cbn [rbind];
      try (split; [discriminate|intros st' H; discriminate]);
      try (exfalso; exact (proj1 (build_frame_total c v st) B)).
    destruct frame as [|d0 fr].
    + split; [discriminate|]. intros st' H; inversion H; subst st'.
      destruct (empty_frame_done _ _ _ _ _ I Rk B) as (A1 & A2 & A3). auto.
    + destruct resps as [|r rest]; [split; [discriminate|intros st' H; discriminate]|].
      match goal with |- context [handle_response c md ?s2 (d0 :: fr) r] =>
        destruct (handle_response c md s2 (d0 :: fr) r) as [st3|e|site|] eqn:Hr end; cbn [rbind];
        try (split; [discriminate|intros st' H; discriminate]).
      * destruct (step_inv _ _ _ _ _ _ _ _ _ I Rk B ltac:(discriminate) Hr) as (I3 & M3 & Z3).
        assert (Mf : (measure c v st3 < f)%nat) by lia.
        destruct v.
        -- apply IH; auto.
        -- destruct ((c_len c - l_sent st =? 0) && (length (c_subs c) <=? l_checks st3))%nat eqn:Eb.
           ++ split; [discriminate|]. intros st' H; inversion H; subst st'.
              apply andb_true_iff in Eb as [B1 B2]. apply Nat.eqb_eq in B1. apply Nat.leb_le in B2.
              pose proof (li_sent _ _ _ I). split; [exact I3|]. split; [rewrite (Z3 B1); lia|].
              rewrite (li_subs _ _ _ I3). apply skipn_all2. exact B2.
           ++ apply IH; auto.
        -- destruct ((c_len c - l_sent st =? 0) && (length (c_subs c) <=? l_checks st3))%nat eqn:Eb.
           ++ split; [discriminate|]. intros st' H; inversion H; subst st'.
              apply andb_true_iff in Eb as [B1 B2]. apply Nat.eqb_eq in B1. apply Nat.leb_le in B2.
              pose proof (li_sent _ _ _ I). split; [exact I3|]. split; [rewrite (Z3 B1); lia|].
              rewrite (li_subs _ _ _ I3). apply skipn_all2. exact B2.
           ++ apply IH; auto.
      * exfalso. exact (proj2 (handle_response_total c md (d0 :: fr) r _) Hr).
Qed.

Theorem cycle_complete c md v img resps :
  (c_len c <= length img)%nat ->
  room_ok c (match v, c_dcref c with VSync, None => VPlain | _, _ => v end) ->
  cycle c md v img resps <> Hang /\
  forall st, cycle c md v img resps = Ok st ->
    l_sent st = c_len c /\ l_subs st = [] /\ l_checks st = length (c_subs c) /\
    tiles (c_start c) 0 (all_lrws st) = Some (c_len c) /\
    Forall (fun f => (frame_size f <= c_room c)%nat) (l_frames st).
Proof.
  intros L Rk. unfold cycle.
  set (v' := match v, c_dcref c with VSync, None => VPlain | _, _ => v end) in *.
  assert (M : (measure c v' (init_state c img) < c_len c + length (c_subs c) + 3)%nat).
  { unfold measure. cbn [init_state l_sent l_subs]. destruct (needs_dc c v' _); lia. }
  destruct (loop_complete _ c md v' img _ resps (li_init c img L) Rk M) as [H1 H2].
  split; [exact H1|]. intros st H. destruct (H2 st H) as (I & S & U).
  repeat split; auto.
  - pose proof (li_subs _ _ _ I) as X. rewrite U in X. pose proof (li_checks _ _ _ I).
    symmetry in X. apply (f_equal (@length N)) in X. rewrite skipn_length in X. cbn in X. lia.
  - rewrite <- S. exact (li_tiles _ _ _ I).
  - exact (li_fit _ _ _ I).
Qed.
