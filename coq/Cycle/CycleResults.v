(* C07, lifted over the whole loop: what a successful cycle leaves behind - the image, the
   working-counter sum and the state list - in terms of what the network answered. *)
From EC Require Import Base.Prelude Base.Bytes Base.BytesProofs Cycle.Cycle Cycle.CycleProofs.
Local Open Scope N_scope.

(* every datagram sent, paired with the answer it got: frame i was answered by resps[i] *)
Definition pairs_of (frames : list (list dgram)) (resps : list (list answer)) : list (dgram * answer) :=
  concat (map (fun fr => combine (fst fr) (snd fr)) (combine frames resps)).

Definition off (c : cfg) (a : N) : nat := N.to_nat (a - c_start c).
Definition is_check (p : dgram * answer) : bool := match fst p with DCheck _ => true | _ => false end.
Definition wkc_of (p : dgram * answer) : N := match fst p with DLrw _ _ => snd (snd p) | _ => 0 end.
Definition wsum (ps : list (dgram * answer)) : N := fold_right (fun p a => wkc_of p + a) 0 ps.
Definition states_of (ps : list (dgram * answer)) : list N := map (fun p => state_of (fst (snd p))) (filter is_check ps).

Record RI (c : cfg) (img0 : list N) (st : lstate) (ps : list (dgram * answer)) : Prop := {
  ri_out : forall p, (Nat.min (l_sent st) (c_rlen c) <= p)%nat -> nth p (l_img st) 0 = nth p img0 0;
  ri_in : forall a chunk data w q, In (DLrw a chunk, (data, w)) ps -> (q < length chunk)%nat ->
            (off c a + q < c_rlen c)%nat -> nth (off c a + q) (l_img st) 0 = nth q data 0;
  ri_before : forall a chunk ans, In (DLrw a chunk, ans) ps -> c_start c <= a /\ (off c a + length chunk <= l_sent st)%nat;
  ri_states : l_states st = firstn (c_maxsd c) (states_of ps);
  ri_wkc : l_wkc st = wsum ps mod 65536
}.

Lemma wsum_app a b : wsum (a ++ b) = wsum a + wsum b.
Proof. unfold wsum. induction a as [|x r IH]; cbn [app fold_right]; [lia|]. rewrite IH. lia. Qed.

Lemma states_app a b : states_of (a ++ b) = states_of a ++ states_of b.
Proof. unfold states_of. rewrite filter_app, map_app. reflexivity. Qed.

Lemma firstn_snoc {A} n (l : list A) x :
  firstn n (l ++ [x]) = if (length (firstn n l) <? n)%nat then firstn n l ++ [x] else firstn n l.
Proof.
  destruct (Nat.ltb_spec (length (firstn n l)) n) as [H|H].
  - rewrite firstn_length in H. assert (L : (length l < n)%nat) by lia.
    rewrite (firstn_all2 l) by lia. apply firstn_all2. rewrite app_length. cbn. lia.
  - rewrite firstn_length in H. assert (L : (n <= length l)%nat) by lia.
    rewrite firstn_app. replace (n - length l)%nat with 0%nat by lia. cbn. rewrite app_nil_r. reflexivity.
Qed.

(* at most one LRW in a frame, addressed at the bytes sent so far *)
Fixpoint lrw_shape (c : cfg) (sent : nat) (frame : list dgram) : Prop :=
  match frame with
  | [] => True
  | DLrw a chunk :: r => a = c_start c + N.of_nat sent /\ (forall a' ch', ~ In (DLrw a' ch') r)
  | _ :: r => lrw_shape c sent r
  end.

Lemma no_lrw_shape c sent frame : (forall a ch, ~ In (DLrw a ch) frame) -> lrw_shape c sent frame.
Proof.
  induction frame as [|d r IH]; intros H; [exact I|]. destruct d; cbn [lrw_shape].
  - exfalso. apply (H addr data). left; reflexivity.
  - apply IH. intros a ch X. apply (H a ch). right; exact X.
  - apply IH. intros a ch X. apply (H a ch). right; exact X.
Qed.

Lemma no_lrw_bytes frame : (forall a ch, ~ In (DLrw a ch) frame) -> lrw_bytes frame = 0%nat.
Proof.
  unfold lrw_bytes. induction frame as [|d r IH]; intros H; [reflexivity|]. destruct d; cbn [lrws].
  - exfalso. apply (H addr data). left; reflexivity.
  - apply IH. intros a ch X. apply (H a ch). right; exact X.
  - apply IH. intros a ch X. apply (H a ch). right; exact X.
Qed.

(* one frame's answers *)
Lemma handle_response_ri c md img0 frame : forall resp st st' ps,
  handle_response c md st frame resp = Ok st' ->
  RI c img0 st ps -> lrw_shape c (l_sent st) frame ->
  (l_sent st + lrw_bytes frame <= length (l_img st))%nat ->
  RI c img0 st' (ps ++ combine frame resp).
Proof.
  unfold handle_response.
  induction frame as [|d dr IH]; intros resp st st' ps H R Sh Len.
  - inversion H; subst. cbn [combine]. rewrite app_nil_r. exact R.
  - destruct resp as [|[data wkc] rr]; [discriminate|]. cbn [combine].
    destruct d as [a chunk|sd|rf].
    + (* LRW *)
      cbn [lrw_shape] in Sh. destruct Sh as [Ha Hno]. subst a.
      destruct (process_chunk c (l_img st) (l_sent st) (length chunk) data) as [img'| | |] eqn:Ep; cbn [rbind] in H; try discriminate.
      destruct ((65535 <? l_wkc st + wkc) && _); [discriminate|].
      assert (Lb : lrw_bytes (DLrw (c_start c + N.of_nat (l_sent st)) chunk :: dr) = length chunk).
      { unfold lrw_bytes. cbn [lrws fold_right snd]. fold (lrw_bytes dr). rewrite (no_lrw_bytes dr Hno). lia. }
      rewrite Lb in Len.
      destruct (process_chunk_spec _ _ _ _ _ _ Ep Len) as [Li Hn].
      apply (IH rr _ st' (ps ++ [(DLrw (c_start c + N.of_nat (l_sent st)) chunk, (data, wkc))])) in H; [rewrite <- app_assoc in H; exact H| |apply no_lrw_shape; exact Hno|].
      2:{ cbn [l_sent l_img]. rewrite (no_lrw_bytes dr Hno), Li. lia. }
      destruct R as [Ro Rin Rb Rs Rw]. constructor; cbn [l_img l_sent l_states l_wkc].
      * intros p Hp. rewrite Hn.
        destruct ((Nat.min (l_sent st) (c_rlen c) <=? p) && (p <? Nat.min (l_sent st + length chunk) (c_rlen c)))%nat eqn:E; [lia|].
        apply Ro. lia.
      * intros a' chunk' data' w' q Hin Hq Hr. apply in_app_or in Hin. destruct Hin as [Hin|[Hin|[]]].
        -- destruct (Rb _ _ _ Hin) as [B1 B2]. rewrite Hn.
           destruct ((Nat.min (l_sent st) (c_rlen c) <=? off c a' + q) && (off c a' + q <? Nat.min (l_sent st + length chunk) (c_rlen c)))%nat eqn:E; [lia|].
           eapply Rin; eauto.
        -- inversion Hin; subst a' chunk' data' w'. rewrite Hn.
           assert (Ho : off c (c_start c + N.of_nat (l_sent st)) = l_sent st) by (unfold off; lia).
           rewrite Ho in *.
           replace ((Nat.min (l_sent st) (c_rlen c) <=? l_sent st + q) && (l_sent st + q <? Nat.min (l_sent st + length chunk) (c_rlen c)))%nat with true by lia.
           f_equal. lia.
      * intros a' chunk' ans Hin. apply in_app_or in Hin. destruct Hin as [Hin|[Hin|[]]].
        -- destruct (Rb _ _ _ Hin) as [B1 B2]. split; [exact B1|lia].
        -- inversion Hin; subst. split; [lia|]. unfold off. lia.
      * rewrite states_app. unfold states_of at 2. cbn [filter is_check fst map]. rewrite app_nil_r. exact Rs.
      * rewrite wsum_app. unfold wsum at 2. cbn [fold_right wkc_of fst snd]. rewrite Rw.
        rewrite N.add_0_r. rewrite N.add_mod_idemp_l by lia. reflexivity.
    + (* state check *)
      cbn [lrw_shape] in Sh. destruct (length data <? 2)%nat; [discriminate|].
      assert (Lb : lrw_bytes (DCheck sd :: dr) = lrw_bytes dr) by reflexivity. rewrite Lb in Len.
      apply (IH rr _ st' (ps ++ [(DCheck sd, (data, wkc))])) in H; [rewrite <- app_assoc in H; exact H| |exact Sh|exact Len].
      destruct R as [Ro Rin Rb Rs Rw]. constructor; cbn [l_img l_sent l_states l_wkc].
      * exact Ro.
      * intros a' chunk' data' w' q Hin. apply in_app_or in Hin. destruct Hin as [Hin|[Hin|[]]]; [eapply Rin; eauto|discriminate].
      * intros a' chunk' ans Hin. apply in_app_or in Hin. destruct Hin as [Hin|[Hin|[]]]; [eapply Rb; eauto|discriminate].
      * rewrite states_app. unfold states_of at 2. cbn [filter is_check fst snd map]. rewrite Rs. symmetry. apply firstn_snoc.
      * rewrite wsum_app. unfold wsum at 2. cbn [fold_right wkc_of fst]. rewrite !N.add_0_r. exact Rw.
    + (* clock *)
      cbn [lrw_shape] in Sh. destruct (length data <? 8)%nat; [discriminate|].
      assert (Lb : lrw_bytes (DDc rf :: dr) = lrw_bytes dr) by reflexivity. rewrite Lb in Len.
      apply (IH rr _ st' (ps ++ [(DDc rf, (data, wkc))])) in H; [rewrite <- app_assoc in H; exact H| |exact Sh|exact Len].
      destruct R as [Ro Rin Rb Rs Rw]. constructor; cbn [l_img l_sent l_states l_wkc].
      * exact Ro.
      * intros a' chunk' data' w' q Hin. apply in_app_or in Hin. destruct Hin as [Hin|[Hin|[]]]; [eapply Rin; eauto|discriminate].
      * intros a' chunk' ans Hin. apply in_app_or in Hin. destruct Hin as [Hin|[Hin|[]]]; [eapply Rb; eauto|discriminate].
      * rewrite states_app. unfold states_of at 2. cbn [filter is_check fst map]. rewrite app_nil_r. exact Rs.
      * rewrite wsum_app. unfold wsum at 2. cbn [fold_right wkc_of fst]. rewrite !N.add_0_r. exact Rw.
Qed.

(* ---------- over the loop ---------- *)
Lemma combine_app_l {A B} (l : list A) : forall (a b : list B), length a = length l -> combine l (a ++ b) = combine l a.
Proof.
  induction l as [|x r IH]; intros a b H; [reflexivity|]. destruct a as [|y a]; [discriminate|].
  cbn [app combine]. f_equal. apply IH. cbn in H. lia.
Qed.

Lemma combine_snoc {A B} (l : list A) (a : list B) x y : length a = length l ->
  combine (l ++ [x]) (a ++ [y]) = combine l a ++ [(x, y)].
Proof.
  revert a. induction l as [|u r IH]; intros a H; destruct a as [|v a]; try discriminate; [reflexivity|].
  cbn [app combine]. f_equal. apply IH. cbn in H. lia.
Qed.

Lemma pairs_snoc frames consumed frame r : length consumed = length frames ->
  pairs_of (frames ++ [frame]) (consumed ++ [r]) = pairs_of frames consumed ++ combine frame r.
Proof.
  intros H. unfold pairs_of. rewrite combine_snoc by exact H. rewrite map_app, concat_app. cbn [map concat fst snd].
  rewrite app_nil_r. reflexivity.
Qed.

Lemma pairs_more frames consumed rest : length consumed = length frames ->
  pairs_of frames (consumed ++ rest) = pairs_of frames consumed.
Proof. intros H. unfold pairs_of. rewrite combine_app_l by exact H. reflexivity. Qed.

Lemma RI_ext c img0 st st' ps : l_img st' = l_img st -> l_sent st' = l_sent st -> l_states st' = l_states st ->
  l_wkc st' = l_wkc st -> RI c img0 st ps -> RI c img0 st' ps.
Proof. intros A B C D [Ro Rin Rb Rs Rw]. constructor; rewrite ?A, ?B, ?C, ?D; auto. Qed.

Lemma frame_shape c v st frame st' : build_frame c v st = Ok (frame, st') -> (c_len c <= length (l_img st))%nat ->
  lrw_shape c (l_sent st) frame.
Proof.
  intros B L. destruct (build_frame_spec _ _ _ _ _ B L) as (lrw & k & F & Lr & _). cbv zeta in *. subst frame.
  assert (Hc : forall l a ch, ~ In (DLrw a ch) (map DCheck l)).
  { intros l a ch X. apply in_map_iff in X. destruct X as [x [X _]]. discriminate. }
  assert (Hd : dc_part c v st = [] \/ exists r, dc_part c v st = [DDc r]).
  { unfold dc_part. destruct v, (c_dcref c); auto; destruct (l_time_read st); eauto. }
  assert (Hs : lrw_shape c (l_sent st) (lrw ++ map DCheck (firstn k (l_subs st)))).
  { destruct Lr as [->| ->]; cbn [app lrw_shape].
    - apply no_lrw_shape. apply Hc.
    - split; [reflexivity|]. apply Hc. }
  destruct Hd as [->|[r ->]]; cbn [app lrw_shape]; exact Hs.
Qed.

Lemma loop_results fuel : forall c md v img0 st resps consumed,
  LI c img0 st -> room_ok c v ->
  RI c img0 st (pairs_of (l_frames st) consumed) -> length consumed = length (l_frames st) ->
  forall st', loop fuel c md v st resps = Ok st' ->
    RI c img0 st' (pairs_of (l_frames st') (consumed ++ resps)).
Proof.
  induction fuel as [|f IH]; intros c md v img0 st resps consumed I Rk R Lc st' H; [discriminate|].
  cbn [loop] in H.
  destruct (match v with VPlain => done c st | _ => false end).
  - inversion H; subst st'. rewrite pairs_more by exact Lc. exact R.
  - destruct (build_frame c v st) as [[frame st1]|e| |] eqn:B; cbn [rbind] in H; try discriminate.
    assert (Limg : (c_len c <= length (l_img st))%nat) by (rewrite (li_img _ _ _ I); exact (li_len _ _ _ I)).
    destruct (build_frame_spec _ _ _ _ _ B Limg)
      as (lrw & k & F & L & Lz & Fit & Stop & Kl & E1 & E2 & E3 & E4 & E5 & E6 & E7 & E8 & E9).
    assert (R1 : RI c img0 st1 (pairs_of (l_frames st) consumed)) by (eapply RI_ext; eauto).
    destruct frame as [|d0 fr].
    + inversion H; subst st'. rewrite E7. rewrite pairs_more by exact Lc. exact R1.
    + destruct resps as [|r rest]; [discriminate|].
      match type of H with context [handle_response c md ?s2 (d0 :: fr) r] =>
        destruct (handle_response c md s2 (d0 :: fr) r) as [st3|e|site|] eqn:Hr end; cbn [rbind] in H; try discriminate.
      destruct (step_inv _ _ _ _ _ _ _ _ _ I Rk B ltac:(discriminate) Hr) as (I3 & M3 & Z3).
      destruct (handle_response_book _ _ _ _ _ _ Hr) as (A1 & A2 & A3 & A4 & A5 & A6 & A7).
      cbn [l_frames l_subs l_checks l_sent l_time_read l_img] in *.
      assert (R3 : RI c img0 st3 (pairs_of (l_frames st) consumed ++ combine (d0 :: fr) r)).
      { eapply handle_response_ri; [exact Hr| | |].
        - eapply RI_ext; [| | | |exact R1]; reflexivity.
        - cbn [l_sent]. rewrite E4. eapply frame_shape; eauto.
        - cbn [l_sent l_img]. rewrite E3, (li_img _ _ _ I). pose proof (li_sent _ _ _ I3) as X. rewrite A4 in X.
          pose proof (li_len _ _ _ I). lia. }
      assert (R3' : RI c img0 st3 (pairs_of (l_frames st3) (consumed ++ [r]))).
      { rewrite A1, E7, pairs_snoc by exact Lc. exact R3. }
      assert (Lc3 : length (consumed ++ [r]) = length (l_frames st3)).
      { rewrite A1, E7, !app_length. cbn. lia. }
      replace (consumed ++ r :: rest) with ((consumed ++ [r]) ++ rest) by (rewrite <- app_assoc; reflexivity).
      destruct v.
      * eapply IH; eauto.
      * destruct ((c_len c - l_sent st =? 0) && (length (c_subs c) <=? l_checks st3))%nat.
        -- inversion H; subst st'. rewrite pairs_more by exact Lc3. exact R3'.
        -- eapply IH; eauto.
      * destruct ((c_len c - l_sent st =? 0) && (length (c_subs c) <=? l_checks st3))%nat.
        -- inversion H; subst st'. rewrite pairs_more by exact Lc3. exact R3'.
        -- eapply IH; eauto.
Qed.

Lemma ri_init c img : RI c img (init_state c img) [].
Proof.
  constructor; cbn [init_state l_img l_sent l_states l_wkc]; try (intros; contradiction); try reflexivity.
  - unfold states_of. cbn. destruct (c_maxsd c); reflexivity.
Qed.

(* What a successful cycle leaves behind, in terms of the datagrams it sent and the answers they
   got ([pairs_of]: frame i answered by resps[i]):
   - the output part of the image (from read_pdi_len on) is untouched, the image keeps its length;
   - every input byte carried by an LRW datagram holds what the network returned for it;
   - the working counter is the sum of the LRW answers' counters (mod 2^16 - a checked build has
     reported the overflow instead, known finding);
   - the state list is the states the devices reported, in group order, up to MAX_SUBDEVICES. *)
Theorem cycle_results c md v img resps st :
  (c_len c <= length img)%nat ->
  room_ok c (match v, c_dcref c with VSync, None => VPlain | _, _ => v end) ->
  cycle c md v img resps = Ok st ->
  let ps := pairs_of (l_frames st) resps in
  length (l_img st) = length img /\
  (forall p, (c_rlen c <= p)%nat -> nth p (l_img st) 0 = nth p img 0) /\
  (forall a chunk data w q, In (DLrw a chunk, (data, w)) ps -> (q < length chunk)%nat ->
     (off c a + q < c_rlen c)%nat -> nth (off c a + q) (l_img st) 0 = nth q data 0) /\
  l_wkc st = wsum ps mod 65536 /\
  l_states st = firstn (c_maxsd c) (states_of ps).
Proof.
  intros L Rk H. unfold cycle in H.
  set (v' := match v, c_dcref c with VSync, None => VPlain | _, _ => v end) in *.
  assert (M : (measure c v' (init_state c img) < c_len c + length (c_subs c) + 3)%nat).
  { unfold measure. cbn [init_state l_sent l_subs]. destruct (needs_dc c v' _); lia. }
  destruct (loop_complete _ c md v' img _ resps (li_init c img L) Rk M) as [_ H2].
  destruct (H2 st H) as (I & S & U).
  pose proof (loop_results _ c md v' img (init_state c img) resps [] (li_init c img L) Rk (ri_init c img) eq_refl st H) as R.
  cbn [app] in R. destruct R as [Ro Rin Rb Rs Rw].
  split; [exact (li_img _ _ _ I)|]. split; [intros p Hp; apply Ro; lia|]. split; [exact Rin|]. split; [exact Rw|exact Rs].
Qed.
