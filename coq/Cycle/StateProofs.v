From EC Require Import Base.Prelude Base.Bytes Base.BytesProofs Cycle.Cycle Cycle.CycleProofs Cycle.State.
Local Open Scope N_scope.

(* ---------- summaries ---------- *)

Definition named (s : N) : bool := (s =? 0) || (s =? 1) || (s =? 2) || (s =? 4) || (s =? 8).

Lemma nibble_sweep :
  forallb (fun s =>
    (match (if (1 <? popcount4 s)%nat then None else if named s then Some s else None) with
     | Some x => match (if named s then Some s else None) with Some y => x =? y | None => false end
     | None => match (if named s then Some s else None) with Some _ => false | None => true end
     end) && (N.land s 15 =? s))
    (map N.of_nat (seq 0 16)) = true.
Proof. vm_compute. reflexivity. Qed.

Lemma nibble s : s < 16 ->
  (if (1 <? popcount4 s)%nat then None else if named s then Some s else None)
  = (if named s then Some s else None) /\ N.land s 15 = s.
Proof.
  intros H. pose proof nibble_sweep as S. rewrite forallb_forall in S.
  assert (I : In s (map N.of_nat (seq 0 16))).
  { apply in_map_iff. exists (N.to_nat s). split; [lia|]. apply in_seq. lia. }
  specialize (S s I). apply andb_true_iff in S as [S1 S2]. apply N.eqb_eq in S2. split; [|exact S2].
  destruct (1 <? popcount4 s)%nat; destruct (named s); try reflexivity; try discriminate.
Qed.

Lemma fold_lor_same s r : forallb (N.eqb s) r = true -> fold_left N.lor r s = s.
Proof.
  revert s; induction r as [|x r IH]; intros s H; cbn [fold_left]; [reflexivity|].
  cbn [forallb] in H. apply andb_true_iff in H as [H1 H2]. apply N.eqb_eq in H1. subst x.
  rewrite N.lor_diag. apply IH. exact H2.
Qed.

Lemma group_state_same s r : s < 16 -> forallb (N.eqb s) r = true -> group_state (s :: r) = s.
Proof.
  intros L H. unfold group_state. cbn [fold_left]. rewrite N.lor_0_l, fold_lor_same by exact H.
  apply (nibble s L).
Qed.

(* the summaries say exactly what the devices reported *)
Theorem summaries_exact l : Forall (fun s => s < 16) l ->
  single_state l = spec_single l /\ all_op l = spec_all_op l /\
  (forall v, named v = true ->
     let d := if v =? 0 then DNone else if v =? 1 then DInit else if v =? 2 then DPreOp
              else if v =? 4 then DSafeOp else DOp in
     is_in_state l d = match l with [] => v =? 0 | _ => forallb (N.eqb v) l end).
Proof.
  intros F. destruct l as [|s r].
  - repeat split; try reflexivity. intros v Hv. cbn.
    unfold named in Hv. destruct (v =? 0) eqn:E0; [reflexivity|].
    destruct (v =? 1) eqn:E1; [reflexivity|]. destruct (v =? 2) eqn:E2; [reflexivity|].
    destruct (v =? 4) eqn:E4; reflexivity.
  - inversion F as [|? ? Hs Fr]; subst.
    assert (S1 : single_state (s :: r) = spec_single (s :: r)).
    { unfold single_state, spec_single, all_same. destruct (forallb (N.eqb s) r) eqn:E; cbn [negb]; [|reflexivity].
      rewrite group_state_same by assumption. fold (named s). apply (nibble s Hs). }
    split; [exact S1|]. split.
    + unfold all_op. rewrite S1. unfold spec_single, spec_all_op. cbn [forallb].
      destruct (forallb (N.eqb s) r) eqn:E.
      * destruct (N.eqb_spec 8 s) as [<-|N8].
        -- cbn. rewrite E. reflexivity.
        -- cbn [andb]. destruct ((s =? 0) || (s =? 1) || (s =? 2) || (s =? 4) || (s =? 8)) eqn:En; [|reflexivity].
           destruct s as [|p]; [reflexivity|].
           repeat (destruct p as [p|p|]; try reflexivity; try (exfalso; apply N8; reflexivity)).
      * destruct (N.eqb_spec 8 s) as [<-|N8]; [cbn; rewrite E; reflexivity|reflexivity].
    + intros v Hv d. unfold is_in_state, all_same. cbn [forallb].
      destruct (forallb (N.eqb s) r) eqn:E; cbn [negb].
      * rewrite group_state_same by assumption.
        assert (Eall : (v =? s) && forallb (N.eqb v) r = (s =? v)).
        { destruct (N.eqb_spec s v) as [->|Nv]; [rewrite N.eqb_refl, E; reflexivity|].
          replace (v =? s) with false by (symmetry; apply N.eqb_neq; congruence). reflexivity. }
        rewrite Eall. subst d. unfold named in Hv.
        destruct (v =? 0) eqn:E0; [apply N.eqb_eq in E0; subst; reflexivity|].
        destruct (v =? 1) eqn:E1; [apply N.eqb_eq in E1; subst; reflexivity|].
        destruct (v =? 2) eqn:E2; [apply N.eqb_eq in E2; subst; reflexivity|].
        destruct (v =? 4) eqn:E4; [apply N.eqb_eq in E4; subst; reflexivity|].
        destruct (v =? 8) eqn:E8; [apply N.eqb_eq in E8; subst; reflexivity|discriminate].
      * (* not all the same: no value v can be everyone's state *)
        destruct (v =? s) eqn:Ev; [|reflexivity]. apply N.eqb_eq in Ev. subst v. cbn [andb].
        rewrite E. reflexivity.
Qed.

(* ---------- transitions ---------- *)

(* the state requests go to the members, in group order, and to nobody else *)
Fixpoint writes_of (fs : list (list tdgram)) : list N :=
  match fs with
  | [] => []
  | [TWriteAl a _] :: r => a :: writes_of r
  | _ :: r => writes_of r
  end.

Definition request_frame (subs : list N) (st : N) (f : list tdgram) : Prop :=
  match f with
  | [TWriteAl a s] => In a subs /\ s = st
  | [TReadCode a] => In a subs
  | _ => False
  end.

Lemma request_frame_mono a subs st f : request_frame subs st f -> request_frame (a :: subs) st f.
Proof.
  destruct f as [|[a0 s0|a0|a0] [|]]; cbn; tauto.
Qed.

Theorem requests_members_only room subs : forall st resps r fs,
  request_all room subs st resps = (r, fs) ->
  exists k, writes_of fs = firstn k subs /\
            (forall rest, r = Ok rest -> k = length subs) /\
            Forall (request_frame subs st) fs.
Proof.
  induction subs as [|a sr IH]; intros st resps r fs H; cbn [request_all] in H.
  - inversion H; subst. exists 0%nat. repeat split; auto.
  - destruct (room <? 14)%nat.
    { inversion H; subst. exists 0%nat. repeat split; auto. discriminate. }
    assert (W1 : exists k, writes_of [[TWriteAl a st]] = firstn k (a :: sr) /\
                 Forall (request_frame (a :: sr) st) [[TWriteAl a st]]).
    { exists 1%nat. split; [reflexivity|]. repeat constructor. }
    assert (W2 : exists k, writes_of [[TWriteAl a st]; [TReadCode a]] = firstn k (a :: sr) /\
                 Forall (request_frame (a :: sr) st) [[TWriteAl a st]; [TReadCode a]]).
    { exists 1%nat. split; [reflexivity|]. repeat constructor. }
    destruct resps as [|[|[data wkc] [|x xs]] rest];
      try (inversion H; subst; destruct W1 as (k & A & B); exists k; repeat split; auto; discriminate).
    destruct (negb (wkc =? 1)).
    { inversion H; subst; destruct W1 as (k & A & B); exists k; repeat split; auto; discriminate. }
    destruct (al_error data).
    + destruct rest as [|[|[d2 wkc2] [|y ys]] rest2];
        try (inversion H; subst; destruct W2 as (k & A & B); exists k; repeat split; auto; discriminate).
      destruct (negb (wkc2 =? 1));
        inversion H; subst; destruct W2 as (k & A & B); exists k; repeat split; auto; discriminate.
    + destruct (request_all room sr st rest) as [r' fs'] eqn:E. inversion H; subst; clear H.
      destruct (IH _ _ _ _ E) as (k & A & B & Cc). exists (S k). cbn [writes_of firstn]. rewrite A.
      repeat split; auto.
      * intros rest0 Hr. rewrite (B _ Hr). reflexivity.
      * constructor; [cbn; auto|]. eapply Forall_impl; [|exact Cc].
        intros f Hf. apply request_frame_mono. exact Hf.
Qed.

(* a refusal or a missing acknowledgement of the request is an error, never success *)
Theorem request_refused room a sr st data wkc rest : (14 <= room)%nat ->
  (wkc <> 1 -> fst (request_all room (a :: sr) st ([(data, wkc)] :: rest)) = Err (TWkc 1 wkc)) /\
  (wkc = 1 -> al_error data = true ->
   forall r, fst (request_all room (a :: sr) st ([(data, wkc)] :: rest)) <> Ok r).
Proof.
  intros R. assert (E14 : (room <? 14)%nat = false) by (apply Nat.ltb_ge; exact R). split.
  - intros H. cbn [request_all]. rewrite E14. apply N.eqb_neq in H. rewrite H. reflexivity.
  - intros -> E r. cbn [request_all]. rewrite E14, E. cbn [N.eqb Pos.eqb negb].
    destruct rest as [|[|[d2 wkc2] [|y ys]] rest2]; cbn [fst]; try discriminate.
    destruct (negb (wkc2 =? 1)); discriminate.
Qed.

(* with no room for a request nothing is sent and nothing succeeds *)
Theorem request_no_room room a sr st resps : (room < 14)%nat ->
  request_all room (a :: sr) st resps = (Err TTooLong, []).
Proof.
  intros R. cbn [request_all]. replace (room <? 14)%nat with true by (symmetry; apply Nat.ltb_lt; exact R).
  reflexivity.
Qed.

Definition check_frame (ds : list dgram) : list tdgram :=
  map (fun d => match d with DCheck a => TCheck a | _ => TCheck 0 end) ds.

Lemma check_frame_checks l : check_frame (map DCheck l) = map TCheck l.
Proof. unfold check_frame. rewrite map_map. reflexivity. Qed.

(* when a check fits, push_checks takes at least one member unless none is left *)
Lemma push_checks_zero room subs ds rest : (14 <= room)%nat ->
  push_checks room 0 subs 0 = (ds, rest, 0%nat) -> subs = [].
Proof.
  intros R H. destruct (push_checks_spec _ _ _ _ _ _ _ H) as (k & A & B & Cc & D & F & G).
  assert (k = 0%nat) by lia. subst k. cbn [skipn] in B. subst rest.
  destruct G as [G|[G|G]]; [exact G|lia|lia].
Qed.

Lemma frame_scan_all st ans : frame_scan st ans = VAll <-> frame_ok st ans = true.
Proof.
  unfold frame_ok. induction ans as [|[data wkc] r IH]; cbn [frame_scan forallb]; [tauto|].
  unfold ans_ok at 1. cbn [fst snd].
  destruct (wkc =? 1); cbn [negb andb]; [|split; discriminate].
  destruct (al_error data); cbn [negb andb]; [split; discriminate|].
  destruct (al_state data =? st); cbn [andb]; [exact IH|split; discriminate].
Qed.

(* is_state says "yes" only after a complete round: one check per member, in order, and every
   answer of every frame of the round named the state; it also stayed within the time limit *)
Lemma is_state_true fuel : forall c subs resps used rest fs u, (14 <= t_room c)%nat ->
  is_state fuel c subs resps used = (Ok true, rest, fs, u) ->
  exists answers,
    resps = answers ++ rest /\ length answers = length fs /\
    Forall (fun ans => frame_ok (t_desired c) ans = true) answers /\
    concat fs = map TCheck subs /\ u = (used + length fs)%nat /\
    (fs <> [] -> (u < t_limit c)%nat).
Proof.
  induction fuel as [|f IH]; intros c subs resps used rest fs u R H; cbn [is_state] in H; [discriminate|].
  destruct (push_checks (t_room c) 0 subs 0) as [[ds rs] cnt] eqn:Ep.
  destruct cnt as [|cnt].
  - inversion H; subst. exists []. rewrite (push_checks_zero _ _ _ _ R Ep).
    repeat split; auto. intros X; congruence.
  - destruct (push_checks_spec _ _ _ _ _ _ _ Ep) as (k & A & B & Cc & D & F & G).
    fold (check_frame ds) in H. destruct resps as [|ans more]; [discriminate|].
    destruct (t_limit c <=? S used)%nat eqn:EL; [discriminate|].
    destruct (frame_scan (t_desired c) ans) eqn:EF0; try discriminate.
    assert (EF : frame_ok (t_desired c) ans = true) by (apply frame_scan_all; exact EF0).
    destruct (is_state f c rs more (S used)) as [[[r0 rs0] fs0] u0] eqn:EI.
    inversion H; subst r0 rs0 fs u0; clear H.
    destruct (IH _ _ _ _ _ _ _ R EI) as (answers & A1 & A2 & A3 & A4 & A5 & A6).
    exists (ans :: answers). subst more. repeat split.
    + cbn [length]. rewrite A2. reflexivity.
    + constructor; assumption.
    + cbn [concat]. rewrite A4. subst ds rs. rewrite check_frame_checks, <- map_app, firstn_skipn. reflexivity.
    + cbn [length]. lia.
    + intros _. apply Nat.leb_gt in EL. destruct fs0 as [|x xs]; [cbn [length] in A5; lia|].
      apply A6. discriminate.
Qed.

Lemma is_state_used fuel : forall c subs resps used r rest fs u,
  is_state fuel c subs resps used = (r, rest, fs, u) -> u = (used + length fs)%nat.
Proof.
  induction fuel as [|f IH]; intros c subs resps used r rest fs u H; cbn [is_state] in H.
  - inversion H; subst. cbn. lia.
  - destruct (push_checks (t_room c) 0 subs 0) as [[ds rs] cnt].
    destruct cnt as [|cnt]; [inversion H; subst; cbn; lia|].
    destruct resps as [|ans more]; [inversion H; subst; cbn; lia|].
    destruct (t_limit c <=? S used)%nat; [inversion H; subst; cbn; lia|].
    destruct (frame_scan (t_desired c) ans); try (inversion H; subst; cbn; lia).
    destruct (is_state f c rs more (S used)) as [[[r0 rs0] fs0] u0] eqn:EI.
    inversion H; subst. rewrite (IH _ _ _ _ _ _ _ _ EI). cbn [length]. lia.
Qed.

(* a "not yet" verdict cost at least one frame and came before the limit *)
Lemma is_state_false fuel : forall c subs resps used rest fs u,
  is_state fuel c subs resps used = (Ok false, rest, fs, u) -> (used < u /\ u < t_limit c)%nat.
Proof.
  induction fuel as [|f IH]; intros c subs resps used rest fs u H; cbn [is_state] in H; [discriminate|].
  destruct (push_checks (t_room c) 0 subs 0) as [[ds rs] cnt].
  destruct cnt as [|cnt]; [discriminate|].
  destruct resps as [|ans more]; [discriminate|].
  destruct (t_limit c <=? S used)%nat eqn:EL; [discriminate|]. apply Nat.leb_gt in EL.
  destruct (frame_scan (t_desired c) ans).
  - destruct (is_state f c rs more (S used)) as [[[r0 rs0] fs0] u0] eqn:EI.
    inversion H; subst. destruct (IH _ _ _ _ _ _ _ EI). lia.
  - inversion H; subst. lia.
  - discriminate.
Qed.

(* enough fuel: one level per member plus one *)
Lemma is_state_no_hang fuel : forall c subs resps used, (14 <= t_room c)%nat ->
  (length subs < fuel)%nat -> fst (fst (fst (is_state fuel c subs resps used))) <> Hang.
Proof.
  induction fuel as [|f IH]; intros c subs resps used R L; [lia|]. cbn [is_state].
  destruct (push_checks (t_room c) 0 subs 0) as [[ds rs] cnt] eqn:Ep.
  destruct cnt as [|cnt]; [cbn; discriminate|].
  destruct (push_checks_spec _ _ _ _ _ _ _ Ep) as (k & A & B & Cc & D & F & G).
  destruct resps as [|ans more]; [cbn; discriminate|].
  destruct (t_limit c <=? S used)%nat; [cbn; discriminate|].
  destruct (frame_scan (t_desired c) ans); try (cbn; discriminate).
  destruct (is_state f c rs more (S used)) as [[[r0 rs0] fs0] u0] eqn:EI. cbn [fst].
  assert (X : fst (fst (fst (is_state f c rs more (S used)))) <> Hang).
  { apply IH; [exact R|]. subst rs. rewrite skipn_length. lia. }
  rewrite EI in X. exact X.
Qed.

(* what "the frame is fine" means, and what the failing verdicts mean *)
Lemma frame_ok_spec st ans : frame_ok st ans = true <->
  Forall (fun a => snd a = 1 /\ al_error (fst a) = false /\ al_state (fst a) = st) ans.
Proof.
  unfold frame_ok. rewrite forallb_forall, Forall_forall. unfold ans_ok.
  split; intros H a Ha; specialize (H a Ha).
  - apply andb_true_iff in H as [H H2]. apply andb_true_iff in H as [H0 H1].
    apply negb_true_iff in H1. apply N.eqb_eq in H2, H0. auto.
  - destruct H as (H0 & H1 & H2). rewrite H0, H1, H2, N.eqb_refl. cbn. apply N.eqb_refl.
Qed.

(* a failing verdict comes from the first answer that is not fine: every answer before it was *)
Lemma frame_scan_fail st ans e : frame_scan st ans = VFail e <->
  exists pre a post, ans = pre ++ a :: post /\ frame_ok st pre = true /\
    ((snd a <> 1 /\ e = TWkc 1 (snd a)) \/ (snd a = 1 /\ al_error (fst a) = true /\ e = TStateTransition)).
Proof.
  induction ans as [|[data wkc] r IH]; cbn [frame_scan].
  - split; [discriminate|]. intros (pre & a & post & H & _). destruct pre; discriminate.
  - destruct (wkc =? 1) eqn:Ew; cbn [negb].
    + apply N.eqb_eq in Ew. subst wkc. destruct (al_error data) eqn:Ex.
      * split.
        -- intros H. injection H as <-. exists [], (data, 1), r. repeat split; auto.
        -- intros (pre & a & post & H1 & H2 & H3). destruct pre as [|y pre]; cbn [app] in H1.
           ++ injection H1 as <- <-. cbn [fst snd] in H3. destruct H3 as [[H3 _]|(_ & _ & ->)]; [congruence|reflexivity].
           ++ injection H1 as <- ->. unfold frame_ok in H2. cbn [forallb] in H2. apply andb_true_iff in H2 as [H2 _].
              unfold ans_ok in H2. cbn [fst snd] in H2. rewrite Ex in H2. cbn in H2. discriminate.
      * destruct (al_state data =? st) eqn:Es.
        -- rewrite IH. split; intros (pre & a & post & H1 & H2 & H3).
           ++ exists ((data, 1) :: pre), a, post. subst r. repeat split; auto.
              unfold frame_ok in *. cbn [forallb]. unfold ans_ok at 1. cbn [fst snd]. rewrite Ex, Es. exact H2.
           ++ destruct pre as [|y pre]; cbn [app] in H1.
              ** injection H1 as <- <-. cbn [fst snd] in H3. destruct H3 as [[H3 _]|(_ & H3 & _)]; congruence.
              ** injection H1 as <- ->. exists pre, a, post. repeat split; auto.
                 unfold frame_ok in H2. cbn [forallb] in H2. apply andb_true_iff in H2 as [_ H2]. exact H2.
        -- split; [discriminate|]. intros (pre & a & post & H1 & H2 & H3).
           destruct pre as [|y pre]; cbn [app] in H1.
           ++ injection H1 as <- <-. cbn [fst snd] in H3. destruct H3 as [[H3 _]|(_ & H3 & _)]; congruence.
           ++ injection H1 as <- ->. unfold frame_ok in H2. cbn [forallb] in H2. apply andb_true_iff in H2 as [H2 _].
              unfold ans_ok in H2. cbn [fst snd] in H2. rewrite Es, andb_false_r in H2. discriminate.
    + apply N.eqb_neq in Ew. split.
      * intros H. injection H as <-. exists [], (data, wkc), r. repeat split; auto.
      * intros (pre & a & post & H1 & H2 & H3). destruct pre as [|y pre]; cbn [app] in H1.
        -- injection H1 as <- <-. cbn [fst snd] in H3. destruct H3 as [[_ ->]|[H3 _]]; [reflexivity|congruence].
        -- injection H1 as <- ->. unfold frame_ok in H2. cbn [forallb] in H2. apply andb_true_iff in H2 as [H2 _].
           unfold ans_ok in H2. cbn [fst snd] in H2. apply N.eqb_neq in Ew. rewrite Ew in H2. discriminate.
Qed.

(* a status answer that fails - not serviced by exactly one device, or carrying the error
   indication - seen before the timeout and before an answer naming another state, ends the round
   and with it the transition with that error *)
Theorem is_state_error f c subs ans more used r rest fs u e :
  is_state (S f) c subs (ans :: more) used = (r, rest, fs, u) ->
  fs <> [] -> (S used < t_limit c)%nat -> frame_scan (t_desired c) ans = VFail e ->
  r = Err e.
Proof.
  intros H NE L E. cbn [is_state] in H.
  destruct (push_checks (t_room c) 0 subs 0) as [[ds rs] cnt].
  destruct cnt as [|cnt]; [inversion H; subst; congruence|].
  apply Nat.leb_gt in L. rewrite L, E in H. inversion H. reflexivity.
Qed.

(* success of the wait = some is_state round said yes *)
Theorem wait_ok fuel : forall c resps used fs, (14 <= t_room c)%nat ->
  wait_for_state fuel c resps used = (Ok tt, fs) ->
  exists before answers after fs_before fs_last,
    resps = before ++ answers ++ after /\ fs = fs_before ++ fs_last /\
    length answers = length fs_last /\
    Forall (fun ans => frame_ok (t_desired c) ans = true) answers /\
    concat fs_last = map TCheck (t_subs c) /\
    (t_subs c <> [] -> (used + length fs < t_limit c)%nat).
Proof.
  induction fuel as [|f IH]; intros c resps used fs R H; cbn [wait_for_state] in H; [discriminate|].
  destruct (is_state (S (length (t_subs c))) c (t_subs c) resps used) as [[[r rs] fs0] u] eqn:EI.
  destruct r as [[|]|e|s|].
  - inversion H; subst fs0; clear H.
    destruct (is_state_true _ _ _ _ _ _ _ _ R EI) as (answers & A1 & A2 & A3 & A4 & A5 & A6).
    exists [], answers, rs, [], fs. cbn [app]. repeat split; auto.
    intros NE. destruct fs as [|x xs].
    + cbn [concat] in A4. destruct (t_subs c); [congruence|discriminate].
    + rewrite <- A5. apply A6. discriminate.
  - destruct (wait_for_state f c rs u) as [r' fs'] eqn:EW. inversion H; subst r' fs; clear H.
    destruct (IH _ _ _ _ R EW) as (before & answers & after & fsb & fsl & B1 & B2 & B3 & B4 & B5 & B6).
    pose proof (is_state_used _ _ _ _ _ _ _ _ _ EI) as U.
    (* the answers is_state consumed: resps = consumed ++ rs *)
    assert (Cn : exists consumed, resps = consumed ++ rs).
    { clear -EI. revert EI. generalize (S (length (t_subs c))) as fu. generalize (t_subs c) as subs.
      intros subs fu. revert subs resps used rs fs0 u.
      induction fu as [|fu IHf]; intros subs resps used rs fs0 u H; cbn [is_state] in H; [discriminate|].
      destruct (push_checks (t_room c) 0 subs 0) as [[ds rs1] cnt].
      destruct cnt as [|cnt]; [discriminate|].
      destruct resps as [|ans more]; [discriminate|].
      destruct (t_limit c <=? S used)%nat; [discriminate|].
      destruct (frame_scan (t_desired c) ans).
      - destruct (is_state fu c rs1 more (S used)) as [[[r0 rs0] fs1] u0] eqn:EI.
        inversion H; subst. destruct (IHf _ _ _ _ _ _ EI) as (cs & ->). exists (ans :: cs). reflexivity.
      - inversion H; subst. exists [ans]. reflexivity.
      - discriminate. }
    destruct Cn as (consumed & ->).
    exists (consumed ++ before), answers, after, (fs0 ++ fsb), fsl. subst rs fs'.
    rewrite <- !app_assoc. repeat split; auto.
    intros NE. specialize (B6 NE). rewrite app_length. lia.
  - discriminate.
  - discriminate.
  - discriminate.
Qed.

Theorem wait_no_hang fuel : forall c resps used, (14 <= t_room c)%nat ->
  (used <= t_limit c < fuel + used)%nat -> fst (wait_for_state fuel c resps used) <> Hang.
Proof.
  induction fuel as [|f IH]; intros c resps used R L; [lia|]. cbn [wait_for_state].
  destruct (is_state (S (length (t_subs c))) c (t_subs c) resps used) as [[[r rs] fs0] u] eqn:EI.
  pose proof (is_state_no_hang (S (length (t_subs c))) c (t_subs c) resps used R (Nat.lt_succ_diag_r _)) as NH.
  rewrite EI in NH. cbn [fst] in NH.
  destruct r as [[|]|e|s|]; cbn [fst]; try discriminate; [|congruence].
  destruct (wait_for_state f c rs u) as [r' fs'] eqn:EW. cbn [fst].
  destruct (is_state_false _ _ _ _ _ _ _ _ EI) as [U1 U2].
  assert (X : fst (wait_for_state f c rs u) <> Hang) by (apply IH; [exact R|lia]).
  rewrite EW in X. exact X.
Qed.

(* ---------- the whole transition ---------- *)

Theorem transition_sound c resps fs : (14 <= t_room c)%nat ->
  transition c resps = (Ok tt, fs) ->
  t_subs c = [] \/
  exists reqs before answers after fs_before fs_last,
    writes_of reqs = t_subs c /\ Forall (request_frame (t_subs c) (t_desired c)) reqs /\
    fs = reqs ++ fs_before ++ fs_last /\
    resps = before ++ answers ++ after /\ length answers = length fs_last /\
    Forall (fun ans => frame_ok (t_desired c) ans = true) answers /\
    concat fs_last = map TCheck (t_subs c) /\
    (length fs_before + length fs_last < t_limit c)%nat.
Proof.
  intros R H. unfold transition in H.
  destruct (request_all (t_room c) (t_subs c) (t_desired c) resps) as [r reqs] eqn:ER.
  destruct (requests_members_only _ _ _ _ _ _ ER) as (k & W1 & W2 & W3).
  destruct r as [rest|e|s|]; try discriminate.
  destruct (t_subs c) as [|a sr] eqn:ES; [left; reflexivity|right].
  destruct (wait_for_state (S (t_limit c)) c rest 0) as [r' fs'] eqn:EW.
  inversion H; subst r' fs; clear H.
  destruct (wait_ok _ _ _ _ _ R EW) as (before & answers & after & fsb & fsl & B1 & B2 & B3 & B4 & B5 & B6).
  (* the request phase consumed a prefix of the answers *)
  assert (Cn : exists consumed, resps = consumed ++ rest).
  { clear -ER. revert ER. generalize (a :: sr) as subs. intros subs. revert resps reqs.
    induction subs as [|x xs IHs]; intros resps reqs H; cbn [request_all] in H.
    - inversion H; subst. exists []. reflexivity.
    - destruct (t_room c <? 14)%nat; [discriminate|].
      destruct resps as [|[|[data wkc] [|y ys]] more]; try discriminate.
      destruct (negb (wkc =? 1)); [discriminate|]. destruct (al_error data).
      + destruct more as [|[|[d2 wkc2] [|z zs]] m2]; try discriminate.
        destruct (negb (wkc2 =? 1)); discriminate.
      + destruct (request_all (t_room c) xs (t_desired c) more) as [r' fs'] eqn:E.
        inversion H; subst. destruct (IHs _ _ E) as (cs & ->). exists ([(data, wkc)] :: cs). reflexivity. }
  destruct Cn as (consumed & ->).
  exists reqs, (consumed ++ before), answers, after, fsb, fsl.
  rewrite (W2 rest eq_refl), firstn_all in W1. subst rest fs'. rewrite <- !app_assoc, ES in *.
  repeat split; auto.
  assert (NE : a :: sr <> []) by discriminate. specialize (B6 NE). rewrite app_length in B6. lia.
Qed.

(* the transition always ends: success, an error, or the timeout - never a hang *)
Theorem transition_ends c resps : (14 <= t_room c)%nat -> fst (transition c resps) <> Hang.
Proof.
  intros R. unfold transition.
  destruct (request_all (t_room c) (t_subs c) (t_desired c) resps) as [r reqs] eqn:ER.
  assert (NH : r <> Hang).
  { clear -ER. revert ER. generalize (t_subs c) as subs. intros subs. revert resps reqs r.
    induction subs as [|x xs IHs]; intros resps reqs r H; cbn [request_all] in H.
    - inversion H; discriminate.
    - destruct (t_room c <? 14)%nat; [inversion H; discriminate|].
      destruct resps as [|[|[data wkc] [|y ys]] more]; try (inversion H; discriminate).
      destruct (negb (wkc =? 1)); [inversion H; discriminate|]. destruct (al_error data).
      + destruct more as [|[|[d2 wkc2] [|z zs]] m2]; try (inversion H; discriminate).
        destruct (negb (wkc2 =? 1)); inversion H; discriminate.
      + destruct (request_all (t_room c) xs (t_desired c) more) as [r' fs'] eqn:E.
        inversion H; subst. exact (IHs _ _ _ E). }
  destruct r as [rest|e|s|]; cbn [fst]; try discriminate; [|congruence].
  destruct (t_subs c) as [|a sr] eqn:ES; [cbn; discriminate|].
  destruct (wait_for_state (S (t_limit c)) c rest 0) as [r' fs'] eqn:EW. cbn [fst].
  assert (X : fst (wait_for_state (S (t_limit c)) c rest 0) <> Hang) by (apply wait_no_hang; [exact R|lia]).
  rewrite EW in X. exact X.
Qed.

(* non-vacuity: a two-member group, one frame per round, second round succeeds *)
Example transition_example :
  transition {| t_subs := [4096; 4097]; t_room := 28%nat; t_desired := 4; t_limit := 5%nat |}
    [[([4;0],1)]; [([4;0],1)]; [([8;0],1); ([4;0],1)]; [([4;0],1); ([4;0],1)]]
  = (Ok tt, [[TWriteAl 4096 4]; [TWriteAl 4097 4]; [TCheck 4096; TCheck 4097]; [TCheck 4096; TCheck 4097]]).
Proof. vm_compute. reflexivity. Qed.
