(* Model of one process-data cycle: SubDeviceGroup::{tx_rx, tx_rx_sync_system_time, tx_rx_dc},
   push_state_checks and process_received_pdi_chunk (src/subdevice_group/mod.rs).
   Frames are modelled by their space accounting (C04 proves what the bytes are): a datagram of
   n data bytes takes n + 12 bytes of the frame's datagram area; a fill-the-rest push takes
   min(room - used - 12, remaining) bytes when that is positive.  No proofs here. *)
From EC Require Import Base.Prelude Base.Bytes.
Local Open Scope N_scope.

Inductive dgram :=
| DLrw (addr : N) (data : list N)       (* logical read/write of the image chunk *)
| DCheck (sd : N)                        (* FPRD AL status (2 bytes) of one SubDevice *)
| DDc (reference : N).                   (* FRMW DC system time (8 bytes) to the reference clock *)

Definition dg_size (d : dgram) : nat :=
  match d with
  | DLrw _ data => (length data + 12)%nat
  | DCheck _ => 14%nat
  | DDc _ => 20%nat
  end.

Inductive variant := VPlain | VSync | VDc.

Record cfg := {
  c_start : N;            (* pdi_start.start_address *)
  c_len : nat;            (* pdi_len *)
  c_rlen : nat;           (* read_pdi_len: inputs come first *)
  c_subs : list N;        (* configured addresses, group order *)
  c_room : nat;           (* frame datagram area: frame_data_len - 16 *)
  c_maxsd : nat;          (* MAX_SUBDEVICES: capacity of the state list *)
  c_dcref : option N      (* DC reference (maindevice.dc_ref_address / dc_conf.reference) *)
}.

(* a device answer to one datagram *)
Definition answer := (list N * N)%type.      (* returned data, working counter *)

Inductive cerr := CInternal | CAlloc | CWire | CWkcOverflow (* debug-build panic site *) | CTooLong.

Record lstate := {
  l_img : list N;
  l_sent : nat;             (* total_bytes_sent *)
  l_wkc : N;                (* lrw_wkc_sum *)
  l_subs : list N;          (* state checks still to push *)
  l_checks : nat;           (* total_checks *)
  l_states : list N;        (* collected states *)
  l_time : N;
  l_time_read : bool;
  l_frames : list (list dgram)     (* frames sent so far, oldest first *)
}.

(* push_state_checks: as many as fit, at most 129 per frame *)
Fixpoint push_checks (room used : nat) (subs : list N) (count : nat) : list dgram * list N * nat :=
  match subs with
  | [] => ([], [], count)
  | sd :: r =>
    if (used + 14 <=? room)%nat then
      if (128 <? count + 1)%nat then ([DCheck sd], r, S count)
      else
        let '(ds, rest, c) := push_checks room (used + 14) r (S count) in
        (DCheck sd :: ds, rest, c)
    else ([], subs, count)
  end.

(* replace img[a .. a+len src) by src *)
Definition write_at (img : list N) (a : nat) (src : list N) : list N := splice a src img.

(* process_received_pdi_chunk *)
Definition process_chunk (c : cfg) (img : list N) (sent n : nat) (data : list N) : res cerr (list N) :=
  let lo := Nat.min sent (c_rlen c) in
  let hi := Nat.min (sent + n) (c_rlen c) in
  if (length data <? hi - lo)%nat then Err CInternal
  else Ok (write_at img lo (firstn (hi - lo) data)).

Definition state_of (data : list N) : N := N.land (nth 0 data 0) 15.

(* consume the answers of the datagrams of one frame in order *)
Definition handle_response (c : cfg) (md : mode) (st : lstate) (frame : list dgram) (resp : list answer)
  : res cerr lstate :=
  (fix go (ds : list dgram) (rs : list answer) (st : lstate) : res cerr lstate :=
     match ds with
     | [] => Ok st
     | d :: dr =>
       match rs with
       | [] => Err CInternal
       | (data, wkc) :: rr =>
         match d with
         | DDc _ =>
           if (length data <? 8)%nat then Err CWire
           else go dr rr {| l_img := l_img st; l_sent := l_sent st; l_wkc := l_wkc st; l_subs := l_subs st;
                            l_checks := l_checks st; l_states := l_states st;
                            l_time := of_le (firstn 8 data); l_time_read := true; l_frames := l_frames st |}
         | DLrw _ chunk =>
           let n := length chunk in
           let? img' := process_chunk c (l_img st) (l_sent st) n data in
           let sum := l_wkc st + wkc in
           if (65535 <? sum) && (match md with Debug => true | Release => false end) then Err CWkcOverflow
           else go dr rr {| l_img := img'; l_sent := (l_sent st + n)%nat; l_wkc := sum mod 65536;
                            l_subs := l_subs st; l_checks := l_checks st; l_states := l_states st;
                            l_time := l_time st; l_time_read := l_time_read st; l_frames := l_frames st |}
         | DCheck _ =>
           if (length data <? 2)%nat then Err CWire
           else go dr rr {| l_img := l_img st; l_sent := l_sent st; l_wkc := l_wkc st; l_subs := l_subs st;
                            l_checks := l_checks st;
                            l_states := if (length (l_states st) <? c_maxsd c)%nat
                                        then l_states st ++ [state_of data] else l_states st;
                            l_time := l_time st; l_time_read := l_time_read st; l_frames := l_frames st |}
         end
       end
     end) frame resp st.

(* build the next frame: optional DC datagram, the rest of the image, state checks *)
Definition build_frame (c : cfg) (v : variant) (st : lstate) : res cerr (list dgram * lstate) :=
  let dc := match v, c_dcref c with
            | VPlain, _ => []
            | _, Some r => if l_time_read st then [] else [DDc r]
            | _, None => []
            end in
  let used0 := match dc with [] => 0%nat | _ => 20%nat end in
  if (c_room c <? used0)%nat then Err CTooLong else      (* push_pdu of the DC datagram: `?` *)
  let chunk_start := Nat.min (l_sent st) (c_len c) in
  let chunk_len := (c_len c - l_sent st)%nat in
  let chunk := firstn chunk_len (skipn chunk_start (l_img st)) in
  let max_bytes := (c_room c - used0 - 12)%nat in
  let lrw := match chunk with
             | [] => []
             | _ => if (max_bytes =? 0)%nat then []
                    else [DLrw (c_start c + N.of_nat (l_sent st)) (firstn (Nat.min max_bytes (length chunk)) chunk)]
             end in
  let used1 := (used0 + match lrw with [d] => dg_size d | _ => 0 end)%nat in
  let '(checks, rest, cnt) := push_checks (c_room c) used1 (l_subs st) 0 in
  Ok (dc ++ lrw ++ checks,
   {| l_img := l_img st; l_sent := l_sent st; l_wkc := l_wkc st; l_subs := rest;
      l_checks := (l_checks st + cnt)%nat; l_states := l_states st; l_time := l_time st;
      l_time_read := l_time_read st; l_frames := l_frames st |}).

Definition done (c : cfg) (st : lstate) : bool :=
  ((c_len c - l_sent st =? 0) && (length (c_subs c) <=? l_checks st))%nat.

(* the loop: [resps] are the device answers, frame by frame *)
Fixpoint loop (fuel : nat) (c : cfg) (md : mode) (v : variant) (st : lstate) (resps : list (list answer))
  : res cerr lstate :=
  match fuel with
  | O => Hang
  | S f =>
    (* tx_rx tests its exit condition before allocating; the DC variants after receiving *)
    if (match v with VPlain => done c st | _ => false end) then Ok st else
    let chunk_len_before := (c_len c - l_sent st)%nat in
    let? '(frame, st1) := build_frame c v st in
    match frame with
    | [] => Ok st1                               (* frame.is_empty(): dropped unsent *)
    | _ =>
      match resps with
      | [] => Err CInternal                      (* (no answer scripted) *)
      | r :: rest =>
        let st2 := {| l_img := l_img st1; l_sent := l_sent st1; l_wkc := l_wkc st1; l_subs := l_subs st1;
                      l_checks := l_checks st1; l_states := l_states st1; l_time := l_time st1;
                      l_time_read := l_time_read st1; l_frames := l_frames st1 ++ [frame] |} in
        let? st3 := handle_response c md st2 frame r in
        match v with
        | VPlain => loop f c md v st3 rest
        | _ =>
          if ((chunk_len_before =? 0) && (length (c_subs c) <=? l_checks st3))%nat then Ok st3
          else loop f c md v st3 rest
        end
      end
    end
  end.

Definition init_state (c : cfg) (img : list N) : lstate :=
  {| l_img := img; l_sent := 0; l_wkc := 0; l_subs := c_subs c; l_checks := 0; l_states := [];
     l_time := 0; l_time_read := false; l_frames := [] |}.

(* tx_rx_sync_system_time without a DC reference falls back to tx_rx *)
Definition cycle (c : cfg) (md : mode) (v : variant) (img : list N) (resps : list (list answer))
  : res cerr lstate :=
  let v' := match v, c_dcref c with VSync, None => VPlain | _, _ => v end in
  loop (c_len c + length (c_subs c) + 3) c md v' (init_state c img) resps.

(* ---------- per-cycle DC arithmetic of tx_rx_dc ---------- *)
Definition cycle_info (md : mode) (time period shift : N) : res cerr (N * N) :=
  if period =? 0 then Panic 1 else
  let off := time mod period in
  let wait := (period - off) + shift in
  if (18446744073709551615 <? wait) then
    match md with Debug => Panic 2 | Release => Ok (off, wait mod 18446744073709551616) end
  else Ok (off, wait).

(* ---------- observation vector for the correspondence check ---------- *)
Definition obs_dg (d : dgram) : list Z :=
  match d with
  | DLrw a data => (1 :: Z.of_N a :: Z.of_nat (length data) :: map Z.of_N data)%Z
  | DCheck sd => [2; Z.of_N sd]%Z
  | DDc r => [3; Z.of_N r]%Z
  end.

Definition obs_cycle (c : cfg) (md : mode) (v : variant) (img : list N) (resps : list (list answer)) : list Z :=
  match cycle c md v img resps with
  | Ok st =>
    (0 :: Z.of_N (l_wkc st) :: Z.of_N (l_time st) :: Z.of_nat (length (l_states st)) :: map Z.of_N (l_states st)
       ++ [-5] ++ map Z.of_N (l_img st) ++ [-6]
       ++ concat (map (fun f => concat (map obs_dg f) ++ [-7]) (l_frames st)))%Z
  | Err CInternal => [-1]%Z
  | Err CAlloc => [-2]%Z
  | Err CWire => [-3]%Z
  | Err CWkcOverflow => [-4]%Z
  | Err CTooLong => [-8]%Z
  | Panic _ => [-98]%Z
  | Hang => [-99]%Z
  end.
