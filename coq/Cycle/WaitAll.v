(* C10: MainDevice::wait_for_state (src/maindevice.rs): one broadcast read (BRD) of the AL status
   register per poll, expected working counter = number of SubDevices, under the state-transition
   timeout.  Device side of a broadcast read (ETG.1000.4): every device ORs its register into the
   datagram and increments the working counter.  No proofs here. *)
From EC Require Import Base.Prelude Base.Bytes Cycle.Cycle Cycle.State.
Local Open Scope N_scope.

Inductive bdgram := BStatus | BCode (addr : N).

Record bcfg := {
  b_n : N;            (* MainDevice::num_subdevices *)
  b_desired : N;
  b_limit : nat       (* frames after which the transition timeout has elapsed *)
}.

(* after an error flag: one AL status code read per SubDevice (result and working counter ignored),
   then Err(StateTransition) - still under the timeout *)
Fixpoint read_codes (c : bcfg) (k : nat) (addr : N) (resps : list (list answer)) (used : nat)
  : res terr unit * list (list bdgram) :=
  match k with
  | O => (Err TStateTransition, [])
  | S k' =>
    match resps with
    | [] => (Err TInternal, [[BCode addr]])
    | _ :: more =>
      if (b_limit c <=? S used)%nat then (Err TTimeout, [[BCode addr]])
      else let '(r, fs) := read_codes c k' (addr + 1) more (S used) in (r, [BCode addr] :: fs)
    end
  end.

Fixpoint wait_all (fuel : nat) (c : bcfg) (resps : list (list answer)) (used : nat)
  : res terr unit * list (list bdgram) :=
  match fuel with
  | O => (Hang, [])
  | S f =>
    match resps with
    | [] => (Err TInternal, [[BStatus]])
    | ans :: more =>
      if (b_limit c <=? S used)%nat then (Err TTimeout, [[BStatus]]) else
      match ans with
      | [(data, wkc)] =>
        if negb (wkc =? b_n c) then (Err (TWkc (b_n c) wkc), [[BStatus]])
        else if al_error data then
          let '(r, fs) := read_codes c (N.to_nat (b_n c)) 4096 more (S used) in (r, [BStatus] :: fs)
        else if al_state data =? b_desired c then (Ok tt, [[BStatus]])
        else let '(r, fs) := wait_all f c more (S used) in (r, [BStatus] :: fs)
      | _ => (Err TInternal, [[BStatus]])
      end
    end
  end.

Definition wait_network (c : bcfg) (resps : list (list answer)) := wait_all (S (b_limit c)) c resps 0.

(* device side: the answer to a broadcast read of the AL status of devices reporting [sts]
   (low byte of the register: state in bits 0-3, error flag in bit 4) *)
Definition brd_answer (sts : list N) : answer := ([fold_left N.lor sts 0; 0], N.of_nat (length sts)).

Definition obs_bd (d : bdgram) : list Z :=
  match d with BStatus => [1]%Z | BCode a => [2; Z.of_N a]%Z end.

Definition obs_waitall (c : bcfg) (resps : list (list answer)) : list Z :=
  let '(r, fs) := wait_network c resps in
  ((match r with
    | Ok _ => [0]
    | Err (TWkc e g) => [1; Z.of_N e; Z.of_N g]
    | Err TStateTransition => [2]
    | Err TTimeout => [3]
    | Err TInternal => [4]
    | Err TTooLong => [5]
    | Panic _ => [-98]
    | Hang => [-99]
    end) ++ concat (map (fun f => concat (map obs_bd f) ++ [-7]) fs))%Z.
