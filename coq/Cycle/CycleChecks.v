(* C10 / C07: the state checks of one cycle are one per member, in group order - so the state list
   (CycleResults: the answers to the check datagrams, in the order sent) lines up with the group. *)
From EC Require Import Base.Prelude Base.Bytes Cycle.Cycle Cycle.CycleProofs Cycle.CycleResults.
Local Open Scope N_scope.

Definition checks_in (f : list dgram) : list N :=
  concat (map (fun d => match d with DCheck a => [a] | _ => [] end) f).
Definition checked (frames : list (list dgram)) : list N := concat (map checks_in frames).

Lemma checks_in_app a b : checks_in (a ++ b) = checks_in a ++ checks_in b.
Proof. unfold checks_in. rewrite map_app, concat_app. reflexivity. Qed.

Lemma checks_in_checks l : checks_in (map DCheck l) = l.
Proof. unfold checks_in. induction l as [|x r IH]; cbn; [reflexivity|]. f_equal. exact IH. Qed.

Lemma checked_snoc frames f : checked (frames ++ [f]) = checked frames ++ checks_in f.
Proof. unfold checked. rewrite map_app, concat_app. cbn. rewrite app_nil_r. reflexivity. Qed.

Lemma checks_in_dc c v st : checks_in (dc_part c v st) = [].
Proof. unfold dc_part. destruct v, (c_dcref c); try reflexivity; destruct (l_time_read st); reflexivity. Qed.

Lemma checks_in_lrw (lrw : list dgram) a ch : lrw = [] \/ lrw = [DLrw a ch] -> checks_in lrw = [].
Proof. intros [->| ->]; reflexivity. Qed.

Lemma loop_checks fuel : forall c md v img0 st resps,
  LI c img0 st -> room_ok c v ->
  checked (l_frames st) ++ l_subs st = c_subs c ->
  forall st', loop fuel c md v st resps = Ok st' ->
    checked (l_frames st') ++ l_subs st' = c_subs c.
Proof.
  induction fuel as [|f IH]; intros c md v img0 st resps I Rk R st' H; [discriminate|].
  cbn [loop] in H.
  destruct (match v with VPlain => done c st | _ => false end).
  - inversion H; subst st'. exact R.
  - destruct (build_frame c v st) as [[frame st1]|e| |] eqn:B; cbn [rbind] in H; try discriminate.
    assert (Limg : (c_len c <= length (l_img st))%nat) by (rewrite (li_img _ _ _ I); exact (li_len _ _ _ I)).
    destruct (build_frame_spec _ _ _ _ _ B Limg)
      as (lrw & k & F & L & Lz & Fit & Stop & Kl & E1 & E2 & E3 & E4 & E5 & E6 & E7 & E8 & E9).
    assert (Cf : checks_in frame = firstn k (l_subs st)).
    { rewrite F, !checks_in_app, checks_in_dc, checks_in_checks.
      rewrite (checks_in_lrw lrw _ _ L). reflexivity. }
    destruct frame as [|d0 fr].
    + inversion H; subst st'. rewrite E7, E1.
      assert (Z : firstn k (l_subs st) = []) by (rewrite <- Cf; reflexivity).
      rewrite <- (firstn_skipn k (l_subs st)) in R. rewrite Z in R. exact R.
    + destruct resps as [|r rest]; [discriminate|].
      match type of H with context [handle_response c md ?s2 (d0 :: fr) r] =>
        destruct (handle_response c md s2 (d0 :: fr) r) as [st3|e|site|] eqn:Hr end; cbn [rbind] in H; try discriminate.
      destruct (step_inv _ _ _ _ _ _ _ _ _ I Rk B ltac:(discriminate) Hr) as (I3 & M3 & Z3).
      destruct (handle_response_book _ _ _ _ _ _ Hr) as (A1 & A2 & A3 & A4 & A5 & A6 & A7).
      cbn [l_frames l_subs l_checks l_sent l_time_read l_img] in *.
      assert (R3 : checked (l_frames st3) ++ l_subs st3 = c_subs c).
      { rewrite A1, A2, E7, E1, checked_snoc, Cf, <- app_assoc, firstn_skipn. exact R. }
      destruct v.
      * eapply IH; eauto.
      * destruct ((c_len c - l_sent st =? 0) && (length (c_subs c) <=? l_checks st3))%nat.
        -- inversion H; subst st'. exact R3.
        -- eapply IH; eauto.
      * destruct ((c_len c - l_sent st =? 0) && (length (c_subs c) <=? l_checks st3))%nat.
        -- inversion H; subst st'. exact R3.
        -- eapply IH; eauto.
Qed.

(* one successful cycle: the state checks sent are exactly the group's members, once each, in group
   order, and the state list is what was answered to them, in that order (cut at MAX_SUBDEVICES) *)
Theorem cycle_states_exact c md v img resps st :
  (c_len c <= length img)%nat ->
  room_ok c (match v, c_dcref c with VSync, None => VPlain | _, _ => v end) ->
  cycle c md v img resps = Ok st ->
  checked (l_frames st) = c_subs c /\
  l_states st = firstn (c_maxsd c) (states_of (pairs_of (l_frames st) resps)).
Proof.
  intros Hl Hr H. split.
  - destruct (cycle_complete c md v img resps Hl Hr) as [_ Hc].
    destruct (Hc st H) as (_ & Hs & _).
    unfold cycle in H.
    pose proof (loop_checks _ _ _ _ img _ _ (li_init c img Hl) Hr eq_refl _ H) as X.
    rewrite Hs, app_nil_r in X. exact X.
  - apply (cycle_results c md v img resps st Hl Hr H).
Qed.

(* observation for the correspondence check of C10: the state list and whom the checks went to *)
Definition obs_states (c : cfg) (md : mode) (v : variant) (img : list N) (resps : list (list answer)) : list Z :=
  match cycle c md v img resps with
  | Ok st => (0 :: map Z.of_N (l_states st) ++ [-5] ++ map Z.of_N (checked (l_frames st)))%Z
  | _ => [-1]%Z
  end.
