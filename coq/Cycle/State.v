(* C10: the per-cycle state summaries (src/subdevice_group/tx_rx_response.rs) and the group state
   transitions (transition_to, wait_for_state, is_state, request_subdevice_state_nowait in
   src/subdevice_group/mod.rs and src/subdevice/mod.rs).  No proofs here. *)
From EC Require Import Base.Prelude Base.Bytes Cycle.Cycle.
Local Open Scope N_scope.

(* ---------- summaries: a state list is a list of 4-bit AL state values ---------- *)

Definition group_state (l : list N) : N := N.land (fold_left N.lor l 0) 15.

Definition all_same (l : list N) : bool :=
  match l with [] => true | s :: r => forallb (N.eqb s) r end.

Definition popcount4 (b : N) : nat :=
  (N.to_nat (N.land b 1) + N.to_nat (N.land (N.shiftr b 1) 1) +
   N.to_nat (N.land (N.shiftr b 2) 1) + N.to_nat (N.land (N.shiftr b 3) 1))%nat.

(* group_in_single_state: None = "more than one state" *)
Definition single_state (l : list N) : option N :=
  if negb (all_same l) then None else
  let b := group_state l in
  if (1 <? popcount4 b)%nat then None
  else if (b =? 0) || (b =? 1) || (b =? 2) || (b =? 4) || (b =? 8) then Some b else None.

(* the desired state as the caller names it: one of the named states or Other(n) *)
Inductive desired := DNone | DInit | DPreOp | DBootstrap | DSafeOp | DOp | DOther (n : N).

Definition is_in_state (l : list N) (d : desired) : bool :=
  if negb (all_same l) then false else
  let b := group_state l in
  match d with
  | DNone => b =? 0 | DInit => b =? 1 | DPreOp => b =? 2 | DBootstrap => false
  | DSafeOp => b =? 4 | DOp => b =? 8 | DOther n => b =? n
  end.

Definition all_op (l : list N) : bool :=
  match single_state l with Some 8 => true | _ => false end.

(* what the summaries are supposed to say *)
Definition spec_all_op (l : list N) : bool :=
  match l with [] => false | _ => forallb (N.eqb 8) l end.

Definition spec_single (l : list N) : option N :=
  match l with
  | [] => Some 0
  | s :: r => if forallb (N.eqb s) r
              then (if (s =? 0) || (s =? 1) || (s =? 2) || (s =? 4) || (s =? 8) then Some s else None)
              else None
  end.

(* ---------- state transitions ---------- *)

Inductive tdgram :=
| TWriteAl (addr state : N)      (* FPWR AL control = requested state *)
| TReadCode (addr : N)           (* FPRD AL status code *)
| TCheck (addr : N).             (* FPRD AL status *)

Inductive terr := TWkc (expected received : N) | TStateTransition | TTimeout | TInternal | TTooLong.

Definition al_state (data : list N) : N := N.land (nth 0 data 0) 15.
Definition al_error (data : list N) : bool := N.testbit (nth 0 data 0) 4.

Record tcfg := {
  t_subs : list N;
  t_room : nat;
  t_desired : N;
  t_limit : nat      (* frames after which the transition timeout has elapsed *)
}.

(* request phase: one write per member, in order *)
Fixpoint request_all (room : nat) (subs : list N) (st : N) (resps : list (list answer))
  : res terr (list (list answer)) * list (list tdgram) :=
  match subs with
  | [] => (Ok resps, [])
  | a :: r =>
    (* the request is a 2-byte write: 12 bytes of PDU header and trailer plus the payload *)
    if (room <? 14)%nat then (Err TTooLong, []) else
    match resps with
    | [(data, wkc)] :: rest =>
      if negb (wkc =? 1) then (Err (TWkc 1 wkc), [[TWriteAl a st]])
      else if al_error data then
        match rest with
        | [(_, wkc2)] :: _ =>
          if negb (wkc2 =? 1) then (Err (TWkc 1 wkc2), [[TWriteAl a st]; [TReadCode a]])
          else (Err TStateTransition, [[TWriteAl a st]; [TReadCode a]])
        | _ => (Err TInternal, [[TWriteAl a st]; [TReadCode a]])
        end
      else
        let '(r', fs) := request_all room r st rest in (r', [TWriteAl a st] :: fs)
    | _ => (Err TInternal, [[TWriteAl a st]])
    end
  end.

(* all answers of one frame were serviced by exactly one device and name the desired state, none
   with the error indication? *)
Definition ans_ok (st : N) (a : answer) : bool :=
  (snd a =? 1) && negb (al_error (fst a)) && (al_state (fst a) =? st).
Definition frame_ok (st : N) (ans : list answer) : bool := forallb (ans_ok st) ans.

(* the answers of a frame are looked at in order; the first that is not "one device answered,
   requested state, no error" decides: a wrong working counter and an error indication end the
   wait with an error, another state means "not yet" *)
Inductive verdict := VAll | VNotYet | VFail (e : terr).
Fixpoint frame_scan (st : N) (ans : list answer) : verdict :=
  match ans with
  | [] => VAll
  | (data, wkc) :: r =>
    if negb (wkc =? 1) then VFail (TWkc 1 wkc)
    else if al_error data then VFail TStateTransition
    else if al_state data =? st then frame_scan st r else VNotYet
  end.

(* an error indication is what decides the frame *)
Definition frame_error (st : N) (ans : list answer) : bool :=
  match frame_scan st ans with VFail TStateTransition => true | _ => false end.

(* one is_state call.  Returns (verdict, remaining answers, frames sent, frames used).
   [used] counts frames so far in the whole wait; the timeout is noticed when a frame's answer
   comes back at or after the limit - before that answer is looked at. *)
Fixpoint is_state (fuel : nat) (c : tcfg) (subs : list N) (resps : list (list answer)) (used : nat)
  : res terr bool * list (list answer) * list (list tdgram) * nat :=
  match fuel with
  | O => (Hang, resps, [], used)
  | S f =>
    let '(ds, rest, cnt) := push_checks (t_room c) 0 subs 0 in
    match cnt with
    | O => (Ok true, resps, [], used)
    | _ =>
      let frame := map (fun d => match d with DCheck a => TCheck a | _ => TCheck 0 end) ds in
      match resps with
      | [] => (Err TInternal, [], [frame], S used)
      | ans :: more =>
        if (t_limit c <=? S used)%nat then (Err TTimeout, more, [frame], S used)
        else match frame_scan (t_desired c) ans with
             | VAll => let '(r, rs, fs, u) := is_state f c rest more (S used) in (r, rs, frame :: fs, u)
             | VFail e => (Err e, more, [frame], S used)
             | VNotYet => (Ok false, more, [frame], S used)
             end
      end
    end
  end.

Fixpoint wait_for_state (fuel : nat) (c : tcfg) (resps : list (list answer)) (used : nat)
  : res terr unit * list (list tdgram) :=
  match fuel with
  | O => (Hang, [])
  | S f =>
    let '(r, rs, fs, u) := is_state (S (length (t_subs c))) c (t_subs c) resps used in
    match r with
    | Ok true => (Ok tt, fs)
    | Ok false => let '(r', fs') := wait_for_state f c rs u in (r', fs ++ fs')
    | Err e => (Err e, fs)
    | Panic s => (Panic s, fs)
    | Hang => (Hang, fs)
    end
  end.

Definition transition (c : tcfg) (resps : list (list answer)) : res terr unit * list (list tdgram) :=
  let '(r, fs) := request_all (t_room c) (t_subs c) (t_desired c) resps in
  match r with
  | Ok rest =>
    match t_subs c with
    | [] => (Ok tt, fs)       (* is_state with nothing to check is true at once *)
    | _ => let '(r', fs') := wait_for_state (S (t_limit c)) c rest 0 in (r', fs ++ fs')
    end
  | Err e => (Err e, fs)
  | Panic s => (Panic s, fs)
  | Hang => (Hang, fs)
  end.

(* ---------- observations ---------- *)
Definition obs_td (d : tdgram) : list Z :=
  match d with
  | TWriteAl a s => [1; Z.of_N a; Z.of_N s]%Z
  | TReadCode a => [2; Z.of_N a]%Z
  | TCheck a => [3; Z.of_N a]%Z
  end.

Definition obs_transition (c : tcfg) (resps : list (list answer)) : list Z :=
  let '(r, fs) := transition c resps in
  ((match r with
    | Ok _ => [0]
    | Err (TWkc e g) => [1; Z.of_N e; Z.of_N g]
    | Err TStateTransition => [2]
    | Err TTimeout => [3]
    | Err TInternal => [4]
    | Err TTooLong => [5]
    | Panic _ => [-98]
    | Hang => [-99]
    end) ++ concat (map (fun f => concat (map obs_td f) ++ [-7]) fs))%Z.

Definition obs_summary (l : list N) : list Z :=
  [Z.of_N (group_state l);
   match single_state l with Some s => Z.of_N s | None => (-1) end;
   if all_op l then 1 else 0;
   if is_in_state l DNone then 1 else 0; if is_in_state l DInit then 1 else 0;
   if is_in_state l DPreOp then 1 else 0; if is_in_state l DBootstrap then 1 else 0;
   if is_in_state l DSafeOp then 1 else 0; if is_in_state l DOp then 1 else 0]%Z.
