(* C02 (and the "outside the windows" half of C06): the PDU loop at window granularity.
   Four parties can be inside a frame buffer: the task building a request (holds a CreatedFrame),
   the transmit side (between its claim and mark_sent/release), the receive side (between its
   claim and mark_received) and the task reading the response (holds a ReceivedFrame).  [xstep]
   is the history alphabet: the application's operations on handles it holds, the TX task's two
   phases, the RX task's three phases, poll and drop split at their yield points.  The guards on
   ODropFut / expired OPollEnd are exactly the exclusion in C02's quantifier (no expiry or
   abandonment while TX or RX is inside that buffer; that is C06's window). *)
From EC Require Import Base.Prelude Base.Bytes Pdu.Frame Pdu.Slots Pdu.View Pdu.Hist Pdu.Client.
Local Open Scope N_scope.

Record xstate := {
  xs : pstate;
  xh : list hk;              (* application-side handle per slot *)
  xtx : list bool;           (* TX holds a SendableFrame of this slot *)
  xrx : option nat           (* RX is inside this slot (ReceivingFrame) *)
}.

Definition rx_in (x : xstate) (i : nat) : bool :=
  match xrx x with Some k => Nat.eqb k i | None => false end.

Definition tx_in (x : xstate) (i : nat) : bool := nth i (xtx x) false.

Definition xinit (n cap : nat) : xstate :=
  {| xs := pinit n cap; xh := repeat HNone n; xtx := repeat false n; xrx := None |}.

Definition in_window (x : xstate) (i : nat) : bool := tx_in x i || rx_in x i.

Definition xstep (x : xstate) (o : op) : option xstate :=
  let s := xs x in
  match o with
  | OAlloc =>
    let '(s', r) := alloc s in
    Some {| xs := s'; xh := match r with Some i => upd i HCreated (xh x) | None => xh x end;
            xtx := xtx x; xrx := xrx x |}
  | OPush i c d ov =>
    if hk_eqb (hget (xh x) i) HCreated
    then Some {| xs := fst (op_push s i c d ov); xh := xh x; xtx := xtx x; xrx := xrx x |} else None
  | OPushRest i c b =>
    if hk_eqb (hget (xh x) i) HCreated
    then Some {| xs := fst (op_push_rest s i c b); xh := xh x; xtx := xtx x; xrx := xrx x |} else None
  | OMark i =>
    if hk_eqb (hget (xh x) i) HCreated
    then Some {| xs := op_mark s i; xh := upd i HFut (xh x); xtx := xtx x; xrx := xrx x |} else None
  | ODropCreated i =>
    if hk_eqb (hget (xh x) i) HCreated
    then Some {| xs := op_drop_created s i; xh := upd i HNone (xh x); xtx := xtx x; xrx := xrx x |} else None
  | OTxClaim =>
    let '(s', r) := op_tx_claim s in
    Some {| xs := s'; xh := xh x;
            xtx := match r with Some k => upd k true (xtx x) | None => xtx x end; xrx := xrx x |}
  | OTxDone i oc =>
    if tx_in x i
    then Some {| xs := op_tx_done s i oc; xh := xh x; xtx := upd i false (xtx x); xrx := xrx x |} else None
  | ORxBegin bytes =>
    match xrx x with
    | Some _ => None
    | None =>
      let '(s', r) := op_rx_begin s bytes in
      Some {| xs := s'; xh := xh x; xtx := xtx x;
              xrx := match r with inr (k, _) => Some k | inl _ => None end |}
    end
  | ORxCopy k i =>
    if rx_in x k
    then Some {| xs := fst (op_rx_copy s k i); xh := xh x; xtx := xtx x; xrx := xrx x |} else None
  | ORxEnd k =>
    if rx_in x k
    then Some {| xs := fst (op_rx_end s k); xh := xh x; xtx := xtx x; xrx := None |} else None
  | OPollBegin i =>
    if hk_eqb (hget (xh x) i) HFut then
      let '(s', r) := op_poll_begin s i in
      Some {| xs := s'; xh := match r with None => upd i HReceived (xh x) | Some _ => xh x end;
              xtx := xtx x; xrx := xrx x |}
    else None
  | OPollEnd i was ex rt =>
    (* [was] is what the first half of this poll saw: one of the four pending statuses (lemma
       poll_begin_was); an expired deadline is only acted on outside the TX/RX windows *)
    if hk_eqb (hget (xh x) i) HFut && negb (ex && in_window x i) &&
       ((was =? SSendable) || (was =? SSending) || (was =? SSent) || (was =? SRxBusy)) then
      let '(s', r, _) := op_poll_end s i was ex rt in
      Some {| xs := s';
              xh := match r with PollErr _ => upd i HNone (xh x) | _ => xh x end;
              xtx := xtx x; xrx := xrx x |}
    else None
  | ODropFut i =>
    if hk_eqb (hget (xh x) i) HFut && negb (in_window x i)
    then Some {| xs := op_drop_fut s i; xh := upd i HNone (xh x); xtx := xtx x; xrx := xrx x |} else None
  | ODropRelease i =>
    if hk_eqb (hget (xh x) i) HReceived then
      match op_drop_release s i with
      | Ok s' => Some {| xs := s'; xh := upd i HNone (xh x); xtx := xtx x; xrx := xrx x |}
      | _ => None
      end
    else None
  | ODropClear i =>
    Some {| xs := op_drop_clear s i; xh := xh x; xtx := xtx x; xrx := xrx x |}
  | ORx _ | OPoll _ _ _ | ODropReceived _ | OReset => None   (* use the split forms *)
  | OTake _ _ _ | OIter _ | OViewRead _ _ _ => None            (* reading is C01; it does not move statuses beyond the drop *)
  end.

Fixpoint xrun (x : xstate) (ops : list op) : option xstate :=
  match ops with
  | [] => Some x
  | o :: r => match xstep x o with Some x' => xrun x' r | None => None end
  end.

(* who is inside slot i *)
Definition parties (x : xstate) (i : nat) : nat :=
  ((if hk_eqb (hget (xh x) i) HCreated then 1 else 0) +
   (if hk_eqb (hget (xh x) i) HReceived then 1 else 0) +
   (if tx_in x i then 1 else 0) + (if rx_in x i then 1 else 0))%nat.

(* the documented lifecycle, plus the two release edges of a pending future *)
Definition edge (a b : N) : bool :=
  (a =? b) ||
  ((a =? SNone) && (b =? SCreated)) ||
  ((a =? SCreated) && ((b =? SSendable) || (b =? SNone))) ||
  ((a =? SSendable) && (b =? SSending)) ||
  ((a =? SSending) && ((b =? SSent) || (b =? SSendable))) ||
  ((a =? SSent) && (b =? SRxBusy)) ||
  ((a =? SRxBusy) && (b =? SRxDone)) ||
  ((a =? SRxDone) && (b =? SRxProcessing)) ||
  ((a =? SRxProcessing) && (b =? SNone)) ||
  (((a =? SSendable) || (a =? SSent) || (a =? SRxDone)) && ((b =? SNone) || (b =? SSendable))).
