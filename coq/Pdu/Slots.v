(* Operation-level model of the PDU loop (src/pdu_loop): frame slots with their lifecycle
   status, the first-datagram key used to route responses, slot allocation, the transmit claim,
   the receive path and the response future.  TX and RX are split into claim / complete phases so
   that the windows in which they are "inside" a buffer are visible.  Executable; no proofs. *)
From EC Require Import Base.Prelude Base.Bytes Pdu.Frame.
Local Open Scope N_scope.

(* FrameState discriminants (frame_element/mod.rs) *)
Definition SNone : N := 0.
Definition SCreated : N := 1.
Definition SSendable : N := 2.
Definition SSending : N := 3.
Definition SSent : N := 4.
Definition SRxBusy : N := 5.
Definition SRxDone : N := 6.
Definition SRxProcessing : N := 7.

Definition key_empty : N := 65280.   (* FIRST_PDU_EMPTY = 0xff00 *)

Record slot := {
  sst : N;            (* status *)
  skey : N;           (* first_pdu *)
  sfr : fstate;       (* PDU area, bytes used, handle-local counters *)
  shdr : list N       (* the two EtherCAT header bytes in the buffer (written by mark_sendable) *)
}.

Record pstate := {
  slots : list slot;
  fidx : N;           (* frame_idx (u8, wrapping) *)
  pidx : N;           (* pdu_idx (u8, wrapping) *)
  cap : nat           (* frame_data_len (DATA) *)
}.

(* PduStorage::new + try_split: zeroed memory, first-PDU keys initialised to the empty marker *)
Definition slot0 (cap : nat) : slot :=
  {| sst := SNone; skey := key_empty;
     sfr := {| fbuf := zeros (cap - eth_overhead); fused := 0; fcount := 0; flast := None |};
     shdr := [0; 0] |}.

Definition pinit (n cap : nat) : pstate :=
  {| slots := repeat (slot0 cap) n; fidx := 0; pidx := 0; cap := cap |}.

Definition nslots (s : pstate) : nat := length (slots s).

Definition get (s : pstate) (i : nat) : slot := nth i (slots s) (slot0 (cap s)).
Definition set (s : pstate) (i : nat) (x : slot) : pstate :=
  {| slots := upd i x (slots s); fidx := fidx s; pidx := pidx s; cap := cap s |}.
Definition set_st (s : pstate) (i : nat) (st : N) : pstate :=
  let x := get s i in set s i {| sst := st; skey := skey x; sfr := sfr x; shdr := shdr x |}.

(* compare_exchange on the status *)
Definition cas (s : pstate) (i : nat) (from to : N) : option pstate :=
  if sst (get s i) =? from then Some (set_st s i to) else None.

(* FrameBox::clear_first_pdu *)
Definition op_drop_clear (s : pstate) (i : nat) : pstate :=
  let x := get s i in set s i {| sst := sst x; skey := key_empty; sfr := sfr x; shdr := shdr x |}.

(* ---------- errors / results as numbers ---------- *)
Inductive perror :=
| EEthernet | EWireShort | EWireInvalid | EReceiveFrame | EInternal | EDecode
| EInvalidIndex (k : N) | EInvalidFrameState | ESwapState | ETimeout | ETooLong.

(* ---------- alloc_frame ---------- *)
Fixpoint alloc_go (s : pstate) (attempts : nat) : pstate * option nat :=
  match attempts with
  | O => (s, None)
  | S k =>
    let i := N.to_nat (fidx s mod N.of_nat (nslots s)) in
    let s1 := {| slots := slots s; fidx := (fidx s + 1) mod 256; pidx := pidx s; cap := cap s |} in
    match cas s1 i SNone SCreated with
    | Some s2 =>
      (* claim_created + FrameBox::init *)
      (set s2 i {| sst := SCreated; skey := key_empty; sfr := finit (cap s); shdr := [0; 0] |}, Some i)
    | None => alloc_go s1 k
    end
  end.

Definition alloc (s : pstate) : pstate * option nat := alloc_go s (2 * nslots s).

(* ---------- building ---------- *)
Definition with_fr (s : pstate) (i : nat) (fr : fstate) (keyset : option N) : pstate :=
  let x := get s i in
  set s i {| sst := sst x;
             skey := match keyset with
                     | Some k => if skey x =? key_empty then k else skey x
                     | None => skey x end;
             sfr := fr; shdr := shdr x |}.

Definition op_push (s : pstate) (i : nat) (c : command) (d : list N) (o : option nat)
  : pstate * push_result :=
  let '(fr, r, p') := push_pdu (sfr (get s i)) (pidx s) c d o in
  let s1 := {| slots := slots s; fidx := fidx s; pidx := p'; cap := cap s |} in
  match r with
  | PushOk idx _ _ => (with_fr s1 i fr (Some idx), r)
  | _ => (s1, r)
  end.

Definition op_push_rest (s : pstate) (i : nat) (c : command) (b : list N) : pstate * push_result :=
  let '(fr, r, p') := push_rest (sfr (get s i)) (pidx s) c b in
  let s1 := {| slots := slots s; fidx := fidx s; pidx := p'; cap := cap s |} in
  match r with
  | RestSome _ idx _ _ => (with_fr s1 i fr (Some idx), r)
  | _ => (s1, r)
  end.

(* CreatedFrame::drop: only a frame still in Created is released, its key forgotten first *)
Definition op_drop_created (s : pstate) (i : nat) : pstate :=
  if sst (get s i) =? SCreated then set_st (op_drop_clear s i) i SNone else s.

(* mark_sendable: store Sendable; the consumed CreatedFrame's Drop then tries Created->None *)
Definition op_mark (s : pstate) (i : nat) : pstate :=
  let x := get s i in
  let s0 := set s i {| sst := sst x; skey := skey x; sfr := sfr x; shdr := ecat_header (fused (sfr x)) |} in
  let s1 := set_st s0 i SSendable in
  op_drop_created s1 i.


(* ---------- transmit ---------- *)
Fixpoint tx_scan (s : pstate) (i : nat) (n : nat) : pstate * option nat :=
  match n with
  | O => (s, None)
  | S k =>
    match cas s i SSendable SSending with
    | Some s2 => (s2, Some i)
    | None => tx_scan s (S i) k
    end
  end.

Definition op_tx_claim (s : pstate) : pstate * option nat := tx_scan s 0 (nslots s).

(* send_blocking outcome: 0 = all bytes sent, otherwise partial / error *)
Definition op_tx_done (s : pstate) (i : nat) (outcome : N) : pstate :=
  if outcome =? 0 then set_st s i SSent else set_st s i SSendable.

Definition frame_bytes (s : pstate) (i : nat) : list N :=
  let x := get s i in
  bcast ++ src_mac ++ ethertype_bytes ++ shdr x ++ firstn (fused (sfr x)) (fbuf (sfr x)).

(* ---------- receive ---------- *)
Inductive rx_result := RxIgnored | RxProcessed | RxErr (e : perror).

Fixpoint find_key (l : list slot) (k : N) (i : nat) : option nat :=
  match l with
  | [] => None
  | x :: r => if skey x =? k then Some i else find_key r k (S i)
  end.

(* the part of receive_frame before any slot is touched: parse and look up.
   Ok (slot, datagram bytes) or the early result. *)
Definition rx_parse (s : pstate) (bytes : list N) : rx_result + (nat * list N) :=
  if (length bytes <? 14)%nat then inl (RxErr EEthernet) else
  let ethertype := nth 12 bytes 0 * 256 + nth 13 bytes 0 in
  let src := slice 6 12 bytes in
  if negb (ethertype =? 34980) || (if list_eq_dec N.eq_dec src src_mac then true else false)
  then inl RxIgnored else
  let payload := skipn 14 bytes in
  if (length payload <? 2)%nat then inl (RxErr EWireShort) else
  let raw := of_le (firstn 2 payload) in
  let plen := N.to_nat (N.land raw len_mask) in
  if negb (N.shiftr raw 12 mod 256 =? 1) then inl (RxErr EWireInvalid) else
  if (plen =? 0)%nat then inl RxIgnored else
  if (length payload <? 2 + plen)%nat then inl (RxErr EReceiveFrame) else
  let i := firstn plen (skipn 2 payload) in
  match i with
  | _ :: idx :: _ =>
    match find_key (slots s) idx 0 with
    | None => inl (RxErr EDecode)
    | Some k => inr (k, i)
    end
  | _ => inl (RxErr EInternal)
  end.

(* size check, claim, copy, done -- in the order of the code *)
Definition op_rx (s : pstate) (bytes : list N) : pstate * rx_result :=
  match rx_parse s bytes with
  | inl r => (s, r)
  | inr (k, i) =>
    if (cap s - eth_overhead <? length i)%nat then (s, RxErr EInternal) else
    match cas s k SSent SRxBusy with
    | None => (s, RxErr (EInvalidIndex (N.of_nat k)))
    | Some s1 =>
      let x := get s1 k in
      if (length (fbuf (sfr x)) <? length i)%nat then (s1, RxErr EInternal)
      else
        let fr := sfr x in
        let fr' := {| fbuf := splice 0 i (fbuf fr); fused := fused fr; fcount := fcount fr; flast := flast fr |} in
        let s2 := set s1 k {| sst := sst x; skey := skey x; sfr := fr'; shdr := shdr x |} in
        match cas s2 k SRxBusy SRxDone with
        | Some s3 => (s3, RxProcessed)
        | None => (s2, RxErr EInvalidFrameState)
        end
    end
  end.

(* ---------- the response future ---------- *)
Inductive poll_result := PollReady | PollPending | PollErr (e : perror).

(* one poll; [expired] = the timeout timer is ready; returns the new retries_left *)
Definition op_poll (s : pstate) (i : nat) (expired : bool) (retries : nat)
  : pstate * poll_result * nat :=
  match cas s i SRxDone SRxProcessing with
  | Some s1 => (s1, PollReady, retries)
  | None =>
    let was := sst (get s i) in
    if expired then
      match retries with
      | O => (set_st (op_drop_clear s i) i SNone, PollErr ETimeout, retries)
      | S r =>
        let s1 := set_st s i SSendable in
        (s1,
         if (was =? SSendable) || (was =? SSending) || (was =? SSent) || (was =? SRxBusy)
         then PollPending else PollErr EInvalidFrameState, r)
      end
    else
      (s,
       if (was =? SSendable) || (was =? SSending) || (was =? SSent) || (was =? SRxBusy)
       then PollPending else PollErr EInvalidFrameState, retries)
  end.

(* dropping a pending future: key forgotten, then an unconditional store *)
Definition op_drop_fut (s : pstate) (i : nat) : pstate := set_st (op_drop_clear s i) i SNone.

(* dropping a ReceivedFrame: clear the key, then CAS RxProcessing -> None (unwrap) *)
Definition op_drop_received (s : pstate) (i : nat) : res perror pstate :=
  match cas (op_drop_clear s i) i SRxProcessing SNone with
  | Some s1 => Ok s1
  | None => Panic 1
  end.

(* PduLoop::reset: counters, statuses and keys *)
Definition op_reset (s : pstate) : pstate :=
  {| slots := map (fun x => {| sst := SNone; skey := key_empty; sfr := sfr x; shdr := shdr x |}) (slots s);
     fidx := 0; pidx := 0; cap := cap s |}.

(* ---------- the same operations split at the points where another party can get in ----------
   (cfg(ethercrab_verif) yield points RX_CLAIMED, RX_COPIED, DROP_RELEASED, POLL_NOT_READY) *)

Definition op_rx_begin (s : pstate) (bytes : list N) : pstate * (rx_result + (nat * list N)) :=
  match rx_parse s bytes with
  | inl r => (s, inl r)
  | inr (k, i) =>
    if (cap s - eth_overhead <? length i)%nat then (s, inl (RxErr EInternal)) else
    match cas s k SSent SRxBusy with
    | None => (s, inl (RxErr (EInvalidIndex (N.of_nat k))))
    | Some s1 => (s1, inr (k, i))
    end
  end.

Definition op_rx_copy (s : pstate) (k : nat) (i : list N) : pstate * option rx_result :=
  let x := get s k in
  if (length (fbuf (sfr x)) <? length i)%nat then (s, Some (RxErr EInternal))
  else
    let fr := sfr x in
    let fr' := {| fbuf := splice 0 i (fbuf fr); fused := fused fr; fcount := fcount fr; flast := flast fr |} in
    (set s k {| sst := sst x; skey := skey x; sfr := fr'; shdr := shdr x |}, None).

Definition op_rx_end (s : pstate) (k : nat) : pstate * rx_result :=
  match cas s k SRxBusy SRxDone with
  | Some s3 => (s3, RxProcessed)
  | None => (s, RxErr EInvalidFrameState)
  end.

Definition op_drop_release (s : pstate) (i : nat) : res perror pstate :=
  match cas s i SRxProcessing SNone with Some s1 => Ok s1 | None => Panic 1 end.

(* poll, first half: the CAS; returns the status it saw when the CAS failed *)
Definition op_poll_begin (s : pstate) (i : nat) : pstate * option N :=
  match cas s i SRxDone SRxProcessing with
  | Some s1 => (s1, None)
  | None => (s, Some (sst (get s i)))
  end.

Definition pending_or_err (was : N) : poll_result :=
  if (was =? SSendable) || (was =? SSending) || (was =? SSent) || (was =? SRxBusy)
  then PollPending else PollErr EInvalidFrameState.

(* poll, second half: timer, unconditional stores, verdict from the status seen EARLIER *)
Definition op_poll_end (s : pstate) (i : nat) (was : N) (expired : bool) (retries : nat)
  : pstate * poll_result * nat :=
  if expired then
    match retries with
    | O => (set_st (op_drop_clear s i) i SNone, PollErr ETimeout, retries)
    | S r => (set_st s i SSendable, pending_or_err was, r)
    end
  else (s, pending_or_err was, retries).

