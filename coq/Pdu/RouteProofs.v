From EC Require Import Base.Prelude Base.Bytes Base.BytesProofs Pdu.Frame Pdu.FrameProofs Pdu.Slots
  Pdu.SlotsProofs Pdu.Client Pdu.ClientProofs Pdu.View Pdu.ViewProofs.
Local Open Scope N_scope.

(* ---------- no stale keys: a free slot never carries a first-PDU index ---------- *)

Definition Keys (s : pstate) : Prop :=
  forall i, (i < nslots s)%nat -> sst (get s i) = SNone -> skey (get s i) = key_empty.

Lemma skey_set_st s i st j : skey (get (set_st s i st) j) = skey (get s j).
Proof.
  unfold set_st. destruct (Nat.ltb_spec i (nslots s)) as [H|H].
  - destruct (Nat.eq_dec j i) as [->|N]; [rewrite get_set_eq by exact H|rewrite get_set_ne by exact N]; reflexivity.
  - rewrite set_oob by exact H. reflexivity.
Qed.

Lemma skey_clear s i j : (i < nslots s)%nat ->
  skey (get (op_drop_clear s i) j) = if Nat.eqb j i then key_empty else skey (get s j).
Proof.
  intros H. unfold op_drop_clear. destruct (Nat.eqb_spec j i) as [->|N].
  - rewrite get_set_eq by exact H. reflexivity.
  - rewrite get_set_ne by exact N. reflexivity.
Qed.

(* the shape every operation has: a slot that is free afterwards either was free before with the
   same key, or has just had its key cleared *)
Definition keys_step (s s' : pstate) : Prop :=
  nslots s' = nslots s /\
  forall j, (j < nslots s)%nat -> sst (get s' j) = SNone ->
    (sst (get s j) = SNone /\ skey (get s' j) = skey (get s j)) \/ skey (get s' j) = key_empty.

Lemma keys_step_ok s s' : Keys s -> keys_step s s' -> Keys s'.
Proof.
  intros K [N H] i Hi Hn. rewrite N in Hi. destruct (H i Hi Hn) as [[A B]|B]; [|exact B].
  rewrite B. apply K; assumption.
Qed.

Lemma keys_step_refl s : keys_step s s.
Proof. split; [reflexivity|]. intros j _ H. left. auto. Qed.

(* releasing slot i by "clear key, store None" *)
Lemma keys_step_release s i : (i < nslots s)%nat -> keys_step s (set_st (op_drop_clear s i) i SNone).
Proof.
  intros Hi. split; [rewrite nslots_set_st; apply op_drop_clear_nslots|].
  intros j Hj Hn. rewrite skey_set_st, skey_clear by exact Hi.
  destruct (Nat.eqb_spec j i) as [->|N]; [right; reflexivity|left].
  rewrite sst_clear_set in Hn by exact Hi. apply Nat.eqb_neq in N. rewrite N in Hn. auto.
Qed.

(* a status-only change of slot i to a non-free status *)
Lemma keys_step_busy s i st : st <> SNone -> keys_step s (set_st s i st).
Proof.
  intros Hs. split; [apply nslots_set_st|]. intros j Hj Hn. left. rewrite skey_set_st.
  rewrite sst_set_st_any in Hn. destruct (Nat.eqb j i && (i <? nslots s)%nat)%bool; [contradiction|auto].
Qed.

Lemma keys_step_trans a b c : keys_step a b -> keys_step b c -> keys_step a c.
Proof.
  intros [N1 H1] [N2 H2]. split; [congruence|]. intros j Hj Hn.
  destruct (H2 j ltac:(rewrite N1; exact Hj) Hn) as [[A B]|B]; [|right; exact B].
  destruct (H1 j Hj A) as [[A' B']|B']; [left; split; [exact A'|congruence]|right; congruence].
Qed.

(* anything that leaves statuses and keys alone *)
Lemma keys_step_same s s' : nslots s' = nslots s ->
  (forall j, sst (get s' j) = sst (get s j) /\ skey (get s' j) = skey (get s j) \/
             sst (get s' j) <> SNone) -> keys_step s s'.
Proof.
  intros N H. split; [exact N|]. intros j Hj Hn. left.
  destruct (H j) as [[A B]|A]; [split; congruence|contradiction].
Qed.

Lemma alloc_go_keys a : forall s s' r, (0 < nslots s)%nat -> alloc_go s a = (s', r) ->
  match r with
  | Some i => skey (get s' i) = key_empty /\ forall j, j <> i -> get s' j = get s j
  | None => forall j, get s' j = get s j
  end.
Proof.
  induction a as [|a IH]; intros s s' r P H; cbn [alloc_go] in H.
  - inversion H; subst. reflexivity.
  - set (i := N.to_nat (fidx s mod N.of_nat (nslots s))) in *.
    set (s1 := {| slots := slots s; fidx := (fidx s + 1) mod 256; pidx := pidx s; cap := cap s |}) in *.
    assert (S1 : same_slots s s1) by (split; reflexivity).
    assert (Hi : (i < nslots s)%nat).
    { subst i. assert (fidx s mod N.of_nat (nslots s) < N.of_nat (nslots s)) by (apply N.mod_lt; lia). lia. }
    destruct (cas s1 i SNone SCreated) as [s2|] eqn:C.
    + inversion H; subst s' r; clear H. apply cas_some in C as [_ ->]. split.
      * rewrite get_set_eq by (rewrite nslots_set_st; exact Hi). reflexivity.
      * intros j Nj. rewrite get_set_ne by exact Nj. unfold set_st. rewrite get_set_ne by exact Nj.
        apply get_same. exact S1.
    + specialize (IH s1 s' r P H). destruct r as [k|].
      * destruct IH as [A B]. split; [exact A|]. intros j Nj. rewrite B by exact Nj. apply get_same, S1.
      * intros j. rewrite IH. apply get_same, S1.
Qed.

Lemma with_fr_key_other s i fr k j : j <> i -> skey (get (with_fr s i fr k) j) = skey (get s j).
Proof. intros N. unfold with_fr. rewrite get_set_ne by exact N. reflexivity. Qed.

(* every client operation keeps free slots free of keys *)
Lemma cstep_keys sh o sh' : Inv3 sh -> Keys (fst sh) -> cstep sh o = Some sh' -> Keys (fst sh').
Proof.
  destruct sh as [s h]. intros [[O W] Wp] K H. cbn [fst snd] in *. unfold cstep in H.
  pose proof (wf_pos s W) as P.
  destruct o.
  - destruct (alloc s) as [s' r] eqn:E. inversion H; subst sh'; clear H. cbn [fst].
    destruct (alloc_spec _ _ _ P E) as (N & R). unfold alloc in E. pose proof (alloc_go_keys _ _ _ _ P E) as Kk.
    intros j Hj Hn. destruct r as [i|].
    + destruct R as (Hi & _ & Hc & _). destruct Kk as [Ki Ko].
      destruct (Nat.eq_dec j i) as [->|Nj]; [exact Ki|]. rewrite Ko in * by exact Nj.
      apply K; [rewrite <- N; exact Hj|exact Hn].
    + rewrite Kk in *. apply K; [rewrite <- N; exact Hj|exact Hn].
  - destruct (hk_eqb (hget h i) HCreated) eqn:E; [|discriminate]. apply hk_eqb_eq in E.
    inversion H; subst sh'; clear H. cbn [fst].
    assert (Hi : (i < nslots s)%nat) by (destruct O as [L _]; rewrite <- L; eapply hget_some; eauto; discriminate).
    pose proof (own_compat _ _ _ O Hi) as C. rewrite E in C. cbn in C.
    eapply keys_step_ok; [exact K|]. apply keys_step_same.
    + unfold op_push. destruct (push_pdu _ _ _ _ _) as [[fr r] p']. destruct r; cbn [fst]; try reflexivity.
      rewrite with_fr_nslots. reflexivity.
    + intros j. unfold op_push. destruct (push_pdu _ _ _ _ _) as [[fr r] p']. destruct r; cbn [fst]; auto.
      destruct (Nat.eq_dec j i) as [->|Nj].
      * right. rewrite with_fr_status. cbn. change (sst (get s i) <> SNone). rewrite C. discriminate.
      * left. rewrite with_fr_status, with_fr_key_other by exact Nj. auto.
  - destruct (hk_eqb (hget h i) HCreated) eqn:E; [|discriminate]. apply hk_eqb_eq in E.
    inversion H; subst sh'; clear H. cbn [fst].
    assert (Hi : (i < nslots s)%nat) by (destruct O as [L _]; rewrite <- L; eapply hget_some; eauto; discriminate).
    pose proof (own_compat _ _ _ O Hi) as C. rewrite E in C. cbn in C.
    eapply keys_step_ok; [exact K|]. apply keys_step_same.
    + unfold op_push_rest. destruct (push_rest _ _ _ _) as [[fr r] p']. destruct r; cbn [fst]; try reflexivity.
      rewrite with_fr_nslots. reflexivity.
    + intros j. unfold op_push_rest. destruct (push_rest _ _ _ _) as [[fr r] p']. destruct r; cbn [fst]; auto.
      destruct (Nat.eq_dec j i) as [->|Nj].
      * right. rewrite with_fr_status. cbn. change (sst (get s i) <> SNone). rewrite C. discriminate.
      * left. rewrite with_fr_status, with_fr_key_other by exact Nj. auto.
  - destruct (hk_eqb (hget h i) HCreated) eqn:E; [|discriminate]. apply hk_eqb_eq in E.
    inversion H; subst sh'; clear H. cbn [fst].
    assert (Hi : (i < nslots s)%nat) by (destruct O as [L _]; rewrite <- L; eapply hget_some; eauto; discriminate).
    pose proof (own_compat _ _ _ O Hi) as C. rewrite E in C. cbn in C.
    unfold op_mark. set (s0 := set s i _).
    assert (N0 : nslots s0 = nslots s) by apply nslots_set.
    assert (G0 : forall j, sst (get s0 j) = sst (get s j) /\ skey (get s0 j) = skey (get s j)).
    { intros j. subst s0. destruct (Nat.eq_dec j i) as [->|Nj];
        [rewrite get_set_eq by exact Hi|rewrite get_set_ne by exact Nj]; auto. }
    rewrite op_drop_created_noop
      by (rewrite sst_set_st by (rewrite N0; exact Hi); rewrite Nat.eqb_refl; discriminate).
    eapply keys_step_ok; [exact K|]. eapply keys_step_trans with (b := s0).
    + apply keys_step_same; [exact N0|]. intros j. left. apply G0.
    + apply keys_step_busy. discriminate.
  - destruct (hk_eqb (hget h i) HCreated) eqn:E; [|discriminate]. apply hk_eqb_eq in E.
    inversion H; subst sh'; clear H. cbn [fst].
    assert (Hi : (i < nslots s)%nat) by (destruct O as [L _]; rewrite <- L; eapply hget_some; eauto; discriminate).
    pose proof (own_compat _ _ _ O Hi) as C. rewrite E in C. cbn in C.
    rewrite op_drop_created_yes by exact C.
    eapply keys_step_ok; [exact K|apply keys_step_release; exact Hi].
  - unfold op_tx_claim in H. destruct (tx_scan s 0 (nslots s)) as [s1 r] eqn:E.
    inversion H; subst sh'; clear H. cbn [fst]. apply tx_scan_spec in E. destruct r as [k|].
    + destruct E as [_ ->]. unfold op_tx_done.
      eapply keys_step_ok; [exact K|]. eapply keys_step_trans with (b := set_st s k SSending);
        [apply keys_step_busy; discriminate|].
      destruct (outcome =? 0); apply keys_step_busy; discriminate.
    + subst. exact K.
  - inversion H; subst sh'; clear H. cbn [fst].
    destruct (op_rx s bytes) as [s' r] eqn:E. cbn [fst]. destruct r.
    + assert (s' = s) by (eapply rx_reject_pure; eauto; discriminate). subst. exact K.
    + destruct (rx_accept_local _ _ _ Wp E) as (k & i & Hk & _ & _ & _ & _ & Hd & Hkey & _ & _ & Hoth & Hn & _).
      intros j Hj Hs. rewrite Hn in Hj. destruct (Nat.eq_dec j k) as [->|Nj].
      * rewrite Hd in Hs. discriminate.
      * rewrite Hoth in * by exact Nj. apply K; assumption.
    + assert (s' = s) by (eapply rx_reject_pure; eauto; discriminate). subst. exact K.
  - destruct (hk_eqb (hget h i) HFut) eqn:E; [|discriminate]. apply hk_eqb_eq in E.
    assert (Hi : (i < nslots s)%nat) by (destruct O as [L _]; rewrite <- L; eapply hget_some; eauto; discriminate).
    destruct (op_poll s i expired retries) as [[s' r] rt'] eqn:Ep. inversion H; subst sh'; clear H. cbn [fst].
    unfold op_poll, cas in Ep. destruct (sst (get s i) =? SRxDone).
    + inversion Ep; subst. eapply keys_step_ok; [exact K|apply keys_step_busy; discriminate].
    + destruct expired; [destruct retries|]; inversion Ep; subst.
      * eapply keys_step_ok; [exact K|apply keys_step_release; exact Hi].
      * eapply keys_step_ok; [exact K|apply keys_step_busy; discriminate].
      * exact K.
  - destruct (hk_eqb (hget h i) HFut) eqn:E; [|discriminate]. apply hk_eqb_eq in E.
    assert (Hi : (i < nslots s)%nat) by (destruct O as [L _]; rewrite <- L; eapply hget_some; eauto; discriminate).
    inversion H; subst sh'; clear H. cbn [fst]. unfold op_drop_fut.
    eapply keys_step_ok; [exact K|apply keys_step_release; exact Hi].
  - destruct (hk_eqb (hget h i) HReceived) eqn:E; [|discriminate]. apply hk_eqb_eq in E.
    assert (Hi : (i < nslots s)%nat) by (destruct O as [L _]; rewrite <- L; eapply hget_some; eauto; discriminate).
    pose proof (own_compat _ _ _ O Hi) as C. rewrite E in C. cbn in C.
    unfold op_drop_received, cas in H. rewrite op_drop_clear_status, C, N.eqb_refl in H.
    inversion H; subst sh'; clear H. cbn [fst].
    eapply keys_step_ok; [exact K|apply keys_step_release; exact Hi].
Qed.

Lemma keys_init n cap : Keys (pinit n cap).
Proof.
  intros i Hi _. unfold get, pinit. cbn [slots Slots.cap].
  assert (Ns : nslots (pinit n cap) = n) by (unfold nslots, pinit; cbn; apply repeat_length).
  rewrite nth_repeat. reflexivity.
Qed.

Theorem no_stale_keys n cap ops s h : In n pow2s ->
  crun (pinit n cap, repeat HNone n) ops = Some (s, h) -> Keys s.
Proof.
  intros I. assert (G : forall ops sh sh', Inv3 sh -> Keys (fst sh) -> crun sh ops = Some sh' -> Keys (fst sh')).
  { induction ops0 as [|o r IH]; intros sh sh' Iv K H; cbn [crun] in H; [inversion H; subst; exact K|].
    destruct (cstep sh o) as [sh1|] eqn:E; [|discriminate].
    eapply IH; [eapply cstep_inv; eauto|eapply cstep_keys; eauto|exact H]. }
  intros R. exact (G ops _ _ (inv_init n cap I) (keys_init n cap) R).
Qed.

(* ---------- routing: the response reaches exactly its request, byte-exact ---------- *)

Lemma find_key_first l k : forall base i, (i < length l)%nat ->
  skey (nth i l (slot0 0)) = k -> (forall j, (j < i)%nat -> skey (nth j l (slot0 0)) <> k) ->
  find_key l k base = Some (base + i)%nat.
Proof.
  induction l as [|x r IH]; intros base i Hi Hk Hj; cbn [length] in Hi; [lia|].
  cbn [find_key]. destruct i as [|i].
  - cbn [nth] in Hk. rewrite Hk, N.eqb_refl. f_equal. lia.
  - assert (Hx : skey x <> k) by (apply (Hj 0%nat); lia).
    apply N.eqb_neq in Hx. rewrite Hx. cbn [nth] in Hk.
    rewrite (IH (S base) i); [f_equal; lia|lia|exact Hk|].
    intros j Hjj. apply (Hj (S j)). lia.
Qed.

Lemma splice0_prefix {A} (s l : list A) : (length s <= length l)%nat ->
  splice 0 s l = s ++ skipn (length s) l.
Proof.
  revert l; induction s as [|x s IH]; intros l H.
  - destruct l; reflexivity.
  - destruct l as [|a l]; cbn [length] in H; [lia|]. cbn [splice app length skipn]. rewrite IH by lia. reflexivity.
Qed.

Lemma nth_default_irrelevant {A} (l : list A) i d d' : (i < length l)%nat -> nth i l d = nth i l d'.
Proof. apply nth_indep. Qed.

(* a response frame as the network returns it: any source address other than the MainDevice's,
   EtherCAT header with the exact length, first datagram, then whatever other datagrams follow *)
Definition response_frame (src : list N) (payload : list N) : list N :=
  bcast ++ src ++ ethertype_bytes ++ le_bytes 2 (N.of_nat (length payload) + 4096) ++ payload.

Theorem route_exact s i src code k raw more data wkc rest ex rt :
  wf_pstate s -> Keys s -> (i < nslots s)%nat ->
  sst (get s i) = SSent -> skey (get s i) = k -> k < 256 ->
  (* the request in slot i is the only live one with first index k (fewer than 256 indices
     allocated while it is outstanding) *)
  (forall j, j <> i -> (j < nslots s)%nat -> sst (get s j) <> SNone -> skey (get s j) <> k) ->
  length src = 6%nat -> src <> src_mac ->
  length raw = 4%nat -> (length data < 2048)%nat -> wkc < 65536 ->
  let payload := dg_bytes code k raw more data wkc ++ rest in
  (length payload <= cap s - eth_overhead)%nat -> (length payload < 2048)%nat ->
  let '(s1, r) := op_rx s (response_frame src payload) in
  r = RxProcessed /\ sst (get s1 i) = SRxDone /\
  (forall j, j <> i -> get s1 j = get s j) /\
  let '(s2, pr, _) := op_poll s1 i ex rt in
  pr = PollReady /\ sst (get s2 i) = SRxProcessing /\
  exists v, first_pdu (fbuf (sfr (get s2 i))) code k = Ok v /\
            view_bytes (fbuf (sfr (get s2 i))) v = data /\ vwkc v = wkc /\
            view_in_bounds (fbuf (sfr (get s2 i))) v = true.
Proof.
  intros Wp K Hi Hs Hk Hk256 Hd Ls Ns Lr Ld Hw payload Lp Lp2.
  assert (Lpl : (length payload >= 12)%nat).
  { subst payload. rewrite app_length, dg_length by exact Lr. lia. }
  (* the lookup finds slot i *)
  assert (F : find_key (slots s) k 0 = Some i).
  { change i with (0 + i)%nat. apply find_key_first.
    - exact Hi.
    - unfold get in Hk. rewrite (nth_indep _ _ (slot0 (cap s))) by exact Hi. exact Hk.
    - intros j Hj. rewrite (nth_indep _ _ (slot0 (cap s))) by (unfold nslots in Hi; lia).
      change (skey (get s j) <> k). destruct (N.eq_dec (sst (get s j)) SNone) as [E|E].
      + rewrite (K j ltac:(lia) E). unfold key_empty. lia.
      + apply Hd; auto; lia. }
  (* parsing the frame *)
  assert (P : rx_parse s (response_frame src payload) = inr (i, payload)).
  { unfold rx_parse, response_frame.
    destruct src as [|a0 [|a1 [|a2 [|a3 [|a4 [|a5 [|]]]]]]]; cbn [length] in Ls; try lia.
    cbn [bcast app length ethertype_bytes le_bytes].
    replace (_ <? 14)%nat with false by (cbn [length]; lia).
    cbn [nth]. change (136 * 256 + 164 =? 34980) with true. cbn [negb orb].
    unfold slice. cbn [skipn firstn Nat.sub].
    destruct (list_eq_dec N.eq_dec [a0; a1; a2; a3; a4; a5] src_mac) as [E|_]; [contradiction|].
    cbn [skipn]. set (w := N.of_nat (length payload) + 4096).
    assert (Hw16 : w < 65536) by (subst w; lia).
    cbn [length]. replace (S (S (length payload)) <? 2)%nat with false by lia.
    cbn [firstn].
    assert (Ew : of_le [w mod 256; w / 256 mod 256] = w).
    { change [w mod 256; w / 256 mod 256] with (le_bytes 2 w). apply of_le_le_bytes.
      change (256 ^ N.of_nat 2) with 65536. exact Hw16. }
    rewrite Ew.
    assert (El : N.land w len_mask = N.of_nat (length payload)).
    { subst w. unfold len_mask. change 2047 with (N.ones 11). rewrite N.land_ones.
      change 4096 with (2 * 2 ^ 11). rewrite N.mod_add by discriminate.
      apply N.mod_small. change (2^11) with 2048. lia. }
    assert (Et : N.shiftr w 12 mod 256 = 1).
    { rewrite N.shiftr_div_pow2. subst w. change 4096 with (1 * 2 ^ 12).
      rewrite N.div_add by discriminate. rewrite N.div_small by (change (2^12) with 4096; lia). reflexivity. }
    rewrite El, Et, Nat2N.id. cbn [N.eqb Pos.eqb negb].
    replace (length payload =? 0)%nat with false by lia.
    replace (S (S (length payload)) <? 2 + length payload)%nat with false by lia.
    rewrite firstn_all.
    assert (Sp : exists b0 b1 tl, payload = b0 :: b1 :: tl /\ b1 = k).
    { subst payload. unfold dg_bytes. cbn [app]. eauto. }
    destruct Sp as (b0 & b1 & tl & Ep & ->). rewrite Ep. rewrite <- Ep. rewrite F. reflexivity. }
  unfold op_rx. rewrite P.
  replace (cap s - eth_overhead <? length payload)%nat with false by lia.
  unfold cas. rewrite Hs, N.eqb_refl.
  assert (Hlen : length (fbuf (sfr (get (set_st s i SRxBusy) i))) = (cap s - eth_overhead)%nat).
  { unfold set_st. rewrite get_set_eq by exact Hi. cbn. apply Wp. exact Hi. }
  rewrite Hlen. replace (cap s - eth_overhead <? length payload)%nat with false by lia.
  set (x := get (set_st s i SRxBusy) i).
  set (s2 := set (set_st s i SRxBusy) i _).
  assert (Hx : sst x = SRxBusy) by (subst x; unfold set_st; rewrite get_set_eq by exact Hi; reflexivity).
  assert (N2 : nslots s2 = nslots s) by (subst s2; rewrite nslots_set, nslots_set_st; reflexivity).
  assert (G2 : get s2 i = {| sst := sst x; skey := skey x;
       sfr := {| fbuf := splice 0 payload (fbuf (sfr x)); fused := fused (sfr x);
                 fcount := fcount (sfr x); flast := flast (sfr x) |}; shdr := shdr x |}).
  { subst s2. apply get_set_eq. rewrite nslots_set_st. exact Hi. }
  rewrite G2. cbn [sst]. rewrite Hx, N.eqb_refl.
  split; [reflexivity|]. split; [|split].
  - rewrite sst_set_st by (rewrite N2; exact Hi). rewrite Nat.eqb_refl. reflexivity.
  - intros j Nj. unfold set_st. rewrite get_set_ne by exact Nj. subst s2.
    rewrite get_set_ne by exact Nj. unfold set_st. rewrite get_set_ne by exact Nj. reflexivity.
  - (* poll and read *)
    set (s3 := set_st s2 i SRxDone).
    assert (S3 : sst (get s3 i) = SRxDone).
    { subst s3. rewrite sst_set_st by (rewrite N2; exact Hi). rewrite Nat.eqb_refl. reflexivity. }
    unfold op_poll, cas. rewrite S3, N.eqb_refl.
    split; [reflexivity|]. split.
    + rewrite sst_set_st by (subst s3; rewrite nslots_set_st, N2; exact Hi). rewrite Nat.eqb_refl. reflexivity.
    + assert (B : fbuf (sfr (get (set_st s3 i SRxProcessing) i)) = splice 0 payload (fbuf (sfr x))).
      { unfold set_st at 1. rewrite get_set_eq by (subst s3; rewrite nslots_set_st, N2; exact Hi). cbn [sfr].
        subst s3. unfold set_st. rewrite get_set_eq by (rewrite N2; exact Hi). cbn [sfr]. rewrite G2. reflexivity. }
      rewrite B. assert (Lx : length (fbuf (sfr x)) = (cap s - eth_overhead)%nat) by exact Hlen.
      rewrite splice0_prefix by lia. subst payload. rewrite <- app_assoc.
      destruct (first_pdu_exact code k raw more data wkc
                  (rest ++ skipn (length (dg_bytes code k raw more data wkc ++ rest)) (fbuf (sfr x))) Lr Ld Hw)
        as (v & A1 & A2 & A3 & A4 & _).
      exists v. auto.
Qed.
