From EC Require Import Base.Prelude Base.Bytes Base.BytesProofs Pdu.Frame Pdu.Slots Pdu.SlotsProofs Pdu.Client.
Local Open Scope N_scope.

(* ---------- statuses under the primitive updates ---------- *)

Lemma sst_set_st s i st j : (i < nslots s)%nat ->
  sst (get (set_st s i st) j) = if Nat.eqb j i then st else sst (get s j).
Proof.
  intros H. unfold set_st. destruct (Nat.eqb_spec j i) as [->|N].
  - rewrite get_set_eq by exact H. reflexivity.
  - rewrite get_set_ne by exact N. reflexivity.
Qed.

Lemma nslots_set_st s i st : nslots (set_st s i st) = nslots s.
Proof. unfold set_st. apply nslots_set. Qed.

Lemma set_oob s i x : (nslots s <= i)%nat -> set s i x = s.
Proof.
  intros H. unfold set, nslots in *. destruct s as [sl f p c]. cbn [slots fidx pidx cap] in *. f_equal.
  revert i H; induction sl as [|a l IH]; intros i H; cbn [length] in *; [destruct i; reflexivity|].
  destruct i; [lia|]. cbn [upd]. f_equal. apply IH. lia.
Qed.

(* the status of slot j after a status-only update of slot i (any i) *)
Lemma sst_set_st_any s i st j :
  sst (get (set_st s i st) j) = if (Nat.eqb j i && (i <? nslots s)%nat)%bool then st else sst (get s j).
Proof.
  destruct (Nat.ltb_spec i (nslots s)) as [H|H].
  - rewrite sst_set_st by exact H. rewrite andb_true_r. reflexivity.
  - unfold set_st. rewrite set_oob by exact H. rewrite andb_false_r. reflexivity.
Qed.

(* FrameBox::clear_first_pdu touches the key only *)
Lemma op_drop_clear_status s i j : sst (get (op_drop_clear s i) j) = sst (get s j).
Proof.
  unfold op_drop_clear. destruct (Nat.ltb_spec i (nslots s)) as [H|H].
  - destruct (Nat.eq_dec j i) as [->|N]; [rewrite get_set_eq by exact H|rewrite get_set_ne by exact N]; reflexivity.
  - rewrite set_oob by exact H. reflexivity.
Qed.

Lemma op_drop_clear_nslots s i : nslots (op_drop_clear s i) = nslots s.
Proof. unfold op_drop_clear. apply nslots_set. Qed.

Lemma op_drop_created_noop s i : sst (get s i) <> SCreated -> op_drop_created s i = s.
Proof. intros H. unfold op_drop_created. apply N.eqb_neq in H. rewrite H. reflexivity. Qed.

Lemma op_drop_created_yes s i : sst (get s i) = SCreated ->
  op_drop_created s i = set_st (op_drop_clear s i) i SNone.
Proof. intros H. unfold op_drop_created. rewrite H. reflexivity. Qed.

(* status of slot j after "clear key of i, then store st into i" *)
Lemma sst_clear_set s i st j : (i < nslots s)%nat ->
  sst (get (set_st (op_drop_clear s i) i st) j) = if Nat.eqb j i then st else sst (get s j).
Proof.
  intros H. rewrite sst_set_st by (rewrite op_drop_clear_nslots; exact H).
  destruct (Nat.eqb j i); [reflexivity|apply op_drop_clear_status].
Qed.

Definition same_slots (s s' : pstate) : Prop := slots s' = slots s /\ cap s' = cap s.

Lemma get_same s s' j : same_slots s s' -> get s' j = get s j.
Proof. intros [A B]. unfold get. rewrite A, B. reflexivity. Qed.

(* ---------- the ownership invariant ---------- *)

Definition compat (h : hk) (st : N) : Prop :=
  match h with
  | HNone => st = SNone
  | HCreated => st = SCreated
  | HFut => st = SSendable \/ st = SSent \/ st = SRxDone
  | HReceived => st = SRxProcessing
  end.

Definition Own (s : pstate) (h : list hk) : Prop :=
  length h = nslots s /\ forall i, (i < nslots s)%nat -> compat (hget h i) (sst (get s i)).

Lemma hget_upd_eq h i x : (i < length h)%nat -> hget (upd i x h) i = x.
Proof. intros. unfold hget. apply nth_upd_eq. auto. Qed.
Lemma hget_upd_ne h i j x : j <> i -> hget (upd i x h) j = hget h j.
Proof. intros. unfold hget. apply nth_upd_ne. auto. Qed.

Lemma hk_eqb_eq a b : hk_eqb a b = true -> a = b.
Proof. destruct a, b; cbn; congruence. Qed.

(* generic preservation: statuses change only at slot i, handles only at i *)
Lemma own_update s h s' i st' hk' :
  Own s h -> nslots s' = nslots s -> (i < nslots s)%nat ->
  (forall j, j <> i -> sst (get s' j) = sst (get s j)) ->
  sst (get s' i) = st' -> compat hk' st' ->
  Own s' (upd i hk' h).
Proof.
  intros [L O] N Hi Hj Hs C. split; [rewrite upd_length, N; exact L|].
  intros j Lj. rewrite N in Lj. destruct (Nat.eq_dec j i) as [->|Ne].
  - rewrite hget_upd_eq by lia. rewrite Hs. exact C.
  - rewrite hget_upd_ne by exact Ne. rewrite Hj by exact Ne. apply O. exact Lj.
Qed.

Lemma own_same_status s h s' :
  Own s h -> nslots s' = nslots s -> (forall j, sst (get s' j) = sst (get s j)) -> Own s' h.
Proof.
  intros [L O] N Hj. split; [rewrite N; exact L|]. intros j Lj. rewrite Hj. apply O. lia.
Qed.

(* ---------- alloc ---------- *)

Lemma alloc_go_spec a : forall s s' r, (0 < nslots s)%nat -> alloc_go s a = (s', r) ->
  nslots s' = nslots s /\
  match r with
  | Some i => (i < nslots s)%nat /\ sst (get s i) = SNone /\ sst (get s' i) = SCreated /\
              forall j, j <> i -> sst (get s' j) = sst (get s j)
  | None => forall j, sst (get s' j) = sst (get s j)
  end.
Proof.
  induction a as [|a IH]; intros s s' r P H; cbn [alloc_go] in H.
  - inversion H; subst. auto.
  - set (i := N.to_nat (fidx s mod N.of_nat (nslots s))) in *.
    set (s1 := {| slots := slots s; fidx := (fidx s + 1) mod 256; pidx := pidx s; cap := cap s |}) in *.
    assert (S1 : same_slots s s1) by (split; reflexivity).
    assert (Hi : (i < nslots s)%nat).
    { subst i. assert (fidx s mod N.of_nat (nslots s) < N.of_nat (nslots s)) by (apply N.mod_lt; lia). lia. }
    destruct (cas s1 i SNone SCreated) as [s2|] eqn:C.
    + inversion H; subst s' r; clear H. apply cas_some in C as [C1 C2]. subst s2.
      split; [rewrite nslots_set, nslots_set_st; reflexivity|].
      rewrite (get_same s s1 i S1) in C1.
      repeat split; auto.
      * rewrite get_set_eq by (rewrite nslots_set_st; exact Hi). reflexivity.
      * intros j Nj. rewrite get_set_ne by exact Nj. unfold set_st. rewrite get_set_ne by exact Nj.
        apply f_equal. apply get_same. exact S1.
    + apply cas_none in C. rewrite (get_same s s1 i S1) in C.
      specialize (IH s1 s' r P H). destruct IH as [N R]. split; [exact N|].
      destruct r as [k|].
      * destruct R as (R1 & R2 & R3 & R4). rewrite (get_same s s1 k S1) in R2.
        repeat split; auto.
      * intros j. rewrite R. reflexivity.
Qed.

Lemma alloc_spec s s' r : (0 < nslots s)%nat -> alloc s = (s', r) ->
  nslots s' = nslots s /\
  match r with
  | Some i => (i < nslots s)%nat /\ sst (get s i) = SNone /\ sst (get s' i) = SCreated /\
              forall j, j <> i -> sst (get s' j) = sst (get s j)
  | None => forall j, sst (get s' j) = sst (get s j)
  end.
Proof. unfold alloc. apply alloc_go_spec. Qed.

(* a failed search has looked at every slot it probed *)
Lemma alloc_go_none a : forall s s', (0 < nslots s)%nat -> fidx s < 256 ->
  alloc_go s a = (s', None) ->
  forall q, (q < a)%nat ->
    sst (get s (N.to_nat (((fidx s + N.of_nat q) mod 256) mod N.of_nat (nslots s)))) <> SNone.
Proof.
  induction a as [|a IH]; intros s s' P F H q Hq; [lia|]. cbn [alloc_go] in H.
  set (i := N.to_nat (fidx s mod N.of_nat (nslots s))) in *.
  set (s1 := {| slots := slots s; fidx := (fidx s + 1) mod 256; pidx := pidx s; cap := cap s |}) in *.
  assert (S1 : same_slots s s1) by (split; reflexivity).
  destruct (cas s1 i SNone SCreated) as [s2|] eqn:C; [inversion H|].
  apply cas_none in C. rewrite (get_same s s1 i S1) in C.
  destruct q as [|q].
  - cbn [N.of_nat]. rewrite N.add_0_r. rewrite (N.mod_small (fidx s) 256) by exact F. exact C.
  - assert (F1 : fidx s1 < 256) by (subst s1; cbn; apply N.mod_lt; lia).
    specialize (IH s1 s' P F1 H q ltac:(lia)).
    rewrite (get_same s s1 _ S1) in IH.
    replace (nslots s1) with (nslots s) in IH by reflexivity.
    subst s1. cbn [fidx] in IH.
    rewrite N.add_mod_idemp_l in IH by lia.
    replace (fidx s + 1 + N.of_nat q) with (fidx s + N.of_nat (S q)) in IH by lia. exact IH.
Qed.

(* PduStorage::new: the slot count is a power of two (and at most 255) *)
Definition pow2s : list nat := [1; 2; 4; 8; 16; 32; 64; 128]%nat.

Definition cover_ok (n : nat) : bool :=
  forallb (fun f => forallb (fun t =>
     let q := ((t + N.of_nat n - f mod N.of_nat n) mod N.of_nat n) in
     (((f + q) mod 256) mod N.of_nat n =? t) && (q <? N.of_nat n))
     (map N.of_nat (seq 0 n))) (map N.of_nat (seq 0 256)).

Lemma cover_sweep : forallb cover_ok pow2s = true.
Proof. vm_compute. reflexivity. Qed.

Lemma cover n f t : In n pow2s -> f < 256 -> t < N.of_nat n ->
  exists q, (q < n)%nat /\ ((f + N.of_nat q) mod 256) mod N.of_nat n = t.
Proof.
  intros I F T. pose proof cover_sweep as S. rewrite forallb_forall in S. specialize (S n I).
  unfold cover_ok in S. rewrite forallb_forall in S.
  assert (If : In f (map N.of_nat (seq 0 256))).
  { apply in_map_iff. exists (N.to_nat f). split; [lia|]. apply in_seq. lia. }
  specialize (S f If). rewrite forallb_forall in S.
  assert (It : In t (map N.of_nat (seq 0 n))).
  { apply in_map_iff. exists (N.to_nat t). split; [lia|]. apply in_seq. lia. }
  specialize (S t It). cbv zeta in S. apply andb_true_iff in S as [S1 S2].
  exists (N.to_nat ((t + N.of_nat n - f mod N.of_nat n) mod N.of_nat n)).
  split; [lia|]. rewrite N2Nat.id. lia.
Qed.

Definition Wf (s : pstate) : Prop := In (nslots s) pow2s /\ fidx s < 256.

Lemma wf_pos s : Wf s -> (0 < nslots s)%nat.
Proof. intros [I _]. unfold pow2s in I. cbn in I. intuition lia. Qed.

Theorem alloc_fails_iff_full s : Wf s ->
  (snd (alloc s) = None <-> forall t, (t < nslots s)%nat -> sst (get s t) <> SNone).
Proof.
  intros W. pose proof (wf_pos s W) as P. destruct W as [I F].
  destruct (alloc s) as [s' r] eqn:E. cbn [snd]. split.
  - intros ->. intros t Ht.
    destruct (cover (nslots s) (fidx s) (N.of_nat t) I F ltac:(lia)) as (q & Hq & Eq).
    unfold alloc in E.
    pose proof (alloc_go_none _ _ _ P F E q ltac:(lia)) as N. rewrite Eq in N.
    rewrite Nat2N.id in N. exact N.
  - intros H. destruct r as [i|]; [|reflexivity]. exfalso.
    destruct (alloc_spec _ _ _ P E) as (_ & Hi & Hn & _). exact (H i Hi Hn).
Qed.

(* ---------- counting free slots ---------- *)

Definition is_free (s : pstate) (j : nat) : bool := sst (get s j) =? SNone.
Definition free (s : pstate) : nat := length (filter (is_free s) (seq 0 (nslots s))).

Lemma count_flip (f g : nat -> bool) n i : (i < n)%nat -> f i = true -> g i = false ->
  (forall j, j <> i -> g j = f j) ->
  (length (filter g (seq 0 n)) + 1 = length (filter f (seq 0 n)))%nat.
Proof.
  intros Hi Fi Gi Hj.
  replace n with (i + (1 + (n - i - 1)))%nat by lia.
  rewrite !seq_app, !filter_app, !app_length. cbn [seq filter Nat.add]. rewrite Fi, Gi. cbn [length].
  assert (A : filter g (seq 0 i) = filter f (seq 0 i)).
  { apply filter_ext_in. intros a Ha. apply in_seq in Ha. apply Hj. lia. }
  assert (B : filter g (seq (0 + i + 1) (n - i - 1)) = filter f (seq (0 + i + 1) (n - i - 1))).
  { apply filter_ext_in. intros a Ha. apply in_seq in Ha. apply Hj. lia. }
  cbn [Nat.add] in B. replace (S i) with (i + 1)%nat by lia. rewrite A, B. lia.
Qed.

Lemma free_zero_iff s : free s = 0%nat <-> forall t, (t < nslots s)%nat -> sst (get s t) <> SNone.
Proof.
  unfold free. split.
  - intros H t Ht E.
    assert (I : In t (filter (is_free s) (seq 0 (nslots s)))).
    { apply filter_In. split; [apply in_seq; lia|]. unfold is_free. rewrite E. reflexivity. }
    destruct (filter (is_free s) (seq 0 (nslots s))); [destruct I|discriminate].
  - intros H. destruct (filter (is_free s) (seq 0 (nslots s))) as [|t r] eqn:E; [reflexivity|].
    assert (I : In t (filter (is_free s) (seq 0 (nslots s)))) by (rewrite E; left; reflexivity).
    apply filter_In in I as [I1 I2]. apply in_seq in I1. unfold is_free in I2.
    apply N.eqb_eq in I2. exfalso. exact (H t ltac:(lia) I2).
Qed.

Lemma alloc_go_fidx a : forall s s' r, fidx s < 256 -> alloc_go s a = (s', r) -> fidx s' < 256.
Proof.
  induction a as [|a IH]; intros s s' r F H; cbn [alloc_go] in H.
  - inversion H; subst; exact F.
  - set (s1 := {| slots := slots s; fidx := (fidx s + 1) mod 256; pidx := pidx s; cap := cap s |}) in *.
    assert (F1 : fidx s1 < 256) by (subst s1; cbn; apply N.mod_lt; lia).
    destruct (cas s1 _ SNone SCreated) as [s2|] eqn:C.
    + inversion H; subst. apply cas_some in C as [_ ->]. exact F1.
    + eapply IH; eauto.
Qed.

Lemma alloc_free s s' r : Wf s -> alloc s = (s', r) ->
  Wf s' /\
  match r with
  | Some _ => (free s' + 1 = free s)%nat
  | None => free s = 0%nat /\ free s' = 0%nat
  end.
Proof.
  intros W E. pose proof (wf_pos s W) as P.
  destruct (alloc_spec _ _ _ P E) as (N & R).
  assert (W' : Wf s').
  { destruct W as [I F]. split; [rewrite N; exact I|]. unfold alloc in E. eapply alloc_go_fidx; eauto. }
  split; [exact W'|]. destruct r as [i|].
  - destruct R as (Hi & Hn & Hc & Hj). unfold free. rewrite N.
    apply count_flip with (i := i); auto.
    + unfold is_free. rewrite Hn. reflexivity.
    + unfold is_free. rewrite Hc. reflexivity.
    + intros j Nj. unfold is_free. rewrite Hj by exact Nj. reflexivity.
  - assert (Z : free s = 0%nat).
    { apply free_zero_iff. apply alloc_fails_iff_full; auto. rewrite E. reflexivity. }
    split; [exact Z|]. apply free_zero_iff. intros t Ht. rewrite R.
    apply (proj1 (free_zero_iff s) Z). rewrite <- N. exact Ht.
Qed.

Lemma alloc_many_spec k : forall s s' m, Wf s -> alloc_many s k = (s', m) ->
  m = Nat.min k (free s) /\ Wf s'.
Proof.
  induction k as [|k IH]; intros s s' m W H; cbn [alloc_many] in H.
  - inversion H; subst. split; [reflexivity|exact W].
  - destruct (alloc s) as [s1 r] eqn:E. destruct (alloc_many s1 k) as [s2 m2] eqn:E2.
    inversion H; subst s' m; clear H.
    destruct (alloc_free _ _ _ W E) as (W1 & R).
    destruct (IH _ _ _ W1 E2) as (-> & W2). split; [|exact W2].
    destruct r as [i|]; [lia|]. destruct R as [Z1 Z2]. rewrite Z1, Z2. lia.
Qed.

(* ---------- every client operation preserves ownership ---------- *)

Definition Good (s : pstate) (h : list hk) : Prop := Own s h /\ Wf s.

Lemma with_fr_status s i fr k j : sst (get (with_fr s i fr k) j) = sst (get s j).
Proof.
  unfold with_fr. destruct (Nat.ltb_spec i (nslots s)) as [H|H].
  - destruct (Nat.eq_dec j i) as [->|N]; [rewrite get_set_eq by exact H|rewrite get_set_ne by exact N]; reflexivity.
  - rewrite set_oob by exact H. reflexivity.
Qed.

Lemma with_fr_nslots s i fr k : nslots (with_fr s i fr k) = nslots s.
Proof. unfold with_fr. apply nslots_set. Qed.

Lemma wf_with_fr s i fr k : Wf s -> Wf (with_fr s i fr k).
Proof. intros [I F]. split; [rewrite with_fr_nslots; exact I|exact F]. Qed.

Lemma wf_pidx s p : Wf s -> Wf {| slots := slots s; fidx := fidx s; pidx := p; cap := cap s |}.
Proof. intros [I F]. split; assumption. Qed.

Lemma own_pidx s h p : Own s h ->
  Own {| slots := slots s; fidx := fidx s; pidx := p; cap := cap s |} h.
Proof. intros O. eapply own_same_status; eauto. Qed.

Lemma op_push_good s h i c d o : Good s h -> Good (fst (op_push s i c d o)) h.
Proof.
  intros [O W]. unfold op_push. destruct (push_pdu _ _ _ _ _) as [[fr r] p'].
  set (s1 := {| slots := slots s; fidx := fidx s; pidx := p'; cap := cap s |}).
  destruct r; cbn [fst]; split; try (apply own_pidx; exact O); try exact W;
    try (apply wf_with_fr, wf_pidx; exact W).
  eapply own_same_status; [apply own_pidx; exact O|apply with_fr_nslots|].
  intros j. rewrite with_fr_status. reflexivity.
Qed.

Lemma op_push_rest_good s h i c b : Good s h -> Good (fst (op_push_rest s i c b)) h.
Proof.
  intros [O W]. unfold op_push_rest. destruct (push_rest _ _ _ _) as [[fr r] p'].
  destruct r; cbn [fst]; split; try (apply own_pidx; exact O); try exact W;
    try (apply wf_with_fr, wf_pidx; exact W).
  eapply own_same_status; [apply own_pidx; exact O|apply with_fr_nslots|].
  intros j. rewrite with_fr_status. reflexivity.
Qed.

Lemma wf_set_st s i st : Wf s -> Wf (set_st s i st).
Proof. intros [I F]. split; [rewrite nslots_set_st; exact I|exact F]. Qed.

Ltac hk_case H := apply hk_eqb_eq in H.

Lemma own_compat s h i : Own s h -> (i < nslots s)%nat -> compat (hget h i) (sst (get s i)).
Proof. intros [_ O] H. apply O. exact H. Qed.

Lemma hget_some h i x : hget h i = x -> x <> HNone -> (i < length h)%nat.
Proof.
  intros E N. unfold hget in E. destruct (Nat.ltb_spec i (length h)); auto.
  rewrite nth_overflow in E by lia. congruence.
Qed.

Lemma op_mark_good s h i : Good s h -> hget h i = HCreated -> Good (op_mark s i) (upd i HFut h).
Proof.
  intros [O W] Hh. assert (Hi : (i < nslots s)%nat).
  { destruct O as [L _]. rewrite <- L. eapply hget_some; eauto. discriminate. }
  unfold op_mark.
  set (s0 := set s i _).
  assert (N0 : nslots s0 = nslots s) by apply nslots_set.
  assert (St0 : forall j, sst (get s0 j) = sst (get s j)).
  { intros j. subst s0. destruct (Nat.eq_dec j i) as [->|N];
      [rewrite get_set_eq by exact Hi|rewrite get_set_ne by exact N]; reflexivity. }
  assert (C : op_drop_created (set_st s0 i SSendable) i = set_st s0 i SSendable).
  { apply op_drop_created_noop. rewrite sst_set_st by (rewrite N0; exact Hi). rewrite Nat.eqb_refl. discriminate. }
  rewrite C. split.
  - eapply own_update with (st' := SSendable); eauto.
    + rewrite nslots_set_st. exact N0.
    + intros j Nj. rewrite sst_set_st by (rewrite N0; exact Hi).
      apply Nat.eqb_neq in Nj. rewrite Nj. apply St0.
    + rewrite sst_set_st by (rewrite N0; exact Hi). rewrite Nat.eqb_refl. reflexivity.
    + cbn. auto.
  - apply wf_set_st. destruct W as [I F]. split; [rewrite N0; exact I|exact F].
Qed.

Lemma wf_clear s i : Wf s -> Wf (op_drop_clear s i).
Proof. intros [I F]. split; [rewrite op_drop_clear_nslots; exact I|exact F]. Qed.

Lemma op_drop_created_good s h i : Good s h -> hget h i = HCreated ->
  Good (op_drop_created s i) (upd i HNone h).
Proof.
  intros [O W] Hh. assert (Hi : (i < nslots s)%nat).
  { destruct O as [L _]. rewrite <- L. eapply hget_some; eauto. discriminate. }
  pose proof (own_compat _ _ _ O Hi) as C. rewrite Hh in C. cbn in C.
  rewrite op_drop_created_yes by exact C.
  split; [|apply wf_set_st, wf_clear; exact W].
  eapply own_update with (st' := SNone); eauto.
  - rewrite nslots_set_st. apply op_drop_clear_nslots.
  - intros j Nj. rewrite sst_clear_set by exact Hi. apply Nat.eqb_neq in Nj. rewrite Nj. reflexivity.
  - rewrite sst_clear_set by exact Hi. rewrite Nat.eqb_refl. reflexivity.
  - reflexivity.
Qed.

Lemma op_drop_fut_good s h i : Good s h -> hget h i = HFut -> Good (op_drop_fut s i) (upd i HNone h).
Proof.
  intros [O W] Hh. assert (Hi : (i < nslots s)%nat).
  { destruct O as [L _]. rewrite <- L. eapply hget_some; eauto. discriminate. }
  unfold op_drop_fut. split; [|apply wf_set_st, wf_clear; exact W].
  eapply own_update with (st' := SNone); eauto.
  - rewrite nslots_set_st. apply op_drop_clear_nslots.
  - intros j Nj. rewrite sst_clear_set by exact Hi. apply Nat.eqb_neq in Nj. rewrite Nj. reflexivity.
  - rewrite sst_clear_set by exact Hi. rewrite Nat.eqb_refl. reflexivity.
  - reflexivity.
Qed.

Lemma op_drop_received_good s h i : Good s h -> hget h i = HReceived ->
  exists s', op_drop_received s i = Ok s' /\ Good s' (upd i HNone h).
Proof.
  intros [O W] Hh. assert (Hi : (i < nslots s)%nat).
  { destruct O as [L _]. rewrite <- L. eapply hget_some; eauto. discriminate. }
  pose proof (own_compat _ _ _ O Hi) as C. rewrite Hh in C. cbn in C.
  unfold op_drop_received, cas. rewrite op_drop_clear_status, C, N.eqb_refl.
  eexists. split; [reflexivity|].
  split; [|apply wf_set_st, wf_clear; exact W].
  eapply own_update with (st' := SNone); eauto.
  - rewrite nslots_set_st. apply op_drop_clear_nslots.
  - intros j Nj. rewrite sst_clear_set by exact Hi. apply Nat.eqb_neq in Nj. rewrite Nj. reflexivity.
  - rewrite sst_clear_set by exact Hi. rewrite Nat.eqb_refl. reflexivity.
  - reflexivity.
Qed.

(* TX: only Sendable -> Sending -> Sent | Sendable, all inside HFut *)
Lemma tx_scan_spec n : forall s i s' r, tx_scan s i n = (s', r) ->
  match r with
  | Some k => sst (get s k) = SSendable /\ s' = set_st s k SSending
  | None => s' = s
  end.
Proof.
  induction n as [|n IH]; intros s i s' r H; cbn [tx_scan] in H.
  - inversion H; subst. reflexivity.
  - destruct (cas s i SSendable SSending) as [s2|] eqn:C.
    + inversion H; subst. apply cas_some in C. exact C.
    + apply IH in H. exact H.
Qed.

Lemma tx_send_good s h oc : Good s h ->
  Good (let '(s1, r) := op_tx_claim s in match r with Some i => op_tx_done s1 i oc | None => s1 end) h.
Proof.
  intros [O W]. unfold op_tx_claim. destruct (tx_scan s 0 (nslots s)) as [s1 r] eqn:E.
  apply tx_scan_spec in E. destruct r as [k|]; [|subst; split; assumption].
  destruct E as [E1 ->]. unfold op_tx_done.
  destruct (Nat.ltb_spec k (nslots s)) as [Hk|Hk].
  - assert (Hh : hget h k = HFut).
    { pose proof (own_compat _ _ _ O Hk) as C. rewrite E1 in C.
      destruct (hget h k); cbn in C; try discriminate; auto. }
    set (st' := if oc =? 0 then SSent else SSendable).
    assert (G : Good (set_st (set_st s k SSending) k st') h).
    { split; [|apply wf_set_st, wf_set_st; exact W].
      replace h with (upd k HFut h) by (unfold hget in Hh; rewrite <- Hh; apply upd_same; destruct O as [L _]; lia).
      eapply own_update with (st' := st'); eauto.
      - rewrite !nslots_set_st. reflexivity.
      - intros j Nj. rewrite !sst_set_st by (rewrite ?nslots_set_st; exact Hk).
        apply Nat.eqb_neq in Nj. rewrite Nj. reflexivity.
      - rewrite sst_set_st by (rewrite nslots_set_st; exact Hk). rewrite Nat.eqb_refl. reflexivity.
      - subst st'. destruct (oc =? 0); cbn; auto. }
    subst st'. destruct (oc =? 0); exact G.
  - exfalso. unfold get in E1. rewrite nth_overflow in E1 by (unfold nslots in Hk; lia).
    cbn in E1. discriminate.
Qed.

Lemma own_wf_pstate_irrelevant : True. Proof. exact I. Qed.

(* RX: uses the C05 lemmas; needs the buffer-length well-formedness *)
Lemma op_rx_good s h bytes : wf_pstate s -> Good s h -> Good (fst (op_rx s bytes)) h.
Proof.
  intros Wp [O W]. destruct (op_rx s bytes) as [s' r] eqn:E. cbn [fst].
  destruct r.
  - assert (s' = s) by (eapply rx_reject_pure; eauto; discriminate). subst. split; assumption.
  - destruct (rx_accept_local _ _ _ Wp E) as (k & i & Hk & Hst & _ & _ & _ & Hdone & _ & _ & _ & Hoth & Hn & Hf & _).
    assert (Hh : hget h k = HFut).
    { pose proof (own_compat _ _ _ O Hk) as C. rewrite Hst in C.
      destruct (hget h k); cbn in C; try discriminate; auto. }
    split.
    + replace h with (upd k HFut h) by (unfold hget in Hh; rewrite <- Hh; apply upd_same; destruct O as [L _]; lia).
      eapply own_update with (st' := SRxDone); eauto.
      * intros j Nj. rewrite Hoth by exact Nj. reflexivity.
      * cbn. auto.
    + destruct W as [I F]. split; [rewrite Hn; exact I|rewrite Hf; exact F].
  - assert (s' = s) by (eapply rx_reject_pure; eauto; discriminate). subst. split; assumption.
Qed.

Lemma op_poll_good s h i ex rt : Good s h -> hget h i = HFut ->
  let '(s', r, _) := op_poll s i ex rt in
  Good s' (match r with PollReady => upd i HReceived h | PollPending => h | PollErr _ => upd i HNone h end)
  /\ (forall e, r = PollErr e -> e = ETimeout).
Proof.
  intros [O W] Hh. assert (Hi : (i < nslots s)%nat).
  { destruct O as [L _]. rewrite <- L. eapply hget_some; eauto. discriminate. }
  pose proof (own_compat _ _ _ O Hi) as C. rewrite Hh in C. cbn in C.
  assert (Upd : forall st' hk', compat hk' st' -> Good (set_st s i st') (upd i hk' h)).
  { intros st' hk' Cc. split; [|apply wf_set_st; exact W].
    eapply own_update with (st' := st'); eauto.
    - apply nslots_set_st.
    - intros j Nj. rewrite sst_set_st by exact Hi. apply Nat.eqb_neq in Nj. rewrite Nj. reflexivity.
    - rewrite sst_set_st by exact Hi. rewrite Nat.eqb_refl. reflexivity. }
  assert (Same : forall st', compat HFut st' -> Good (set_st s i st') h).
  { intros st' Cc. replace h with (upd i HFut h) by (unfold hget in Hh; rewrite <- Hh; apply upd_same; destruct O as [L _]; lia).
    apply Upd. exact Cc. }
  unfold op_poll, cas.
  destruct C as [C | [C | C]]; rewrite C; cbn [N.eqb Pos.eqb SSendable SSent SRxDone SRxProcessing].
  - (* Sendable *)
    destruct ex; [destruct rt as [|rt]|]; cbn.
    + split; [apply (op_drop_fut_good s h i (conj O W) Hh)|]. intros e E; inversion E; reflexivity.
    + split; [apply Same; cbn; auto|]. intros e E; inversion E.
    + split; [split; assumption|]. intros e E; inversion E.
  - (* Sent *)
    destruct ex; [destruct rt as [|rt]|]; cbn.
    + split; [apply (op_drop_fut_good s h i (conj O W) Hh)|]. intros e E; inversion E; reflexivity.
    + split; [apply Same; cbn; auto|]. intros e E; inversion E.
    + split; [split; assumption|]. intros e E; inversion E.
  - (* RxDone *)
    cbn. split; [apply Upd; reflexivity|]. intros e E; inversion E.
Qed.

(* ---------- buffer lengths never change ---------- *)

Lemma wfp_set s i x : wf_pstate s -> length (fbuf (sfr x)) = (cap s - eth_overhead)%nat ->
  wf_pstate (set s i x).
Proof.
  intros W L j Hj. rewrite nslots_set in Hj. rewrite cap_set.
  destruct (Nat.eq_dec j i) as [->|N]; [rewrite get_set_eq by exact Hj; exact L|].
  rewrite get_set_ne by exact N. apply W. exact Hj.
Qed.

Lemma wfp_set_st s i st : wf_pstate s -> wf_pstate (set_st s i st).
Proof.
  intros W. destruct (Nat.ltb_spec i (nslots s)) as [H|H].
  - unfold set_st. apply wfp_set; auto. cbn. apply W. exact H.
  - unfold set_st. rewrite set_oob by exact H. exact W.
Qed.

Lemma wfp_same s s' : same_slots s s' -> wf_pstate s -> wf_pstate s'.
Proof.
  intros [A B] W j Hj. unfold nslots in Hj. rewrite A in Hj.
  unfold get. rewrite A, B. apply W. exact Hj.
Qed.

Lemma write_pdu_len st c idx d len :
  length (fbuf (fst (fst (write_pdu st c idx d len)))) = length (fbuf st).
Proof.
  unfold write_pdu, patch_more. destruct (flast st); cbn [fst fbuf]; rewrite ?splice_length; reflexivity.
Qed.

Lemma push_pdu_len st p c d o : length (fbuf (fst (fst (push_pdu st p c d o)))) = length (fbuf st).
Proof.
  unfold push_pdu. destruct (_ <? _)%nat; [reflexivity|].
  pose proof (write_pdu_len st c p d (match o with Some l => Nat.max l (length d) | None => length d end)) as H.
  destruct (write_pdu _ _ _ _ _) as [[st' iif] a]. exact H.
Qed.

Lemma push_rest_len st p c b : length (fbuf (fst (fst (push_rest st p c b)))) = length (fbuf st).
Proof.
  unfold push_rest. destruct b; [reflexivity|]. destruct (_ =? 0)%nat; [reflexivity|].
  match goal with |- context [write_pdu ?a ?b ?c ?d ?e] => pose proof (write_pdu_len a b c d e) as H;
    destruct (write_pdu a b c d e) as [[st' iif] a'] end. exact H.
Qed.

Lemma wfp_with_fr s i fr k : wf_pstate s -> (i < nslots s)%nat ->
  length (fbuf fr) = length (fbuf (sfr (get s i))) -> wf_pstate (with_fr s i fr k).
Proof.
  intros W Hi L. unfold with_fr. apply wfp_set; auto. cbn [sfr]. rewrite L. apply W. exact Hi.
Qed.

Lemma op_push_wfp s i c d o : wf_pstate s -> wf_pstate (fst (op_push s i c d o)).
Proof.
  intros W. unfold op_push. pose proof (push_pdu_len (sfr (get s i)) (pidx s) c d o) as L.
  destruct (push_pdu _ _ _ _ _) as [[fr r] p']. cbn [fst] in L.
  set (s1 := {| slots := slots s; fidx := fidx s; pidx := p'; cap := cap s |}).
  assert (W1 : wf_pstate s1) by (eapply wfp_same; [|exact W]; split; reflexivity).
  destruct r; cbn [fst]; auto.
  destruct (Nat.ltb_spec i (nslots s)) as [H|H].
  - apply wfp_with_fr; auto.
  - unfold with_fr. rewrite set_oob by exact H. exact W1.
Qed.

Lemma op_push_rest_wfp s i c b : wf_pstate s -> wf_pstate (fst (op_push_rest s i c b)).
Proof.
  intros W. unfold op_push_rest. pose proof (push_rest_len (sfr (get s i)) (pidx s) c b) as L.
  destruct (push_rest _ _ _ _) as [[fr r] p']. cbn [fst] in L.
  set (s1 := {| slots := slots s; fidx := fidx s; pidx := p'; cap := cap s |}).
  assert (W1 : wf_pstate s1) by (eapply wfp_same; [|exact W]; split; reflexivity).
  destruct r; cbn [fst]; auto.
  destruct (Nat.ltb_spec i (nslots s)) as [H|H].
  - apply wfp_with_fr; auto.
  - unfold with_fr. rewrite set_oob by exact H. exact W1.
Qed.

Lemma alloc_go_wfp a : forall s s' r, wf_pstate s -> alloc_go s a = (s', r) -> wf_pstate s'.
Proof.
  induction a as [|a IH]; intros s s' r W H; cbn [alloc_go] in H.
  - inversion H; subst; exact W.
  - set (s1 := {| slots := slots s; fidx := (fidx s + 1) mod 256; pidx := pidx s; cap := cap s |}) in *.
    assert (W1 : wf_pstate s1) by (eapply wfp_same; [|exact W]; split; reflexivity).
    destruct (cas s1 _ SNone SCreated) as [s2|] eqn:C.
    + inversion H; subst. apply cas_some in C as [_ ->].
      apply wfp_set; [apply wfp_set_st; exact W1|]. cbn. apply zeros_length.
    + eapply IH; eauto.
Qed.

Lemma op_rx_wfp s bytes : wf_pstate s -> wf_pstate (fst (op_rx s bytes)).
Proof.
  intros W. destruct (op_rx s bytes) as [s' r] eqn:E. cbn [fst]. destruct r.
  - assert (s' = s) by (eapply rx_reject_pure; eauto; discriminate). subst; exact W.
  - destruct (rx_accept_local _ _ _ W E) as (k & i & Hk & _ & _ & _ & _ & _ & _ & Hb & _ & Hoth & Hn & _).
    intros j Hj. rewrite Hn in Hj.
    assert (Hc : cap s' = cap s).
    { clear - E. unfold op_rx in E. destruct (rx_parse s bytes) as [?|[k i]]; [inversion E; reflexivity|].
      destruct (_ <? _)%nat; [inversion E; reflexivity|].
      destruct (cas s k SSent SRxBusy) as [s1|] eqn:C; [|inversion E; reflexivity].
      apply cas_some in C as [_ ->].
      destruct (_ <? _)%nat; [inversion E; reflexivity|].
      match type of E with context [cas ?s2 k SRxBusy SRxDone] => destruct (cas s2 k SRxBusy SRxDone) as [s3|] eqn:C3 end;
        inversion E; subst; try reflexivity.
      apply cas_some in C3 as [_ ->]. reflexivity. }
    rewrite Hc. destruct (Nat.eq_dec j k) as [->|N].
    + rewrite Hb, splice_length. apply W. exact Hk.
    + rewrite Hoth by exact N. apply W. exact Hj.
  - assert (s' = s) by (eapply rx_reject_pure; eauto; discriminate). subst; exact W.
Qed.

Lemma tx_send_wfp s oc : wf_pstate s ->
  wf_pstate (let '(s1, r) := op_tx_claim s in match r with Some i => op_tx_done s1 i oc | None => s1 end).
Proof.
  intros W. unfold op_tx_claim. destruct (tx_scan s 0 (nslots s)) as [s1 r] eqn:E.
  apply tx_scan_spec in E. destruct r as [k|]; [|subst; exact W]. destruct E as [_ ->].
  unfold op_tx_done. destruct (oc =? 0); apply wfp_set_st, wfp_set_st; exact W.
Qed.

Lemma op_drop_clear_wfp s i : wf_pstate s -> wf_pstate (op_drop_clear s i).
Proof.
  intros W. unfold op_drop_clear. destruct (Nat.ltb_spec i (nslots s)) as [H|H].
  - apply wfp_set; auto. cbn. apply W. exact H.
  - rewrite set_oob by exact H. exact W.
Qed.

Lemma op_poll_wfp s i ex rt : wf_pstate s -> wf_pstate (fst (fst (op_poll s i ex rt))).
Proof.
  intros W. unfold op_poll, cas. destruct (_ =? SRxDone); cbn [fst]; [apply wfp_set_st; exact W|].
  destruct ex; [destruct rt|]; cbn [fst]; try apply wfp_set_st; try apply op_drop_clear_wfp; exact W.
Qed.

Lemma op_drop_received_wfp s i s' : wf_pstate s -> op_drop_received s i = Ok s' -> wf_pstate s'.
Proof.
  intros W H. unfold op_drop_received, cas in H. destruct (_ =? SRxProcessing); [|discriminate].
  inversion H; subst. apply wfp_set_st, op_drop_clear_wfp. exact W.
Qed.

(* ---------- every reachable client state is good ---------- *)

Definition Inv3 (sh : pstate * list hk) : Prop := Good (fst sh) (snd sh) /\ wf_pstate (fst sh).

Lemma cstep_inv sh o sh' : Inv3 sh -> cstep sh o = Some sh' -> Inv3 sh'.
Proof.
  destruct sh as [s h]. intros [[O W] Wp] H. cbn [fst snd] in *. unfold cstep in H.
  destruct o.
  - (* alloc *)
    destruct (alloc s) as [s' r] eqn:E. inversion H; subst sh'; clear H. cbn [fst snd].
    pose proof (wf_pos s W) as P.
    destruct (alloc_spec _ _ _ P E) as (N & R). destruct (alloc_free _ _ _ W E) as (W' & _).
    split; [split; [|exact W']|unfold alloc in E; eapply alloc_go_wfp; eauto].
    destruct r as [i|].
    + destruct R as (Hi & Hn & Hc & Hj). eapply own_update with (st' := SCreated); eauto. reflexivity.
    + eapply own_same_status; eauto.
  - destruct (hk_eqb (hget h i) HCreated) eqn:E; [|discriminate]. inversion H; subst. cbn [fst snd].
    split; [apply op_push_good; split; assumption|apply op_push_wfp; exact Wp].
  - destruct (hk_eqb (hget h i) HCreated) eqn:E; [|discriminate]. inversion H; subst. cbn [fst snd].
    split; [apply op_push_rest_good; split; assumption|apply op_push_rest_wfp; exact Wp].
  - destruct (hk_eqb (hget h i) HCreated) eqn:E; [|discriminate]. hk_case E. inversion H; subst. cbn [fst snd].
    split; [apply op_mark_good; [split; assumption|exact E]|].
    unfold op_mark.
    assert (W0 : wf_pstate (set s i {| sst := sst (get s i); skey := skey (get s i); sfr := sfr (get s i);
                                       shdr := ecat_header (fused (sfr (get s i))) |})).
    { destruct (Nat.ltb_spec i (nslots s)) as [Hi|Hi]; [apply wfp_set; auto; cbn; apply Wp; exact Hi|].
      rewrite set_oob by exact Hi. exact Wp. }
    unfold op_drop_created. destruct (_ =? SCreated); [apply wfp_set_st, op_drop_clear_wfp|]; apply wfp_set_st; exact W0.
  - destruct (hk_eqb (hget h i) HCreated) eqn:E; [|discriminate]. hk_case E. inversion H; subst. cbn [fst snd].
    split; [apply op_drop_created_good; [split; assumption|exact E]|].
    unfold op_drop_created. destruct (_ =? SCreated); [apply wfp_set_st, op_drop_clear_wfp|]; exact Wp.
  - (* tx *)
    pose proof (tx_send_good s h outcome (conj O W)) as G. pose proof (tx_send_wfp s outcome Wp) as Wq.
    destruct (op_tx_claim s) as [s1 r]. inversion H; subst. cbn [fst snd]. split; assumption.
  - inversion H; subst. cbn [fst snd].
    split; [apply op_rx_good; [exact Wp|split; assumption]|apply op_rx_wfp; exact Wp].
  - destruct (hk_eqb (hget h i) HFut) eqn:E; [|discriminate]. hk_case E.
    pose proof (op_poll_good s h i expired retries (conj O W) E) as G.
    pose proof (op_poll_wfp s i expired retries Wp) as Wq.
    destruct (op_poll s i expired retries) as [[s' r] rt']. destruct G as [G _].
    inversion H; subst. cbn [fst snd] in *. split; assumption.
  - destruct (hk_eqb (hget h i) HFut) eqn:E; [|discriminate]. hk_case E. inversion H; subst. cbn [fst snd].
    split; [apply op_drop_fut_good; [split; assumption|exact E]|apply wfp_set_st, op_drop_clear_wfp; exact Wp].
  - destruct (hk_eqb (hget h i) HReceived) eqn:E; [|discriminate]. hk_case E.
    destruct (op_drop_received_good s h i (conj O W) E) as (s' & Es & G). rewrite Es in H.
    inversion H; subst. cbn [fst snd]. split; [exact G|eapply op_drop_received_wfp; eauto].
Qed.

Lemma crun_inv ops : forall sh sh', Inv3 sh -> crun sh ops = Some sh' -> Inv3 sh'.
Proof.
  induction ops as [|o r IH]; intros sh sh' I H; cbn [crun] in H.
  - inversion H; subst; exact I.
  - destruct (cstep sh o) as [sh1|] eqn:E; [|discriminate]. eapply IH; [eapply cstep_inv; eauto|exact H].
Qed.

Lemma inv_init n cap : In n pow2s -> Inv3 (pinit n cap, repeat HNone n).
Proof.
  intros I. unfold Inv3, Good, Own, Wf, wf_pstate. cbn [fst snd].
  assert (Ns : nslots (pinit n cap) = n) by (unfold nslots, pinit; cbn; apply repeat_length).
  assert (G : forall i, (i < n)%nat -> get (pinit n cap) i = slot0 cap).
  { intros i Hi. unfold get, pinit. cbn. apply nth_repeat. }
  rewrite Ns. split; [split; [split|split]|].
  - apply repeat_length.
  - intros i Hi. rewrite G by exact Hi. unfold hget. rewrite nth_repeat. reflexivity.
  - exact I.
  - cbn. lia.
  - intros i Hi. rewrite G by exact Hi. cbn. apply zeros_length.
Qed.

(* ---------- C03: capacity is never lost ---------- *)

Lemma drop_handle_inv sh i : Inv3 sh ->
  Inv3 (drop_handle sh i) /\
  (forall j, hget (snd sh) j = HNone -> hget (snd (drop_handle sh i)) j = HNone) /\
  ((i < length (snd sh))%nat -> hget (snd (drop_handle sh i)) i = HNone) /\
  length (snd (drop_handle sh i)) = length (snd sh).
Proof.
  destruct sh as [s h]. intros I. unfold drop_handle. cbn [snd].
  assert (Stable : forall j, hget h j = HNone -> hget (upd i HNone h) j = HNone).
  { intros j Hj. destruct (Nat.eq_dec j i) as [->|N].
    - destruct (Nat.ltb_spec i (length h)); [apply hget_upd_eq; auto|].
      unfold hget. rewrite nth_overflow; [reflexivity|rewrite upd_length; lia].
    - rewrite hget_upd_ne by exact N. exact Hj. }
  destruct (hget h i) eqn:E.
  - split; [exact I|]. repeat split; auto.
  - assert (C : cstep (s, h) (CDropCreated i) = Some (op_drop_created s i, upd i HNone h))
      by (cbn; rewrite E; reflexivity).
    split; [eapply cstep_inv; eauto|]. cbn [snd]. repeat split; auto.
    + intros Hi. apply hget_upd_eq. exact Hi.
    + apply upd_length.
  - assert (C : cstep (s, h) (CDropFut i) = Some (op_drop_fut s i, upd i HNone h))
      by (cbn; rewrite E; reflexivity).
    split; [eapply cstep_inv; eauto|]. cbn [snd]. repeat split; auto.
    + intros Hi. apply hget_upd_eq. exact Hi.
    + apply upd_length.
  - destruct I as [G Wp]. cbn [fst snd] in *.
    destruct (op_drop_received_good s h i G E) as (s' & Es & G'). rewrite Es.
    assert (C : cstep (s, h) (CDropReceived i) = Some (s', upd i HNone h))
      by (cbn; rewrite E, Es; reflexivity).
    split; [eapply cstep_inv; [|exact C]; split; cbn [fst snd]; assumption|]. cbn [snd]. repeat split; auto.
    + intros Hi. apply hget_upd_eq. exact Hi.
    + apply upd_length.
Qed.

Lemma drop_fold l : forall sh, Inv3 sh -> (forall i, In i l -> (i < length (snd sh))%nat) ->
  let sh' := fold_left drop_handle l sh in
  Inv3 sh' /\ length (snd sh') = length (snd sh) /\
  (forall j, hget (snd sh) j = HNone -> hget (snd sh') j = HNone) /\
  (forall i, In i l -> hget (snd sh') i = HNone).
Proof.
  induction l as [|a l IH]; intros sh I B; cbn [fold_left].
  - split; [exact I|]. split; [reflexivity|]. split; [auto|]. intros i [].
  - destruct (drop_handle_inv sh a I) as (I1 & S1 & N1 & L1).
    specialize (IH (drop_handle sh a) I1 ltac:(intros i Hi; rewrite L1; apply B; right; exact Hi)).
    cbv zeta in IH. destruct IH as (I2 & L2 & S2 & N2).
    split; [exact I2|]. split; [lia|]. split; [auto|].
    intros i [-> | Hi]; [|apply N2; exact Hi].
    apply S2. apply N1. apply B. left. reflexivity.
Qed.

Lemma all_none_free s h : Own s h -> (forall i, (i < nslots s)%nat -> hget h i = HNone) ->
  free s = nslots s.
Proof.
  intros O A. unfold free.
  assert (E : filter (is_free s) (seq 0 (nslots s)) = seq 0 (nslots s)).
  { rewrite <- (filter_ext_in (fun _ => true)).
    - clear. induction (seq 0 (nslots s)); cbn; [reflexivity|]. f_equal; assumption.
    - intros j Hj. apply in_seq in Hj. unfold is_free.
      assert (Hjl : (j < nslots s)%nat) by lia.
      pose proof (own_compat _ _ _ O Hjl) as C.
      rewrite A in C by lia. cbn in C. rewrite C. reflexivity. }
  rewrite E. apply seq_length.
Qed.

(* After ANY history the client was entitled to issue, once every handle has been dropped the
   full number of frames can be allocated again -- and not one more. *)
Theorem capacity_restored n cap ops s h :
  In n pow2s -> crun (pinit n cap, repeat HNone n) ops = Some (s, h) ->
  let '(s1, h1) := drop_all (s, h) in
  snd (alloc_many s1 n) = n /\ snd (alloc_many s1 (S n)) = n.
Proof.
  intros I R. pose proof (crun_inv ops _ _ (inv_init n cap I) R) as Inv.
  unfold drop_all. cbn [snd].
  destruct (drop_fold (seq 0 (length h)) (s, h) Inv
              ltac:(intros i Hi; apply in_seq in Hi; cbn [snd]; lia)) as (I2 & L2 & _ & N2).
  destruct (fold_left drop_handle (seq 0 (length h)) (s, h)) as [s1 h1]. cbn [fst snd] in *.
  destruct I2 as [[O W] Wp]. cbn [fst snd] in *.
  assert (Hn : nslots s1 = n).
  { destruct Inv as [[[Ls _] _] _]. cbn [fst snd] in Ls. destruct O as [L1 _].
    (* the slot count never changes: read it off the handle list lengths *)
    assert (length h = n).
    { clear - R I. revert R. generalize (pinit n cap). intros p R.
      assert (G : forall ops sh sh', crun sh ops = Some sh' -> length (snd sh') = length (snd sh)).
      { induction ops0 as [|o r IH]; intros sh sh' H; cbn [crun] in H; [inversion H; reflexivity|].
        destruct (cstep sh o) as [sh1|] eqn:E; [|discriminate]. rewrite (IH _ _ H).
        destruct sh as [s0 h0]. unfold cstep in E. destruct o;
          repeat match type of E with
                 | context [let '(_, _) := ?x in _] => destruct x
                 | context [if ?c then _ else _] => destruct c
                 | context [match ?x with _ => _ end] => destruct x
                 end; inversion E; subst; cbn [snd]; rewrite ?upd_length; reflexivity. }
      pose proof (G _ _ _ R) as Gl. cbn [snd] in Gl. rewrite Gl. apply repeat_length. }
    lia. }
  assert (F : free s1 = n).
  { rewrite <- Hn. eapply all_none_free; eauto. intros i Hi. apply N2. apply in_seq.
    destruct O as [L1 _]. lia. }
  split.
  - destruct (alloc_many s1 n) as [s2 m] eqn:E. destruct (alloc_many_spec _ _ _ _ W E) as [-> _].
    cbn [snd]. rewrite F. lia.
  - destruct (alloc_many s1 (S n)) as [s2 m] eqn:E. destruct (alloc_many_spec _ _ _ _ W E) as [-> _].
    cbn [snd]. rewrite F. lia.
Qed.

(* allocation fails only when every slot is held by a live handle *)
Theorem alloc_fails_iff_all_held n cap ops s h :
  In n pow2s -> crun (pinit n cap, repeat HNone n) ops = Some (s, h) ->
  (snd (alloc s) = None <-> forall i, (i < nslots s)%nat -> hget h i <> HNone).
Proof.
  intros I R. pose proof (crun_inv ops _ _ (inv_init n cap I) R) as [[O W] _]. cbn [fst snd] in *.
  rewrite (alloc_fails_iff_full s W). split; intros H i Hi.
  - intros E. pose proof (own_compat _ _ _ O Hi) as C. rewrite E in C. cbn in C. exact (H i Hi C).
  - intros E. pose proof (own_compat _ _ _ O Hi) as C. specialize (H i Hi).
    destruct (hget h i); cbn in C; try congruence; rewrite E in C; try discriminate.
    destruct C as [C|[C|C]]; discriminate.
Qed.

(* a claimed frame that was never marked sendable is released when dropped *)
Theorem created_drop_releases n cap ops s h i :
  In n pow2s -> crun (pinit n cap, repeat HNone n) ops = Some (s, h) -> hget h i = HCreated ->
  sst (get (op_drop_created s i) i) = SNone.
Proof.
  intros I R E. pose proof (crun_inv ops _ _ (inv_init n cap I) R) as [[O W] _]. cbn [fst snd] in *.
  assert (Hi : (i < nslots s)%nat).
  { destruct O as [L _]. rewrite <- L. eapply hget_some; eauto. discriminate. }
  pose proof (own_compat _ _ _ O Hi) as C. rewrite E in C. cbn in C.
  rewrite op_drop_created_yes by exact C. rewrite sst_clear_set by exact Hi.
  rewrite Nat.eqb_refl. reflexivity.
Qed.
