(* Operation histories over the slot model: the op alphabet, the observation encoding compared
   with the implementation, and the runner used by the correspondence check. *)
From EC Require Import Base.Prelude Base.Bytes Pdu.Frame Pdu.Slots Pdu.View.
Local Open Scope N_scope.

(* ---------- histories for the correspondence check ---------- *)
Inductive op :=
| OAlloc
| OPush (i : nat) (c : command) (d : list N) (o : option nat)
| OPushRest (i : nat) (c : command) (b : list N)
| OMark (i : nat)
| ODropCreated (i : nat)
| OTxClaim
| OTxDone (i : nat) (outcome : N)
| ORx (bytes : list N)
| OPoll (i : nat) (expired : bool) (retries : nat)
| ODropFut (i : nat)
| ODropReceived (i : nat)
| OReset
| ORxBegin (bytes : list N)
| ORxCopy (k : nat) (i : list N)
| ORxEnd (k : nat)
| ODropRelease (i : nat)
| ODropClear (i : nat)
| OPollBegin (i : nat)
| OPollEnd (i : nat) (was : N) (expired : bool) (retries : nat)
(* reading a response *)
| OTake (i : nat) (code idx : N)            (* ReceivedFrame::first_pdu: view, then the frame is dropped *)
| OIter (i : nat)                           (* into_pdu_iter: every datagram, then the frame is dropped *)
| OViewRead (i : nat) (start len : nat).    (* deref of a view into slot i's memory, as it is now *)

Definition err_code (e : perror) : list Z :=
  match e with
  | EEthernet => [10] | EWireShort => [11] | EWireInvalid => [12] | EReceiveFrame => [13]
  | EInternal => [14] | EDecode => [15] | EInvalidIndex k => [16; Z.of_N k]
  | EInvalidFrameState => [17] | ESwapState => [18] | ETimeout => [19] | ETooLong => [20]
  end%Z.

(* apply one op; the observation is a list of numbers *)
Definition apply_op (s : pstate) (o : op) : pstate * list Z :=
  match o with
  | OAlloc => let '(s', r) := alloc s in
              (s', match r with Some i => [1; Z.of_nat i] | None => [0; 18] end%Z)
  | OPush i c d ov => let '(s', r) := op_push s i c d ov in (s', obs_result r)
  | OPushRest i c b => let '(s', r) := op_push_rest s i c b in (s', obs_result r)
  | OMark i => (op_mark s i, [])
  | ODropCreated i => (op_drop_created s i, [])
  | OTxClaim => let '(s', r) := op_tx_claim s in
                (s', match r with
                     | Some i => [1; Z.of_nat i; Z.of_nat (length (frame_bytes s' i))]
                     | None => [0] end%Z)
  | OTxDone i oc => (op_tx_done s i oc, map Z.of_N (frame_bytes s i))
  | ORx bytes => let '(s', r) := op_rx s bytes in
                 (s', match r with RxIgnored => [0] | RxProcessed => [1] | RxErr e => 2 :: err_code e end%Z)
  | OPoll i ex rt => let '(s', r, rt') := op_poll s i ex rt in
                     (s', (match r with PollReady => [1] | PollPending => [0] | PollErr e => 2 :: err_code e end
                           ++ [Z.of_nat rt'])%Z)
  | ODropFut i => (op_drop_fut s i, [])
  | ODropReceived i =>
    match op_drop_received s i with
    | Ok s' => (s', [1]%Z)
    | _ => (s, [-99]%Z)
    end
  | OReset => (op_reset s, [])
  | ORxBegin bytes =>
    let '(s', r) := op_rx_begin s bytes in
    (s', match r with
         | inl RxIgnored => [0] | inl RxProcessed => [1] | inl (RxErr e) => 2 :: err_code e
         | inr (k, _) => [5; Z.of_nat k] end%Z)
  | ORxCopy k i =>
    let '(s', r) := op_rx_copy s k i in
    (s', match r with None => [] | Some (RxErr e) => 2 :: err_code e | Some _ => [1] end%Z)
  | ORxEnd k =>
    let '(s', r) := op_rx_end s k in
    (s', match r with RxIgnored => [0] | RxProcessed => [1] | RxErr e => 2 :: err_code e end%Z)
  | ODropRelease i =>
    match op_drop_release s i with Ok s' => (s', [1]%Z) | _ => (s, [-99]%Z) end
  | ODropClear i => (op_drop_clear s i, [])
  | OPollBegin i =>
    let '(s', r) := op_poll_begin s i in
    (s', match r with None => [1] | Some was => [0; Z.of_N was] end%Z)
  | OPollEnd i was ex rt =>
    let '(s', r, rt') := op_poll_end s i was ex rt in
    (s', (match r with PollReady => [1] | PollPending => [0] | PollErr e => 2 :: err_code e end
          ++ [Z.of_nat rt'])%Z)
  | OTake i code idx =>
    let buf := fbuf (sfr (get s i)) in
    let ob := match first_pdu buf code idx with
              | Ok v => (1 :: Z.of_nat (vlen v) :: Z.of_N (vwkc v) :: map Z.of_N (view_bytes buf v))%Z
              | Err e => (2 :: err_code e)%Z
              | _ => [-99]%Z
              end in
    match op_drop_received s i with
    | Ok s' => (s', ob)
    | _ => (s, ob ++ [-99]%Z)
    end
  | OIter i =>
    let buf := fbuf (sfr (get s i)) in
    let items := iter_all 300 (fused (sfr (get s i))) buf (Some 0%nat) in
    let ob := concat (map (fun r => match r with
                | Ok v => (1 :: Z.of_nat (vlen v) :: Z.of_N (vwkc v) :: map Z.of_N (view_bytes buf v))%Z
                | Err e => (2 :: err_code e)%Z
                | _ => [-99]%Z end) items) in
    match op_drop_received s i with
    | Ok s' => (s', ob)
    | _ => (s, ob ++ [-99]%Z)
    end
  | OViewRead i start len =>
    (s, map Z.of_N (firstn len (skipn start (fbuf (sfr (get s i))))))
  end.

(* per-slot snapshot compared with the implementation after every op; [full] adds the PDU area *)
Definition snap (full : bool) (s : pstate) : list Z :=
  concat (map (fun x => [Z.of_N (sst x); Z.of_N (skey x); Z.of_nat (fused (sfr x))]
                        ++ (if full then map Z.of_N (fbuf (sfr x)) else [])) (slots s)).

Fixpoint run_ops (full : bool) (s : pstate) (ops : list op) : pstate * list Z :=
  match ops with
  | [] => (s, [])
  | o :: r =>
    let '(s1, ob) := apply_op s o in
    let '(s2, rest) := run_ops full s1 r in
    (s2, (ob ++ [-1] ++ snap full s1 ++ [-2] ++ rest)%Z)
  end.

Definition obs_history (full : bool) (n cap : nat) (ops : list op) : list Z :=
  snd (run_ops full (pinit n cap) ops).
