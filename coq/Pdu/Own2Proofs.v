From EC Require Import Base.Prelude Base.Bytes Base.BytesProofs Pdu.Frame Pdu.Slots Pdu.View Pdu.Hist Pdu.SlotsProofs
  Pdu.Client Pdu.ClientProofs Pdu.Own2.
Local Open Scope N_scope.

Definition slot_ok (st : N) (h : hk) (tx rx : bool) : Prop :=
  match h with
  | HNone => st = SNone /\ tx = false /\ rx = false
  | HCreated => st = SCreated /\ tx = false /\ rx = false
  | HReceived => st = SRxProcessing /\ tx = false /\ rx = false
  | HFut =>
    (tx = true /\ rx = false /\ st = SSending) \/
    (tx = false /\ rx = true /\ st = SRxBusy) \/
    (tx = false /\ rx = false /\ (st = SSendable \/ st = SSent \/ st = SRxDone))
  end.

Record Inv2 (x : xstate) : Prop := {
  i2_lh : length (xh x) = nslots (xs x);
  i2_lt : length (xtx x) = nslots (xs x);
  i2_ok : forall i, (i < nslots (xs x))%nat ->
          slot_ok (sst (get (xs x) i)) (hget (xh x) i) (tx_in x i) (rx_in x i);
  i2_rx : forall k, xrx x = Some k -> (k < nslots (xs x))%nat;
  i2_wf : Wf (xs x);
  i2_wfp : wf_pstate (xs x)
}.

(* at most one party is inside a slot, and the status says which *)
Lemma slot_ok_parties st h tx rx :
  slot_ok st h tx rx ->
  ((if hk_eqb h HCreated then 1 else 0) + (if hk_eqb h HReceived then 1 else 0) +
   (if tx then 1 else 0) + (if rx then 1 else 0) <= 1)%nat /\
  (hk_eqb h HCreated = true <-> st = SCreated) /\
  (hk_eqb h HReceived = true <-> st = SRxProcessing) /\
  (tx = true <-> st = SSending) /\ (rx = true <-> st = SRxBusy).
Proof.
  unfold slot_ok. destruct h; cbn [hk_eqb].
  - intros (-> & -> & ->). cbn. repeat split; try lia; try discriminate.
  - intros (-> & -> & ->). cbn. repeat split; try lia; try discriminate; auto.
  - intros [(-> & -> & ->) | [(-> & -> & ->) | (-> & -> & [-> | [-> | ->]])]]; cbn;
      repeat split; try lia; try discriminate; auto.
  - intros (-> & -> & ->). cbn. repeat split; try lia; try discriminate; auto.
Qed.

(* ---------- bookkeeping lemmas ---------- *)

Lemma tx_in_upd_eq x' l i b : xtx x' = upd i b l -> (i < length l)%nat -> tx_in x' i = b.
Proof. intros E H. unfold tx_in. rewrite E. apply nth_upd_eq. exact H. Qed.

Lemma tx_in_upd_ne x' l i j b : xtx x' = upd i b l -> j <> i -> tx_in x' j = nth j l false.
Proof. intros E H. unfold tx_in. rewrite E. apply nth_upd_ne. exact H. Qed.

(* the generic step: everything about slots other than i is untouched *)
Lemma inv2_update x x' i st' h' tx' rx' :
  Inv2 x -> nslots (xs x') = nslots (xs x) -> (i < nslots (xs x))%nat ->
  length (xh x') = length (xh x) -> length (xtx x') = length (xtx x) ->
  (forall j, j <> i -> sst (get (xs x') j) = sst (get (xs x) j) /\ hget (xh x') j = hget (xh x) j /\
                       tx_in x' j = tx_in x j /\ rx_in x' j = rx_in x j) ->
  sst (get (xs x') i) = st' -> hget (xh x') i = h' -> tx_in x' i = tx' -> rx_in x' i = rx' ->
  slot_ok st' h' tx' rx' ->
  (forall k, xrx x' = Some k -> (k < nslots (xs x))%nat) ->
  Wf (xs x') -> wf_pstate (xs x') -> Inv2 x'.
Proof.
  intros I N Hi Lh Lt Hj Hs Hh Ht Hr Ok Rx W Wp. destruct I as [A B C D E F].
  constructor; auto; try (rewrite N; congruence).
  - intros j Lj. rewrite N in Lj. destruct (Nat.eq_dec j i) as [->|Ne].
    + rewrite Hs, Hh, Ht, Hr. exact Ok.
    + destruct (Hj j Ne) as (J1 & J2 & J3 & J4). rewrite J1, J2, J3, J4. apply C. exact Lj.
  - intros k Hk. rewrite N. apply Rx. exact Hk.
Qed.

(* a step that changes no status, handle or window *)
Lemma inv2_same x x' :
  Inv2 x -> nslots (xs x') = nslots (xs x) -> xh x' = xh x -> xtx x' = xtx x -> xrx x' = xrx x ->
  (forall j, sst (get (xs x') j) = sst (get (xs x) j)) -> Wf (xs x') -> wf_pstate (xs x') -> Inv2 x'.
Proof.
  intros I N Eh Et Er Hs W Wp. destruct I as [A B C D E F].
  constructor; auto; try (rewrite N; congruence).
  - intros j Lj. rewrite N in Lj. unfold tx_in, rx_in. rewrite Hs, Eh, Et, Er. apply C. exact Lj.
  - intros k Hk. rewrite N. apply D. congruence.
Qed.

Lemma hget_lt x i h0 : Inv2 x -> hget (xh x) i = h0 -> h0 <> HNone -> (i < nslots (xs x))%nat.
Proof. intros I E N. rewrite <- (i2_lh x I). eapply hget_some; eauto. Qed.

Lemma tx_in_lt x i : Inv2 x -> tx_in x i = true -> (i < nslots (xs x))%nat.
Proof.
  intros I E. rewrite <- (i2_lt x I). unfold tx_in in E.
  destruct (Nat.ltb_spec i (length (xtx x))); auto. rewrite nth_overflow in E by lia. discriminate.
Qed.

Lemma rx_in_eq x k : rx_in x k = true -> xrx x = Some k.
Proof. unfold rx_in. destruct (xrx x) as [j|]; [|discriminate]. intros E. apply Nat.eqb_eq in E. congruence. Qed.

(* ---------- status effects of the split operations ---------- *)

Lemma op_rx_begin_spec s bytes s' r : wf_pstate s -> op_rx_begin s bytes = (s', r) ->
  match r with
  | inl _ => s' = s
  | inr (k, i) => (k < nslots s)%nat /\ sst (get s k) = SSent /\ s' = set_st s k SRxBusy /\
                  (length i <= cap s - eth_overhead)%nat
  end.
Proof.
  intros W H. unfold op_rx_begin in H.
  destruct (rx_parse s bytes) as [r0|[k i]] eqn:P; [inversion H; reflexivity|].
  destruct (rx_parse_inr _ _ _ _ P) as (Hk & _).
  destruct (cap s - eth_overhead <? length i)%nat eqn:Sz; [inversion H; reflexivity|].
  destruct (cas s k SSent SRxBusy) as [s1|] eqn:C; [|inversion H; reflexivity].
  apply cas_some in C as [C1 C2]. inversion H; subst. repeat split; auto. lia.
Qed.

Lemma op_rx_copy_status s k i j : sst (get (fst (op_rx_copy s k i)) j) = sst (get s j).
Proof.
  unfold op_rx_copy. destruct (_ <? _)%nat; cbn [fst]; [reflexivity|].
  destruct (Nat.ltb_spec k (nslots s)) as [H|H].
  - destruct (Nat.eq_dec j k) as [->|N]; [rewrite get_set_eq by exact H|rewrite get_set_ne by exact N]; reflexivity.
  - rewrite set_oob by exact H. reflexivity.
Qed.

Lemma op_rx_copy_nslots s k i : nslots (fst (op_rx_copy s k i)) = nslots s.
Proof. unfold op_rx_copy. destruct (_ <? _)%nat; cbn [fst]; [reflexivity|apply nslots_set]. Qed.

Lemma op_rx_copy_wfp s k i : wf_pstate s -> wf_pstate (fst (op_rx_copy s k i)).
Proof.
  intros W. unfold op_rx_copy. destruct (_ <? _)%nat; cbn [fst]; [exact W|].
  destruct (Nat.ltb_spec k (nslots s)) as [H|H].
  - apply wfp_set; auto. cbn. rewrite splice_length. apply W. exact H.
  - rewrite set_oob by exact H. exact W.
Qed.

Lemma op_rx_copy_wf s k i : Wf s -> Wf (fst (op_rx_copy s k i)).
Proof.
  intros [I F]. unfold op_rx_copy. destruct (_ <? _)%nat; cbn [fst]; [split; assumption|].
  split; [rewrite nslots_set; exact I|exact F].
Qed.



Lemma op_drop_clear_wf s i : Wf s -> Wf (op_drop_clear s i).
Proof. apply wf_clear. Qed.

Lemma status_other s i st j : j <> i -> sst (get (set_st s i st) j) = sst (get s j).
Proof.
  intros N. rewrite sst_set_st_any. apply Nat.eqb_neq in N. rewrite N. reflexivity.
Qed.

Lemma status_self s i st : (i < nslots s)%nat -> sst (get (set_st s i st) i) = st.
Proof. intros H. rewrite sst_set_st by exact H. rewrite Nat.eqb_refl. reflexivity. Qed.

Lemma op_push_status s i c d o j : sst (get (fst (op_push s i c d o)) j) = sst (get s j).
Proof.
  unfold op_push. destruct (push_pdu _ _ _ _ _) as [[fr r] p']. destruct r; cbn [fst]; try reflexivity.
  rewrite with_fr_status. reflexivity.
Qed.
Lemma op_push_nslots s i c d o : nslots (fst (op_push s i c d o)) = nslots s.
Proof.
  unfold op_push. destruct (push_pdu _ _ _ _ _) as [[fr r] p']. destruct r; cbn [fst]; try reflexivity.
  rewrite with_fr_nslots. reflexivity.
Qed.
Lemma op_push_rest_status s i c b j : sst (get (fst (op_push_rest s i c b)) j) = sst (get s j).
Proof.
  unfold op_push_rest. destruct (push_rest _ _ _ _) as [[fr r] p']. destruct r; cbn [fst]; try reflexivity.
  rewrite with_fr_status. reflexivity.
Qed.
Lemma op_push_rest_nslots s i c b : nslots (fst (op_push_rest s i c b)) = nslots s.
Proof.
  unfold op_push_rest. destruct (push_rest _ _ _ _) as [[fr r] p']. destruct r; cbn [fst]; try reflexivity.
  rewrite with_fr_nslots. reflexivity.
Qed.
Lemma op_push_wf s i c d o : Wf s -> Wf (fst (op_push s i c d o)).
Proof. intros [I F]. split; [rewrite op_push_nslots; exact I|].
  unfold op_push. destruct (push_pdu _ _ _ _ _) as [[fr r] p']. destruct r; exact F. Qed.
Lemma op_push_rest_wf s i c b : Wf s -> Wf (fst (op_push_rest s i c b)).
Proof. intros [I F]. split; [rewrite op_push_rest_nslots; exact I|].
  unfold op_push_rest. destruct (push_rest _ _ _ _) as [[fr r] p']. destruct r; exact F. Qed.

Lemma op_mark_status s i j : (i < nslots s)%nat -> sst (get s i) = SCreated ->
  sst (get (op_mark s i) j) = if Nat.eqb j i then SSendable else sst (get s j).
Proof.
  intros Hi Hc. unfold op_mark. set (s0 := set s i _).
  assert (N0 : nslots s0 = nslots s) by apply nslots_set.
  assert (St0 : forall k, sst (get s0 k) = sst (get s k)).
  { intros k. subst s0. destruct (Nat.eq_dec k i) as [->|N];
      [rewrite get_set_eq by exact Hi|rewrite get_set_ne by exact N]; reflexivity. }
  assert (C : op_drop_created (set_st s0 i SSendable) i = set_st s0 i SSendable).
  { apply op_drop_created_noop. rewrite sst_set_st by (rewrite N0; exact Hi). rewrite Nat.eqb_refl. discriminate. }
  rewrite C. rewrite sst_set_st by (rewrite N0; exact Hi). destruct (Nat.eqb j i); auto.
Qed.

Lemma op_mark_nslots s i : nslots (op_mark s i) = nslots s.
Proof.
  unfold op_mark, op_drop_created. destruct (_ =? SCreated);
    [rewrite nslots_set_st, op_drop_clear_nslots|]; rewrite nslots_set_st, nslots_set; reflexivity.
Qed.

Lemma op_mark_wfp s i : wf_pstate s -> wf_pstate (op_mark s i).
Proof.
  intros Wp. unfold op_mark.
  assert (W0 : wf_pstate (set s i {| sst := sst (get s i); skey := skey (get s i); sfr := sfr (get s i);
                                     shdr := ecat_header (fused (sfr (get s i))) |})).
  { destruct (Nat.ltb_spec i (nslots s)) as [Hi|Hi]; [apply wfp_set; auto; cbn; apply Wp; exact Hi|].
    rewrite set_oob by exact Hi. exact Wp. }
  unfold op_drop_created. destruct (_ =? SCreated); [apply wfp_set_st, op_drop_clear_wfp|]; apply wfp_set_st; exact W0.
Qed.

Lemma wf_nslots_fidx s s' : Wf s -> nslots s' = nslots s -> fidx s' = fidx s -> Wf s'.
Proof. intros [I F] N E. split; [rewrite N; exact I|rewrite E; exact F]. Qed.

Lemma op_mark_fidx s i : fidx (op_mark s i) = fidx s.
Proof. unfold op_mark, op_drop_created. destruct (_ =? SCreated); reflexivity. Qed.

(* what the old state says about slot i when a given party is known to hold it *)
Lemma ok_created x i : Inv2 x -> hget (xh x) i = HCreated ->
  (i < nslots (xs x))%nat /\ sst (get (xs x) i) = SCreated /\ tx_in x i = false /\ rx_in x i = false.
Proof.
  intros I E. assert (Hi := hget_lt x i _ I E ltac:(discriminate)).
  pose proof (i2_ok x I i Hi) as Ok. rewrite E in Ok. cbn in Ok. tauto.
Qed.

Lemma ok_received x i : Inv2 x -> hget (xh x) i = HReceived ->
  (i < nslots (xs x))%nat /\ sst (get (xs x) i) = SRxProcessing /\ tx_in x i = false /\ rx_in x i = false.
Proof.
  intros I E. assert (Hi := hget_lt x i _ I E ltac:(discriminate)).
  pose proof (i2_ok x I i Hi) as Ok. rewrite E in Ok. cbn in Ok. tauto.
Qed.

Lemma ok_by_status x i : Inv2 x -> (i < nslots (xs x))%nat ->
  forall st, sst (get (xs x) i) = st ->
  (st = SSendable \/ st = SSent \/ st = SRxDone -> hget (xh x) i = HFut /\ tx_in x i = false /\ rx_in x i = false) /\
  (st = SSending -> hget (xh x) i = HFut /\ tx_in x i = true /\ rx_in x i = false) /\
  (st = SRxBusy -> hget (xh x) i = HFut /\ tx_in x i = false /\ rx_in x i = true) /\
  (st = SNone -> hget (xh x) i = HNone /\ tx_in x i = false /\ rx_in x i = false).
Proof.
  intros I Hi st E. pose proof (i2_ok x I i Hi) as Ok. rewrite E in Ok. unfold slot_ok in Ok.
  unfold SNone, SCreated, SSendable, SSending, SSent, SRxBusy, SRxDone, SRxProcessing in *.
  destruct (hget (xh x) i); intuition (subst; try congruence).
Qed.

Lemma status_other_c s i st j : j <> i -> sst (get (set_st (op_drop_clear s i) i st) j) = sst (get s j).
Proof. intros N. rewrite status_other by exact N. apply op_drop_clear_status. Qed.
Lemma status_self_c s i st : (i < nslots s)%nat -> sst (get (set_st (op_drop_clear s i) i st) i) = st.
Proof. intros H. apply status_self. rewrite op_drop_clear_nslots. exact H. Qed.
Lemma nslots_c s i st : nslots (set_st (op_drop_clear s i) i st) = nslots s.
Proof. rewrite nslots_set_st. apply op_drop_clear_nslots. Qed.
Lemma wf_c s i st : Wf s -> Wf (set_st (op_drop_clear s i) i st).
Proof. intros W. apply wf_set_st, wf_clear. exact W. Qed.
Lemma wfp_c s i st : wf_pstate s -> wf_pstate (set_st (op_drop_clear s i) i st).
Proof. intros W. apply wfp_set_st, op_drop_clear_wfp. exact W. Qed.

(* ---------- every step preserves the invariant ---------- *)

Ltac others_same :=
  let j := fresh "j" in let Nj := fresh "Nj" in
  intros j Nj; cbn [xs xh xtx xrx]; unfold tx_in, rx_in; cbn [xs xh xtx xrx];
  repeat split; auto;
  try (rewrite hget_upd_ne by exact Nj; reflexivity);
  try (rewrite nth_upd_ne by exact Nj; reflexivity);
  try (rewrite status_other by exact Nj; reflexivity);
  try (rewrite status_other_c by exact Nj; reflexivity).

Lemma xstep_inv x o x' : Inv2 x -> xstep x o = Some x' -> Inv2 x'.
Proof.
  intros I H. pose proof (i2_wf x I) as W. pose proof (i2_wfp x I) as Wp.
  pose proof (i2_lh x I) as Lh. pose proof (i2_lt x I) as Lt.
  destruct o; cbn [xstep] in H; try discriminate.
  - (* alloc *)
    destruct (alloc (xs x)) as [s' r] eqn:E. inversion H; subst x'; clear H.
    pose proof (wf_pos _ W) as P.
    destruct (alloc_spec _ _ _ P E) as (N & R). destruct (alloc_free _ _ _ W E) as (W' & _).
    assert (Wp' : wf_pstate s') by (unfold alloc in E; eapply alloc_go_wfp; eauto).
    destruct r as [i|].
    + destruct R as (Hi & Hn & Hc & Hj).
      destruct (proj2 (proj2 (proj2 (ok_by_status x i I Hi _ Hn))) eq_refl) as (Hh & Ht & Hr).
      eapply inv2_update with (i := i) (st' := SCreated) (h' := HCreated) (tx' := false) (rx' := false); eauto;
        cbn [xs xh xtx xrx].
      * apply upd_length.
      * intros j Nj. cbn [xs xh xtx xrx]. unfold tx_in, rx_in. cbn [xs xh xtx xrx].
        repeat split; auto. rewrite hget_upd_ne by exact Nj. reflexivity.
      * apply hget_upd_eq. lia.
      * cbn. auto.
      * apply (i2_rx x I).
    + eapply inv2_same; eauto.
  - (* push *)
    destruct (hk_eqb (hget (xh x) i) HCreated) eqn:E; [|discriminate]. inversion H; subst x'; clear H.
    eapply inv2_same; eauto; cbn [xs xh xtx xrx].
    + apply op_push_nslots.
    + intros j. apply op_push_status.
    + apply op_push_wf; exact W.
    + apply op_push_wfp; exact Wp.
  - (* push rest *)
    destruct (hk_eqb (hget (xh x) i) HCreated) eqn:E; [|discriminate]. inversion H; subst x'; clear H.
    eapply inv2_same; eauto; cbn [xs xh xtx xrx].
    + apply op_push_rest_nslots.
    + intros j. apply op_push_rest_status.
    + apply op_push_rest_wf; exact W.
    + apply op_push_rest_wfp; exact Wp.
  - (* mark *)
    destruct (hk_eqb (hget (xh x) i) HCreated) eqn:E; [|discriminate]. apply hk_eqb_eq in E.
    inversion H; subst x'; clear H.
    destruct (ok_created x i I E) as (Hi & Hs & Ht & Hr).
    eapply inv2_update with (i := i) (st' := SSendable) (h' := HFut) (tx' := false) (rx' := false); eauto;
      cbn [xs xh xtx xrx].
    + apply op_mark_nslots.
    + apply upd_length.
    + intros j Nj. cbn [xs xh xtx xrx]. unfold tx_in, rx_in. cbn [xs xh xtx xrx].
      rewrite op_mark_status by assumption. apply Nat.eqb_neq in Nj. rewrite Nj.
      apply Nat.eqb_neq in Nj. rewrite hget_upd_ne by exact Nj. auto.
    + rewrite op_mark_status by assumption. rewrite Nat.eqb_refl. reflexivity.
    + apply hget_upd_eq. lia.
    + cbn. right. right. auto.
    + apply (i2_rx x I).
    + eapply wf_nslots_fidx; [exact W|apply op_mark_nslots|apply op_mark_fidx].
    + apply op_mark_wfp; exact Wp.
  - (* drop created *)
    destruct (hk_eqb (hget (xh x) i) HCreated) eqn:E; [|discriminate]. apply hk_eqb_eq in E.
    inversion H; subst x'; clear H.
    destruct (ok_created x i I E) as (Hi & Hs & Ht & Hr).
    assert (Eo : op_drop_created (xs x) i = set_st (op_drop_clear (xs x) i) i SNone).
    { apply op_drop_created_yes. exact Hs. }
    eapply inv2_update with (i := i) (st' := SNone) (h' := HNone) (tx' := false) (rx' := false); eauto;
      cbn [xs xh xtx xrx]; rewrite ?Eo.
    + apply nslots_c.
    + apply upd_length.
    + others_same.
    + apply status_self_c; exact Hi.
    + apply hget_upd_eq. lia.
    + cbn. auto.
    + apply (i2_rx x I).
    + apply wf_c; exact W.
    + apply wfp_c; exact Wp.
  - (* tx claim *)
    unfold op_tx_claim in H. destruct (tx_scan (xs x) 0 (nslots (xs x))) as [s' r] eqn:E.
    inversion H; subst x'; clear H. apply tx_scan_spec in E. destruct r as [k|].
    + destruct E as [E1 ->].
      assert (Hk : (k < nslots (xs x))%nat).
      { destruct (Nat.ltb_spec k (nslots (xs x))); auto. exfalso.
        unfold get in E1. rewrite nth_overflow in E1 by (unfold nslots in *; lia). discriminate. }
      destruct (proj1 (ok_by_status x k I Hk _ E1) (or_introl eq_refl)) as (Hh & Ht & Hr).
      eapply inv2_update with (i := k) (st' := SSending) (h' := HFut) (tx' := true) (rx' := false); eauto;
        cbn [xs xh xtx xrx].
      * apply nslots_set_st.
      * apply upd_length.
      * others_same.
      * apply status_self; exact Hk.
      * unfold tx_in. cbn [xtx]. apply nth_upd_eq. lia.
      * cbn. auto.
      * apply (i2_rx x I).
      * apply wf_set_st; exact W.
      * apply wfp_set_st; exact Wp.
    + subst s'. eapply inv2_same; eauto.
  - (* tx done *)
    destruct (tx_in x i) eqn:E; [|discriminate]. inversion H; subst x'; clear H.
    pose proof (tx_in_lt x i I E) as Hi.
    pose proof (i2_ok x I i Hi) as Ok. rewrite E in Ok.
    assert (Hh : hget (xh x) i = HFut /\ rx_in x i = false).
    { unfold slot_ok in Ok. destruct (hget (xh x) i); intuition congruence. }
    destruct Hh as (Hh & Hr).
    set (st' := if outcome =? 0 then SSent else SSendable).
    assert (Eo : op_tx_done (xs x) i outcome = set_st (xs x) i st').
    { unfold op_tx_done. subst st'. destruct (outcome =? 0); reflexivity. }
    eapply inv2_update with (i := i) (st' := st') (h' := HFut) (tx' := false) (rx' := false); eauto;
      cbn [xs xh xtx xrx]; rewrite ?Eo.
    + apply nslots_set_st.
    + apply upd_length.
    + others_same.
    + apply status_self; exact Hi.
    + unfold tx_in. cbn [xtx]. apply nth_upd_eq. lia.
    + cbn. right. right. subst st'. destruct (outcome =? 0); auto.
    + apply (i2_rx x I).
    + apply wf_set_st; exact W.
    + apply wfp_set_st; exact Wp.
  - (* drop future (guard: not while TX or RX is inside) *)
    destruct (hk_eqb (hget (xh x) i) HFut) eqn:E; [|discriminate]. apply hk_eqb_eq in E.
    destruct (negb (in_window x i)) eqn:G; [|discriminate]. cbn [andb] in H.
    inversion H; subst x'; clear H.
    assert (Hi := hget_lt x i _ I E ltac:(discriminate)).
    apply negb_true_iff in G. unfold in_window in G. apply orb_false_iff in G as [Gt Gr].
    eapply inv2_update with (i := i) (st' := SNone) (h' := HNone) (tx' := false) (rx' := false); eauto;
      cbn [xs xh xtx xrx]; unfold op_drop_fut.
    + apply nslots_c.
    + apply upd_length.
    + others_same.
    + apply status_self_c; exact Hi.
    + apply hget_upd_eq. lia.
    + cbn. auto.
    + apply (i2_rx x I).
    + apply wf_c; exact W.
    + apply wfp_c; exact Wp.
  - (* rx begin *)
    destruct (xrx x) as [k0|] eqn:Erx; [inversion H|].
    destruct (op_rx_begin (xs x) bytes) as [s' r] eqn:E. inversion H; subst x'; clear H.
    pose proof (op_rx_begin_spec _ _ _ _ Wp E) as Sp. destruct r as [r0|[k i]].
    + subst s'. eapply inv2_same; eauto.
    + destruct Sp as (Hk & Hs & -> & _).
      destruct (proj1 (ok_by_status x k I Hk _ Hs) (or_intror (or_introl eq_refl))) as (Hh & Ht & Hr).
      eapply inv2_update with (i := k) (st' := SRxBusy) (h' := HFut) (tx' := false) (rx' := true); eauto;
        cbn [xs xh xtx xrx].
      * apply nslots_set_st.
      * intros j Nj. cbn [xs xh xtx xrx]. unfold tx_in, rx_in. cbn [xs xh xtx xrx]. rewrite Erx.
        rewrite status_other by exact Nj. repeat split; auto.
        apply Nat.eqb_neq. congruence.
      * apply status_self; exact Hk.
      * unfold rx_in. cbn [xrx]. apply Nat.eqb_refl.
      * cbn. auto.
      * intros k1 Hk1. inversion Hk1; subst. exact Hk.
      * apply wf_set_st; exact W.
      * apply wfp_set_st; exact Wp.
  - (* rx copy *)
    destruct (rx_in x k) eqn:E; [|discriminate]. inversion H; subst x'; clear H.
    eapply inv2_same; eauto; cbn [xs xh xtx xrx].
    + apply op_rx_copy_nslots.
    + intros j. apply op_rx_copy_status.
    + apply op_rx_copy_wf; exact W.
    + apply op_rx_copy_wfp; exact Wp.
  - (* rx end *)
    destruct (rx_in x k) eqn:E; [|discriminate]. inversion H; subst x'; clear H.
    pose proof (rx_in_eq x k E) as Erx. pose proof (i2_rx x I k Erx) as Hk.
    pose proof (i2_ok x I k Hk) as Ok. rewrite E in Ok.
    assert (Hh : hget (xh x) k = HFut /\ tx_in x k = false /\ sst (get (xs x) k) = SRxBusy).
    { unfold slot_ok in Ok. destruct (hget (xh x) k); intuition congruence. }
    destruct Hh as (Hh & Ht & Hs).
    assert (Eo : fst (op_rx_end (xs x) k) = set_st (xs x) k SRxDone).
    { unfold op_rx_end, cas. rewrite Hs. reflexivity. }
    eapply inv2_update with (i := k) (st' := SRxDone) (h' := HFut) (tx' := false) (rx' := false); eauto;
      cbn [xs xh xtx xrx]; rewrite ?Eo.
    + apply nslots_set_st.
    + intros j Nj. cbn [xs xh xtx xrx]. unfold tx_in, rx_in. cbn [xs xh xtx xrx]. rewrite Erx.
      rewrite status_other by exact Nj. repeat split; auto.
      symmetry. apply Nat.eqb_neq. congruence.
    + apply status_self; exact Hk.
    + cbn. right. right. auto.
    + intros k1 Hk1. discriminate.
    + apply wf_set_st; exact W.
    + apply wfp_set_st; exact Wp.
  - (* drop received: release *)
    destruct (hk_eqb (hget (xh x) i) HReceived) eqn:E; [|discriminate]. apply hk_eqb_eq in E.
    destruct (ok_received x i I E) as (Hi & Hs & Ht & Hr).
    unfold op_drop_release, cas in H. rewrite Hs in H. cbn [N.eqb Pos.eqb SRxProcessing] in H.
    inversion H; subst x'; clear H.
    eapply inv2_update with (i := i) (st' := SNone) (h' := HNone) (tx' := false) (rx' := false); eauto;
      cbn [xs xh xtx xrx].
    + apply nslots_set_st.
    + apply upd_length.
    + others_same.
    + apply status_self; exact Hi.
    + apply hget_upd_eq. lia.
    + cbn. auto.
    + apply (i2_rx x I).
    + apply wf_set_st; exact W.
    + apply wfp_set_st; exact Wp.
  - (* drop received: clear key (whatever has become of the slot meanwhile) *)
    inversion H; subst x'; clear H.
    eapply inv2_same; eauto; cbn [xs xh xtx xrx].
    + unfold op_drop_clear. apply nslots_set.
    + intros j. apply op_drop_clear_status.
    + apply op_drop_clear_wf; exact W.
    + apply op_drop_clear_wfp; exact Wp.
  - (* poll begin *)
    destruct (hk_eqb (hget (xh x) i) HFut) eqn:E; [|discriminate]. apply hk_eqb_eq in E.
    assert (Hi := hget_lt x i _ I E ltac:(discriminate)).
    unfold op_poll_begin in H. destruct (cas (xs x) i SRxDone SRxProcessing) as [s1|] eqn:C.
    + inversion H; subst x'; clear H. apply cas_some in C as [C1 ->].
      destruct (proj1 (ok_by_status x i I Hi _ C1) (or_intror (or_intror eq_refl))) as (_ & Ht & Hr).
      eapply inv2_update with (i := i) (st' := SRxProcessing) (h' := HReceived) (tx' := false) (rx' := false); eauto;
        cbn [xs xh xtx xrx].
      * apply nslots_set_st.
      * apply upd_length.
      * others_same.
      * apply status_self; exact Hi.
      * apply hget_upd_eq. lia.
      * cbn. auto.
      * apply (i2_rx x I).
      * apply wf_set_st; exact W.
      * apply wfp_set_st; exact Wp.
    + inversion H; subst x'; clear H. eapply inv2_same; eauto.
  - (* poll end *)
    destruct (hk_eqb (hget (xh x) i) HFut) eqn:E; [|discriminate]. apply hk_eqb_eq in E.
    destruct (negb (expired && in_window x i)) eqn:G; [|discriminate].
    destruct ((was =? SSendable) || (was =? SSending) || (was =? SSent) || (was =? SRxBusy)) eqn:Gw;
      [|discriminate]. cbn [andb] in H.
    assert (Hi := hget_lt x i _ I E ltac:(discriminate)).
    unfold op_poll_end, pending_or_err in H. rewrite Gw in H. destruct expired.
    + cbn [andb] in G. apply negb_true_iff in G. unfold in_window in G. apply orb_false_iff in G as [Gt Gr].
      destruct retries as [|r]; inversion H; subst x'; clear H.
      * eapply inv2_update with (i := i) (st' := SNone) (h' := HNone) (tx' := false) (rx' := false); eauto;
          cbn [xs xh xtx xrx].
        -- apply nslots_c.
        -- apply upd_length.
        -- others_same.
        -- apply status_self_c; exact Hi.
        -- apply hget_upd_eq. lia.
        -- cbn. auto.
        -- apply (i2_rx x I).
        -- apply wf_c; exact W.
        -- apply wfp_c; exact Wp.
      * eapply inv2_update with (i := i) (st' := SSendable) (h' := HFut) (tx' := false) (rx' := false); eauto;
          cbn [xs xh xtx xrx].
        -- apply nslots_set_st.
        -- others_same.
        -- apply status_self; exact Hi.
        -- cbn. right. right. auto.
        -- apply (i2_rx x I).
        -- apply wf_set_st; exact W.
        -- apply wfp_set_st; exact Wp.
    + inversion H; subst x'; clear H. eapply inv2_same; eauto.
Qed.

(* the status the first half of a poll can see when it does not complete *)
Lemma poll_begin_was x i s' was : Inv2 x -> hget (xh x) i = HFut ->
  op_poll_begin (xs x) i = (s', Some was) ->
  s' = xs x /\ (was = SSendable \/ was = SSending \/ was = SSent \/ was = SRxBusy).
Proof.
  intros I E H. assert (Hi := hget_lt x i _ I E ltac:(discriminate)).
  unfold op_poll_begin in H. destruct (cas (xs x) i SRxDone SRxProcessing) eqn:C; [inversion H|].
  inversion H; subst; clear H. split; [reflexivity|].
  apply cas_none in C. pose proof (i2_ok x I i Hi) as Ok. rewrite E in Ok. unfold slot_ok in Ok.
  intuition congruence.
Qed.

Lemma xinit_inv n cap : In n pow2s -> Inv2 (xinit n cap).
Proof.
  intros I. destruct (inv_init n cap I) as [[[L O] W] Wp]. cbn [fst snd] in *.
  assert (Ns : nslots (pinit n cap) = n) by (unfold nslots, pinit; cbn; apply repeat_length).
  unfold xinit. constructor; cbn [xs xh xtx xrx]; auto.
  - rewrite Ns. apply repeat_length.
  - intros i Hi. unfold tx_in, rx_in, hget. cbn [xs xh xtx xrx]. rewrite !nth_repeat.
    specialize (O i Hi). unfold hget in O. rewrite nth_repeat in O. cbn in O. cbn. auto.
  - intros k Hk. discriminate.
Qed.

Lemma xrun_inv ops : forall x x', Inv2 x -> xrun x ops = Some x' -> Inv2 x'.
Proof.
  induction ops as [|o r IH]; intros x x' I H; cbn [xrun] in H; [inversion H; subst; exact I|].
  destruct (xstep x o) as [x1|] eqn:E; [|discriminate]. eapply IH; [eapply xstep_inv; eauto|exact H].
Qed.

(* C02, mutual exclusion: in every state reachable by histories in which no deadline fires and no
   request is abandoned while TX or RX is inside that buffer, each buffer has at most one of the
   four parties inside it, and the slot's status says which one *)
Theorem mutex n cap ops x : In n pow2s -> xrun (xinit n cap) ops = Some x ->
  forall i, (i < nslots (xs x))%nat ->
  (parties x i <= 1)%nat /\
  (hk_eqb (hget (xh x) i) HCreated = true <-> sst (get (xs x) i) = SCreated) /\
  (hk_eqb (hget (xh x) i) HReceived = true <-> sst (get (xs x) i) = SRxProcessing) /\
  (tx_in x i = true <-> sst (get (xs x) i) = SSending) /\
  (rx_in x i = true <-> sst (get (xs x) i) = SRxBusy).
Proof.
  intros I R i Hi. pose proof (xrun_inv ops _ _ (xinit_inv n cap I) R) as Inv.
  apply slot_ok_parties. apply (i2_ok x Inv i Hi).
Qed.

(* a buffer is only ever given to a new request when nobody is inside it *)
Theorem alloc_only_free n cap ops x x' s' i : In n pow2s -> xrun (xinit n cap) ops = Some x ->
  alloc (xs x) = (s', Some i) -> xstep x OAlloc = Some x' ->
  parties x i = 0%nat /\ hget (xh x) i = HNone /\ parties x' i = 1%nat.
Proof.
  intros I R A S. pose proof (xrun_inv ops _ _ (xinit_inv n cap I) R) as Inv.
  pose proof (wf_pos _ (i2_wf x Inv)) as P.
  destruct (alloc_spec _ _ _ P A) as (N & Hi & Hn & Hc & Hj).
  destruct (proj2 (proj2 (proj2 (ok_by_status x i Inv Hi _ Hn))) eq_refl) as (Hh & Ht & Hr).
  cbn [xstep] in S. rewrite A in S. inversion S; subst x'; clear S.
  unfold parties. cbn [xh xtx xrx]. unfold tx_in, rx_in in *. cbn [xtx xrx]. rewrite Hh, Ht.
  rewrite hget_upd_eq by (rewrite (i2_lh x Inv); exact Hi).
  destruct (xrx x) as [k|]; cbn [hk_eqb]; [rewrite Hr|]; auto.
Qed.

Lemma mutex_local x i : Inv2 x -> (i < nslots (xs x))%nat ->
  (parties x i <= 1)%nat /\
  (hk_eqb (hget (xh x) i) HCreated = true <-> sst (get (xs x) i) = SCreated) /\
  (hk_eqb (hget (xh x) i) HReceived = true <-> sst (get (xs x) i) = SRxProcessing) /\
  (tx_in x i = true <-> sst (get (xs x) i) = SSending) /\
  (rx_in x i = true <-> sst (get (xs x) i) = SRxBusy).
Proof. intros I Hi. apply slot_ok_parties. apply (i2_ok x I i Hi). Qed.

(* ---------- C02, lifecycle order ---------- *)

Lemma edge_refl a : edge a a = true.
Proof. unfold edge. rewrite N.eqb_refl. reflexivity. Qed.

Lemma edges_one s s' i :
  (forall j, j <> i -> sst (get s' j) = sst (get s j)) ->
  edge (sst (get s i)) (sst (get s' i)) = true ->
  forall j, edge (sst (get s j)) (sst (get s' j)) = true.
Proof.
  intros Hj Hi j. destruct (Nat.eq_dec j i) as [->|N]; [exact Hi|]. rewrite Hj by exact N. apply edge_refl.
Qed.

Lemma edges_same s s' : (forall j, sst (get s' j) = sst (get s j)) ->
  forall j, edge (sst (get s j)) (sst (get s' j)) = true.
Proof. intros H j. rewrite H. apply edge_refl. Qed.

Lemma edges_set_st s i a b : (i < nslots s)%nat -> sst (get s i) = a -> edge a b = true ->
  forall j, edge (sst (get s j)) (sst (get (set_st s i b) j)) = true.
Proof.
  intros Hi Ha E. apply edges_one with (i := i).
  - intros j Nj. apply status_other. exact Nj.
  - rewrite Ha, status_self by exact Hi. exact E.
Qed.

Lemma edges_set_st_c s i a b : (i < nslots s)%nat -> sst (get s i) = a -> edge a b = true ->
  forall j, edge (sst (get s j)) (sst (get (set_st (op_drop_clear s i) i b) j)) = true.
Proof.
  intros Hi Ha E. apply edges_one with (i := i).
  - intros j Nj. apply status_other_c. exact Nj.
  - rewrite Ha, status_self_c by exact Hi. exact E.
Qed.

(* every change of a slot's status made by any step is an edge of the documented order *)
Theorem xstep_edge x o x' : Inv2 x -> xstep x o = Some x' ->
  forall j, edge (sst (get (xs x) j)) (sst (get (xs x') j)) = true.
Proof.
  intros I H. pose proof (i2_wf x I) as W. pose proof (i2_wfp x I) as Wp.
  destruct o; cbn [xstep] in H; try discriminate.
  - destruct (alloc (xs x)) as [s' r] eqn:E. inversion H; subst x'; clear H. cbn [xs].
    destruct (alloc_spec _ _ _ (wf_pos _ W) E) as (N & R). destruct r as [i|].
    + destruct R as (Hi & Hn & Hc & Hj). apply edges_one with (i := i); auto. rewrite Hn, Hc. reflexivity.
    + apply edges_same. exact R.
  - destruct (hk_eqb _ _); [|discriminate]. inversion H; subst x'. cbn [xs].
    apply edges_same. intros j. apply op_push_status.
  - destruct (hk_eqb _ _); [|discriminate]. inversion H; subst x'. cbn [xs].
    apply edges_same. intros j. apply op_push_rest_status.
  - destruct (hk_eqb _ _) eqn:E; [|discriminate]. apply hk_eqb_eq in E. inversion H; subst x'. cbn [xs].
    destruct (ok_created x i I E) as (Hi & Hs & _).
    apply edges_one with (i := i).
    + intros j Nj. rewrite op_mark_status by assumption. apply Nat.eqb_neq in Nj. rewrite Nj. reflexivity.
    + rewrite op_mark_status by assumption. rewrite Nat.eqb_refl, Hs. reflexivity.
  - destruct (hk_eqb _ _) eqn:E; [|discriminate]. apply hk_eqb_eq in E. inversion H; subst x'. cbn [xs].
    destruct (ok_created x i I E) as (Hi & Hs & _).
    rewrite op_drop_created_yes by exact Hs.
    eapply edges_set_st_c; eauto.
  - unfold op_tx_claim in H. destruct (tx_scan (xs x) 0 (nslots (xs x))) as [s' r] eqn:E.
    inversion H; subst x'; clear H. cbn [xs]. apply tx_scan_spec in E. destruct r as [k|].
    + destruct E as [E1 ->].
      assert (Hk : (k < nslots (xs x))%nat).
      { destruct (Nat.ltb_spec k (nslots (xs x))); auto. exfalso.
        unfold get in E1. rewrite nth_overflow in E1 by (unfold nslots in *; lia). discriminate. }
      eapply edges_set_st; eauto.
    + subst. apply edges_same. reflexivity.
  - destruct (tx_in x i) eqn:E; [|discriminate]. inversion H; subst x'; clear H. cbn [xs].
    pose proof (tx_in_lt x i I E) as Hi.
    destruct (mutex_local x i I Hi) as (_ & _ & _ & T & _). apply T in E.
    unfold op_tx_done. destruct (outcome =? 0); eapply edges_set_st; eauto.
  - destruct (hk_eqb _ _) eqn:E; [|discriminate]. apply hk_eqb_eq in E.
    destruct (negb _) eqn:G; [|discriminate]. cbn [andb] in H. inversion H; subst x'; clear H. cbn [xs].
    assert (Hi := hget_lt x i _ I E ltac:(discriminate)).
    apply negb_true_iff in G. unfold in_window in G. apply orb_false_iff in G as [Gt Gr].
    pose proof (i2_ok x I i Hi) as Ok. rewrite E, Gt, Gr in Ok. unfold slot_ok in Ok.
    unfold op_drop_fut.
    destruct Ok as [(A & _) | [(_ & A & _) | (_ & _ & [S1 | [S1 | S1]])]]; try discriminate;
      eapply edges_set_st_c; eauto.
  - destruct (xrx x) as [k0|] eqn:Erx; [inversion H|].
    destruct (op_rx_begin (xs x) bytes) as [s' r] eqn:E. inversion H; subst x'; clear H. cbn [xs].
    pose proof (op_rx_begin_spec _ _ _ _ Wp E) as Sp. destruct r as [r0|[k i]].
    + subst. apply edges_same. reflexivity.
    + destruct Sp as (Hk & Hs & -> & _). eapply edges_set_st; eauto.
  - destruct (rx_in x k); [|discriminate]. inversion H; subst x'. cbn [xs].
    apply edges_same. intros j. apply op_rx_copy_status.
  - destruct (rx_in x k) eqn:E; [|discriminate]. inversion H; subst x'; clear H. cbn [xs].
    pose proof (rx_in_eq x k E) as Erx. pose proof (i2_rx x I k Erx) as Hk.
    destruct (mutex_local x k I Hk) as (_ & _ & _ & _ & R). apply R in E.
    replace (fst (op_rx_end (xs x) k)) with (set_st (xs x) k SRxDone)
      by (unfold op_rx_end, cas; rewrite E; reflexivity).
    eapply edges_set_st; eauto.
  - destruct (hk_eqb _ _) eqn:E; [|discriminate]. apply hk_eqb_eq in E.
    destruct (ok_received x i I E) as (Hi & Hs & _).
    unfold op_drop_release, cas in H. rewrite Hs in H. cbn [N.eqb Pos.eqb SRxProcessing] in H.
    inversion H; subst x'; clear H. cbn [xs]. eapply edges_set_st; eauto.
  - inversion H; subst x'. cbn [xs]. apply edges_same. intros j. apply op_drop_clear_status.
  - destruct (hk_eqb _ _) eqn:E; [|discriminate]. apply hk_eqb_eq in E.
    assert (Hi := hget_lt x i _ I E ltac:(discriminate)).
    unfold op_poll_begin in H. destruct (cas (xs x) i SRxDone SRxProcessing) as [s1|] eqn:C.
    + inversion H; subst x'; clear H. cbn [xs]. apply cas_some in C as [C1 ->]. eapply edges_set_st; eauto.
    + inversion H; subst x'. cbn [xs]. apply edges_same. reflexivity.
  - destruct (hk_eqb _ _) eqn:E; [|discriminate]. apply hk_eqb_eq in E.
    destruct (negb (expired && in_window x i)) eqn:G; [|discriminate].
    destruct ((was =? SSendable) || _ || _ || _) eqn:Gw; [|discriminate]. cbn [andb] in H.
    assert (Hi := hget_lt x i _ I E ltac:(discriminate)).
    unfold op_poll_end, pending_or_err in H. rewrite Gw in H. destruct expired.
    + cbn [andb] in G. apply negb_true_iff in G. unfold in_window in G. apply orb_false_iff in G as [Gt Gr].
      pose proof (i2_ok x I i Hi) as Ok. rewrite E, Gt, Gr in Ok. unfold slot_ok in Ok.
      destruct retries as [|r]; inversion H; subst x'; clear H; cbn [xs];
        destruct Ok as [(A & _) | [(_ & A & _) | (_ & _ & [S1 | [S1 | S1]])]]; try discriminate;
        first [eapply edges_set_st_c; eauto | eapply edges_set_st; eauto].
    + inversion H; subst x'. cbn [xs]. apply edges_same. reflexivity.
Qed.
