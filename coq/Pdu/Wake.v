(* C01, the wake-up half: "a task waiting for a response is woken when it arrives - no lost
   wake-up".  A two-party protocol over one slot: the task's poll (register the waker, test for
   RxDone, go to sleep) against the receive side (store RxDone, take the waker and wake it), at the
   granularity of single shared-memory accesses, all interleavings.  The ORDER of the two steps on
   each side is a parameter; the order the code has is read off the sources on every run
   (Gen/WakeOrder.v).  Model, exhaustive exploration and theorems in one small file. *)
From EC Require Import Base.Prelude.
Local Open Scope N_scope.

Inductive ppc := PIdle | PStep1 | PStep2.     (* where the task is inside a poll *)
Inductive rpc := RWait | RStep1 | RStep2 | RDone.   (* where the receive side is *)

Record wstate := {
  w_done : bool;      (* slot status is RxDone *)
  w_waker : bool;     (* a waker is registered in the slot *)
  w_sched : bool;     (* the task has been woken / is scheduled to be polled *)
  w_ready : bool;     (* the task has got its response (poll returned Ready) *)
  w_saw : bool;       (* what the current poll's RxDone test saw *)
  w_p : ppc;
  w_r : rpc
}.

Definition winit : wstate :=
  {| w_done := false; w_waker := false; w_sched := true (* a new future is polled once *); w_ready := false;
     w_saw := false; w_p := PIdle; w_r := RWait |}.

Section Order.
  Variables (reg_first done_first : bool).

  (* the task: a poll starts only when it is scheduled; its two accesses in the given order; it
     returns Ready if the test saw RxDone, else goes to sleep *)
  Definition do_register (s : wstate) : wstate :=
    {| w_done := w_done s; w_waker := true; w_sched := w_sched s; w_ready := w_ready s; w_saw := w_saw s; w_p := w_p s; w_r := w_r s |}.
  Definition do_check (s : wstate) : wstate :=
    {| w_done := w_done s; w_waker := w_waker s; w_sched := w_sched s; w_ready := w_ready s; w_saw := w_done s; w_p := w_p s; w_r := w_r s |}.
  Definition set_p (s : wstate) (p : ppc) : wstate :=
    {| w_done := w_done s; w_waker := w_waker s; w_sched := w_sched s; w_ready := w_ready s; w_saw := w_saw s; w_p := p; w_r := w_r s |}.

  Definition task_step (s : wstate) : option wstate :=
    if w_ready s then None else
    match w_p s with
    | PIdle => if w_sched s
               then Some {| w_done := w_done s; w_waker := w_waker s; w_sched := false; w_ready := false; w_saw := false; w_p := PStep1; w_r := w_r s |}
               else None
    | PStep1 => Some (set_p (if reg_first then do_register s else do_check s) PStep2)
    | PStep2 => let s' := if reg_first then do_check s else do_register s in
                Some {| w_done := w_done s'; w_waker := w_waker s'; w_sched := w_sched s'; w_ready := w_saw s';
                        w_saw := w_saw s'; w_p := PIdle; w_r := w_r s' |}
    end.

  (* the receive side: the response arrives once; its two accesses in the given order *)
  Definition do_done (s : wstate) : wstate :=
    {| w_done := true; w_waker := w_waker s; w_sched := w_sched s; w_ready := w_ready s; w_saw := w_saw s; w_p := w_p s; w_r := w_r s |}.
  Definition do_wake (s : wstate) : wstate :=
    {| w_done := w_done s; w_waker := false; w_sched := w_sched s || w_waker s; w_ready := w_ready s; w_saw := w_saw s; w_p := w_p s; w_r := w_r s |}.
  Definition set_r (s : wstate) (r : rpc) : wstate :=
    {| w_done := w_done s; w_waker := w_waker s; w_sched := w_sched s; w_ready := w_ready s; w_saw := w_saw s; w_p := w_p s; w_r := r |}.

  Definition rx_step (s : wstate) : option wstate :=
    match w_r s with
    | RWait => Some (set_r s RStep1)                              (* the frame arrives *)
    | RStep1 => Some (set_r (if done_first then do_done s else do_wake s) RStep2)
    | RStep2 => Some (set_r (if done_first then do_wake s else do_done s) RDone)
    | RDone => None
    end.

  Definition succs (s : wstate) : list wstate :=
    (match task_step s with Some x => [x] | None => [] end) ++ (match rx_step s with Some x => [x] | None => [] end).

  (* lost wake-up: the response has been delivered, the task sleeps, nobody will ever poll it *)
  Definition stuck (s : wstate) : bool :=
    match w_r s, w_p s with
    | RDone, PIdle => negb (w_ready s) && negb (w_sched s)
    | _, _ => false
    end.

  Inductive reach : wstate -> Prop :=
  | reach0 : reach winit
  | reachS s s' : reach s -> In s' (succs s) -> reach s'.
End Order.

(* ---------- exhaustive exploration (the state space is finite: 2^5 * 3 * 4 states) ---------- *)
Definition b2n (b : bool) : N := if b then 1 else 0.
Definition code (s : wstate) : N :=
  b2n (w_done s) + 2 * b2n (w_waker s) + 4 * b2n (w_sched s) + 8 * b2n (w_ready s) + 16 * b2n (w_saw s) +
  32 * (match w_p s with PIdle => 0 | PStep1 => 1 | PStep2 => 2 end) +
  128 * (match w_r s with RWait => 0 | RStep1 => 1 | RStep2 => 2 | RDone => 3 end).

Definition all_states : list wstate :=
  flat_map (fun d => flat_map (fun w => flat_map (fun sc => flat_map (fun rd => flat_map (fun sw =>
  flat_map (fun p => map (fun r => {| w_done := d; w_waker := w; w_sched := sc; w_ready := rd; w_saw := sw; w_p := p; w_r := r |})
     [RWait; RStep1; RStep2; RDone]) [PIdle; PStep1; PStep2]) [false; true]) [false; true]) [false; true]) [false; true]) [false; true].

Definition ppc_eqb (a b : ppc) : bool := match a, b with PIdle, PIdle | PStep1, PStep1 | PStep2, PStep2 => true | _, _ => false end.
Definition rpc_eqb (a b : rpc) : bool := match a, b with RWait, RWait | RStep1, RStep1 | RStep2, RStep2 | RDone, RDone => true | _, _ => false end.
Definition weqb (s t : wstate) : bool :=
  Bool.eqb (w_done s) (w_done t) && Bool.eqb (w_waker s) (w_waker t) && Bool.eqb (w_sched s) (w_sched t) &&
  Bool.eqb (w_ready s) (w_ready t) && Bool.eqb (w_saw s) (w_saw t) && ppc_eqb (w_p s) (w_p t) && rpc_eqb (w_r s) (w_r t).
Definition memb (s : wstate) (l : list wstate) : bool := existsb (fun x => weqb x s) l.

(* states satisfying an inductive invariant given as a boolean *)
Definition inv_ok (rf df : bool) (inv : wstate -> bool) : bool :=
  inv winit &&
  forallb (fun s => negb (inv s) || forallb inv (succs rf df s)) all_states &&
  forallb (fun s => negb (inv s) || negb (stuck s)) all_states.

(* the invariant: the reachable set itself, computed by iterating the successor relation *)
Fixpoint explore (rf df : bool) (n : nat) (seen : list wstate) : list wstate :=
  match n with
  | O => seen
  | S k => let next := flat_map (succs rf df) seen in
           explore rf df k (fold_left (fun acc s => if memb s acc then acc else s :: acc) next seen)
  end.

Definition reachable_set (rf df : bool) : list wstate := explore rf df 12 [winit].
