From EC Require Import Base.Prelude Base.Bytes Base.BytesProofs Pdu.Frame.
Local Open Scope N_scope.

(* ---------- list surgery ---------- *)

Lemma splice_app {A} (a s b : list A) : splice (length a) s (a ++ b) = a ++ splice 0 s b.
Proof. induction a as [|x a IH]; cbn [length app splice]; [reflexivity|]. rewrite IH. reflexivity. Qed.

Lemma splice0_app {A} (s m b : list A) : length s = length m -> splice 0 s (m ++ b) = s ++ b.
Proof.
  revert m; induction s as [|x s IH]; intros [|y m] L; cbn [length] in L; try discriminate.
  - cbn. destruct b; reflexivity.
  - cbn [app splice]. rewrite IH by lia. reflexivity.
Qed.

Lemma splice_mid {A} (a s m b : list A) : length s = length m ->
  splice (length a) s (a ++ m ++ b) = a ++ s ++ b.
Proof. intros L. rewrite splice_app, splice0_app by auto. reflexivity. Qed.

Lemma zeros_split n k : (k <= n)%nat -> zeros n = zeros k ++ zeros (n - k).
Proof. intros H. unfold zeros. rewrite <- repeat_app. f_equal. lia. Qed.

Lemma slice_mid {A} (a m b : list A) :
  slice (length a) (length a + length m) (a ++ m ++ b) = m.
Proof.
  unfold slice. replace (length a + length m - length a)%nat with (length m) by lia.
  rewrite skipn_app, skipn_all, Nat.sub_diag. cbn [skipn app].
  rewrite firstn_app, firstn_all, Nat.sub_diag. cbn [firstn]. apply app_nil_r.
Qed.

Lemma land_mask x : x < 2048 -> N.land x len_mask = x.
Proof.
  intros H. unfold len_mask. change 2047 with (N.ones 11). rewrite N.land_ones.
  apply N.mod_small. exact H.
Qed.

(* ---------- well-formedness of what is pushed ---------- *)

Definition wf_command (c : command) : Prop := length (craw c) = 4%nat.

Definition wf_dgram (d : dgram) : Prop :=
  wf_command (dcmd d) /\ (length (ddata d) <= dlen d)%nat /\ (dlen d < 2048)%nat.

Lemma enc_length more d : wf_dgram d -> length (enc more d) = (dlen d + 12)%nat.
Proof.
  intros (C & L & _). unfold enc. repeat rewrite app_length. cbn [length].
  rewrite le_bytes_length, zeros_length, C. lia.
Qed.

Fixpoint enc_init (ds : list dgram) : list N :=   (* all with the more-follows flag *)
  match ds with [] => [] | d :: r => enc true d ++ enc_init r end.

Lemma enc_all_snoc ds d : enc_all (ds ++ [d]) = enc_init ds ++ enc false d.
Proof.
  induction ds as [|x r IH]; [reflexivity|].
  cbn [app enc_init]. rewrite <- app_assoc, <- IH.
  destruct (r ++ [d]) eqn:E; [destruct r; discriminate|]. reflexivity.
Qed.

Lemma enc_init_snoc ds d : enc_init (ds ++ [d]) = enc_init ds ++ enc true d.
Proof. induction ds as [|x r IH]; cbn [app enc_init]; [apply app_nil_r|]. rewrite IH, app_assoc. reflexivity. Qed.

(* the two encodings of one datagram differ only in the flag word *)
Definition enc_head (d : dgram) : list N := [ccode (dcmd d); didx d] ++ craw (dcmd d).
Definition enc_tail (d : dgram) : list N :=
  [0; 0] ++ ddata d ++ zeros (dlen d - length (ddata d)) ++ [0; 0].

Lemma enc_split more d :
  enc more d = enc_head d ++ le_bytes 2 (N.of_nat (dlen d) + (if more then 32768 else 0)) ++ enc_tail d.
Proof. unfold enc, enc_head, enc_tail. repeat rewrite <- app_assoc. reflexivity. Qed.

Lemma enc_head_length d : wf_command (dcmd d) -> length (enc_head d) = 6%nat.
Proof. intros C. unfold enc_head. rewrite app_length, C. reflexivity. Qed.

(* ---------- the frame invariant ---------- *)

Record Inv (room : nat) (st : fstate) (ds : list dgram) : Prop := {
  inv_room : length (fbuf st) = room;
  inv_used : fused st = length (enc_all ds);
  inv_fit : (fused st <= room)%nat;
  inv_buf : fbuf st = enc_all ds ++ zeros (room - fused st);
  inv_count : fcount st = length ds;
  inv_last : flast st = match ds with
                        | [] => None
                        | _ => Some (length (enc_init (removelast ds)))
                        end;
  inv_wf : Forall wf_dgram ds
}.

Lemma inv_init cap : Inv (cap - eth_overhead) (finit cap) [].
Proof.
  constructor; cbn; auto; try lia.
  - apply zeros_length.
  - rewrite Nat.sub_0_r. reflexivity.
Qed.

Lemma removelast_snoc {A} (l : list A) x : removelast (l ++ [x]) = l.
Proof. apply removelast_last. Qed.

Lemma flags_false len : (len < 2048)%nat -> flags_word len false = N.of_nat len.
Proof.
  intros H. unfold flags_word. rewrite N.mod_small by lia. rewrite land_mask by lia. lia.
Qed.

(* writing one more datagram *)
Lemma write_pdu_inv room st ds c idx data len :
  Inv room st ds -> wf_command c -> (length data <= len)%nat ->
  (fused st + len + pdu_overhead <= room)%nat -> (room < 2048)%nat ->
  let d := {| dcmd := c; didx := idx; ddata := data; dlen := len |} in
  let '(st', iif, a) := write_pdu st c idx data len in
  Inv room st' (ds ++ [d]) /\ iif = length ds /\ a = (len + pdu_overhead)%nat.
Proof.
  intros I C L F R d. unfold write_pdu.
  assert (Wd : wf_dgram d) by (repeat split; cbn; auto; unfold pdu_overhead in *; lia).
  destruct I as [Iroom Iused Ifit Ibuf Icount Ilast Iwf].
  set (start := fused st) in *.
  set (alloc := (len + pdu_overhead)%nat).
  (* step 1: header (flag clear) + data into the zero area *)
  assert (E1 : splice start (header_bytes c idx len false ++ data) (fbuf st)
               = enc_all ds ++ enc false d ++ zeros (room - start - alloc)).
  { rewrite Ibuf. rewrite Iused at 1. rewrite splice_app. f_equal.
    rewrite (zeros_split (room - start) alloc) by (subst alloc; lia).
    assert (Hz : zeros alloc = zeros (10 + length data) ++ zeros (len - length data) ++ zeros 2).
    { unfold zeros. rewrite <- !repeat_app. f_equal. subst alloc. unfold pdu_overhead. lia. }
    rewrite Hz. rewrite <- !app_assoc.
    rewrite splice0_app.
    - unfold header_bytes, enc, d. cbn [dcmd didx ddata dlen]. rewrite flags_false by lia.
      rewrite N.add_0_r. repeat rewrite <- app_assoc. cbn [app]. reflexivity.
    - unfold header_bytes. repeat rewrite app_length. cbn [length].
      rewrite le_bytes_length, zeros_length, C. lia. }
  rewrite E1. unfold patch_more. rewrite Ilast.
  destruct ds as [|d0 ds0] eqn:Eds.
  - (* first datagram *)
    cbn [app enc_all]. split; [|split; [rewrite Icount; reflexivity|reflexivity]].
    assert (Hs0 : start = 0%nat) by (subst start; rewrite Iused; reflexivity).
    constructor; cbn [fbuf fused fcount flast app length].
    + rewrite app_length, zeros_length, (enc_length false d Wd). cbn [dlen d].
      subst alloc. unfold pdu_overhead in *. lia.
    + cbn [enc_all]. rewrite (enc_length false d Wd). cbn [dlen d]. subst alloc. unfold pdu_overhead. lia.
    + subst alloc. unfold pdu_overhead in *. lia.
    + cbn [enc_all]. f_equal. f_equal. subst alloc. lia.
    + rewrite Icount. reflexivity.
    + reflexivity.
    + constructor; auto.
  - (* patch the previous datagram's flag *)
    rewrite <- Eds in *.
    destruct (exists_last (l := ds) ltac:(rewrite Eds; discriminate)) as (pre & l & El).
    rewrite El in *. rewrite removelast_snoc.
    assert (Wl : wf_dgram l).
    { rewrite Forall_forall in Iwf. apply Iwf. apply in_or_app. right. left. reflexivity. }
    destruct Wl as (Cl & Ll & Bl).
    rewrite enc_all_snoc.
    set (P := enc_init pre).
    set (rest := enc false d ++ zeros (room - start - alloc)).
    assert (Shape : (P ++ enc false l) ++ rest
              = (P ++ enc_head l) ++ le_bytes 2 (N.of_nat (dlen l)) ++ (enc_tail l ++ rest)).
    { rewrite (enc_split false l). rewrite N.add_0_r. repeat rewrite <- app_assoc. reflexivity. }
    replace ((P ++ enc false l) ++ enc false d ++ zeros (room - start - alloc))
      with ((P ++ enc false l) ++ rest) by reflexivity.
    rewrite Shape.
    assert (Lh : length (P ++ enc_head l) = (length P + 6)%nat).
    { rewrite app_length, enc_head_length by auto. reflexivity. }
    replace (length P + 6)%nat with (length (P ++ enc_head l)) by exact Lh.
    replace (length P + 8)%nat with (length (P ++ enc_head l) + length (le_bytes 2 (N.of_nat (dlen l))))%nat
      by (rewrite Lh, le_bytes_length; lia).
    rewrite slice_mid.
    rewrite of_le_le_bytes by (change (256 ^ N.of_nat 2) with 65536; lia).
    rewrite (land_mask (N.of_nat (dlen l))) by lia.
    assert (Hc : N.land (N.shiftr (N.of_nat (dlen l)) 14) 1 = 0).
    { rewrite N.shiftr_div_pow2. rewrite N.div_small by (change (2^14) with 16384; lia). reflexivity. }
    rewrite Hc. rewrite (land_mask (N.of_nat (dlen l))) by lia. rewrite N.mul_0_l, N.add_0_r.
    rewrite splice_mid by (rewrite !le_bytes_length; reflexivity).
    split; [|split; [rewrite Icount, app_length; cbn; lia | reflexivity]].
    assert (Efinal : (P ++ enc_head l) ++ le_bytes 2 (N.of_nat (dlen l) + 32768) ++ enc_tail l ++ rest
                     = enc_all ((pre ++ [l]) ++ [d]) ++ zeros (room - start - alloc)).
    { rewrite enc_all_snoc, enc_init_snoc. rewrite (enc_split true l).
      subst rest P. repeat rewrite <- app_assoc. reflexivity. }
    rewrite Efinal.
    constructor; cbn [fbuf fused fcount flast].
    + rewrite app_length, zeros_length. rewrite enc_all_snoc, app_length, (enc_length false d Wd).
      cbn [dlen d]. rewrite enc_init_snoc. fold P.
      assert (Hs : start = length (P ++ enc false l)).
      { subst start. rewrite Iused, enc_all_snoc. reflexivity. }
      rewrite app_length in Hs. rewrite (enc_length false l) in Hs by (repeat split; auto).
      rewrite app_length, (enc_length true l) by (repeat split; auto).
      subst alloc. unfold pdu_overhead in *. lia.
    + rewrite enc_all_snoc, app_length, (enc_length false d Wd). cbn [dlen d].
      rewrite enc_init_snoc. fold P. rewrite app_length, (enc_length true l) by (repeat split; auto).
      assert (Hs : start = length (P ++ enc false l)).
      { subst start. rewrite Iused, enc_all_snoc. reflexivity. }
      rewrite app_length in Hs. rewrite (enc_length false l) in Hs by (repeat split; auto).
      subst alloc. unfold pdu_overhead. lia.
    + subst alloc. unfold pdu_overhead in *. lia.
    + f_equal. f_equal. subst alloc. lia.
    + rewrite Icount. rewrite !app_length. cbn. lia.
    + destruct ((pre ++ [l]) ++ [d]) eqn:E3; [destruct pre; discriminate|].
      rewrite <- E3. rewrite removelast_snoc. rewrite enc_init_snoc. fold P.
      rewrite app_length, (enc_length true l) by (repeat split; auto).
      f_equal.
      assert (Hs : start = length (P ++ enc false l)).
      { subst start. rewrite Iused, enc_all_snoc. reflexivity. }
      rewrite app_length in Hs. rewrite (enc_length false l) in Hs by (repeat split; auto). lia.
    + apply Forall_app. split; auto.
Qed.

(* ---------- programs ---------- *)

Definition wf_push (p : push) : Prop :=
  match p with
  | PPdu c d _ => wf_command c
  | PRest c b => wf_command c
  end.

Lemma step_inv room st pidx ds p :
  Inv room st ds -> wf_push p -> (room < 2048)%nat ->
  let '((st', pidx'), r) := step (st, pidx) p in
  Inv room st' (ds ++ accepted [p] [r]).
Proof.
  intros I W R. unfold step. destruct p as [c d o | c b]; cbn [wf_push] in W.
  - unfold push_pdu.
    set (len := match o with None => length d | Some l => Nat.max l (length d) end).
    assert (Ld : (length d <= len)%nat) by (subst len; destruct o; lia).
    destruct (length (fbuf st) <? fused st + (len + pdu_overhead))%nat eqn:E.
    + cbn [accepted]. rewrite app_nil_r. exact I.
    + pose proof (write_pdu_inv room st ds c pidx d len I W Ld) as H.
      rewrite (inv_room _ _ _ I) in E.
      specialize (H ltac:(lia) R). cbv zeta in H.
      destruct (write_pdu st c pidx d len) as [[st' iif] a].
      destruct H as (H1 & H2 & H3). cbn [accepted]. subst a.
      replace (len + pdu_overhead - pdu_overhead)%nat with len by lia. exact H1.
  - unfold push_rest. destruct b as [|b0 br] eqn:Eb.
    + cbn [accepted]. rewrite app_nil_r. exact I.
    + rewrite <- Eb.
      set (mx := (length (fbuf st) - fused st - pdu_overhead)%nat).
      destruct (mx =? 0)%nat eqn:E.
      * cbn [accepted]. rewrite app_nil_r. exact I.
      * set (n := Nat.min mx (length b)).
        assert (Ln : (length (firstn n b) <= n)%nat) by (rewrite firstn_length; lia).
        pose proof (write_pdu_inv room st ds c pidx (firstn n b) n I W Ln) as H.
        pose proof (inv_room _ _ _ I) as Hroom. pose proof (inv_fit _ _ _ I) as Hfit.
        apply Nat.eqb_neq in E.
        specialize (H ltac:(subst n mx; lia) R). cbv zeta in H.
        destruct (write_pdu st c pidx (firstn n b) n) as [[st' iif] a].
        destruct H as (H1 & H2 & H3). cbn [accepted]. exact H1.
Qed.

Lemma accepted_cons p r prog rs : accepted (p :: prog) (r :: rs) = accepted [p] [r] ++ accepted prog rs.
Proof. destruct p, r; cbn [accepted app]; reflexivity. Qed.

Lemma run_inv room prog : forall st pidx ds,
  Inv room st ds -> Forall wf_push prog -> (room < 2048)%nat ->
  let '((st', _), rs) := run (st, pidx) prog in
  Inv room st' (ds ++ accepted prog rs) /\ length rs = length prog.
Proof.
  induction prog as [|p r IH]; intros st pidx ds I W R.
  - cbn [run accepted]. rewrite app_nil_r. auto.
  - inversion W as [|? ? Wp Wr]; subst. cbn [run].
    pose proof (step_inv room st pidx ds p I Wp R) as S.
    destruct (step (st, pidx) p) as [[st1 pidx1] res].
    specialize (IH st1 pidx1 _ S Wr R).
    destruct (run (st1, pidx1) r) as [[st2 pidx2] rs].
    destruct IH as [IH1 IH2]. rewrite accepted_cons, app_assoc. split; auto. cbn. lia.
Qed.

Lemma ecat_header_small used : (used < 2048)%nat ->
  ecat_header used = le_bytes 2 (N.of_nat used + 4096).
Proof.
  intros H. unfold ecat_header. rewrite N.mod_small by lia. rewrite land_mask by lia. reflexivity.
Qed.

Lemma as_bytes_inv room st ds : Inv room st ds -> (room < 2048)%nat ->
  as_bytes st = spec_frame ds.
Proof.
  intros I R. unfold as_bytes, spec_frame.
  pose proof (inv_fit _ _ _ I). rewrite ecat_header_small by lia.
  rewrite (inv_buf _ _ _ I), (inv_used _ _ _ I). rewrite firstn_app, firstn_all, Nat.sub_diag.
  cbn [firstn]. rewrite app_nil_r. reflexivity.
Qed.

(* ---------- the property theorems ---------- *)

Theorem frame_bytes cap idx0 prog :
  (28 <= cap <= 2063)%nat -> Forall wf_push prog ->
  let '((st, _), rs) := run (finit cap, idx0) prog in
  as_bytes st = spec_frame (accepted prog rs) /\
  (length (as_bytes st) <= cap)%nat /\
  Forall wf_dgram (accepted prog rs) /\ length rs = length prog.
Proof.
  intros C W.
  pose proof (run_inv (cap - eth_overhead) prog (finit cap) idx0 [] (inv_init cap) W
                ltac:(unfold eth_overhead; lia)) as H.
  destruct (run (finit cap, idx0) prog) as [[st pidx] rs].
  destruct H as [I Lrs]. cbn [app] in I.
  split; [apply (as_bytes_inv _ _ _ I); unfold eth_overhead; lia|].
  split; [|split; [exact (inv_wf _ _ _ I)|exact Lrs]].
  unfold as_bytes. repeat rewrite app_length. cbn [length bcast src_mac ethertype_bytes].
  unfold ecat_header. rewrite le_bytes_length, firstn_length.
  pose proof (inv_fit _ _ _ I). pose proof (inv_room _ _ _ I). unfold eth_overhead in *. lia.
Qed.

(* a datagram that does not fit is refused and leaves the frame untouched (the index is spent) *)
Theorem push_refused st pidx c d o :
  let len := match o with None => length d | Some l => Nat.max l (length d) end in
  (length (fbuf st) < fused st + len + pdu_overhead)%nat ->
  push_pdu st pidx c d o = (st, PushTooLong, (pidx + 1) mod 256).
Proof.
  intros len H. unfold push_pdu. fold len.
  replace (length (fbuf st) <? fused st + (len + pdu_overhead))%nat with true by lia. reflexivity.
Qed.

(* fill-the-rest: exactly the bytes that fit, reported as such; nothing for no input or no room *)
Theorem push_rest_spec st pidx c b :
  let room := (length (fbuf st) - fused st - pdu_overhead)%nat in
  (b = [] \/ room = 0%nat -> push_rest st pidx c b = (st, RestNone, pidx)) /\
  (b <> [] -> room <> 0%nat ->
     exists st' iif a, push_rest st pidx c b =
        (st', RestSome (Nat.min room (length b)) pidx iif a, (pidx + 1) mod 256)).
Proof.
  intros room. split.
  - intros [-> | H]; [reflexivity|]. unfold push_rest. destruct b; [reflexivity|].
    fold room. rewrite H. reflexivity.
  - intros Hb Hr. unfold push_rest. destruct b as [|b0 br]; [congruence|].
    fold room. replace (room =? 0)%nat with false by lia.
    destruct (write_pdu st c pidx (firstn (Nat.min room (length (b0 :: br))) (b0 :: br))
                (Nat.min room (length (b0 :: br)))) as [[st' iif] a].
    eauto.
Qed.

(* mk_command always yields four address bytes *)
Lemma mk_command_wf k a r : wf_command (mk_command k a r).
Proof. unfold wf_command, mk_command. destruct k; cbn [craw]; try reflexivity; apply le_bytes_length. Qed.

(* auto-increment addressing: the address field is the two's complement of the position *)
Lemma mk_command_autoinc a r : a < 65536 -> r < 65536 ->
  craw (mk_command CAprd a r) = le_bytes 2 ((65536 - a) mod 65536) ++ le_bytes 2 r.
Proof.
  intros Ha Hr. unfold mk_command. cbn [craw].
  rewrite !N.mod_small with (a := a) by lia. rewrite N.mod_small with (a := r) by lia.
  set (x := (65536 - a) mod 65536). assert (x < 65536) by (subst x; apply N.mod_lt; lia).
  rewrite N.mod_small by (change (2^32) with 4294967296; lia).
  cbn [le_bytes]. 
  assert (E1 : (r * 65536 + x) mod 256 = x mod 256).
  { replace (r * 65536 + x) with (x + (r * 256) * 256) by lia. apply N.mod_add. lia. }
  assert (E2 : (r * 65536 + x) / 256 = r * 256 + x / 256).
  { replace (r * 65536 + x) with (x + (r * 256) * 256) by lia. rewrite N.div_add by lia. lia. }
  assert (E3 : (r * 256 + x / 256) mod 256 = (x / 256) mod 256).
  { replace (r * 256 + x / 256) with (x / 256 + r * 256) by lia. apply N.mod_add. lia. }
  assert (E4 : (r * 256 + x / 256) / 256 = r).
  { replace (r * 256 + x / 256) with (x / 256 + r * 256) by lia. rewrite N.div_add by lia.
    rewrite (N.div_small (x / 256)); [lia|]. apply N.div_lt_upper_bound; lia. }
  rewrite E1, E2, E3, E4. reflexivity.
Qed.
