(* Client view of the PDU loop at operation granularity: which typestate handle the application
   side holds for each slot, and the histories C03 quantifies over.  TX is one atomic operation
   here (claim + send outcome); abandonment while TX/RX is inside a buffer is the C06 window and
   is not part of this alphabet. *)
From EC Require Import Base.Prelude Base.Bytes Pdu.Frame Pdu.Slots.
Local Open Scope N_scope.

Inductive hk := HNone | HCreated | HFut | HReceived.

Inductive cop :=
| CAlloc
| CPush (i : nat) (c : command) (d : list N) (o : option nat)
| CPushRest (i : nat) (c : command) (b : list N)
| CMark (i : nat)
| CDropCreated (i : nat)
| CTxSend (outcome : N)                      (* next_sendable_frame + send_blocking *)
| CRx (bytes : list N)
| CPoll (i : nat) (expired : bool) (retries : nat)
| CDropFut (i : nat)
| CDropReceived (i : nat).

Definition hget (h : list hk) (i : nat) : hk := nth i h HNone.

Definition hk_eqb (a b : hk) : bool :=
  match a, b with
  | HNone, HNone | HCreated, HCreated | HFut, HFut | HReceived, HReceived => true
  | _, _ => false
  end.

(* one client step; None = the client does not hold the handle the operation needs *)
Definition cstep (sh : pstate * list hk) (o : cop) : option (pstate * list hk) :=
  let '(s, h) := sh in
  match o with
  | CAlloc =>
    let '(s', r) := alloc s in
    Some (s', match r with Some i => upd i HCreated h | None => h end)
  | CPush i c d ov =>
    if hk_eqb (hget h i) HCreated then Some (fst (op_push s i c d ov), h) else None
  | CPushRest i c b =>
    if hk_eqb (hget h i) HCreated then Some (fst (op_push_rest s i c b), h) else None
  | CMark i =>
    if hk_eqb (hget h i) HCreated then Some (op_mark s i, upd i HFut h) else None
  | CDropCreated i =>
    if hk_eqb (hget h i) HCreated then Some (op_drop_created s i, upd i HNone h) else None
  | CTxSend oc =>
    let '(s1, r) := op_tx_claim s in
    Some (match r with Some i => op_tx_done s1 i oc | None => s1 end, h)
  | CRx bytes => Some (fst (op_rx s bytes), h)
  | CPoll i ex rt =>
    if hk_eqb (hget h i) HFut then
      let '(s', r, _) := op_poll s i ex rt in
      Some (s', match r with
                | PollReady => upd i HReceived h
                | PollPending => h
                | PollErr _ => upd i HNone h      (* the future has completed with an error *)
                end)
    else None
  | CDropFut i =>
    if hk_eqb (hget h i) HFut then Some (op_drop_fut s i, upd i HNone h) else None
  | CDropReceived i =>
    if hk_eqb (hget h i) HReceived then
      match op_drop_received s i with
      | Ok s' => Some (s', upd i HNone h)
      | _ => None
      end
    else None
  end.

Fixpoint crun (sh : pstate * list hk) (ops : list cop) : option (pstate * list hk) :=
  match ops with
  | [] => Some sh
  | o :: r => match cstep sh o with Some sh' => crun sh' r | None => None end
  end.

(* letting go of every handle, slot by slot *)
Definition drop_handle (sh : pstate * list hk) (i : nat) : pstate * list hk :=
  let '(s, h) := sh in
  match hget h i with
  | HNone => (s, h)
  | HCreated => (op_drop_created s i, upd i HNone h)
  | HFut => (op_drop_fut s i, upd i HNone h)
  | HReceived => match op_drop_received s i with Ok s' => (s', upd i HNone h) | _ => (s, h) end
  end.

Definition drop_all (sh : pstate * list hk) : pstate * list hk :=
  fold_left drop_handle (seq 0 (length (snd sh))) sh.

(* k consecutive allocations: how many succeeded *)
Fixpoint alloc_many (s : pstate) (k : nat) : pstate * nat :=
  match k with
  | O => (s, O)
  | S k' => let '(s1, r) := alloc s in
            let '(s2, m) := alloc_many s1 k' in
            (s2, match r with Some _ => S m | None => m end)
  end.

Definition live (h : list hk) : nat := length (filter (fun x => negb (hk_eqb x HNone)) h).
