From EC Require Import Base.Prelude Pdu.IdxAlloc.
Local Open Scope N_scope.

Definition idle (s : astate) : Prop := Forall (fun th => pc th = 0%nat) (threads s).

Lemma Forall_firstn' {A} (P : A -> Prop) k : forall l, Forall P l -> Forall P (firstn k l).
Proof. induction k as [|k IH]; intros [|x l] H; cbn; try constructor; inversion H; subst; auto. Qed.
Lemma Forall_skipn' {A} (P : A -> Prop) k : forall l, Forall P l -> Forall P (skipn k l).
Proof. induction k as [|k IH]; intros [|x l] H; cbn; auto. inversion H; subst; auto. Qed.

Lemma set_thread_idle ts t x : Forall (fun th => pc th = 0%nat) ts -> pc x = 0%nat ->
  Forall (fun th => pc th = 0%nat) (set_thread ts t x).
Proof.
  intros H Hx. unfold set_thread. apply (proj2 (Forall_app _ _ _)). split.
  - apply Forall_firstn'. exact H.
  - apply Forall_cons; [exact Hx|]. apply Forall_skipn'. exact H.
Qed.

Definition handed (c0 : N) (k : nat) : list N := map (fun i => (c0 + N.of_nat i) mod 256) (seq 0 k).

Lemma handed_snoc c0 k : handed c0 (S k) = handed c0 k ++ [(c0 + N.of_nat k) mod 256].
Proof. unfold handed. rewrite seq_S, map_app. reflexivity. Qed.

(* the atomic program: whatever the schedule, every step of every thread completes one call, and
   the indices handed out are c0, c0+1, c0+2, ... in the order the calls were made *)
Lemma atomic_run sched : forall s c0 k, idle s -> c0 < 256 ->
  ctr s = (c0 + N.of_nat k) mod 256 -> results s = handed c0 k ->
  let s' := arun [PFetchAdd] sched s in
  exists k', (k <= k')%nat /\ (k' <= k + length sched)%nat /\ idle s' /\
             ctr s' = (c0 + N.of_nat k') mod 256 /\ results s' = handed c0 k' /\
             length (threads s') = length (threads s).
Proof.
  induction sched as [|t r IH]; intros s c0 k Hi Hc Hctr Hres; cbn [arun fold_left].
  - exists k. repeat split; auto; lia.
  - unfold arun in IH.
    assert (Hstep : exists k1, (k <= k1 <= S k)%nat /\ idle (astep [PFetchAdd] s t) /\
              ctr (astep [PFetchAdd] s t) = (c0 + N.of_nat k1) mod 256 /\
              results (astep [PFetchAdd] s t) = handed c0 k1 /\
              length (threads (astep [PFetchAdd] s t)) = length (threads s)).
    { unfold astep. destruct (nth_error (threads s) t) as [th|] eqn:Et.
      2:{ exists k. repeat split; auto; lia. }
      assert (Hp : pc th = 0%nat).
      { unfold idle in Hi. rewrite Forall_forall in Hi. apply Hi. eapply nth_error_In; exact Et. }
      rewrite Hp. cbn [nth_error length Nat.ltb Nat.leb].
      exists (S k). repeat split; try lia.
      - unfold idle. cbn [threads]. apply set_thread_idle; [exact Hi|reflexivity].
      - cbn [ctr]. rewrite Hctr. rewrite Nat2N.inj_succ.
        rewrite N.add_mod_idemp_l by discriminate. f_equal. lia.
      - cbn [results]. rewrite Hres, handed_snoc, Hctr. reflexivity.
      - cbn [threads]. unfold set_thread. rewrite app_length. cbn [length]. rewrite firstn_length, skipn_length.
        assert (t < length (threads s))%nat by (apply nth_error_Some; congruence). lia. }
    destruct Hstep as (k1 & Hk1 & Hi1 & Hc1 & Hr1 & Hl1).
    destruct (IH _ c0 k1 Hi1 Hc Hc1 Hr1) as (k' & A & B & C & D & E & F).
    exists k'. repeat split; auto; try lia. cbn [length]. lia.
Qed.

Lemma NoDup_map_in {A B} (f : A -> B) l :
  (forall x y, In x l -> In y l -> f x = f y -> x = y) -> NoDup l -> NoDup (map f l).
Proof.
  induction l as [|a l IH]; intros Hinj Hn; cbn [map]; [constructor|].
  inversion Hn as [|? ? Ha Hl]; subst. constructor.
  - intros Hin. apply in_map_iff in Hin as (y & Hy & Hyl). apply Ha.
    rewrite (Hinj a y); [exact Hyl|left; reflexivity|right; exact Hyl|symmetry; exact Hy].
  - apply IH; [|exact Hl]. intros x y Hx Hy. apply Hinj; right; assumption.
Qed.

Lemma handed_nodup c0 k : (k <= 256)%nat -> NoDup (handed c0 k).
Proof.
  intros Hk. unfold handed. apply NoDup_map_in; [|apply seq_NoDup].
  intros i j Hi Hj H. apply in_seq in Hi, Hj.
  pose proof (N.div_mod (c0 + N.of_nat i) 256 ltac:(discriminate)) as Di.
  pose proof (N.div_mod (c0 + N.of_nat j) 256 ltac:(discriminate)) as Dj.
  pose proof (N.mod_lt (c0 + N.of_nat i) 256 ltac:(discriminate)).
  pose proof (N.mod_lt (c0 + N.of_nat j) 256 ltac:(discriminate)).
  rewrite H in Di. 
  set (qi := (c0 + N.of_nat i) / 256) in *. set (qj := (c0 + N.of_nat j) / 256) in *.
  set (m := (c0 + N.of_nat j) mod 256) in *.
  assert (qi = qj) by nia. nia.
Qed.

(* Atomic allocation: under EVERY schedule of any number of threads, fewer than 257 calls never
   hand out the same index twice (the indices in flight at any time are a sub-list of those) *)
Theorem atomic_distinct c0 n sched : c0 < 256 -> (length sched <= 256)%nat ->
  NoDup (results (arun [PFetchAdd] sched (ainit c0 n))).
Proof.
  intros Hc Hl.
  destruct (atomic_run sched (ainit c0 n) c0 0) as (k' & A & B & C & D & E & F); auto.
  - unfold idle, ainit. cbn [threads]. apply Forall_forall. intros x Hx. apply repeat_spec in Hx. subst x. reflexivity.
  - cbn [ainit ctr]. rewrite N.add_0_r, N.mod_small by exact Hc. reflexivity.
  - rewrite E. apply handed_nodup. lia.
Qed.

(* The split version (load, then store) is refuted: two threads that both load before either
   stores are handed the same index. *)
Theorem split_duplicates :
  results (arun [PLoad; PStore] [0; 1; 0; 1]%nat (ainit 7 2)) = [7; 7].
Proof. vm_compute. reflexivity. Qed.

Theorem split_not_distinct : ~ (forall c0 n sched, c0 < 256 -> (length sched <= 256)%nat ->
  NoDup (results (arun [PLoad; PStore] sched (ainit c0 n)))).
Proof.
  intros H. specialize (H 7 2%nat [0; 1; 0; 1]%nat ltac:(lia) ltac:(cbn; lia)).
  rewrite split_duplicates in H. inversion H as [|x l Hn Hd]; subst. apply Hn. left; reflexivity.
Qed.
