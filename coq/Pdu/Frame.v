(* Model of frame construction: CreatedFrame::{push_pdu, push_pdu_slice_rest, mark_sendable},
   FrameBox::init, SendableFrame::as_bytes, Command packing (src/pdu_loop/frame_element/
   created_frame.rs, frame_box.rs, sendable_frame.rs, frame_header.rs, pdu_flags.rs,
   command/mod.rs).  No proofs here. *)
From EC Require Import Base.Prelude Base.Bytes.
Local Open Scope N_scope.

(* a command as it reaches push_pdu: code + the 4 raw address bytes *)
Record command := { ccode : N; craw : list N }.

Inductive cmd_kind := CNop | CAprd | CFprd | CBrd | CLrd | CBwr | CApwr | CFpwr | CFrmw | CLwr | CLrw.

Definition code_of (k : cmd_kind) : N :=
  match k with
  | CNop => 0 | CAprd => 1 | CApwr => 2 | CFprd => 4 | CFpwr => 5 | CBrd => 7 | CBwr => 8
  | CLrd => 10 | CLwr => 11 | CLrw => 12 | CFrmw => 14
  end.

(* Command::{aprd, fprd, ...} constructors followed by Command::pack.  [a] is the 16-bit address
   (ring position for auto-increment commands), [r] the register; for logical commands [a] is the
   32-bit logical address. *)
Definition mk_command (k : cmd_kind) (a r : N) : command :=
  let addr16 :=
    match k with
    | CAprd | CApwr => (65536 - a mod 65536) mod 65536      (* 0u16.wrapping_sub(address) *)
    | CBrd | CBwr => 0
    | _ => a mod 65536
    end in
  {| ccode := code_of k;
     craw := match k with
             | CNop => [0; 0; 0; 0]
             | CLrd | CLwr | CLrw => le_bytes 4 (a mod 2 ^ 32)
             | _ => le_bytes 4 (((r mod 65536) * 65536 + addr16) mod 2 ^ 32)
             end |}.

Record fstate := {
  fbuf : list N;            (* PDU area of the slot: DATA - 16 bytes *)
  fused : nat;              (* pdu_payload_len *)
  fcount : nat;             (* pdu_count *)
  flast : option nat        (* last_header_location *)
}.

Definition eth_overhead : nat := 16.   (* 14 byte Ethernet II header + 2 byte EtherCAT header *)
Definition pdu_overhead : nat := 12.   (* 10 byte datagram header + 2 byte working counter *)

(* alloc_frame -> claim_created -> FrameBox::init: payload zero-filled *)
Definition finit (cap : nat) : fstate :=
  {| fbuf := zeros (cap - eth_overhead); fused := 0; fcount := 0; flast := None |}.

Definition len_mask : N := 2047.

(* PduFlags::pack: length & LEN_MASK | circulated << 14 | more_follows << 15 *)
Definition flags_word (len : nat) (more : bool) : N :=
  N.land (N.of_nat len mod 65536) len_mask + (if more then 32768 else 0).

Definition header_bytes (c : command) (idx : N) (len : nat) (more : bool) : list N :=
  [ccode c; idx] ++ craw c ++ le_bytes 2 (flags_word len more) ++ [0; 0].

Inductive push_result :=
| PushOk (idx : N) (index_in_frame : nat) (alloc : nat)
| PushTooLong
| RestNone
| RestSome (n : nat) (idx : N) (index_in_frame : nat) (alloc : nat).

(* the more-follows back-patch shared by both push functions *)
Definition patch_more (buf : list N) (last : option nat) (start : nat) : list N * option nat :=
  match last with
  | Some loc =>
    (* unpack PduFlags at loc+6, set more_follows, pack again *)
    let w := of_le (slice (loc + 6) (loc + 8) buf) in
    let len := N.land w len_mask in
    let circ := N.land (N.shiftr w 14) 1 in
    let w' := N.land len len_mask + circ * 16384 + 32768 in
    (splice (loc + 6) (le_bytes 2 w') buf, Some start)
  | None => (buf, Some 0%nat)
  end.

Definition write_pdu (st : fstate) (c : command) (idx : N) (data : list N) (len : nat)
  : fstate * nat * nat :=
  let start := fused st in
  let alloc := (len + pdu_overhead)%nat in
  let buf1 := splice start (header_bytes c idx len false ++ data) (fbuf st) in
  let '(buf2, last') := patch_more buf1 (flast st) start in
  ({| fbuf := buf2; fused := (start + alloc)%nat; fcount := S (fcount st); flast := last' |},
   fcount st, alloc).

(* push_pdu: returns the new state, the result and the next PDU index.  The index is consumed
   before the bounds check. *)
Definition push_pdu (st : fstate) (pidx : N) (c : command) (data : list N) (ovr : option nat)
  : fstate * push_result * N :=
  let len := match ovr with None => length data | Some l => Nat.max l (length data) end in
  let alloc := (len + pdu_overhead)%nat in
  let pidx' := (pidx + 1) mod 256 in
  if (length (fbuf st) <? fused st + alloc)%nat then (st, PushTooLong, pidx')
  else
    let '(st', iif, a) := write_pdu st c pidx data len in
    (st', PushOk pidx iif a, pidx').

Definition push_rest (st : fstate) (pidx : N) (c : command) (bytes : list N)
  : fstate * push_result * N :=
  match bytes with
  | [] => (st, RestNone, pidx)
  | _ =>
    let max_bytes := (length (fbuf st) - fused st - pdu_overhead)%nat in
    if (max_bytes =? 0)%nat then (st, RestNone, pidx)
    else
      let n := Nat.min max_bytes (length bytes) in
      let pidx' := (pidx + 1) mod 256 in
      let '(st', iif, a) := write_pdu st c pidx (firstn n bytes) n in
      (st', RestSome n pidx iif a, pidx')
  end.

Definition can_push (st : fstate) (packed_len : nat) : bool :=
  (fused st + packed_len + pdu_overhead <=? length (fbuf st))%nat.

Definition bcast : list N := [255; 255; 255; 255; 255; 255].
Definition src_mac : list N := [16; 16; 16; 16; 16; 16].
Definition ethertype_bytes : list N := [136; 164].      (* 0x88A4 big endian *)

(* EthercatFrameHeader::pdu(len).pack : len & 0x7ff | 1 << 12 *)
Definition ecat_header (used : nat) : list N :=
  le_bytes 2 (N.land (N.of_nat used mod 65536) len_mask + 4096).

(* mark_sendable + SendableFrame::as_bytes *)
Definition as_bytes (st : fstate) : list N :=
  bcast ++ src_mac ++ ethertype_bytes ++ ecat_header (fused st) ++ firstn (fused st) (fbuf st).

(* a push program *)
Inductive push :=
| PPdu (c : command) (data : list N) (ovr : option nat)
| PRest (c : command) (bytes : list N).

Definition step (s : fstate * N) (p : push) : (fstate * N) * push_result :=
  let '(st, pidx) := s in
  match p with
  | PPdu c d o => let '(st', r, i') := push_pdu st pidx c d o in ((st', i'), r)
  | PRest c b => let '(st', r, i') := push_rest st pidx c b in ((st', i'), r)
  end.

Fixpoint run (s : fstate * N) (prog : list push) : (fstate * N) * list push_result :=
  match prog with
  | [] => (s, [])
  | p :: r => let '(s', res) := step s p in
              let '(s'', rs) := run s' r in (s'', res :: rs)
  end.

(* ---------- specification side: an independent datagram encoder (ETG.1000.4 5.4) ---------- *)

Record dgram := { dcmd : command; didx : N; ddata : list N; dlen : nat }.

Definition enc (more : bool) (d : dgram) : list N :=
  [ccode (dcmd d); didx d] ++ craw (dcmd d) ++
  le_bytes 2 (N.of_nat (dlen d) + (if more then 32768 else 0)) ++ [0; 0] ++
  ddata d ++ zeros (dlen d - length (ddata d)) ++ [0; 0].

Fixpoint enc_all (ds : list dgram) : list N :=
  match ds with
  | [] => []
  | [d] => enc false d
  | d :: r => enc true d ++ enc_all r
  end.

Definition spec_frame (ds : list dgram) : list N :=
  let body := enc_all ds in
  bcast ++ src_mac ++ ethertype_bytes ++ le_bytes 2 (N.of_nat (length body) + 4096) ++ body.

(* the datagrams a program's accepted pushes ask for *)
Fixpoint accepted (prog : list push) (rs : list push_result) : list dgram :=
  match prog, rs with
  | PPdu c d o :: pr, PushOk idx _ a :: rr =>
    {| dcmd := c; didx := idx; ddata := d; dlen := (a - pdu_overhead)%nat |} :: accepted pr rr
  | PRest c b :: pr, RestSome n idx _ _ :: rr =>
    {| dcmd := c; didx := idx; ddata := firstn n b; dlen := n |} :: accepted pr rr
  | _ :: pr, _ :: rr => accepted pr rr
  | _, _ => []
  end.

(* ---------- observation vector for the correspondence check ---------- *)
Definition obs_result (r : push_result) : list Z :=
  match r with
  | PushOk idx iif a => [1; Z.of_N idx; Z.of_nat iif; Z.of_nat a]%Z
  | PushTooLong => [2]%Z
  | RestNone => [3]%Z
  | RestSome n idx iif a => [4; Z.of_nat n; Z.of_N idx; Z.of_nat iif; Z.of_nat a]%Z
  end.

Definition obs_run (cap : nat) (idx0 : N) (prog : list push) : list Z :=
  let '((st, _), rs) := run (finit cap, idx0) prog in
  (concat (map obs_result rs) ++ [-7] ++ map Z.of_N (as_bytes st))%Z.
