(* C06, the safety clause outside the three windows, as a theorem over the window-granular
   alphabet of Pdu/Own2.v (whose guards exclude exactly: expiry / abandonment while the transmit or
   the receive side is inside the buffer).  Deadlines DO act here - between the poll's failed test
   and its stores, with any retry budget, also when a response has arrived in between (the third
   window only costs the response, not safety). *)
From EC Require Import Base.Prelude Base.Bytes Base.BytesProofs Pdu.Frame Pdu.Slots Pdu.View Pdu.Hist Pdu.SlotsProofs
  Pdu.Client Pdu.ClientProofs Pdu.Own2 Pdu.Own2Proofs.
Local Open Scope N_scope.

(* the slot is never lost: whenever nobody holds a handle for it, it is free again *)
Theorem slot_not_lost n cap ops x : In n pow2s -> xrun (xinit n cap) ops = Some x ->
  forall i, (i < nslots (xs x))%nat -> hget (xh x) i = HNone ->
  sst (get (xs x) i) = SNone /\ tx_in x i = false /\ rx_in x i = false.
Proof.
  intros I R i Hi Hh. pose proof (xrun_inv ops _ _ (xinit_inv n cap I) R) as Inv.
  pose proof (i2_ok x Inv i Hi) as Ok. rewrite Hh in Ok. exact Ok.
Qed.

(* ... so a new request can be allocated unless every slot has a live handle *)
Theorem alloc_unless_all_held n cap ops x : In n pow2s -> xrun (xinit n cap) ops = Some x ->
  (snd (alloc (xs x)) = None -> forall i, (i < nslots (xs x))%nat -> hget (xh x) i <> HNone).
Proof.
  intros I R Hn i Hi Hh. pose proof (xrun_inv ops _ _ (xinit_inv n cap I) R) as Inv.
  destruct (slot_not_lost n cap ops x I R i Hi Hh) as [St _].
  pose proof (proj1 (alloc_fails_iff_full (xs x) (i2_wf x Inv)) Hn i Hi) as X. contradiction.
Qed.

(* the transmit and receive tasks are never broken: a frame the transmit side holds is in Sending
   until the transmit side itself moves it on; the receive side's slot is RxBusy until it is done *)
Theorem tasks_not_broken n cap ops x : In n pow2s -> xrun (xinit n cap) ops = Some x ->
  forall i, (i < nslots (xs x))%nat ->
  (tx_in x i = true -> sst (get (xs x) i) = SSending /\ hget (xh x) i = HFut) /\
  (rx_in x i = true -> sst (get (xs x) i) = SRxBusy /\ hget (xh x) i = HFut).
Proof.
  intros I R i Hi. pose proof (xrun_inv ops _ _ (xinit_inv n cap I) R) as Inv.
  pose proof (i2_ok x Inv i Hi) as Ok. unfold slot_ok in Ok.
  destruct (hget (xh x) i) eqn:Hh.
  - destruct Ok as (S & T & Rx). split; intros X; rewrite X in *; discriminate.
  - destruct Ok as (S & T & Rx). split; intros X; rewrite X in *; discriminate.
  - destruct Ok as [(T & Rx & S) | [(T & Rx & S) | (T & Rx & S)]]; split; intros X; rewrite X in *; try discriminate; auto.
  - destruct Ok as (S & T & Rx). split; intros X; rewrite X in *; discriminate.
Qed.
