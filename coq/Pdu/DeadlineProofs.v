From EC Require Import Base.Prelude Base.Bytes Base.BytesProofs Pdu.Frame Pdu.Slots Pdu.SlotsProofs Pdu.Client Pdu.ClientProofs Pdu.Deadline.
Local Open Scope N_scope.

(* a response that has been received wins over the deadline, whatever the timer says *)
Theorem done_wins s i ex rt : sst (get s i) = SRxDone ->
  op_poll s i ex rt = (set_st s i SRxProcessing, PollReady, rt).
Proof. intros H. unfold op_poll, cas. rewrite H. reflexivity. Qed.

(* the future only ever completes successfully from RxDone *)
Theorem ready_only_from_done s i ex rt s' rt' :
  op_poll s i ex rt = (s', PollReady, rt') -> sst (get s i) = SRxDone.
Proof.
  unfold op_poll, cas. destruct (sst (get s i) =? SRxDone) eqn:E; [intros _; apply N.eqb_eq; exact E|].
  destruct ex; [destruct rt|];
    repeat match goal with |- context [if ?c then _ else _] => destruct c end; intros H; inversion H.
Qed.

(* RxDone is only ever produced by an accepted response *)
Theorem done_only_from_rx s bytes s' r k : wf_pstate s ->
  op_rx s bytes = (s', r) -> sst (get s' k) = SRxDone -> sst (get s k) <> SRxDone -> r = RxProcessed.
Proof.
  intros W E D N. destruct r; auto.
  - assert (s' = s) by (eapply rx_reject_pure; eauto; discriminate). subst. contradiction.
  - assert (s' = s) by (eapply rx_reject_pure; eauto; discriminate). subst. contradiction.
Qed.

(* ---------- the transmission count ---------- *)

Lemma tx_scan_first n : forall s i0 i, (i0 <= i)%nat -> (i < i0 + n)%nat ->
  sst (get s i) = SSendable -> (forall j, (i0 <= j < i)%nat -> sst (get s j) <> SSendable) ->
  tx_scan s i0 n = (set_st s i SSending, Some i).
Proof.
  induction n as [|n IH]; intros s i0 i L1 L2 H Hj; [lia|]. cbn [tx_scan].
  destruct (Nat.eq_dec i0 i) as [->|Ne].
  - unfold cas. rewrite H, N.eqb_refl. reflexivity.
  - unfold cas. assert (Hn : sst (get s i0) <> SSendable) by (apply Hj; lia).
    apply N.eqb_neq in Hn. rewrite Hn. apply IH; auto; try lia. intros j Hjj. apply Hj. lia.
Qed.

Definition only_sendable (s : pstate) (i : nat) : Prop :=
  (i < nslots s)%nat /\ sst (get s i) = SSendable /\
  forall j, (j < i)%nat -> sst (get s j) <> SSendable.

Lemma frame_bytes_set_st s i st j : frame_bytes (set_st s i st) j = frame_bytes s j.
Proof.
  unfold frame_bytes, set_st. destruct (Nat.ltb_spec i (nslots s)) as [H|H].
  - destruct (Nat.eq_dec j i) as [->|N]; [rewrite get_set_eq by exact H|rewrite get_set_ne by exact N]; reflexivity.
  - rewrite set_oob by exact H. reflexivity.
Qed.

(* one round of the lost-response scenario *)
Lemma lost_round s i rt : only_sendable s i ->
  let s1 := set_st s i SSending in
  let s2 := set_st s1 i SSent in
  op_tx_claim s = (s1, Some i) /\ op_tx_done s1 i 0 = s2 /\
  frame_bytes s1 i = frame_bytes s i /\
  op_poll s2 i true rt =
    match rt with
    | O => (set_st (op_drop_clear s2 i) i SNone, PollErr ETimeout, O)
    | S r => (set_st s2 i SSendable, PollPending, r)
    end.
Proof.
  intros (Hi & Hs & Hj). cbv zeta. split; [|split; [|split]].
  - unfold op_tx_claim. apply tx_scan_first; auto; try lia. intros j Hjj. apply Hj. lia.
  - reflexivity.
  - apply frame_bytes_set_st.
  - unfold op_poll, cas.
    rewrite sst_set_st by (rewrite nslots_set_st; exact Hi). rewrite Nat.eqb_refl.
    cbn. destruct rt; reflexivity.
Qed.

Lemma only_sendable_again s i : only_sendable s i ->
  only_sendable (set_st (set_st (set_st s i SSending) i SSent) i SSendable) i.
Proof.
  intros (Hi & Hs & Hj). repeat split.
  - rewrite !nslots_set_st. exact Hi.
  - rewrite sst_set_st by (rewrite !nslots_set_st; exact Hi). rewrite Nat.eqb_refl. reflexivity.
  - intros j Hjj. rewrite !sst_set_st by (rewrite ?nslots_set_st; exact Hi).
    assert (E : Nat.eqb j i = false) by (apply Nat.eqb_neq; lia). rewrite E. apply Hj. exact Hjj.
Qed.

Lemma frame_bytes_round s i :
  frame_bytes (set_st (set_st (set_st s i SSending) i SSent) i SSendable) i = frame_bytes s i.
Proof. rewrite !frame_bytes_set_st. reflexivity. Qed.

Lemma lost_run_S s i retries f : lost_run s i retries (S f) =
    let '(s1, r) := op_tx_claim s in
    match r with
    | Some k =>
      if Nat.eqb k i then
        let b := frame_bytes s1 i in
        let s2 := op_tx_done s1 i 0 in
        let '(s3, pr, rt) := op_poll s2 i true retries in
        match pr with
        | PollPending => let '(bs, fin, s4) := lost_run s3 i rt f in (b :: bs, fin, s4)
        | _ => ([b], Some pr, s3)
        end
      else ([], None, s1)
    | None => ([], None, s1)
    end.
Proof. reflexivity. Qed.

(* With R retries and no response, the frame is transmitted exactly R+1 times, every
   transmission byte-identical, and the future resolves to the PDU timeout. *)
Theorem lost_response_count R : forall s i, only_sendable s i ->
  let '(txs, fin, s') := lost_run s i R (S R) in
  txs = repeat (frame_bytes s i) (S R) /\ fin = Some (PollErr ETimeout) /\
  sst (get s' i) = SNone.
Proof.
  induction R as [|R IH]; intros s i O.
  - rewrite lost_run_S. destruct (lost_round s i 0 O) as (A & B & C & D). cbv zeta in *.
    rewrite A, Nat.eqb_refl, B, D, C. repeat split; auto.
    destruct O as (Hi & _). rewrite sst_clear_set by (rewrite !nslots_set_st; exact Hi).
    rewrite Nat.eqb_refl. reflexivity.
  - rewrite lost_run_S. destruct (lost_round s i (S R) O) as (A & B & C & D). cbv zeta in *.
    rewrite A, Nat.eqb_refl, B, D, C.
    specialize (IH _ i (only_sendable_again s i O)).
    destruct (lost_run _ i R (S R)) as [[bs fin] s4]. destruct IH as (E1 & E2 & E3).
    rewrite frame_bytes_round in E1. subst bs. repeat split; auto.
Qed.

(* Retry-forever (any budget that outlasts the observation): after k deadlines exactly k
   transmissions have happened, all identical, and the request is still pending. *)
Theorem lost_response_forever k : forall R s i, (k <= R)%nat -> only_sendable s i ->
  let '(txs, fin, s') := lost_run s i R k in
  txs = repeat (frame_bytes s i) k /\ fin = None /\ only_sendable s' i.
Proof.
  induction k as [|k IH]; intros R s i L O; [cbn; auto|].
  destruct R as [|R]; [lia|]. rewrite lost_run_S.
  destruct (lost_round s i (S R) O) as (A & B & C & D). cbv zeta in *.
  rewrite A, Nat.eqb_refl, B, D, C.
  specialize (IH R _ i ltac:(lia) (only_sendable_again s i O)).
  destruct (lost_run _ i R k) as [[bs fin] s4]. destruct IH as (E1 & E2 & E3).
  rewrite frame_bytes_round in E1. subst bs. split; [reflexivity|]. split; [exact E2|exact E3].
Qed.
