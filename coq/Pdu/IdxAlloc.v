(* C20/C01: taking the next PDU index from the counter all tasks share (FrameBox::next_pdu_idx,
   src/pdu_loop/frame_element/frame_box.rs).  The routine is a short program of atomic primitives
   on the shared counter; threads run it concurrently under an arbitrary schedule.  The program
   itself is read off the source by the translator (Gen/IdxProgram.v).  No proofs here. *)
From EC Require Import Base.Prelude.
Local Open Scope N_scope.

Inductive prim :=
| PFetchAdd      (* reg := ctr; ctr := ctr + 1 (wrapping u8), one atomic step *)
| PLoad          (* reg := ctr *)
| PStore.        (* ctr := reg + 1 (wrapping u8) *)

Record thread := { pc : nat; reg : N }.
Record astate := { ctr : N; threads : list thread; results : list N (* indices handed out, oldest first *) }.

Definition set_thread (ts : list thread) (t : nat) (x : thread) : list thread :=
  firstn t ts ++ x :: skipn (S t) ts.

(* thread t executes its next primitive; a call that has executed the whole program returns its
   register and the thread is ready for its next call *)
Definition astep (prog : list prim) (s : astate) (t : nat) : astate :=
  match nth_error (threads s) t with
  | None => s
  | Some th =>
    match nth_error prog (pc th) with
    | None => s
    | Some p =>
      let '(c', r') := match p with
                       | PFetchAdd => ((ctr s + 1) mod 256, ctr s)
                       | PLoad => (ctr s, ctr s)
                       | PStore => ((reg th + 1) mod 256, reg th)
                       end in
      if (S (pc th) <? length prog)%nat
      then {| ctr := c'; threads := set_thread (threads s) t {| pc := S (pc th); reg := r' |}; results := results s |}
      else {| ctr := c'; threads := set_thread (threads s) t {| pc := 0; reg := r' |}; results := results s ++ [r'] |}
    end
  end.

Definition arun (prog : list prim) (sched : list nat) (s : astate) : astate := fold_left (astep prog) sched s.

Definition ainit (c0 : N) (n : nat) : astate := {| ctr := c0; threads := repeat {| pc := 0; reg := 0 |} n; results := [] |}.

(* search for a failing schedule (used by the check when the proof no longer applies): all
   schedules of two threads of a given length; a schedule fails when an index was handed out twice *)
Fixpoint scheds (n : nat) : list (list nat) :=
  match n with
  | O => [[]]
  | S k => flat_map (fun s => [0%nat :: s; 1%nat :: s]) (scheds k)
  end.
Fixpoint has_dup (l : list N) : bool :=
  match l with [] => false | x :: r => existsb (N.eqb x) r || has_dup r end.
Definition find_dup (prog : list prim) (depth : nat) : option (list nat) :=
  find (fun s => has_dup (results (arun prog s (ainit 0 2)))) (scheds depth).
