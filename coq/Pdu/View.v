(* Reading a response: ReceivedFrame::first_pdu, ReceivedPduIter::next, ReceivedPdu::{trim_front,
   deref} (src/pdu_loop/frame_element/received_frame.rs).  A view is an (offset, length) window
   into the slot's datagram area plus the working counter copied out at creation. *)
From EC Require Import Base.Prelude Base.Bytes Pdu.Frame Pdu.Slots.
Local Open Scope N_scope.

Record view := { vstart : nat; vlen : nat; vwkc : N }.

(* Deref: the bytes the caller sees through the view, read from the slot memory as it is NOW *)
Definition view_bytes (buf : list N) (v : view) : list N := firstn (vlen v) (skipn (vstart v) buf).

(* does the window stay inside the buffer? (reading outside is an out-of-bounds memory read) *)
Definition view_in_bounds (buf : list N) (v : view) : bool := (vstart v + vlen v <=? length buf)%nat.

Definition trim_front (v : view) (ct : nat) : view :=
  let c := Nat.min ct (vlen v) in
  {| vstart := (vstart v + c)%nat; vlen := (vlen v - c)%nat; vwkc := vwkc v |}.

Record pdu_hdr := { hcode : N; hidx : N; hlen : nat; hmore : bool }.

(* PduHeader::unpack_from_slice on the bytes from [pos] on *)
Definition parse_hdr (b : list N) : option pdu_hdr :=
  if (length b <? 10)%nat then None else
  let w := of_le (slice 6 8 b) in
  Some {| hcode := nth 0 b 0; hidx := nth 1 b 0;
          hlen := N.to_nat (N.land w len_mask);
          hmore := N.testbit w 15 |}.

(* u16 working counter read at [b.get(at..)] *)
Definition read_wkc (b : list N) (at_ : nat) : res perror N :=
  if (length b <? at_)%nat then Err EInternal
  else let t := skipn at_ b in
       if (length t <? 2)%nat then Err EWireShort else Ok (of_le (firstn 2 t)).

Definition first_pdu (buf : list N) (code idx : N) : res perror view :=
  match parse_hdr buf with
  | None => Err EWireShort
  | Some h =>
    if (length buf <? hlen h + 2)%nat then Err ETooLong
    else if negb (hcode h =? code) then Err EDecode
    else if negb (hidx h =? idx) then Err (EInvalidIndex (hidx h))
    else
      let? w := read_wkc buf (10 + hlen h) in
      Ok {| vstart := 10; vlen := hlen h; vwkc := w |}
  end.

(* one step of the iterator: None = iteration over *)
Definition iter_next (used : nat) (buf : list N) (pos : option nat)
  : option (res perror view * option nat) :=
  if (used =? 0)%nat then None else
  match pos with
  | None => None                                   (* buf_pos = usize::MAX *)
  | Some p =>
    if (length buf <? p)%nat then None else
    let b := skipn p buf in
    match parse_hdr b with
    | None => Some (Err EWireShort, pos)
    | Some h =>
      if (length b <? hlen h + 2)%nat then Some (Err ETooLong, pos)
      else
        match read_wkc b (10 + hlen h) with
        | Ok w =>
          Some (Ok {| vstart := (p + 10)%nat; vlen := hlen h; vwkc := w |},
                if hmore h then Some (p + 10 + hlen h + 2)%nat else None)
        | Err e => Some (Err e, pos)
        | _ => None
        end
    end
  end.

Fixpoint iter_all (fuel used : nat) (buf : list N) (pos : option nat) : list (res perror view) :=
  match fuel with
  | O => []
  | S f =>
    match iter_next used buf pos with
    | None => []
    | Some (r, pos') =>
      (* callers stop at the first error (`pdu?`); the iterator itself would not advance *)
      match r with
      | Ok _ => r :: iter_all f used buf pos'
      | _ => [r]
      end
    end
  end.
