(* C06: the lost-response scenario as an executable function over the slot model.  The transmit
   task services the frame before every deadline; the response never arrives. *)
From EC Require Import Base.Prelude Base.Bytes Pdu.Frame Pdu.Slots.
Local Open Scope N_scope.

(* returns the transmitted frames and how the future ended (None = still pending when the
   observation stops) *)
Fixpoint lost_run (s : pstate) (i : nat) (retries : nat) (rounds : nat)
  : list (list N) * option poll_result * pstate :=
  match rounds with
  | O => ([], None, s)
  | S f =>
    let '(s1, r) := op_tx_claim s in
    match r with
    | Some k =>
      if Nat.eqb k i then
        let b := frame_bytes s1 i in
        let s2 := op_tx_done s1 i 0 in
        let '(s3, pr, rt) := op_poll s2 i true retries in
        match pr with
        | PollPending => let '(bs, fin, s4) := lost_run s3 i rt f in (b :: bs, fin, s4)
        | _ => ([b], Some pr, s3)
        end
      else ([], None, s1)
    | None => ([], None, s1)
    end
  end.
