From EC Require Import Base.Prelude Base.Bytes Base.BytesProofs Pdu.Frame Pdu.Slots.
Local Open Scope N_scope.

(* ---------- get / set algebra ---------- *)

Lemma nslots_set s i x : nslots (set s i x) = nslots s.
Proof. unfold nslots, set. cbn. apply upd_length. Qed.

Lemma get_set_eq s i x : (i < nslots s)%nat -> get (set s i x) i = x.
Proof. intros H. unfold get, set. cbn. apply nth_upd_eq. exact H. Qed.

Lemma get_set_ne s i j x : j <> i -> get (set s i x) j = get s j.
Proof. intros H. unfold get, set. cbn. apply nth_upd_ne. exact H. Qed.

Lemma cap_set s i x : cap (set s i x) = cap s.
Proof. reflexivity. Qed.

Lemma upd_same {A} (l : list A) i d : (i < length l)%nat -> upd i (nth i l d) l = l.
Proof.
  revert i; induction l as [|a l IH]; intros [|i] H; cbn in *; try lia; auto.
  f_equal. apply IH. lia.
Qed.

Lemma set_get_same s i : (i < nslots s)%nat ->
  set s i (get s i) = s.
Proof.
  intros H. unfold set, get. destruct s as [sl f p c]. cbn in *. f_equal. apply upd_same. exact H.
Qed.

Lemma cas_some s i from to s' : cas s i from to = Some s' ->
  sst (get s i) = from /\ s' = set_st s i to.
Proof.
  unfold cas. destruct (sst (get s i) =? from) eqn:E; [|discriminate].
  intros H; inversion H; subst. apply N.eqb_eq in E. auto.
Qed.

Lemma cas_none s i from to : cas s i from to = None -> sst (get s i) <> from.
Proof.
  unfold cas. destruct (sst (get s i) =? from) eqn:E; [discriminate|].
  intros _. apply N.eqb_neq in E. exact E.
Qed.

Lemma find_key_bound l k : forall i j, find_key l k i = Some j -> (i <= j < i + length l)%nat.
Proof.
  induction l as [|x r IH]; intros i j H; cbn in *; [discriminate|].
  destruct (skey x =? k); [inversion H; lia|]. apply IH in H. lia.
Qed.

Lemma find_key_spec l k d : forall i j, find_key l k i = Some j ->
  skey (nth (j - i) l d) = k /\ forall m, (m < j - i)%nat -> skey (nth m l d) <> k.
Proof.
  induction l as [|x r IH]; intros i j H; cbn [find_key] in H; [discriminate|].
  destruct (skey x =? k) eqn:E.
  - inversion H; subst. rewrite Nat.sub_diag. cbn. apply N.eqb_eq in E. split; auto. intros; lia.
  - pose proof (find_key_bound _ _ _ _ H) as B. apply IH in H as [H1 H2].
    replace (j - i)%nat with (S (j - S i)) by lia. cbn [nth]. split; auto.
    intros [|m] Hm; cbn [nth]; [apply N.eqb_neq; exact E|]. apply H2. lia.
Qed.

Lemma find_key_none l k d : forall i, find_key l k i = None ->
  forall m, (m < length l)%nat -> skey (nth m l d) <> k.
Proof.
  induction l as [|x r IH]; intros i H m Hm; cbn in *; [lia|].
  destruct (skey x =? k) eqn:E; [discriminate|].
  destruct m; [apply N.eqb_neq; exact E|]. eapply IH; eauto. lia.
Qed.

(* ---------- well-formed storage ---------- *)

Definition wf_pstate (s : pstate) : Prop :=
  forall i, (i < nslots s)%nat -> length (fbuf (sfr (get s i))) = (cap s - eth_overhead)%nat.

(* ---------- C05: the receive path ---------- *)

Ltac head_if H :=
  match type of H with
  | (if ?c then _ else _) = _ => let E := fresh "E" in destruct c eqn:E; [try discriminate H|]
  end.

Definition first_index (bytes : list N) : N := nth 17 bytes 0.

(* everything that makes receive_frame give up before looking at a slot *)
Lemma rx_parse_inr s bytes k i :
  rx_parse s bytes = inr (k, i) ->
  (k < nslots s)%nat /\ skey (get s k) = nth 1 i 0 /\
  (forall m, (m < k)%nat -> skey (get s m) <> nth 1 i 0) /\
  (14 <= length bytes)%nat /\ (2 <= length i)%nat.
Proof.
  unfold rx_parse. intros H. cbv zeta in H.
  head_if H. head_if H. head_if H. head_if H. head_if H. head_if H.
  match type of H with match ?t with _ => _ end = _ =>
    destruct t as [|b0 [|idx rest]] eqn:Ei; try discriminate end.
  destruct (find_key (slots s) idx 0) as [j|] eqn:F; [|discriminate].
  inversion H; subst k i. clear H.
  pose proof (find_key_bound _ _ _ _ F) as B.
  destruct (find_key_spec _ _ (slot0 (cap s)) _ _ F) as [S1 S2].
  rewrite Nat.sub_0_r in S1, S2. cbn [nth].
  apply Nat.ltb_ge in E. repeat split; auto; try (unfold nslots; lia). cbn [length]; lia.
Qed.

Lemma rx_parse_inl s bytes r : rx_parse s bytes = inl r -> r <> RxProcessed.
Proof.
  unfold rx_parse. intros H. cbv zeta in H.
  repeat (match type of H with
          | (if ?c then _ else _) = _ => destruct c
          | match ?t with _ => _ end = _ => destruct t
          end; try (inversion H; subst; discriminate)).
Qed.

Theorem rx_ignored s bytes :
  (14 <= length bytes)%nat ->
  nth 12 bytes 0 * 256 + nth 13 bytes 0 <> 34980 \/ slice 6 12 bytes = src_mac ->
  op_rx s bytes = (s, RxIgnored).
Proof.
  intros L H. unfold op_rx, rx_parse.
  replace (length bytes <? 14)%nat with false by lia.
  assert (E : negb (nth 12 bytes 0 * 256 + nth 13 bytes 0 =? 34980)
              || (if list_eq_dec N.eq_dec (slice 6 12 bytes) src_mac then true else false) = true).
  { destruct H as [H | H].
    - apply N.eqb_neq in H. rewrite H. reflexivity.
    - destruct (list_eq_dec N.eq_dec (slice 6 12 bytes) src_mac); [apply orb_true_r|contradiction]. }
  rewrite E. reflexivity.
Qed.

Theorem rx_reject_pure s bytes s' r :
  wf_pstate s -> op_rx s bytes = (s', r) -> r <> RxProcessed -> s' = s.
Proof.
  intros W H NR. unfold op_rx in H.
  destruct (rx_parse s bytes) as [r0 | [k i]] eqn:P.
  - inversion H; reflexivity.
  - destruct (rx_parse_inr _ _ _ _ P) as (Hk & _).
    destruct (cap s - eth_overhead <? length i)%nat eqn:Sz; [inversion H; reflexivity|].
    destruct (cas s k SSent SRxBusy) as [s1|] eqn:C; [|inversion H; reflexivity].
    apply cas_some in C as [C1 C2]. subst s1.
    assert (Hlen : length (fbuf (sfr (get (set_st s k SRxBusy) k))) = (cap s - eth_overhead)%nat).
    { unfold set_st. rewrite get_set_eq by exact Hk. cbn. apply W. exact Hk. }
    rewrite Hlen in H. rewrite Sz in H.
    match type of H with context [cas ?s2 k SRxBusy SRxDone] => destruct (cas s2 k SRxBusy SRxDone) eqn:C3 end.
    + inversion H; subst. congruence.
    + exfalso. apply cas_none in C3. apply C3.
      rewrite get_set_eq by (unfold set_st; rewrite nslots_set; exact Hk).
      cbn [sst]. unfold set_st. rewrite get_set_eq by exact Hk. reflexivity.
Qed.

Theorem rx_accept_local s bytes s' :
  wf_pstate s -> op_rx s bytes = (s', RxProcessed) ->
  exists k i, (k < nslots s)%nat /\
    sst (get s k) = SSent /\ skey (get s k) = nth 1 i 0 /\
    (forall m, (m < k)%nat -> skey (get s m) <> nth 1 i 0) /\
    (length i <= cap s - eth_overhead)%nat /\
    sst (get s' k) = SRxDone /\ skey (get s' k) = skey (get s k) /\
    fbuf (sfr (get s' k)) = splice 0 i (fbuf (sfr (get s k))) /\
    fused (sfr (get s' k)) = fused (sfr (get s k)) /\
    (forall j, j <> k -> get s' j = get s j) /\ nslots s' = nslots s /\
    fidx s' = fidx s /\ pidx s' = pidx s.
Proof.
  intros W H. unfold op_rx in H.
  destruct (rx_parse s bytes) as [r0 | [k i]] eqn:P;
    [inversion H; subst; exfalso; eapply rx_parse_inl; eauto|].
  destruct (rx_parse_inr _ _ _ _ P) as (Hk & Hkey & Hfirst & _ & _).
  destruct (cap s - eth_overhead <? length i)%nat eqn:Sz; [inversion H|].
  destruct (cas s k SSent SRxBusy) as [s1|] eqn:C; [|inversion H].
  apply cas_some in C as [C1 C2]. subst s1.
  assert (Hlen : length (fbuf (sfr (get (set_st s k SRxBusy) k))) = (cap s - eth_overhead)%nat).
  { unfold set_st. rewrite get_set_eq by exact Hk. cbn. apply W. exact Hk. }
  rewrite Hlen, Sz in H.
  match type of H with context [cas ?s2 k SRxBusy SRxDone] => destruct (cas s2 k SRxBusy SRxDone) as [s3|] eqn:C3 end;
    [|inversion H].
  inversion H; subst s3; clear H.
  apply cas_some in C3 as [_ C3]. subst s'.
  exists k, i. unfold set_st.
  assert (Hk1 : (k < nslots (set s k {| sst := SRxBusy; skey := skey (get s k); sfr := sfr (get s k); shdr := shdr (get s k) |}))%nat)
    by (rewrite nslots_set; exact Hk).
  repeat rewrite get_set_eq; try (repeat rewrite nslots_set; exact Hk).
  cbn [sst skey sfr fbuf fused].
  repeat split; auto; try lia.
  - intros j Hj. repeat rewrite get_set_ne by exact Hj. reflexivity.
  - repeat rewrite nslots_set. reflexivity.
Qed.

(* a frame whose first datagram index matches no request awaiting a response is never accepted *)
Theorem rx_stranger s bytes :
  wf_pstate s ->
  (forall k, (k < nslots s)%nat -> skey (get s k) = first_index bytes -> sst (get s k) <> SSent) ->
  snd (op_rx s bytes) <> RxProcessed.
Proof.
  intros W Hno Hp.
  destruct (op_rx s bytes) as [s' r] eqn:E. cbn in Hp. subst r.
  destruct (rx_accept_local _ _ _ W E) as (k & i & Hk & Hst & Hkey & _).
  (* the index the lookup used is byte 17 of the frame *)
  unfold op_rx in E. destruct (rx_parse s bytes) as [r0|[k' i']] eqn:P;
    [inversion E; subst; exfalso; eapply rx_parse_inl; eauto|].
  assert (Hi : nth 1 i' 0 = first_index bytes).
  { clear - P. unfold rx_parse in P. cbv zeta in P.
    head_if P. head_if P. head_if P. head_if P. head_if P. head_if P.
    set (plen := N.to_nat (N.land (of_le (firstn 2 (skipn 14 bytes))) len_mask)) in *.
    destruct (firstn plen (skipn 2 (skipn 14 bytes))) as [|b0 [|idx rest]] eqn:Ei; try discriminate.
    destruct (find_key (slots s) idx 0); [|discriminate]. inversion P; subst. cbn [nth].
    unfold first_index.
    assert (N1 : nth 1 (firstn plen (skipn 2 (skipn 14 bytes))) 0 = idx) by (rewrite Ei; reflexivity).
    rewrite <- N1. rewrite skipn_skipn_add. cbn [Nat.add].
    assert (plen >= 2)%nat.
    { pose proof (firstn_le_length plen (skipn 2 (skipn 14 bytes))) as Lf.
      rewrite Ei in Lf. cbn [length] in Lf. lia. }
    rewrite nth_firstn_lt by lia. rewrite nth_skipn_add. reflexivity. }
  (* the model reached the accept branch with (k', i') *)
  assert (k' = k /\ nth 1 i' 0 = nth 1 i 0) as [-> Hidx].
  { destruct (rx_parse_inr _ _ _ _ P) as (Hk' & Hkey' & Hfirst' & _).
    destruct (cap s - eth_overhead <? length i')%nat; [inversion E|].
    destruct (cas s k' SSent SRxBusy) as [s1|] eqn:C; [|inversion E].
    apply cas_some in C as [C1 _].
    exfalso. apply (Hno k' Hk'); [rewrite Hkey', Hi; reflexivity | exact C1]. }
  apply (Hno k Hk); [rewrite Hkey, <- Hidx, Hi; reflexivity | exact Hst].
Qed.
