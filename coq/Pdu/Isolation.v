(* C20 (PDU-loop part): every operation touches the slot it is entitled to and no other.  A task
   holds its request's slot from alloc to the drop of the response; the other parties' operations
   - other tasks on their own handles, allocation, the transmit side, the receive side - leave
   that slot exactly as it is.  Built on the operation-level model Pdu/Slots.v + Pdu/Client.v. *)
From EC Require Import Base.Prelude Base.Bytes Base.BytesProofs Pdu.Frame Pdu.FrameProofs Pdu.Slots Pdu.SlotsProofs Pdu.Client Pdu.ClientProofs.
Local Open Scope N_scope.

Definition slot_of (o : cop) : option nat :=
  match o with
  | CPush i _ _ _ | CPushRest i _ _ | CMark i | CDropCreated i | CPoll i _ _ | CDropFut i | CDropReceived i => Some i
  | CAlloc | CTxSend _ | CRx _ => None
  end.

Lemma get_counters s f p j : get {| slots := slots s; fidx := f; pidx := p; cap := cap s |} j = get s j.
Proof. reflexivity. Qed.

Lemma get_set_st_ne s i st j : j <> i -> get (set_st s i st) j = get s j.
Proof. intros H. unfold set_st. apply get_set_ne. exact H. Qed.

Lemma get_drop_clear_ne s i j : j <> i -> get (op_drop_clear s i) j = get s j.
Proof. intros H. unfold op_drop_clear. apply get_set_ne. exact H. Qed.

Lemma get_with_fr_ne s i fr k j : j <> i -> get (with_fr s i fr k) j = get s j.
Proof. intros H. unfold with_fr. apply get_set_ne. exact H. Qed.

Lemma get_drop_created_ne s i j : j <> i -> get (op_drop_created s i) j = get s j.
Proof.
  intros H. unfold op_drop_created. destruct (sst (get s i) =? SCreated); [|reflexivity].
  rewrite get_set_st_ne, get_drop_clear_ne by exact H. reflexivity.
Qed.

(* an operation on a handle changes that handle's slot only *)
Theorem own_slot_only s h o s' h' i :
  cstep (s, h) o = Some (s', h') -> slot_of o = Some i ->
  forall j, j <> i -> get s' j = get s j /\ hget h' j = hget h j.
Proof.
  intros H Ho j Hj. destruct o; cbn [slot_of] in Ho; try discriminate; inversion Ho; subst; cbn [cstep] in H.
  - (* push *)
    destruct (hk_eqb (hget h i) HCreated); [|discriminate]. inversion H; subst. split; [|reflexivity].
    unfold op_push. destruct (push_pdu (sfr (get s i)) (pidx s) c d o) as [[fr r] p'].
    destruct r; cbn [fst]; try (rewrite get_with_fr_ne by exact Hj); apply get_counters.
  - (* push rest *)
    destruct (hk_eqb (hget h i) HCreated); [|discriminate]. inversion H; subst. split; [|reflexivity].
    unfold op_push_rest. destruct (push_rest (sfr (get s i)) (pidx s) c b) as [[fr r] p'].
    destruct r; cbn [fst]; try (rewrite get_with_fr_ne by exact Hj); apply get_counters.
  - (* mark *)
    destruct (hk_eqb (hget h i) HCreated); [|discriminate]. inversion H; subst. split; [|apply hget_upd_ne; exact Hj].
    unfold op_mark. rewrite get_drop_created_ne, get_set_st_ne, get_set_ne by exact Hj. reflexivity.
  - (* drop created *)
    destruct (hk_eqb (hget h i) HCreated); [|discriminate]. inversion H; subst. split; [|apply hget_upd_ne; exact Hj].
    apply get_drop_created_ne; exact Hj.
  - (* poll *)
    destruct (hk_eqb (hget h i) HFut); [|discriminate].
    destruct (op_poll s i expired retries) as [[s1 r] rt] eqn:E. inversion H; subst.
    split.
    + unfold op_poll in E. destruct (cas s i SRxDone SRxProcessing) as [s2|] eqn:C.
      * inversion E; subst. apply cas_some in C as [_ ->]. apply get_set_st_ne; exact Hj.
      * destruct expired.
        -- destruct retries; inversion E; subst.
           ++ rewrite get_set_st_ne, get_drop_clear_ne by exact Hj. reflexivity.
           ++ apply get_set_st_ne; exact Hj.
        -- inversion E; subst. reflexivity.
    + destruct r; [apply hget_upd_ne; exact Hj|reflexivity|apply hget_upd_ne; exact Hj].
  - (* drop future *)
    destruct (hk_eqb (hget h i) HFut); [|discriminate]. inversion H; subst. split; [|apply hget_upd_ne; exact Hj].
    unfold op_drop_fut. rewrite get_set_st_ne, get_drop_clear_ne by exact Hj. reflexivity.
  - (* drop received *)
    destruct (hk_eqb (hget h i) HReceived); [|discriminate].
    destruct (op_drop_received s i) as [s1| | |] eqn:E; try discriminate. inversion H; subst.
    split; [|apply hget_upd_ne; exact Hj].
    unfold op_drop_received in E. destruct (cas (op_drop_clear s i) i SRxProcessing SNone) as [s2|] eqn:C; [|discriminate].
    inversion E; subst. apply cas_some in C as [_ ->]. rewrite get_set_st_ne, get_drop_clear_ne by exact Hj. reflexivity.
Qed.

(* allocation only ever takes a slot whose status is None, and changes nothing else *)
Lemma alloc_go_local a : forall s s' r, (0 < nslots s)%nat -> alloc_go s a = (s', r) ->
  forall j, sst (get s j) <> SNone -> get s' j = get s j.
Proof.
  induction a as [|a IH]; intros s s' r P H j Hj; cbn [alloc_go] in H.
  - inversion H; subst. reflexivity.
  - set (i := N.to_nat (fidx s mod N.of_nat (nslots s))) in *.
    set (s1 := {| slots := slots s; fidx := (fidx s + 1) mod 256; pidx := pidx s; cap := cap s |}) in *.
    destruct (cas s1 i SNone SCreated) as [s2|] eqn:C.
    + inversion H; subst s' r; clear H. apply cas_some in C as [C1 C2]. subst s2.
      assert (Hne : j <> i). { intros ->. apply Hj. exact C1. }
      rewrite get_set_ne, get_set_st_ne by exact Hne. reflexivity.
    + apply (IH s1 s' r) with (j := j) in H; [exact H|exact P|exact Hj].
Qed.

Theorem alloc_takes_free_slot s h s' h' :
  Inv3 (s, h) -> cstep (s, h) CAlloc = Some (s', h') ->
  forall j, (j < nslots s)%nat -> hget h j <> HNone -> get s' j = get s j /\ hget h' j = hget h j.
Proof.
  intros [[O W] _] H j Lj Hh. cbn [fst snd] in *. cbn [cstep] in H.
  destruct (alloc s) as [s1 r] eqn:E. inversion H; subst; clear H.
  pose proof (wf_pos s W) as P.
  assert (Hst : sst (get s j) <> SNone).
  { pose proof (own_compat _ _ _ O Lj) as C. intros X. rewrite X in C.
    destruct (hget h j); cbn in C; try discriminate; try contradiction.
    destruct C as [C|[C|C]]; discriminate. }
  split.
  - unfold alloc in E. eapply alloc_go_local; eauto.
  - destruct r as [i|]; [|reflexivity]. apply hget_upd_ne. intros ->.
    apply alloc_spec in E; [|exact P]. destruct E as [_ [_ [E _]]]. contradiction.
Qed.

(* the transmit side only touches a frame that was marked sendable, and only its status *)
Theorem tx_takes_sendable_only s h oc s' h' :
  cstep (s, h) (CTxSend oc) = Some (s', h') ->
  h' = h /\ (forall j, sst (get s j) <> SSendable -> get s' j = get s j) /\
  (forall j, skey (get s' j) = skey (get s j) /\ sfr (get s' j) = sfr (get s j) /\ shdr (get s' j) = shdr (get s j)).
Proof.
  cbn [cstep]. unfold op_tx_claim. destruct (tx_scan s 0 (nslots s)) as [s1 r] eqn:E. intros H. inversion H; subst; clear H.
  apply tx_scan_spec in E. split; [reflexivity|]. destruct r as [k|]; [|subst; split; intros; auto].
  destruct E as [E1 ->]. unfold op_tx_done.
  assert (X : forall st st' j, get (set_st (set_st s k st) k st') j =
     if Nat.eqb j k then (if (k <? nslots s)%nat then {| sst := st'; skey := skey (get s k); sfr := sfr (get s k); shdr := shdr (get s k) |} else get s j) else get s j).
  { intros st st' j. destruct (Nat.eqb j k) eqn:Ej.
    - apply Nat.eqb_eq in Ej; subst j. destruct (Nat.ltb_spec k (nslots s)) as [Hk|Hk].
      + unfold set_st at 1. rewrite get_set_eq by (rewrite nslots_set_st; exact Hk).
        unfold set_st. rewrite get_set_eq by exact Hk. reflexivity.
      + unfold set_st. rewrite !set_oob; auto. rewrite set_oob by exact Hk. exact Hk.
    - apply Nat.eqb_neq in Ej. rewrite !get_set_st_ne by exact Ej. reflexivity. }
  split.
  - intros j Hj. assert (j <> k) by (intros ->; contradiction).
    destruct (oc =? 0); rewrite !get_set_st_ne by assumption; reflexivity.
  - intros j. destruct (oc =? 0); rewrite X; destruct (Nat.eqb j k) eqn:Ej; try (split; [|split]; reflexivity);
      apply Nat.eqb_eq in Ej; subst j; destruct (k <? nslots s)%nat; split; try split; reflexivity.
Qed.

Lemma rx_parse_first_index s bytes k i : rx_parse s bytes = inr (k, i) -> nth 1 i 0 = first_index bytes.
Proof.
  intros P. unfold rx_parse in P. cbv zeta in P.
  head_if P. head_if P. head_if P. head_if P. head_if P. head_if P.
  set (plen := N.to_nat (N.land (of_le (firstn 2 (skipn 14 bytes))) len_mask)) in *.
  destruct (firstn plen (skipn 2 (skipn 14 bytes))) as [|b0 [|idx rest]] eqn:Ei; try discriminate.
  destruct (find_key (slots s) idx 0); [|discriminate]. inversion P; subst. cbn [nth].
  unfold first_index.
  assert (N1 : nth 1 (firstn plen (skipn 2 (skipn 14 bytes))) 0 = idx) by (rewrite Ei; reflexivity).
  rewrite <- N1. rewrite skipn_skipn_add. cbn [Nat.add].
  assert (plen >= 2)%nat.
  { pose proof (firstn_le_length plen (skipn 2 (skipn 14 bytes))) as Lf.
    rewrite Ei in Lf. cbn [length] in Lf. lia. }
  rewrite nth_firstn_lt by lia. rewrite nth_skipn_add. reflexivity.
Qed.

(* the receive side only touches the request its frame answers: a slot awaiting a response (Sent)
   whose first-datagram index is the frame's *)
Theorem rx_touches_addressee_only s h bytes s' h' :
  wf_pstate s -> cstep (s, h) (CRx bytes) = Some (s', h') ->
  h' = h /\ forall j, (sst (get s j) <> SSent \/ skey (get s j) <> first_index bytes) -> get s' j = get s j.
Proof.
  intros W H. cbn [cstep] in H. inversion H; subst; clear H. split; [reflexivity|]. intros j Hj.
  destruct (op_rx s bytes) as [s1 r] eqn:E. cbn [fst].
  destruct r; try (rewrite (rx_reject_pure _ _ _ _ W E); [reflexivity|discriminate]).
  unfold op_rx in E. destruct (rx_parse s bytes) as [r0|[k i]] eqn:P; [inversion E; subst; exfalso; eapply rx_parse_inl; eauto|].
  pose proof (rx_parse_first_index _ _ _ _ P) as Hi.
  destruct (rx_parse_inr _ _ _ _ P) as (Hk & Hkey & _).
  destruct (cap s - eth_overhead <? length i)%nat; [inversion E|].
  destruct (cas s k SSent SRxBusy) as [s2|] eqn:C; [|inversion E].
  apply cas_some in C as [C1 ->].
  assert (Hne : j <> k). { intros ->. destruct Hj as [Hj|Hj]; [contradiction|]. apply Hj. rewrite Hkey. exact Hi. }
  destruct (length (fbuf (sfr (get (set_st s k SRxBusy) k))) <? length i)%nat; [inversion E|].
  match type of E with context [cas ?x k SRxBusy SRxDone] => destruct (cas x k SRxBusy SRxDone) as [s3|] eqn:C3 end; [|inversion E].
  inversion E; subst. apply cas_some in C3 as [_ ->].
  rewrite get_set_st_ne, get_set_ne, get_set_st_ne by exact Hne. reflexivity.
Qed.

(* ---------- lifted over any sequence of other parties' operations ---------- *)
(* what the other parties may do while a task holds slot i: operations on other handles,
   allocation, transmission, and reception of frames answering other requests *)
Definition foreign (i : nat) (s : pstate) (o : cop) : Prop :=
  match o with
  | CAlloc => True
  | CTxSend _ => sst (get s i) <> SSendable
  | CRx bytes => sst (get s i) <> SSent \/ skey (get s i) <> first_index bytes
  | _ => exists k, slot_of o = Some k /\ k <> i
  end.

Fixpoint foreign_run (i : nat) (sh : pstate * list hk) (ops : list cop) : Prop :=
  match ops with
  | [] => True
  | o :: r => foreign i (fst sh) o /\ match cstep sh o with Some sh' => foreign_run i sh' r | None => True end
  end.

Lemma cstep_handles_length s h o s1 h1 : cstep (s, h) o = Some (s1, h1) -> length h1 = length h.
Proof.
  assert (U : forall i x, length (upd i x h) = length h) by (intros; apply upd_length).
  destruct o; cbn [cstep]; intros H.
  - destruct (alloc s) as [s' r]. inversion H; subst. destruct r; auto.
  - destruct (hk_eqb (hget h i) HCreated); inversion H; subst; auto.
  - destruct (hk_eqb (hget h i) HCreated); inversion H; subst; auto.
  - destruct (hk_eqb (hget h i) HCreated); inversion H; subst; auto.
  - destruct (hk_eqb (hget h i) HCreated); inversion H; subst; auto.
  - destruct (op_tx_claim s) as [s' r]. inversion H; subst; auto.
  - inversion H; subst; auto.
  - destruct (hk_eqb (hget h i) HFut); [|discriminate]. destruct (op_poll s i expired retries) as [[s' r] rt]. inversion H; subst. destruct r; auto.
  - destruct (hk_eqb (hget h i) HFut); inversion H; subst; auto.
  - destruct (hk_eqb (hget h i) HReceived); [|discriminate]. destruct (op_drop_received s i); inversion H; subst; auto.
Qed.

Theorem slot_untouched_by_others i : forall ops s h s' h',
  Inv3 (s, h) -> (i < nslots s)%nat -> hget h i <> HNone ->
  foreign_run i (s, h) ops -> crun (s, h) ops = Some (s', h') ->
  get s' i = get s i /\ hget h' i = hget h i.
Proof.
  induction ops as [|o r IH]; intros s h s' h' I Li Hh F R.
  - simpl in R. inversion R; subst. split; reflexivity.
  - cbn [crun] in R. cbn [foreign_run fst] in F. destruct F as [Fo Fr].
    destruct (cstep (s, h) o) as [[s1 h1]|] eqn:E; [|discriminate].
    assert (Step : get s1 i = get s i /\ hget h1 i = hget h i).
    { destruct o; cbn [foreign] in Fo.
      - eapply alloc_takes_free_slot; eauto.
      - destruct Fo as [k [Hk Hne]]. eapply own_slot_only; eauto.
      - destruct Fo as [k [Hk Hne]]. eapply own_slot_only; eauto.
      - destruct Fo as [k [Hk Hne]]. eapply own_slot_only; eauto.
      - destruct Fo as [k [Hk Hne]]. eapply own_slot_only; eauto.
      - destruct (tx_takes_sendable_only _ _ _ _ _ E) as [-> [X _]]. split; [apply X; exact Fo|reflexivity].
      - destruct I as [_ Wp]. cbn [fst] in Wp. destruct (rx_touches_addressee_only _ _ _ _ _ Wp E) as [-> X]. split; [apply X; exact Fo|reflexivity].
      - destruct Fo as [k [Hk Hne]]. eapply own_slot_only; eauto.
      - destruct Fo as [k [Hk Hne]]. eapply own_slot_only; eauto.
      - destruct Fo as [k [Hk Hne]]. eapply own_slot_only; eauto. }
    destruct Step as [S1 S2].
    pose proof (cstep_inv _ _ _ I E) as I1.
    assert (L1 : (i < nslots s1)%nat).
    { destruct I1 as [[[L _] _] _]. destruct I as [[[L0 _] _] _]. cbn [fst snd] in *.
      assert (length h1 = length h) by (eapply cstep_handles_length; eauto). lia. }
    assert (Hh1 : hget h1 i <> HNone) by (rewrite S2; exact Hh).
    destruct (IH s1 h1 s' h' I1 L1 Hh1 Fr R) as [A B].
    split; [rewrite A; exact S1|rewrite B; exact S2].
Qed.

(* ---------- a concrete instance ---------- *)
Definition ops_a : list cop := [CAlloc; CPush 0 (mk_command CBrd 0 0) [] (Some 4%nat); CMark 0; CTxSend 0].
Definition resp_b : list N :=
  bcast ++ [18;16;16;16;16;16] ++ ethertype_bytes ++ [16; 16] ++ [7;1;0;0;0;0;4;0;0;0; 9;8;7;6; 1;0].
Definition ops_b : list cop :=
  [CAlloc; CPush 1 (mk_command CBrd 0 0) [] (Some 4%nat); CMark 1; CTxSend 0; CRx resp_b; CPoll 1 false 0; CDropReceived 1].

Lemma isolation_example :
  exists s h s' h', crun (pinit 2 64, repeat HNone 2) ops_a = Some (s, h) /\ hget h 0 = HFut /\
    crun (s, h) ops_b = Some (s', h') /\ foreign_run 0 (s, h) ops_b /\
    hget h' 1 = HNone /\ sst (get s' 1) = SNone /\ get s' 0 = get s 0.
Proof.
  eexists. eexists. eexists. eexists. split; [vm_compute; reflexivity|]. split; [reflexivity|].
  split; [vm_compute; reflexivity|]. split.
  - vm_compute. repeat split; try discriminate; try (eexists; split; [reflexivity|discriminate]); try (right; discriminate).
  - vm_compute. repeat split; reflexivity.
Qed.
