From EC Require Import Base.Prelude Pdu.Wake Gen.WakeOrder.
Local Open Scope N_scope.

Lemma weqb_true s t : weqb s t = true -> s = t.
Proof.
  destruct s as [a b c d e p r], t as [a' b' c' d' e' p' r']. unfold weqb; cbn [w_done w_waker w_sched w_ready w_saw w_p w_r].
  intros H. repeat (apply andb_true_iff in H; destruct H as [H ?]).
  repeat match goal with X : Bool.eqb _ _ = true |- _ => apply Bool.eqb_prop in X; subst end.
  assert (p = p') by (destruct p, p'; try reflexivity; discriminate).
  assert (r = r') by (destruct r, r'; try reflexivity; discriminate).
  subst. reflexivity.
Qed.
Lemma weqb_refl s : weqb s s = true.
Proof. destruct s as [a b c d e p r]. unfold weqb; cbn. rewrite !Bool.eqb_reflx. destruct p, r; reflexivity. Qed.

Lemma memb_in s l : memb s l = true -> In s l.
Proof.
  unfold memb. intros H. apply existsb_exists in H. destruct H as [x [Hx E]]. apply weqb_true in E. subst. exact Hx.
Qed.
Lemma in_memb s l : In s l -> memb s l = true.
Proof. intros H. unfold memb. apply existsb_exists. exists s. split; [exact H|apply weqb_refl]. Qed.

Lemma all_states_complete s : In s all_states.
Proof. apply memb_in. destruct s as [a b c d e p r]. destruct a, b, c, d, e, p, r; vm_compute; reflexivity. Qed.

(* a boolean inductive invariant without stuck states covers every reachable state *)
Lemma inv_sound rf df inv : inv_ok rf df inv = true -> forall s, reach rf df s -> inv s = true /\ stuck s = false.
Proof.
  unfold inv_ok. intros H. apply andb_true_iff in H. destruct H as [H H3]. apply andb_true_iff in H. destruct H as [H1 H2].
  rewrite forallb_forall in H2, H3.
  assert (R : forall s, reach rf df s -> inv s = true).
  { induction 1 as [|s s' _ IH Hin]; [exact H1|].
    specialize (H2 s (all_states_complete s)). rewrite IH in H2. cbn in H2. rewrite forallb_forall in H2. apply H2. exact Hin. }
  intros s Hs. split; [apply R; exact Hs|].
  specialize (H3 s (all_states_complete s)). rewrite (R s Hs) in H3. cbn in H3. destruct (stuck s); [discriminate|reflexivity].
Qed.

(* with the order the code has - register before the test, RxDone before the wake - no
   interleaving of the task's poll(s) and the receive side loses the wake-up *)
Theorem no_lost_wakeup : forall s, reach true true s -> stuck s = false.
Proof.
  intros s Hs. apply (inv_sound true true (fun x => memb x (reachable_set true true))); [vm_compute; reflexivity|exact Hs].
Qed.

(* ... and the task does get its response: once the receive side is through and the task is idle
   and not ready, it is scheduled; polls started after the response see it *)
Theorem response_reaches_task : forall s, reach true true s ->
  w_r s = RDone -> w_p s = PIdle -> w_ready s = true \/ w_sched s = true.
Proof.
  intros s Hs Hr Hp. pose proof (no_lost_wakeup s Hs) as H. unfold stuck in H. rewrite Hr, Hp in H.
  destruct (w_ready s); [left; reflexivity|]. destruct (w_sched s); [right; reflexivity|discriminate].
Qed.

(* either order reversed DOES lose it: the argument needs both *)
Theorem check_before_register_loses : exists s, reach false true s /\ stuck s = true.
Proof.
  (* task: scheduled, tests (not done), ... receive: done, wake (no waker) ... task: registers, sleeps *)
  eexists. split.
  - eapply reachS. eapply reachS. eapply reachS. eapply reachS. eapply reachS. eapply reachS. apply reach0.
    + vm_compute. left. reflexivity.        (* poll starts *)
    + vm_compute. left. reflexivity.        (* the test: not done *)
    + vm_compute. right. left. reflexivity. (* frame arrives *)
    + vm_compute. right. left. reflexivity. (* RxDone *)
    + vm_compute. right. left. reflexivity. (* wake: nobody registered *)
    + vm_compute. left. reflexivity.        (* register, sleep *)
  - vm_compute. reflexivity.
Qed.

Theorem wake_before_done_loses : exists s, reach true false s /\ stuck s = true.
Proof.
  (* task: registers ... receive: wakes (task scheduled, but inside its poll) ... task: tests: not
     done, returns Pending, is polled again (scheduled), registers, tests: still not done, sleeps ...
     receive: stores RxDone *)
  eexists. split.
  - eapply reachS. eapply reachS. eapply reachS. eapply reachS. eapply reachS. eapply reachS. eapply reachS. eapply reachS. eapply reachS. apply reach0.
    + vm_compute. left. reflexivity.        (* poll starts *)
    + vm_compute. left. reflexivity.        (* register *)
    + vm_compute. right. left. reflexivity. (* frame arrives *)
    + vm_compute. right. left. reflexivity. (* wake first: task scheduled *)
    + vm_compute. left. reflexivity.        (* test: not done -> Pending *)
    + vm_compute. left. reflexivity.        (* polled again *)
    + vm_compute. left. reflexivity.        (* register *)
    + vm_compute. left. reflexivity.        (* test: not done -> sleeps *)
    + vm_compute. left. reflexivity.        (* RxDone: too late (the task is asleep: the only move) *)
  - vm_compute. reflexivity.
Qed.

(* the code's order, as read off the sources on this run *)
Theorem code_order : register_before_check = true /\ done_before_wake = true.
Proof. split; reflexivity. Qed.

Theorem no_lost_wakeup_in_code : forall s, reach register_before_check done_before_wake s -> stuck s = false.
Proof. destruct code_order as [-> ->]. exact no_lost_wakeup. Qed.
