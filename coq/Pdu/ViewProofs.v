From EC Require Import Base.Prelude Base.Bytes Base.BytesProofs Pdu.Frame Pdu.FrameProofs Pdu.Slots Pdu.View.
Local Open Scope N_scope.

(* trimming a view from the front shows exactly the rest of the same data area: never a byte
   outside it, for every trim amount *)
Theorem trim_exact buf v ct :
  view_bytes buf (trim_front v ct) = skipn (Nat.min ct (vlen v)) (view_bytes buf v) /\
  (length (view_bytes buf (trim_front v ct)) <= length (view_bytes buf v))%nat /\
  (view_in_bounds buf v = true -> view_in_bounds buf (trim_front v ct) = true) /\
  (view_in_bounds buf v = true ->
     length (view_bytes buf (trim_front v ct)) = (vlen v - Nat.min ct (vlen v))%nat).
Proof.
  unfold view_bytes, trim_front, view_in_bounds. cbn [vstart vlen].
  set (c := Nat.min ct (vlen v)). assert (Hc : (c <= vlen v)%nat) by (subst c; lia).
  assert (E : firstn (vlen v - c) (skipn (vstart v + c) buf)
              = skipn c (firstn (vlen v) (skipn (vstart v) buf))).
  { rewrite skipn_firstn_comm. rewrite skipn_skipn_add. reflexivity. }
  split; [exact E|]. split.
  - rewrite E, skipn_length. lia.
  - split.
    + intros H. apply Nat.leb_le in H. apply Nat.leb_le. lia.
    + intros H. apply Nat.leb_le in H. rewrite firstn_length, skipn_length. lia.
Qed.

(* a response datagram as it lies in the slot: header, data, working counter *)
Definition dg_bytes (code idx : N) (raw : list N) (more : bool) (data : list N) (wkc : N) : list N :=
  [code; idx] ++ raw ++ le_bytes 2 (N.of_nat (length data) + (if more then 32768 else 0)) ++ [0; 0]
  ++ data ++ le_bytes 2 wkc.

Lemma dg_length code idx raw more data wkc : length raw = 4%nat ->
  length (dg_bytes code idx raw more data wkc) = (length data + 12)%nat.
Proof.
  intros R. unfold dg_bytes. repeat rewrite app_length. cbn [length]. rewrite !le_bytes_length, R. lia.
Qed.

Lemma parse_hdr_dg code idx raw more data wkc rest : length raw = 4%nat -> (length data < 2048)%nat ->
  parse_hdr (dg_bytes code idx raw more data wkc ++ rest) =
    Some {| hcode := code; hidx := idx; hlen := length data; hmore := more |}.
Proof.
  intros R L. unfold parse_hdr.
  assert (Ln : (length (dg_bytes code idx raw more data wkc ++ rest) >= 10)%nat).
  { rewrite app_length, dg_length by exact R. lia. }
  replace (length _ <? 10)%nat with false by lia.
  destruct raw as [|r0 [|r1 [|r2 [|r3 [|]]]]]; cbn [length] in R; try lia.
  set (w := N.of_nat (length data) + (if more then 32768 else 0)).
  assert (Hw : w < 65536) by (subst w; destruct more; lia).
  assert (Sl : slice 6 8 (dg_bytes code idx [r0; r1; r2; r3] more data wkc ++ rest) = le_bytes 2 w).
  { unfold dg_bytes. cbn [app]. unfold slice. cbn [skipn Nat.sub]. cbn [le_bytes app firstn]. reflexivity. }
  rewrite Sl, of_le_le_bytes by (change (256 ^ N.of_nat 2) with 65536; exact Hw).
  f_equal. unfold dg_bytes. cbn [app nth]. f_equal.
  - subst w. destruct more.
    + assert (E : N.land (N.of_nat (length data) + 32768) len_mask = N.of_nat (length data)).
      { unfold len_mask. change 2047 with (N.ones 11). rewrite N.land_ones.
        change 32768 with (16 * 2 ^ 11). rewrite N.mod_add by discriminate.
        apply N.mod_small. change (2^11) with 2048. lia. }
      rewrite E. lia.
    + rewrite N.add_0_r. rewrite land_mask by lia. lia.
  - subst w. destruct more.
    + rewrite N.testbit_eqb.
      assert (E : (N.of_nat (length data) + 32768) / 2 ^ 15 = 1).
      { change 32768 with (1 * 2 ^ 15). rewrite N.div_add by discriminate.
        rewrite N.div_small by (change (2^15) with 32768; lia). reflexivity. }
      rewrite E. reflexivity.
    + rewrite N.add_0_r. rewrite N.testbit_eqb.
      rewrite N.div_small by (change (2^15) with 32768; lia). reflexivity.
Qed.

(* first_pdu on a slot that holds a response datagram for the caller's handle returns a view of
   exactly that datagram's data area and its working counter *)
Theorem first_pdu_exact code idx raw more data wkc rest :
  length raw = 4%nat -> (length data < 2048)%nat -> wkc < 65536 ->
  let buf := dg_bytes code idx raw more data wkc ++ rest in
  exists v, first_pdu buf code idx = Ok v /\ view_bytes buf v = data /\ vwkc v = wkc /\
            view_in_bounds buf v = true /\ vstart v = 10%nat /\ vlen v = length data.
Proof.
  intros R L W buf. unfold first_pdu. subst buf.
  rewrite parse_hdr_dg by assumption. cbn [hlen hcode hidx].
  assert (Ln : length (dg_bytes code idx raw more data wkc ++ rest) = (length data + 12 + length rest)%nat).
  { rewrite app_length, dg_length by exact R. reflexivity. }
  replace (_ <? length data + 2)%nat with false by lia.
  rewrite !N.eqb_refl. cbn [negb].
  assert (Sk : skipn (10 + length data) (dg_bytes code idx raw more data wkc ++ rest) = le_bytes 2 wkc ++ rest).
  { destruct raw as [|r0 [|r1 [|r2 [|r3 [|]]]]]; cbn [length] in R; try lia.
    unfold dg_bytes. cbn [app le_bytes]. cbn [skipn Nat.add].
    rewrite <- app_assoc. rewrite skipn_app, skipn_all, Nat.sub_diag. reflexivity. }
  unfold read_wkc. replace (_ <? 10 + length data)%nat with false by lia. rewrite Sk.
  replace (length (le_bytes 2 wkc ++ rest) <? 2)%nat with false by (rewrite app_length, le_bytes_length; lia).
  cbn [rbind]. eexists. split; [reflexivity|]. unfold view_bytes, view_in_bounds. cbn [vstart vlen vwkc].
  repeat split.
  - destruct raw as [|r0 [|r1 [|r2 [|r3 [|]]]]]; cbn [length] in R; try lia.
    unfold dg_bytes. cbn [app le_bytes skipn]. rewrite <- app_assoc.
    rewrite firstn_app, firstn_all, Nat.sub_diag. cbn [firstn]. apply app_nil_r.
  - rewrite firstn_app, le_bytes_length. rewrite firstn_all2 by (rewrite le_bytes_length; lia).
    cbn [Nat.sub firstn]. rewrite app_nil_r. apply of_le_le_bytes.
    change (256 ^ N.of_nat 2) with 65536. exact W.
  - apply Nat.leb_le. lia.
Qed.
