(* C08 -- process data of one SubDevice reaches that SubDevice and nothing else.
   Model: Pd/Layout.v (both configuration paths, window bookkeeping, group start addresses, the
   device-side meaning of an FMMU).  Statements are for the Debug integer mode, where a run that
   does not panic has passed every width check; c08_release carries them to Release. *)
From EC Require Import Base.Prelude Base.Bytes Pd.Layout Pd.LayoutProofs Wire.Layout Gen.SrcLayouts Net.Commute Net.CycleAll Pd.Mailbox Gen.SrcRegisters.
Local Open Scope N_scope.

(* windows of a group that came up: inputs of all devices first, then all outputs, consecutive and
   gap-free from 0 to the image length, which is within the declared capacity *)
Theorem c08_windows : forall start max dvs g,
  cfg_group Debug start max (map init_dev dvs) = Ok g ->
  tiles 0 (g_in g) (g_read_len g) /\ tiles (g_read_len g) (g_out g) (g_pdi_len g) /\ g_pdi_len g <= max.
Proof. exact group_windows. Qed.
Print Assumptions c08_windows.

(* what consecutive means: every window inside, an earlier window entirely before a later one
   (so any two are disjoint) *)
Theorem c08_tiles_inside : forall ws a e w, tiles a ws e -> In w ws -> a <= fst w /\ fst w <= snd w /\ snd w <= e.
Proof. exact tiles_inside. Qed.
Print Assumptions c08_tiles_inside.

Theorem c08_tiles_ordered : forall ws a e i j wi wj, tiles a ws e -> (i < j)%nat ->
  nth_error ws i = Some wi -> nth_error ws j = Some wj -> snd wi <= fst wj.
Proof. exact tiles_ordered. Qed.
Print Assumptions c08_tiles_ordered.

(* every device of the group: window lengths = what its PDO configuration (times oversampling)
   requires per sync manager, rounded up to bytes; the sync manager registers written; and the
   FMMUs: an EEPROM-configured device gets one FMMU per sync manager, chained over consecutive
   sub-windows of its window ([chain]); a CoE device gets one FMMU per direction over its whole
   window, starting at the first sync manager that carries data ([coe_dir]); every other FMMU of
   the device stays cleared *)
Theorem c08_devices : forall start max dvs g,
  cfg_group Debug start max (map init_dev dvs) = Ok g ->
  Forall4 (fun dv s win wout => ds_desc s = dv /\
             dev_post dv (ds_fmmus s) (ds_regs s) (start + fst win, start + snd win) (start + fst wout, start + snd wout))
          dvs (g_devs g) (g_in g) (g_out g).
Proof. exact group_devices. Qed.
Print Assumptions c08_devices.

(* byte level, EEPROM path: the FMMU of sync manager k maps byte t of k's sub-window to byte t of
   k's memory *)
Theorem c08_bytes_eeprom : forall d dv fs l a e, chain d dv fs a l e ->
  forall k sm, In (k, sm) l -> exists a', a <= a' /\ a' + slen dv d k <= e /\
    forall t, t < slen dv d k -> fmap (fs k) (a' + t) = Some (sm_start sm + t).
Proof. exact chain_bytes. Qed.
Print Assumptions c08_bytes_eeprom.

(* byte level, CoE path: the shared FMMU does the same provided the data-carrying sync managers
   of the direction sit back to back in the device's memory ... *)
Theorem c08_bytes_coe : forall dv d ls len ps rd wr l a,
  ls <= a -> a + total_len dv d l <= ls + len -> adjacent dv d (ps + (a - ls)) l ->
  shared_chain (mkF ls len ps rd wr true) dv d a l.
Proof. exact shared_chain_adjacent. Qed.
Print Assumptions c08_bytes_coe.

(* ... and does NOT when they do not (known finding coe-shared-fmmu): *)
Theorem c08_coe_shared_fmmu_refuted :
  exists g s, cfg_group Debug 0 64 (map init_dev [ex_coe2]) = Ok g /\ g_devs g = [s] /\ g_in g = [(0, 3)] /\
    slen ex_coe2 DIn 2 = 2 /\ slen ex_coe2 DIn 3 = 1 /\
    targets true (ds_fmmus s) 2 = [4354] /\ ~ adjacent ex_coe2 DIn 4352 (pdl ex_coe2 DIn).
Proof. exact coe_shared_fmmu_refuted. Qed.
Print Assumptions c08_coe_shared_fmmu_refuted.

(* nothing else: no FMMU of the device answers a logical address outside the device's two windows
   (so bytes of other devices' windows, and of other groups, never reach it) *)
Theorem c08_nowhere_else : forall dv fs regs win wout la,
  dev_post dv fs regs win wout ->
  ~ (fst win <= la /\ la < snd win) -> ~ (fst wout <= la /\ la < snd wout) ->
  forall j, fmap (fs j) la = None.
Proof. exact nowhere_else. Qed.
Print Assumptions c08_nowhere_else.

(* the image length is what the PDO configurations add up to; a layout beyond the declared
   capacity is an error, and that error means exactly that *)
Theorem c08_length : forall start max dvs g,
  cfg_group Debug start max (map init_dev dvs) = Ok g -> g_pdi_len g = need dvs /\ need dvs <= max.
Proof. exact group_length. Qed.
Print Assumptions c08_length.

Theorem c08_too_long : forall start max dvs mx l,
  cfg_group Debug start max (map init_dev dvs) = Err (ETooLong mx l) -> mx = max /\ l = need dvs /\ max < need dvs.
Proof. exact group_too_long_err. Qed.
Print Assumptions c08_too_long.

Theorem c08_too_long_iff : forall m start max ds ds2 wi wo off1 off2,
  cfg_group_run m start ds = Ok (ds2, wi, wo, off1, off2) ->
  cfg_group m start max ds =
    if max <? off2 - start then Err (ETooLong max (off2 - start))
    else Ok (mkG ds2 (map (rel start) wi) (map (rel start) wo) (off1 - start) (off2 - start)).
Proof. exact group_too_long. Qed.
Print Assumptions c08_too_long_iff.

(* ... but the devices have been programmed by then (known finding too-long-leftover) *)
Theorem c08_too_long_leftover_refuted :
  cfg_group Debug 0 24 (map init_dev [ex_big]) = Err (ETooLong 24 32) /\
  exists ds wi wo o1 o2 s, cfg_group_run Debug 0 (map init_dev [ex_big]) = Ok (ds, wi, wo, o1, o2) /\ ds = [s] /\
    fmap (ds_fmmus s 0%nat) 30 = Some 4382.
Proof. exact too_long_leftover_refuted. Qed.
Print Assumptions c08_too_long_leftover_refuted.

(* images of different groups occupy disjoint logical address ranges (capacities below 64 KiB) *)
Theorem c08_groups_disjoint : forall maxes sts i j si sj mi,
  group_starts Debug 0 maxes = Ok sts -> Forall (fun m => m < 65536) maxes ->
  (i < j)%nat -> nth_error sts i = Some si -> nth_error maxes i = Some mi -> nth_error sts j = Some sj ->
  si + mi <= sj.
Proof. exact groups_disjoint. Qed.
Print Assumptions c08_groups_disjoint.

(* builds without overflow checks behave identically wherever the checked build does not panic *)
Theorem c08_release : forall start max ds,
  np (cfg_group Debug start max ds) -> cfg_group Release start max ds = cfg_group Debug start max ds.
Proof. exact release_agrees. Qed.
Print Assumptions c08_release.

(* non-vacuity: a two-device group (scattered sync managers, oversampling, a CoE device) comes up
   with exactly these windows and registers *)
Theorem c08_example :
  obs_group Debug 96 64 [ex_io; ex_coe] =
  (0 :: 21 :: 16 :: [0; 12; 12; 4] ++ [-7] ++ [16; 3; 19; 2] ++ [-7] ++
   concat (map obs_fmmu [mkF 112 3 4352 false true true; mkF 96 2 4360 true false true; mkF 98 10 4400 true false true]) ++ concat (map obs_fmmu (repeat fmmu0 13)) ++ [-8] ++
   [1; 4360; 2; 32; 1; 2; 4400; 10; 32; 1; 0; 4352; 3; 100; 1] ++ [-9] ++
   concat (map obs_fmmu [mkF 115 2 4352 false true true; mkF 108 4 4608 true false true]) ++ concat (map obs_fmmu (repeat fmmu0 14)) ++ [-8] ++
   [3; 4608; 4; 32; 1; 2; 4352; 2; 100; 1] ++ [-9])%Z.
Proof. exact ex_group_ok. Qed.
Print Assumptions c08_example.

(* tie to the declarations regenerated from /repo on every run: the register images have the
   ETG.1000.4 shapes the device side reads, and the usage codes are the declared discriminants *)
Theorem c08_fmmu_register_layout :
  match place layout_Fmmu with
  | Ok ps => map (fun p => (pstart p, pbits p)) ps =
             [(0, 32); (32, 16); (48, 3); (56, 3); (64, 16); (80, 3); (88, 1); (89, 1); (96, 1)]
  | _ => False
  end /\ lwidth layout_Fmmu = 128.
Proof. exact fmmu_register_layout. Qed.
Print Assumptions c08_fmmu_register_layout.

Theorem c08_sm_register_layout :
  match place layout_SyncManagerChannel with
  | Ok ps => map (fun p => (pstart p, pbits p)) ps = [(0, 16); (16, 16); (32, 8); (40, 8); (48, 16)]
  | _ => False
  end /\ lwidth layout_SyncManagerChannel = 64.
Proof. exact sm_register_layout. Qed.
Print Assumptions c08_sm_register_layout.

Theorem c08_usage_codes :
  map vdisc (evariants enum_SyncManagerType) = [Some 0; Some 1; Some 2; Some (Z.of_N (sm_ty DOut)); Some (Z.of_N (sm_ty DIn))]%Z /\
  map vdisc (evariants enum_FmmuUsage) = [Some 0; Some (Z.of_N (fm_ty DOut)); Some (Z.of_N (fm_ty DIn)); Some 3]%Z.
Proof. exact usage_codes. Qed.
Print Assumptions c08_usage_codes.

(* ---------- the consequence clause, end to end (Net/Commute.v) ----------
   One logical datagram over the group's image, passed through the group's devices in ring order
   ([ring]: each device reads and writes through its FMMUs, [lrw_dev]).  For a group of
   EEPROM-configured devices with sane descriptions ([dev_sane]: at most 16 sync managers, the
   memory areas of the output sync managers apart from each other and from the input areas), brought
   up as the model describes: every device's output window arrives in that device's output memory
   (byte t of sync manager k's sub-window in byte t of its memory) and every other byte of every
   device's memory is untouched; every device's input memory comes back in its input window; the
   rest of the image comes back unchanged ([dev_result]). *)
Theorem c08_group_cycle : forall start max dvs g ms image,
  cfg_group Debug start max (map init_dev dvs) = Ok g ->
  Forall dev_sane dvs -> length ms = length dvs -> N.of_nat (length image) = g_pdi_len g ->
  let cs := build start (g_devs g) (g_in g) (g_out g) ms in
  let '(ms', out) := ring cs start image in
  length out = length image /\
  Forall2' (dev_result start image out) cs ms' /\
  (forall t, (t < length image)%nat ->
     (forall c, In c cs -> ~ (fst (c_win c) <= start + N.of_nat t /\ start + N.of_nat t < snd (c_win c))) ->
     nth t out 0 = nth t image 0).
Proof. exact group_cycle. Qed.
Print Assumptions c08_group_cycle.

Theorem c08_group_cycle_example :
  exists g, cfg_group Debug 96 64 (map init_dev [ex_io]) = Ok g /\ dev_sane ex_io /\ g_pdi_len g = 15 /\
    let cs := build 96 (g_devs g) (g_in g) (g_out g) [fun x => x mod 251] in
    let '(ms', out) := ring cs 96 [0;0;0;0;0;0;0;0;0;0;0;0; 171;205;239] in
    out = [4360 mod 251; 4361 mod 251; 4400 mod 251; 4401 mod 251; 4402 mod 251; 4403 mod 251; 4404 mod 251; 4405 mod 251;
           4406 mod 251; 4407 mod 251; 4408 mod 251; 4409 mod 251; 171; 205; 239] /\
    match ms' with [m'] => [m' 4352; m' 4353; m' 4354; m' 4355; m' 4360] = [171; 205; 239; 4355 mod 251; 4360 mod 251] | _ => False end.
Proof. exact group_cycle_example. Qed.
Print Assumptions c08_group_cycle_example.

(* the same for ANY mixture of EEPROM-configured devices and CoE-configured devices whose
   data-carrying sync managers are adjacent per direction ([coe_adj]; the case in which the shared
   FMMU maps correctly - cf. c08_coe_shared_fmmu_refuted for the other case) *)
Theorem c08_group_cycle_any : forall start max dvs g ms image,
  cfg_group Debug start max (map init_dev dvs) = Ok g ->
  Forall dev_sane_any dvs -> length ms = length dvs -> N.of_nat (length image) = g_pdi_len g ->
  let cs := build start (g_devs g) (g_in g) (g_out g) ms in
  let '(ms', out) := ring cs start image in
  length out = length image /\
  Forall2' (dev_result start image out) cs ms' /\
  (forall t, (t < length image)%nat ->
     (forall c, In c cs -> ~ (fst (c_win c) <= start + N.of_nat t /\ start + N.of_nat t < snd (c_win c))) ->
     nth t out 0 = nth t image 0).
Proof. exact group_cycle_any. Qed.
Print Assumptions c08_group_cycle_any.

(* before that, during INIT -> PRE-OP (configure_mailbox_sms, Pd/Mailbox.v): only mailbox sync
   managers are programmed, each with its EEPROM start address and control byte and the mailbox
   length of its direction; and a SubDevice counts as a CoE device (its PDOs are then asked for over
   CoE) only if it announces CoE and has a read mailbox of non-zero length to answer in *)
Theorem c08_mailbox_registers : forall m sms j r, In (j, r) (mbx_regs m sms) ->
  exists mb sm, m = Some mb /\ nth_error sms j = Some sm /\ r_start r = sm_start sm /\ r_ctl r = sm_ctl sm /\
    ((sm_usage sm = 1 /\ r_len r = m_rx_size mb) \/ (sm_usage sm = 2 /\ r_len r = m_tx_size mb)).
Proof. exact mailbox_registers. Qed.
Print Assumptions c08_mailbox_registers.

Theorem c08_coe_needs_mailbox : forall m sms, has_coe m sms = true ->
  exists mb, m = Some mb /\ N.testbit (m_protocols mb) 2 = true /\ 0 < m_tx_size mb /\
    exists sm, In sm sms /\ sm_usage sm = 2.
Proof. exact coe_needs_mailbox. Qed.
Print Assumptions c08_coe_needs_mailbox.

(* the FMMU entities and sync manager channels sit where ETG.1000.4 puts them (and where the device
   side of the model and the simulator read them): FMMU k at 0x0600 + 16 k, SM k at 0x0800 + 8 k -
   the addresses declared in src/register.rs, regenerated from the sources on every run *)
Theorem c08_register_addresses :
  map (fun k => 1536 + 16 * N.of_nat k) (seq 0 16) =
    [reg_Fmmu0; reg_Fmmu1; reg_Fmmu2; reg_Fmmu3; reg_Fmmu4; reg_Fmmu5; reg_Fmmu6; reg_Fmmu7;
     reg_Fmmu8; reg_Fmmu9; reg_Fmmu10; reg_Fmmu11; reg_Fmmu12; reg_Fmmu13; reg_Fmmu14; reg_Fmmu15] /\
  map (fun k => 2048 + 8 * N.of_nat k) (seq 0 8) =
    [reg_Sm0; reg_Sm1; reg_Sm2; reg_Sm3; reg_Sm4; reg_Sm5; reg_Sm6; reg_Sm7].
Proof. split; reflexivity. Qed.
Print Assumptions c08_register_addresses.
