(* C04 -- every transmitted frame is a well-formed EtherCAT frame saying what was asked.
   Pinned statements only. *)
From EC Require Import Base.Prelude Base.Bytes Pdu.Frame Pdu.FrameProofs Wire.Layout Gen.SrcLayouts Gen.SrcConsts.
Local Open Scope N_scope.

(* For every push program into a frame of every size 28..2063, the bytes handed to the driver are:
   broadcast destination, MainDevice source, EtherType 0x88A4, EtherCAT header = exact size of
   the datagrams + type 1, then exactly the accepted datagrams (requested command, index, length
   = max(override, data), data zero padded, IRQ 0, WKC 0, more-follows on all but the last);
   and the frame never exceeds the configured size. *)
Theorem c04_bytes : forall cap idx0 prog,
  (28 <= cap <= 2063)%nat -> Forall wf_push prog ->
  let '((st, _), rs) := run (finit cap, idx0) prog in
  as_bytes st = spec_frame (accepted prog rs) /\
  (length (as_bytes st) <= cap)%nat /\
  Forall wf_dgram (accepted prog rs) /\ length rs = length prog.
Proof. exact frame_bytes. Qed.
Print Assumptions c04_bytes.

Theorem c04_refuse : forall st pidx c d o,
  let len := match o with None => length d | Some l => Nat.max l (length d) end in
  (length (fbuf st) < fused st + len + pdu_overhead)%nat ->
  push_pdu st pidx c d o = (st, PushTooLong, (pidx + 1) mod 256).
Proof. exact push_refused. Qed.
Print Assumptions c04_refuse.

Theorem c04_rest : forall st pidx c b,
  let room := (length (fbuf st) - fused st - pdu_overhead)%nat in
  (b = [] \/ room = 0%nat -> push_rest st pidx c b = (st, RestNone, pidx)) /\
  (b <> [] -> room <> 0%nat ->
     exists st' iif a, push_rest st pidx c b =
        (st', RestSome (Nat.min room (length b)) pidx iif a, (pidx + 1) mod 256)).
Proof. exact push_rest_spec. Qed.
Print Assumptions c04_rest.

Theorem c04_commands_wf : forall k a r, wf_command (mk_command k a r).
Proof. exact mk_command_wf. Qed.
Print Assumptions c04_commands_wf.

Theorem c04_autoincrement : forall a r, a < 65536 -> r < 65536 ->
  craw (mk_command CAprd a r) = le_bytes 2 ((65536 - a) mod 65536) ++ le_bytes 2 r.
Proof. exact mk_command_autoinc. Qed.
Print Assumptions c04_autoincrement.

(* tie to generated source facts: the derived PduHeader layout places command, index, address,
   flags and IRQ where the hand-written header model puts them, and the constants agree *)
Theorem c04_header_layout :
  place layout_PduHeader =
    Ok [ {| pk := KU8; pskip := false; pstart := 0; pbits := 8 |};
         {| pk := KU8; pskip := false; pstart := 8; pbits := 8 |};
         {| pk := KMulti; pskip := false; pstart := 16; pbits := 32 |};
         {| pk := KMulti; pskip := false; pstart := 48; pbits := 16 |};
         {| pk := KMulti; pskip := false; pstart := 64; pbits := 16 |} ] /\
  c_LEN_MASK = len_mask /\ c_ETHERCAT_ETHERTYPE = of_le [164; 136].
Proof. vm_compute. repeat split. Qed.
Print Assumptions c04_header_layout.

(* non-vacuity: a two-datagram program in a 60 byte frame *)
Example c04_example :
  let prog := [PPdu (mk_command CFprd 4097 304) [] (Some 2%nat);
               PRest (mk_command CLrw 0 0) [1; 2; 3]] in
  Forall wf_push prog /\
  snd (run (finit 60, 7) prog) = [PushOk 7 0 14; RestSome 3 8 1 15].
Proof. split; [repeat constructor|vm_compute; reflexivity]. Qed.
