(* C18 -- DC sync set-up and per-cycle timing arithmetic are exact and total. *)
From EC Require Import Base.Prelude Base.Bytes Cycle.Cycle Dc.Sync Dc.SyncProofs Gen.SrcRegisters.
Local Open Scope N_scope.

(* Only the reference clock is read and only SubDevices that support DC and asked for SYNC are
   written to - on every path, the failing ones included, whatever the devices answer. *)
Theorem c18_touches_only : forall md dcref ds c answers,
  Forall (fun w => match w with
                   | WRead a r l => dcref = Some a /\ r = reg_system_time /\ l = 8
                   | WWrite a _ _ => exists d, In d ds /\ wants_dc d = true /\ sd_addr d = a
                   end) (snd (configure md dcref ds c answers)).
Proof. exact configure_touches_only. Qed.
Print Assumptions c18_touches_only.

(* Success means: there is a reference clock, period and delay fit 32-bit nanoseconds, every
   SYNC1 period does too, the captured configuration is the requested one, and the datagrams sent
   are exactly: the reference time read, then for each DC SubDevice in group order
   [sync off; start time; SYNC0 cycle time; (SYNC1 cycle time); activation flags 3 or 7] with one
   start time for all. *)
Theorem c18_configure_ok : forall md dcref ds c answers h ws,
  configure md dcref ds c answers = (Ok h, ws) ->
  exists ref data rest,
    dcref = Some ref /\ answers = (data, 1) :: rest /\
    d_period c < two32 /\ d_delay c < two32 /\
    h = {| h_period := d_period c; h_shift := d_shift c mod two64; h_ref := ref |} /\
    let time := of_le (firstn 8 data) in
    (filter wants_dc ds = [] /\ ws = [WRead ref reg_system_time 8] \/
     exists st, start_time md time (d_delay c) (d_period c) = Ok st /\
       ws = WRead ref reg_system_time 8 :: concat (map (dev_writes st (d_period c)) (filter wants_dc ds)) /\
       Forall sync1_ok (filter wants_dc ds)).
Proof. exact configure_ok. Qed.
Print Assumptions c18_configure_ok.

(* The start time is the multiple of the period in (time + delay - period, time + delay], and it
   fits the 8 bytes it is written in; when time + delay does not fit 64 bits it is an error. *)
Theorem c18_start_time : forall md time delay period, 1 <= period -> time + delay < two64 ->
  exists st, start_time md time delay period = Ok st /\
    (exists k, st = k * period) /\ time + delay < st + period /\ st <= time + delay /\ st < two64.
Proof. exact start_time_spec. Qed.
Print Assumptions c18_start_time.

Theorem c18_start_time_overflow : forall md time delay period, two64 <= time + delay ->
  start_time md time delay period = Err EConv.
Proof. exact start_time_overflow. Qed.
Print Assumptions c18_start_time_overflow.

(* Rejections: no reference clock -> error, nothing sent; period or delay beyond 32 bits -> error,
   nothing but the time read sent. *)
Theorem c18_no_reference : forall md ds c answers, configure md None ds c answers = (Err ENoRef, []).
Proof. exact configure_no_reference. Qed.
Print Assumptions c18_no_reference.

Theorem c18_range_rejected : forall md ref ds c answers,
  two32 <= d_period c \/ two32 <= d_delay c ->
  (exists e, fst (configure md (Some ref) ds c answers) = Err e) /\
  snd (configure md (Some ref) ds c answers) = [WRead ref reg_system_time 8].
Proof. exact configure_range. Qed.
Print Assumptions c18_range_rejected.

(* Total: with a period of at least 1 ns there is no panic and no hang, in either build mode. *)
Theorem c18_configure_total : forall md dcref ds c answers, 1 <= d_period c ->
  match fst (configure md dcref ds c answers) with Panic _ | Hang => False | _ => True end.
Proof. exact configure_total. Qed.
Print Assumptions c18_configure_total.

(* Every cycle: for EVERY 64-bit time, any period from 1 ns and any shift with period + shift
   below 2^64 (all 32-bit periods and shifts and far beyond), in both build modes: the offset is
   time mod period and the wait is (period - offset) + shift, in (shift, period + shift]. *)
Theorem c18_cycle : forall md time period shift,
  1 <= period -> time < two64 -> period + shift < two64 ->
  cycle_info md time period shift = Ok (time mod period, (period - time mod period) + shift) /\
  time mod period < period /\
  shift < (period - time mod period) + shift <= period + shift.
Proof. exact cycle_arith. Qed.
Print Assumptions c18_cycle.

(* the register addresses the model writes are the ones declared in src/register.rs (regenerated
   from the sources on every run) *)
Theorem c18_register_addresses :
  reg_system_time = reg_DcSystemTime /\ reg_sync_active = reg_DcSyncActive /\
  reg_start_time = reg_DcSyncStartTime /\ reg_sync0_cycle = reg_DcSync0CycleTime /\ reg_sync1_cycle = reg_DcSync1CycleTime.
Proof. repeat split; reflexivity. Qed.
Print Assumptions c18_register_addresses.
