(* C17 -- topology and propagation delays are reconstructed correctly from port timestamps. *)
From EC Require Import Base.Prelude Base.Bytes Dc.Topo Dc.TopoProofs Dc.Chain Dc.Tree Dc.TreeProofs Dc.TreeRefine Dc.TreeSuccess.
Local Open Scope N_scope.

(* For ANY port reports of ANY number of devices (open/closed flags and 32-bit port times chosen
   freely, consistent with a tree or not), in both build modes: the parent assignment and delay
   computation ends with a result or the topology error - never a panic, never a hang. *)
Theorem c17_no_panic : forall md l,
  (forall a t dc, In (a, t, dc) l -> Forall (fun x => x < 4294967296) t) ->
  fin (assign md (mk_devs 0 l)).
Proof. exact assign_total. Qed.
Print Assumptions c17_no_panic.

(* Whenever it succeeds, the propagation delays of the DC-capable devices never decrease in
   frame-processing order. *)
Theorem c17_delays_monotone : forall md l out,
  assign md (mk_devs 0 l) = Ok out -> nondecreasing (dc_delays out).
Proof. exact assign_monotone. Qed.
Print Assumptions c17_delays_monotone.

(* The system-time offset programmed into a device is the supplied master time minus that
   device's latched receive time (for times below 2^63, i.e. the next 290 years). *)
Theorem c17_offset : forall md receive now,
  receive < 9223372036854775808 -> now < 9223372036854775808 ->
  time_offset md receive now = Ok (Z.of_N now - Z.of_N receive)%Z.
Proof. exact time_offset_exact. Qed.
Print Assumptions c17_offset.

(* REFUTED clause (known finding c17 chain-delay-wrap): with port times that cross the 32-bit wrap
   between the outgoing and the returning frame the programmed delay is not the true one. *)
Theorem c17_wrap_refuted :
  exists l out, (forall a t dc, In (a, t, dc) l -> Forall (fun x => x < 4294967296) t) /\
    assign Debug (mk_devs 0 l) = Ok out /\ map d_delay out <> [0; 100].
Proof. exact wrap_refuted. Qed.
Print Assumptions c17_wrap_refuted.

(* Pure chains: devices wired port 0 -> port 1, all DC capable, one forwarding delay p > 0 in every
   device, ANY link delays, any start time, any length (times within 32 bits).  The port times each
   device latches are generated from these delays ([reps]: arrival at port 0, return at port 1 after
   the frame has travelled to the end of the line and back); the computation succeeds and the delay
   it assigns to device i is exactly the time the frame needs from the first device to device i. *)
Theorem c17_chain_exact : forall md a p ls, 0 < p -> back a p ls <= u32max ->
  exists out, assign md (mk_devs 0 (reps a p ls)) = Ok out /\
    map d_delay out = map (fun x => x - a) (arrivals a p ls).
Proof. exact chain_delays_exact. Qed.
Print Assumptions c17_chain_exact.

Theorem c17_chain_example :
  exists out, assign Debug (mk_devs 0 (reps 1000 300 [50; 120; 80])) = Ok out /\ map d_delay out = [0; 350; 770; 1150].
Proof. exact chain_example. Qed.
Print Assumptions c17_chain_example.

(* ---- the parent of every SubDevice is its true upstream neighbour: EVERY tree ---- *)

(* The parent search of src/dc.rs looks at two numbers per device: how many ports it has open and
   how many of its downstream ports have been handed out (Dc/Tree.v states the search over those).
   Run over the ring order of ANY tree - a device, then its subtrees in port order - it gives
   every device its true parent, never fails, and ends with every downstream port handed out. *)
Theorem c17_tree_search : forall t, arun [] (ipre 0 t) = Some (fulls 0 t, tpar 0 None t).
Proof. exact tree_parents. Qed.
Print Assumptions c17_tree_search.

(* The full model (port lists with receive times, the hand-out of ports by next_assignable_port,
   the delay computation in between) refines that search - whatever the port times, DC
   capabilities and the build mode: for the devices of ANY tree reported in ring order, each with
   as many open ports as it has children plus the one it is entered through, a successful
   assignment records for every device its true upstream neighbour. *)
Theorem c17_tree_parents : forall md t l out,
  map (fun x => nact (fst (fst x))) l = map (fun p => S (snd p)) (ipre 0 t) ->
  assign md (mk_devs 0 l) = Ok out ->
  map d_parent out = tpar 0 None t.
Proof. exact tree_parents_assigned. Qed.
Print Assumptions c17_tree_parents.

(* ... and it does succeed: EVERY tree, reported in ring order with children + 1 open ports per
   device and 32-bit port times - whatever those times, the DC capabilities and the build mode -
   is assigned without error, and every device gets its true upstream neighbour. *)
Theorem c17_tree_assignment : forall md t l,
  map (fun x => nact (fst (fst x))) l = map (fun p => S (snd p)) (ipre 0 t) ->
  (forall a tm dc, In (a, tm, dc) l -> Forall (fun x => x < 4294967296) tm) ->
  exists out, assign md (mk_devs 0 l) = Ok out /\ map d_parent out = tpar 0 None t.
Proof. exact tree_assignment. Qed.
Print Assumptions c17_tree_assignment.

(* not vacuous: a coupler with a line of two on one port and a fork on the next *)
Theorem c17_tree_example :
  map (fun x => nact (fst (fst x))) ex_reports = map (fun p => S (snd p)) (ipre 0 ex_tree) /\
  exists out, assign Debug (mk_devs 0 ex_reports) = Ok out /\
              map d_parent out = [None; Some 0; Some 1; Some 0; Some 3; Some 3] /\
              tpar 0 None ex_tree = [None; Some 0; Some 1; Some 0; Some 3; Some 3].
Proof. exact tree_example. Qed.
Print Assumptions c17_tree_example.
