(* C20 -- tasks sharing one MainDevice do not disturb each other.
   Two layers, each a theorem about an executable model that the harnesses tie to the code:
   (a) the PDU loop (Pdu/Slots.v, Pdu/Client.v): every party touches only the slot it is entitled
       to, so a task's request and response are exactly what they would be with the task alone;
   (b) the segment (Net/Commute.v, Pd/Layout.v): datagrams naming different stations commute, and a
       group's cycle passes through the devices of other groups unchanged. *)
From EC Require Import Base.Prelude Base.Bytes Pdu.Frame Pdu.Slots Pdu.SlotsProofs Pdu.Client Pdu.ClientProofs
  Pdu.Isolation Pd.Layout Pd.LayoutProofs Net.Commute Net.Interleave Net.InterleaveLrw Pdu.IdxAlloc Pdu.IdxAllocProofs Gen.IdxProgram.
Local Open Scope N_scope.

(* (a1) an operation on a handle changes that handle's slot only *)
Theorem c20_own_slot_only : forall s h o s' h' i,
  cstep (s, h) o = Some (s', h') -> slot_of o = Some i ->
  forall j, j <> i -> get s' j = get s j /\ hget h' j = hget h j.
Proof. exact own_slot_only. Qed.
Print Assumptions c20_own_slot_only.

(* (a2) allocation never takes a slot some task holds, and leaves held slots as they are *)
Theorem c20_alloc_takes_free_slot : forall s h s' h',
  Inv3 (s, h) -> cstep (s, h) CAlloc = Some (s', h') ->
  forall j, (j < nslots s)%nat -> hget h j <> HNone -> get s' j = get s j /\ hget h' j = hget h j.
Proof. exact alloc_takes_free_slot. Qed.
Print Assumptions c20_alloc_takes_free_slot.

(* (a3) the transmit side touches only a frame marked sendable, and of that only the status *)
Theorem c20_tx_takes_sendable_only : forall s h oc s' h',
  cstep (s, h) (CTxSend oc) = Some (s', h') ->
  h' = h /\ (forall j, sst (get s j) <> SSendable -> get s' j = get s j) /\
  (forall j, skey (get s' j) = skey (get s j) /\ sfr (get s' j) = sfr (get s j) /\ shdr (get s' j) = shdr (get s j)).
Proof. exact tx_takes_sendable_only. Qed.
Print Assumptions c20_tx_takes_sendable_only.

(* (a4) whatever bytes arrive, the receive side touches only a request that awaits a response and
   whose first-datagram index the frame carries: no task ever receives another task's response *)
Theorem c20_rx_touches_addressee_only : forall s h bytes s' h',
  wf_pstate s -> cstep (s, h) (CRx bytes) = Some (s', h') ->
  h' = h /\ forall j, (sst (get s j) <> SSent \/ skey (get s j) <> first_index bytes) -> get s' j = get s j.
Proof. exact rx_touches_addressee_only. Qed.
Print Assumptions c20_rx_touches_addressee_only.

(* (a5) lifted: while a task holds slot i, ANY sequence of the other parties' operations - other
   tasks on their handles, allocations, transmissions of other frames, receptions of frames that
   answer other requests - leaves slot i (status, key, buffer, header) and the task's handle
   exactly as they were: the task continues as if it had been alone *)
Theorem c20_slot_untouched_by_others : forall i ops s h s' h',
  Inv3 (s, h) -> (i < nslots s)%nat -> hget h i <> HNone ->
  foreign_run i (s, h) ops -> crun (s, h) ops = Some (s', h') ->
  get s' i = get s i /\ hget h' i = hget h i.
Proof. exact slot_untouched_by_others. Qed.
Print Assumptions c20_slot_untouched_by_others.

(* (a6) no operation fails merely because of the others: allocation fails only when every slot
   is held by a live handle (as many frames in flight as the storage holds) *)
Theorem c20_alloc_available : forall n cap ops s h,
  In n pow2s -> crun (pinit n cap, repeat HNone n) ops = Some (s, h) ->
  (snd (alloc s) = None <-> forall i, (i < nslots s)%nat -> hget h i <> HNone).
Proof. exact alloc_fails_iff_all_held. Qed.
Print Assumptions c20_alloc_available.

(* (b1) datagrams naming different stations: same answers, same final segment, either order *)
Theorem c20_fp_commute : forall s d1 d2, station_of d1 <> station_of d2 ->
  let '(s1, r1) := exec s d1 in let '(s12, r2) := exec s1 d2 in
  let '(s2, r2') := exec s d2 in let '(s21, r1') := exec s2 d1 in
  r1 = r1' /\ r2 = r2' /\ seg_eq s12 s21.
Proof. exact fp_commute. Qed.
Print Assumptions c20_fp_commute.

(* (b2) a logical datagram leaves alone every device none of whose FMMUs answers its range ... *)
Theorem c20_lrw_outside : forall fs data m la,
  (forall k, (k < length data)%nat -> forall j, fmap (fs j) (la + N.of_nat k) = None) ->
  lrw_dev fs m la data = (m, data).
Proof. exact lrw_outside. Qed.
Print Assumptions c20_lrw_outside.

(* (b3) ... which, for a device configured as C08 describes, is every range outside its own two
   windows: process images of different groups never mix *)
Theorem c20_other_groups_cycle_passes : forall dv fs regs win wout data m la,
  dev_post dv fs regs win wout ->
  (forall k, (k < length data)%nat ->
     ~ (fst win <= la + N.of_nat k /\ la + N.of_nat k < snd win) /\
     ~ (fst wout <= la + N.of_nat k /\ la + N.of_nat k < snd wout)) ->
  lrw_dev fs m la data = (m, data).
Proof. exact other_groups_cycle_passes. Qed.
Print Assumptions c20_other_groups_cycle_passes.

(* non-vacuity: task A's request sits in slot 0 awaiting its response while task B allocates,
   builds, sends, receives and releases a complete request in slot 1 *)
(* [ops_a], [resp_b], [ops_b]: Pdu/Isolation.v *)
Theorem c20_example :
  exists s h s' h', crun (pinit 2 64, repeat HNone 2) ops_a = Some (s, h) /\ hget h 0 = HFut /\
    crun (s, h) ops_b = Some (s', h') /\ foreign_run 0 (s, h) ops_b /\
    hget h' 1 = HNone /\ sst (get s' 1) = SNone /\ get s' 0 = get s 0.
Proof. exact isolation_example. Qed.
Print Assumptions c20_example.

Theorem c20_segment_example :
  exists g s, cfg_group Debug 96 64 (map init_dev [ex_io]) = Ok g /\ g_devs g = [s] /\
    lrw_dev (ds_fmmus s) (fun _ => 7) 160 [1; 2; 3] = (fun _ => 7, [1; 2; 3]) /\
    snd (lrw_dev (ds_fmmus s) (fun x => x mod 256) 96 [0; 0]) = [4360 mod 256; 4361 mod 256].
Proof. exact passes_example. Qed.
Print Assumptions c20_segment_example.

(* ---- the PDU index counter all tasks (and threads) share ---- *)

(* FrameBox::next_pdu_idx, as the translator reads it off the source (Gen/IdxProgram.v: its accesses
   to the shared counter, in program order), run by any number of threads under EVERY schedule:
   as long as no more than 256 indices are taken, no index is handed out twice - so two frames in
   flight never carry the same first-datagram index, which is what routes a response to its task
   (c20_rx_touches_addressee_only).  The statement is about next_pdu_idx_program, whatever the
   translator found: it is provable because that program is the single atomic fetch-add. *)
Theorem c20_indices_distinct : forall c0 n sched, c0 < 256 -> (length sched <= 256)%nat ->
  NoDup (results (arun next_pdu_idx_program sched (ainit c0 n))).
Proof. exact atomic_distinct. Qed.
Print Assumptions c20_indices_distinct.

(* ... and it matters that it is: the same routine written as a load followed by a store hands
   the same index to two threads *)
Theorem c20_split_alloc_refuted : ~ (forall c0 n sched, c0 < 256 -> (length sched <= 256)%nat ->
  NoDup (results (arun [PLoad; PStore] sched (ainit c0 n)))).
Proof. exact split_not_distinct. Qed.
Print Assumptions c20_split_alloc_refuted.

(* ---- composition on the segment: ANY interleaving of two tasks' operations ---- *)

(* For any kind of operation that looks only at its footprint on the segment and changes nothing
   outside it: operations of two tasks with disjoint footprints, interleaved in ANY order, give
   each task exactly the answers of its run alone from the same segment state; each task's part of
   the segment ends as after that run; the rest of the segment is untouched.  (The result each
   operation "would yield running alone against the same device state".) *)
Theorem c20_interleave : forall (op R : Type) (ex : seg -> op -> seg * R) (foot : op -> N -> Prop),
  (forall o s t, agree_on (foot o) s t -> snd (ex s o) = snd (ex t o) /\ agree_on (foot o) (fst (ex s o)) (fst (ex t o))) ->
  (forall o s a, ~ foot o a -> present (fst (ex s o)) a = present s a /\ forall x, memory (fst (ex s o)) a x = memory s a x) ->
  forall PA PB : N -> Prop, (forall a, PA a -> PB a -> False) -> (forall o a, foot o a \/ ~ foot o a) ->
  forall l s, fits op foot PA PB l ->
  let '(s', ra, rb) := run_tagged op R ex s l in
  ra = snd (run op R ex s (ops_of op true l)) /\ rb = snd (run op R ex s (ops_of op false l)) /\
  agree_on PA s' (fst (run op R ex s (ops_of op true l))) /\ agree_on PB s' (fst (run op R ex s (ops_of op false l))) /\
  (forall a, ~ PA a -> ~ PB a -> present s' a = present s a /\ forall x, memory s' a x = memory s a x).
Proof. exact interleave. Qed.
Print Assumptions c20_interleave.

(* configured-address datagrams (register accesses, every step of a mailbox exchange) are such
   operations, their footprint being the station they name: two tasks talking to disjoint sets of
   SubDevices, interleaved in ANY order *)
Theorem c20_fp_tasks_interleave : forall (PA PB : N -> Prop) l s, (forall a, PA a -> PB a -> False) ->
  Forall (fun p : bool * dgram => if fst p then PA (station_of (snd p)) else PB (station_of (snd p))) l ->
  let '(s', ra, rb) := run_tagged dgram (list N * N) exec s l in
  ra = snd (run dgram (list N * N) exec s (ops_of dgram true l)) /\
  rb = snd (run dgram (list N * N) exec s (ops_of dgram false l)) /\
  agree_on PA s' (fst (run dgram (list N * N) exec s (ops_of dgram true l))) /\
  agree_on PB s' (fst (run dgram (list N * N) exec s (ops_of dgram false l))) /\
  (forall a, ~ PA a -> ~ PB a -> present s' a = present s a /\ forall x, memory s' a x = memory s a x).
Proof. exact fp_tasks_interleave. Qed.
Print Assumptions c20_fp_tasks_interleave.

Theorem c20_interleave_example :
  let '(_, ra, rb) := run_tagged dgram (list N * N) exec ex_seg ex_sched in
  ra = [([1; 2], 1); ([1; 2], 1)] /\ rb = [([9], 1); ([8], 1); ([9; 8], 1)].
Proof. exact interleave_example. Qed.
Print Assumptions c20_interleave_example.

(* logical (process-data) datagrams are operations local to a footprint too - the stations one of
   whose sixteen FMMUs answers an address of the datagram's range (with C08: the devices of the
   group) - for ANY FMMU contents and any ring order without repetition.  So register accesses,
   mailbox exchanges and process-data cycles of two tasks with disjoint footprints can be
   interleaved in ANY order: each task receives what it would receive alone, each task's devices
   end as after its run alone, every other station is untouched. *)
Theorem c20_mixed_tasks_interleave : forall (conf : N -> fregs) (order : list N), NoDup order ->
  forall (PA PB : N -> Prop) l s, (forall a, PA a -> PB a -> False) ->
  fits mop (mfoot conf order) PA PB l ->
  let '(s', ra, rb) := run_tagged mop mres (mex conf order) s l in
  ra = snd (run mop mres (mex conf order) s (ops_of mop true l)) /\
  rb = snd (run mop mres (mex conf order) s (ops_of mop false l)) /\
  agree_on PA s' (fst (run mop mres (mex conf order) s (ops_of mop true l))) /\
  agree_on PB s' (fst (run mop mres (mex conf order) s (ops_of mop false l))) /\
  (forall a, ~ PA a -> ~ PB a -> present s' a = present s a /\ forall x, memory s' a x = memory s a x).
Proof. exact mixed_tasks_interleave. Qed.
Print Assumptions c20_mixed_tasks_interleave.

(* the ring pass of that theorem is the one C08 compares with real cycles on every run
   (Net/Commute.v ring): same returned data, same device memories *)
Theorem c20_ring_is_c08_ring : forall conf cs stations s la data,
  NoDup stations -> length stations = length cs ->
  (forall i a c, nth_error stations i = Some a -> nth_error cs i = Some c ->
     present s a = true /\ conf a = c_fs c /\ forall x, memory s a x = c_mem c x) ->
  snd (lrw_ring conf stations s la data) = snd (ring cs la data) /\
  Forall2 (fun a m' => forall x, memory (fst (lrw_ring conf stations s la data)) a x = m' x) stations (fst (ring cs la data)).
Proof. exact lrw_ring_is_ring. Qed.
Print Assumptions c20_ring_is_c08_ring.
