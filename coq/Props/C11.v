(* C11 -- a device that did not answer is never mistaken for one that did. *)
From Coq Require Import String.
From EC Require Import Base.Prelude Base.Bytes Cmd.Wkc Cmd.WkcProofs Gen.WkcSites.
Local Open Scope N_scope.

(* An entry point hands back a value only if every datagram it checks was serviced by exactly the
   expected number of devices ... *)
Theorem c11_ok_only_if_counted : forall op expected al l,
  outcome op expected al l = Ok tt ->
  Forall (fun cw => match fst cw with Checked e => snd cw = e | Exempt => True end) (classify op expected 0 false l).
Proof. exact ok_only_if_counted. Qed.
Print Assumptions c11_ok_only_if_counted.

(* ... and the first checked datagram whose counter differs makes it fail with a working-counter
   error carrying the expected and the received count, whatever came before on exempt datagrams. *)
Theorem c11_mismatch_is_wkc_error : forall op expected al l e w pre post,
  classify op expected 0 false l = pre ++ (Checked e, w) :: post -> w <> e -> first_mismatch pre = None ->
  outcome op expected al l = Err (WWkc e w).
Proof. exact mismatch_is_wkc_error. Qed.
Print Assumptions c11_mismatch_is_wkc_error.

(* the single-datagram entry points: default expectation 1, or the caller's count *)
Theorem c11_single_default : forall op expected al g,
  In op [0; 3; 4; 8; 9] -> outcome op expected al [g] = if g_wkc g =? 1 then Ok tt else Err (WWkc 1 (g_wkc g)).
Proof. exact single_checked. Qed.
Print Assumptions c11_single_default.

Theorem c11_single_expected : forall op expected al g,
  In op [1; 5; 7] -> outcome op expected al [g] = if g_wkc g =? expected then Ok tt else Err (WWkc expected (g_wkc g)).
Proof. exact single_expected. Qed.
Print Assumptions c11_single_expected.

(* The opt-outs.  Gen/WkcSites.v is regenerated from the sources on every run and lists every call
   site outside src/command that does not check a working counter (ignore_wkc, or the
   fire-and-forget WrappedWrite::send) and every function that takes datagrams out of a received
   frame itself without calling wkc()/maybe_wkc() on them.  Each of them is one the reviewed list below knows: a new
   unchecked access anywhere in the crate breaks this theorem. *)
Local Open Scope string_scope.
Definition reviewed_optouts : list (string * string * string) :=
  [("src/dc.rs", "latch_dc_times", "ignore_wkc+receive");            (* receive time of a device that answered the latch BWR *)
   ("src/dc.rs", "latch_dc_times", "send");                          (* broadcast latch *)
   ("src/dc.rs", "write_dc_parameters", "ignore_wkc+send");
   ("src/eeprom/device_provider.rs", "read_chunk", "send");          (* SII command; the status poll behind it is checked *)
   ("src/eeprom/device_provider.rs", "write_word", "send");
   ("src/mailbox/coe/mod.rs", "mailbox_write_read", "send");         (* mailbox write; the status poll behind it is checked *)
   ("src/mailbox/coe/mod.rs", "send_sdo_info_service", "send");
   ("src/mailbox/coe/mod.rs", "wait_for_mailboxes", "ignore_wkc+receive_slice");   (* discarding a stale mailbox *)
   ("src/maindevice.rs", "init", "send");
   ("src/maindevice.rs", "reset_subdevices", "ignore_wkc+send");
   ("src/maindevice.rs", "single_pdu", "frame-level+no-wkc-check");   (* the conduit of src/command: every caller there applies maybe_wkc to what it returns *)
   ("src/maindevice.rs", "wait_for_state", "ignore_wkc+receive");    (* BRD poll compared with the device count below it *)
   ("src/subdevice/configuration.rs", "write_fmmu_config", "send");
   ("src/subdevice/configuration.rs", "write_sm_config", "send");
   ("src/subdevice/mod.rs", "set_eeprom_mode", "send");
   ("src/subdevice/mod.rs", "wait_for_state", "ignore_wkc+receive"); (* an absent device reads as state 0: never the awaited state *)
   ("src/subdevice_group/mod.rs", "configure_dc_sync", "ignore_wkc+send");
   ("src/subdevice_group/mod.rs", "configure_dc_sync", "send");
   (* the cyclic exchange hands the summed working counter of its LRW datagrams to the caller, who
      compares it with what the group's devices must add; a status read nobody answered reads as
      state 0 ("none") in the state list - no device's data is made up *)
   ("src/subdevice_group/mod.rs", "tx_rx", "frame-level+no-wkc-check");
   ("src/subdevice_group/mod.rs", "tx_rx_dc", "frame-level+no-wkc-check");
   ("src/subdevice_group/mod.rs", "tx_rx_sync_system_time", "frame-level+no-wkc-check")].

Definition site_eqb (a b : string * string * string) : bool :=
  match a, b with (a1, a2, a3), (b1, b2, b3) => String.eqb a1 b1 && String.eqb a2 b2 && String.eqb a3 b3 end.

Theorem c11_optouts_reviewed :
  forallb (fun s => existsb (site_eqb s) reviewed_optouts) wkc_optout_sites = true.
Proof. vm_compute. reflexivity. Qed.
Print Assumptions c11_optouts_reviewed.
