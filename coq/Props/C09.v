(* C09 -- initialisation finds every SubDevice once and addresses each distinctly. *)
From Coq Require Import Permutation.
From EC Require Import Base.Prelude Base.Bytes Init.Discover Init.DiscoverProofs.
Local Open Scope N_scope.

(* the device at ring position i gets the station address 0x1000 + i ... *)
Theorem c09_address : forall n i, (i < n)%nat -> nth i (addressed n) (0%nat, 0) = (i, addr_of i).
Proof. exact addressed_nth. Qed.
Print Assumptions c09_address.

(* ... all of them distinct *)
Theorem c09_distinct : forall n, N.of_nat n <= 61440 -> NoDup (map snd (addressed n)).
Proof. exact addresses_distinct. Qed.
Print Assumptions c09_distinct.

(* every discovered device is placed in exactly one group, whatever the caller's filter *)
Theorem c09_partition : forall max ngroups n assign gs,
  init_groups max ngroups n assign = Ok gs -> (0 < n)%nat ->
  Permutation (concat gs) (addressed n) /\ length gs = ngroups /\ (n <= max)%nat.
Proof. exact groups_partition. Qed.
Print Assumptions c09_partition.

(* more devices than the caller's capacity is an error, an empty network yields empty groups *)
Theorem c09_capacity : forall max ngroups n assign, (max < n)%nat -> init_groups max ngroups n assign = Err ICapacity.
Proof. exact capacity_error. Qed.
Print Assumptions c09_capacity.

Theorem c09_empty : forall max ngroups assign, init_groups max ngroups 0 assign = Ok (repeat [] ngroups).
Proof. exact empty_network. Qed.
Print Assumptions c09_empty.
