(* C02 -- a frame buffer never has two parties inside it at once. *)
From EC Require Import Base.Prelude Base.Bytes Pdu.Frame Pdu.Slots Pdu.View Pdu.Hist Pdu.SlotsProofs Pdu.Client
  Pdu.ClientProofs Pdu.Own2 Pdu.Own2Proofs.
Local Open Scope N_scope.

(* In every state reachable by any history over the window-granular alphabet (application ops on
   handles it holds; TX claim / send outcome; RX claim / copy / done; poll and response drop split
   at their yield points) in which no deadline acts and no request is abandoned while TX or RX is
   inside that buffer (C06's window): each buffer has at most one of {builder, TX, RX, reader}
   inside it, and the slot's lifecycle status names that party. *)
Theorem c02_mutex : forall n cap ops x, In n pow2s -> xrun (xinit n cap) ops = Some x ->
  forall i, (i < nslots (xs x))%nat ->
  (parties x i <= 1)%nat /\
  (hk_eqb (hget (xh x) i) HCreated = true <-> sst (get (xs x) i) = SCreated) /\
  (hk_eqb (hget (xh x) i) HReceived = true <-> sst (get (xs x) i) = SRxProcessing) /\
  (tx_in x i = true <-> sst (get (xs x) i) = SSending) /\
  (rx_in x i = true <-> sst (get (xs x) i) = SRxBusy).
Proof. exact mutex. Qed.
Print Assumptions c02_mutex.

(* a buffer is never given to a new request until every previous owner has let go of it *)
Theorem c02_alloc_only_free : forall n cap ops x x' s' i,
  In n pow2s -> xrun (xinit n cap) ops = Some x ->
  alloc (xs x) = (s', Some i) -> xstep x OAlloc = Some x' ->
  parties x i = 0%nat /\ hget (xh x) i = HNone /\ parties x' i = 1%nat.
Proof. exact alloc_only_free. Qed.
Print Assumptions c02_alloc_only_free.

(* every change of a slot's lifecycle state follows the documented order *)
Theorem c02_lifecycle : forall n cap ops x o x', In n pow2s ->
  xrun (xinit n cap) ops = Some x -> xstep x o = Some x' ->
  forall j, edge (sst (get (xs x) j)) (sst (get (xs x') j)) = true.
Proof.
  intros n cap ops x o x' I R S.
  exact (xstep_edge x o x' (xrun_inv ops _ _ (xinit_inv n cap I) R) S).
Qed.
Print Assumptions c02_lifecycle.

(* the status a not-yet-complete poll remembers is one of the four pending ones (this is the
   enabling condition of OPollEnd in the alphabet) *)
Theorem c02_poll_was : forall n cap ops x i s' was, In n pow2s ->
  xrun (xinit n cap) ops = Some x -> hget (xh x) i = HFut ->
  op_poll_begin (xs x) i = (s', Some was) ->
  s' = xs x /\ (was = SSendable \/ was = SSending \/ was = SSent \/ was = SRxBusy).
Proof.
  intros n cap ops x i s' was I R. apply poll_begin_was. exact (xrun_inv ops _ _ (xinit_inv n cap I) R).
Qed.
Print Assumptions c02_poll_was.

(* non-vacuity: a full round trip with TX and RX windows, a second request built meanwhile *)
Example c02_example :
  let resp := bcast ++ [18;16;16;16;16;16] ++ ethertype_bytes ++ [13; 16] ++ [7;0;0;0;0;0;1;0;0;0; 170; 1;0] in
  let ops := [OAlloc; OPush 0 (mk_command CBrd 0 0) [] (Some 1%nat); OMark 0; OTxClaim; OAlloc;
              OTxDone 0 0; ORxBegin resp; OPush 1 (mk_command CBrd 0 0) [] (Some 1%nat);
              ORxCopy 0 [7;0;0;0;0;0;1;0;0;0; 170; 1;0]; ORxEnd 0; OPollBegin 0; ODropRelease 0; ODropClear 0] in
  exists x, xrun (xinit 2 60) ops = Some x /\ xh x = [HNone; HCreated].
Proof. eexists. split; vm_compute; reflexivity. Qed.
