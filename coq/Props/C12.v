(* C12 -- EEPROM reads return exactly the stored bytes and parse to what they encode. *)
From EC Require Import Base.Prelude Base.Bytes Wire.Layout Gen.SrcLayouts Sii.Range Sii.RangeProofs Sii.Parse Sii.ParseProofs.
Local Open Scope N_scope.

(* Reading n bytes at word w the way eeprom_read_raw / eeprom_read do (start_at(w, n) then read /
   read_exact), for ANY EEPROM contents, any provider serving at least one word per access (4 and 8
   bytes included), any start word, any length - odd or even - inside the 16-bit word address
   space: exactly the n stored bytes 2w .. 2w+n, nothing else. *)
Theorem c12_read_exact : forall p w n, prov_ok p -> 2 * w + N.of_nat n <= 131072 ->
  exact p (start_at w (N.of_nat n)) n
  = Ok (bytes_from p (2 * w) n, {| r_pos := 2 * w + N.of_nat n; r_end := 2 * w + (N.of_nat n + 1) / 2 * 2 |}).
Proof. exact exact_fresh. Qed.
Print Assumptions c12_read_exact.

(* Read::read on any range inside the address space: min(buffer, remaining) bytes, exactly those
   stored at the current position, and the position advances by that much. *)
Theorem c12_read : forall p r n, (2 <= p_cs p)%nat -> r_pos r <= r_end r -> r_end r <= 131072 ->
  let k := Nat.min n (N.to_nat (r_end r - r_pos r)) in
  range_read p r n = Ok (bytes_from p (r_pos r) k, {| r_pos := r_pos r + N.of_nat k; r_end := r_end r |}).
Proof. exact range_read_spec. Qed.
Print Assumptions c12_read.

(* ... and on ANY range whatsoever a read never delivers more than asked for, never anything from
   beyond the end of the range, and only stored bytes. *)
Theorem c12_read_never_beyond : forall p r n, (2 <= p_cs p)%nat ->
  (exists k, (k <= n)%nat /\ N.of_nat k <= r_end r - r_pos r /\
     range_read p r n = Ok (bytes_from p (r_pos r) k, {| r_pos := r_pos r + N.of_nat k; r_end := r_end r |})) \/
  range_read p r n = Err SOverrun.
Proof. exact range_read_safe. Qed.
Print Assumptions c12_read_never_beyond.

(* The category walk: for any chain of category headers (types the parser knows or not, in any
   order) in front of the wanted category - fewer than 32 empty ones, inside the address space -
   the walk returns exactly the wanted category's payload range. *)
Theorem c12_category_found : forall p want pre wa e len fuel,
  headers_at p wa (pre ++ [(want, len)]) ->
  Forall (stepped_over want) pre ->
  enum_val enum_CategoryType want = Ok want ->
  e + empties_in (pre ++ [(want, len)]) < 32 ->
  end_of wa pre + 2 < 65536 ->
  (length pre < fuel)%nat ->
  walk fuel p want wa e = Ok (Some (range_new (end_of wa pre + 2) len)).
Proof. exact walk_finds. Qed.
Print Assumptions c12_category_found.

(* Item lists (sync managers, FMMU mappings): a category of k whole items is reported as exactly
   those k items, each parsed from its own bytes, in order. *)
Theorem c12_items : forall p size parse cap item, prov_ok p -> (0 < size)%nat ->
  forall k r n acc vs fuel,
  r_pos r <= r_end r -> r_end r <= 131072 ->
  (N.to_nat (r_end r - r_pos r) / size = k)%nat ->
  (n + k <= cap)%nat -> (k < fuel)%nat ->
  Forall2 (fun i v => parse (bytes_from p (r_pos r + N.of_nat (size * i)) size) = Ok v) (seq 0 k) vs ->
  collect fuel p r size parse cap item n acc = Ok ((n + k)%nat, acc ++ concat vs).
Proof. exact collect_spec. Qed.
Print Assumptions c12_items.
