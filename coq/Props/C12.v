(* C12 -- EEPROM reads return exactly the stored bytes and parse to what they encode. *)
From EC Require Import Base.Prelude Base.Bytes Wire.Layout Gen.SrcLayouts Sii.Range Sii.RangeProofs Sii.Parse Sii.ParseProofs Sii.Encode Sii.EncodeGeneral.
Local Open Scope N_scope.

(* Reading n bytes at word w the way eeprom_read_raw / eeprom_read do (start_at(w, n) then read /
   read_exact), for ANY EEPROM contents, any provider serving at least one word per access (4 and 8
   bytes included), any start word, any length - odd or even - inside the 16-bit word address
   space: exactly the n stored bytes 2w .. 2w+n, nothing else. *)
Theorem c12_read_exact : forall p w n, prov_ok p -> 2 * w + N.of_nat n <= 131072 ->
  exact p (start_at w (N.of_nat n)) n
  = Ok (bytes_from p (2 * w) n, {| r_pos := 2 * w + N.of_nat n; r_end := 2 * w + (N.of_nat n + 1) / 2 * 2 |}).
Proof. exact exact_fresh. Qed.
Print Assumptions c12_read_exact.

(* Read::read on any range inside the address space: min(buffer, remaining) bytes, exactly those
   stored at the current position, and the position advances by that much. *)
Theorem c12_read : forall p r n, (2 <= p_cs p)%nat -> r_pos r <= r_end r -> r_end r <= 131072 ->
  let k := Nat.min n (N.to_nat (r_end r - r_pos r)) in
  range_read p r n = Ok (bytes_from p (r_pos r) k, {| r_pos := r_pos r + N.of_nat k; r_end := r_end r |}).
Proof. exact range_read_spec. Qed.
Print Assumptions c12_read.

(* ... and on ANY range whatsoever a read never delivers more than asked for, never anything from
   beyond the end of the range, and only stored bytes. *)
Theorem c12_read_never_beyond : forall p r n, (2 <= p_cs p)%nat ->
  (exists k, (k <= n)%nat /\ N.of_nat k <= r_end r - r_pos r /\
     range_read p r n = Ok (bytes_from p (r_pos r) k, {| r_pos := r_pos r + N.of_nat k; r_end := r_end r |})) \/
  range_read p r n = Err SOverrun.
Proof. exact range_read_safe. Qed.
Print Assumptions c12_read_never_beyond.

(* The category walk: for any chain of category headers (types the parser knows or not, in any
   order) in front of the wanted category - fewer than 32 empty ones, inside the address space -
   the walk returns exactly the wanted category's payload range. *)
Theorem c12_category_found : forall p want pre wa e len fuel,
  headers_at p wa (pre ++ [(want, len)]) ->
  Forall (stepped_over want) pre ->
  enum_val enum_CategoryType want = Ok want ->
  e + empties_in (pre ++ [(want, len)]) < 32 ->
  end_of wa pre + 2 < 65536 ->
  (length pre < fuel)%nat ->
  walk fuel p want wa e = Ok (Some (range_new (end_of wa pre + 2) len)).
Proof. exact walk_finds. Qed.
Print Assumptions c12_category_found.

(* Item lists (sync managers, FMMU mappings): a category of k whole items is reported as exactly
   those k items, each parsed from its own bytes, in order. *)
Theorem c12_items : forall p size parse cap item, prov_ok p -> (0 < size)%nat ->
  forall k r n acc vs fuel,
  r_pos r <= r_end r -> r_end r <= 131072 ->
  (N.to_nat (r_end r - r_pos r) / size = k)%nat ->
  (n + k <= cap)%nat -> (k < fuel)%nat ->
  Forall2 (fun i v => parse (bytes_from p (r_pos r + N.of_nat (size * i)) size) = Ok v) (seq 0 k) vs ->
  collect fuel p r size parse cap item n acc = Ok ((n + k)%nat, acc ++ concat vs).
Proof. exact collect_spec. Qed.
Print Assumptions c12_items.

(* "... equal what its well-formed EEPROM encodes": the encodings of the fixed-layout items
   (ETG.2010) and their round trips through the decoders of the model, for every field value *)
Theorem c12_sync_manager_roundtrip : forall v, sm_wf v ->
  parse_sm (sm_encode v) =
  Ok (map Z.of_N [v_start v; v_len v; v_om v; v_dir v; N.b2n (v_b4 v); N.b2n (v_b5 v); N.b2n (v_b6 v); v_en v; v_ut v; sm_derived v]).
Proof. exact sm_roundtrip. Qed.
Print Assumptions c12_sync_manager_roundtrip.

Theorem c12_identity_roundtrip : forall vendor product revision serial,
  vendor < 4294967296 -> product < 4294967296 -> revision < 4294967296 -> serial < 4294967296 ->
  let b := identity_bytes vendor product revision serial in
  [le32 b; le32 (skipn 4 b); le32 (skipn 8 b); le32 (skipn 12 b)] = [vendor; product; revision; serial].
Proof. exact identity_roundtrip. Qed.
Print Assumptions c12_identity_roundtrip.

Theorem c12_mailbox_roundtrip : forall rx_off rx_size tx_off tx_size protocols,
  rx_off < 65536 -> rx_size < 65536 -> tx_off < 65536 -> tx_size < 65536 -> protocols < 64 ->
  let b := mailbox_bytes rx_off rx_size tx_off tx_size protocols in
  [le16 b; le16 (skipn 2 b); le16 (skipn 4 b); le16 (skipn 6 b)] = [rx_off; rx_size; tx_off; tx_size] /\
  bits_val 63 (nth 8 b 0) = Ok protocols.
Proof. exact mailbox_roundtrip. Qed.
Print Assumptions c12_mailbox_roundtrip.

Theorem c12_size_roundtrip : forall kbit, 1 <= kbit -> kbit <= 65536 ->
  (le16 (le_bytes 2 (kbit - 1)) + 1) * 128 = kbit * 128.
Proof. exact size_roundtrip. Qed.
Print Assumptions c12_size_roundtrip.

Theorem c12_fmmu_usage_roundtrip : forall u, u <= 3 -> enum_val enum_FmmuUsage u = Ok u.
Proof. exact fmmu_usage_roundtrip. Qed.
Print Assumptions c12_fmmu_usage_roundtrip.

Theorem c12_pdo_header_roundtrip : forall index n_entries sm sync name_idx flags, index < 65536 ->
  let b := pdo_header_bytes index n_entries sm sync name_idx flags in
  le16 b = index /\ nth 2 b 0 = n_entries /\ nth 3 b 0 = sm /\ length b = 8%nat.
Proof. exact pdo_header_roundtrip. Qed.
Print Assumptions c12_pdo_header_roundtrip.

(* The General category (ETG.2010 Table 7): every well-formed value of every field the
   implementation reads - string indices, CoE details, FoE/EoE, flags, the signed E-bus current,
   the four port types, the physical memory address - is read back exactly. *)
Theorem c12_general_roundtrip : forall v, gen_wf v ->
  exists g, parse_general (general_encode v) = Ok g /\
    g_order_idx g = gv_order v /\ g_name_idx g = gv_name v /\
    g_obs g = [Z.of_N (gv_group v); Z.of_N (gv_img v); Z.of_N (gv_order v); Z.of_N (gv_name v);
               Z.of_N (gv_coe v); (if gv_foe v then 1 else 0)%Z; (if gv_eoe v then 1 else 0)%Z;
               Z.of_N (gv_flags v); gv_ebus v;
               Z.of_N (gv_p0 v); Z.of_N (gv_p1 v); Z.of_N (gv_p2 v); Z.of_N (gv_p3 v); Z.of_N (gv_pma v)].
Proof. exact general_roundtrip. Qed.
Print Assumptions c12_general_roundtrip.

(* The string table (count, then length-prefixed strings) stored anywhere in the EEPROM inside the
   range the category walk found for it, for ANY table of fewer than 256 strings of fewer than 256
   bytes: string number idx (1-based) that fits the caller's capacity is read back as the idx-th
   string, cleaned the way the implementation cleans it; 0 and numbers beyond the table are "no
   string".  (A table filling its category to the last byte is excluded by the strict bound: the
   implementation's skip refuses to move onto the end of the range.) *)
Theorem c12_string_roundtrip : forall p r ss cap idx, prov_ok p ->
  category p cat_strings = Ok (Some r) ->
  holds p (r_pos r) (strings_encode ss) ->
  r_pos r + N.of_nat (length (strings_encode ss)) < r_end r -> r_end r <= 131072 ->
  (length ss < 256)%nat -> Forall (fun s => (length s < 256)%nat) ss ->
  1 <= idx -> (N.to_nat idx <= length ss)%nat ->
  N.of_nat (length (nth (N.to_nat idx - 1) ss [])) <= cap ->
  find_string p cap idx = Ok (Some (clean (nth (N.to_nat idx - 1) ss []))).
Proof. exact find_string_roundtrip. Qed.
Print Assumptions c12_string_roundtrip.

Theorem c12_string_beyond : forall p r ss cap idx, prov_ok p ->
  category p cat_strings = Ok (Some r) -> holds p (r_pos r) (strings_encode ss) -> r_pos r < 131072 ->
  (length ss < N.to_nat idx)%nat -> find_string p cap idx = Ok None.
Proof. exact find_string_beyond. Qed.
Print Assumptions c12_string_beyond.

Theorem c12_string_example :
  find_string ex_prov 64 1 = Ok (Some [69; 75; 49; 49; 48; 48]) /\
  find_string ex_prov 64 2 = Ok (Some [67; 111; 117; 112; 108; 101; 114]) /\
  find_string ex_prov 64 3 = Ok None.
Proof. exact find_string_example. Qed.
Print Assumptions c12_string_example.
