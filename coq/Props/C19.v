(* C19 -- derived wire encodings match their declared layout and round-trip.
   Only pinned statements, each closed by [exact], each followed by Print Assumptions. *)
From Coq Require Import String.
From EC Require Import Base.Prelude Base.Bytes Wire.Layout Wire.LayoutProofs Wire.EnumProofs
  Wire.InCrate Gen.SrcLayouts.
Local Open Scope N_scope.

(* packing places every field at exactly its declared bit position, little endian, and nothing
   else: the packed number IS the sum of the fields shifted to their positions *)
Theorem c19_pack_positions : forall l ps vs bs,
  place l = Ok ps -> forallb kind_ok ps = true ->
  Forall2 (fun p v => in_range p v = true) ps vs ->
  pack l vs = Ok bs ->
  length bs = size_bytes l /\ wf_bytes bs /\ of_le bs = fields_val ps vs.
Proof. exact pack_positions. Qed.
Print Assumptions c19_pack_positions.

(* all undeclared bits are zero (the packed number is below 2^width and is exactly the sum) *)
Theorem c19_pack_bound : forall l ps vs bs,
  place l = Ok ps -> forallb kind_ok ps = true ->
  Forall2 (fun p v => in_range p v = true) ps vs -> pack l vs = Ok bs ->
  of_le bs < 2 ^ lwidth l.
Proof. exact pack_bound. Qed.
Print Assumptions c19_pack_bound.

(* unpacking any buffer of at least the packed length reads each field from its position *)
Theorem c19_unpack_positions : forall l ps buf,
  place l = Ok ps -> forallb kind_ok ps = true -> wf_bytes buf ->
  (size_bytes l <= length buf)%nat ->
  unpack_placed (size_bytes l) ps buf =
    Ok (map (field_read (of_le (firstn (size_bytes l) buf))) ps).
Proof. exact unpack_positions. Qed.
Print Assumptions c19_unpack_positions.

Theorem c19_roundtrip : forall l ps vs bs tail,
  place l = Ok ps -> forallb kind_ok ps = true ->
  Forall2 (fun p v => in_range p v = true) ps vs -> wf_bytes tail ->
  pack l vs = Ok bs ->
  unpack_placed (size_bytes l) ps (bs ++ tail) =
    Ok (map (fun pv => canon (fst pv) (snd pv)) (combine ps vs)).
Proof. exact roundtrip. Qed.
Print Assumptions c19_roundtrip.

Theorem c19_short_read : forall l ps buf,
  (length buf < size_bytes l)%nat -> unpack_placed (size_bytes l) ps buf = Err ReadBufferTooShort.
Proof. exact unpack_short. Qed.
Print Assumptions c19_short_read.

Theorem c19_short_write : forall l ps vs n,
  (n < size_bytes l)%nat -> pack_to_slice (size_bytes l) ps vs n = Err WriteBufferTooShort.
Proof. exact pack_to_slice_short. Qed.
Print Assumptions c19_short_write.

Theorem c19_enum_roundtrip : forall e i,
  (1 <= erepr_bytes e)%N -> NoDup (map snd (arms e)) ->
  (i < length (evariants e))%nat -> vcatch (nth i (evariants e) dummy_variant) = false ->
  in_repr e (nth i (macro_discs (evariants e) macro_accum0) 0%Z) ->
  enum_unpack e (enum_pack e (EV i 0)) = Ok (EV i 0).
Proof. exact enum_roundtrip. Qed.
Print Assumptions c19_enum_roundtrip.

Theorem c19_enum_alternative : forall e i a,
  (1 <= erepr_bytes e)%N -> NoDup (map snd (arms e)) -> In (i, a) (arms e) -> in_repr e a ->
  enum_unpack e (to_wire e a) = Ok (EV i 0).
Proof. exact enum_alt. Qed.
Print Assumptions c19_enum_alternative.

Theorem c19_enum_undefined : forall e w,
  ~ In (of_wire e w) (map snd (arms e)) ->
  enum_unpack e w =
    match catch_idx e with
    | Some c => Ok (EV c (of_wire e w))
    | None => match default_idx e with Some d => Ok (EV d 0) | None => Err InvalidValue end
    end.
Proof. exact enum_undefined. Qed.
Print Assumptions c19_enum_undefined.

(* every struct / enum the translator found in /repo (regenerated each run) *)
Theorem c19_incrate_structs : forall name l ps vs bs tail,
  In (name, l) src_layouts -> place l = Ok ps ->
  Forall2 (fun p v => in_range p v = true) ps vs -> wf_bytes tail ->
  pack l vs = Ok bs ->
  of_le bs = fields_val ps vs /\
  unpack_placed (size_bytes l) ps (bs ++ tail) =
    Ok (map (fun pv => canon (fst pv) (snd pv)) (combine ps vs)).
Proof. exact incrate_struct_roundtrip. Qed.
Print Assumptions c19_incrate_structs.

Theorem c19_incrate_placed : forall name l,
  In (name, l) src_layouts -> exists ps, place l = Ok ps /\ forallb kind_ok ps = true.
Proof. exact incrate_struct_placed. Qed.
Print Assumptions c19_incrate_placed.

Theorem c19_incrate_enums : forall name e i,
  In (name, e) src_enums ->
  (i < length (evariants e))%nat -> vcatch (nth i (evariants e) dummy_variant) = false ->
  enum_unpack e (enum_pack e (EV i 0)) = Ok (EV i 0).
Proof. exact incrate_enum_roundtrip. Qed.
Print Assumptions c19_incrate_enums.

(* non-vacuity: a concrete layout (3-bit, 1-bit, skip 4, u16) meets the hypotheses *)
Example c19_example :
  let l := {| lwidth := 24; lfields :=
     [ {| fk := KU8; fwidth := Some 3; fpre := 0; fpost := 0; fskip := false |};
       {| fk := KBool; fwidth := Some 1; fpre := 0; fpost := 4; fskip := false |};
       {| fk := KMulti; fwidth := Some 16; fpre := 0; fpost := 0; fskip := false |} ] |} in
  exists ps, place l = Ok ps /\ forallb kind_ok ps = true /\
    pack l [5; 1; 0xBEEF] = Ok [13; 0xEF; 0xBE].
Proof. eexists. vm_compute. repeat split. Qed.

(* the macro's variant numbering is rustc's, for every declaration (finding F28, fixed) *)
Theorem c19_discriminants_agree : forall vs n, macro_discs vs (n - 1)%Z = rustc_discs vs n.
Proof. exact discs_agree. Qed.
Print Assumptions c19_discriminants_agree.

Theorem c19_implicit_fixed :
  explicit_discs implicit_abc = false /\
  macro_discs (evariants implicit_abc) macro_accum0 = [0; 1; 2]%Z /\
  enum_unpack implicit_abc (enum_pack implicit_abc (EV 0 0)) = Ok (EV 0 0) /\
  enum_unpack implicit_abc (enum_pack implicit_abc (EV 1 0)) = Ok (EV 1 0).
Proof. exact enum_implicit_fixed. Qed.
Print Assumptions c19_implicit_fixed.
