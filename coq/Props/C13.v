(* C13 -- no EEPROM content can hang or crash the MainDevice. *)
From EC Require Import Base.Prelude Base.Bytes Sii.Range Sii.RangeProofs Sii.Parse Sii.ParseProofs.
Local Open Scope N_scope.

(* For ANY EEPROM contents (p_byte is an arbitrary function from byte addresses to bytes), any
   provider serving at least one word per access, both build modes, every query the hook exposes
   (identity, name, description, size, mailbox, general, sync managers, FMMUs, FMMU mappings, both
   PDO lists, any string index, station alias read and write): the query finishes with a value,
   'absent' or an error - never a panic, never fuel exhaustion.  The fuel of every loop is an
   explicit constant of the model (category walk: 32800 steps), so the number of device accesses is
   bounded. *)
Theorem c13_queries_total : forall md p q arg, prov_ok p -> fin (fst (query md p q arg)).
Proof. exact query_total. Qed.
Print Assumptions c13_queries_total.

(* The category walk alone, from any word address: it ends whatever the contents. *)
Theorem c13_walk_ends : forall fuel p want wa e,
  (65536 - wa) / 2 < N.of_nat fuel -> fin (walk fuel p want wa e).
Proof. exact walk_total. Qed.
Print Assumptions c13_walk_ends.

(* Reads on ANY range - absurd starts and lengths included - give bytes, end-of-data or an error. *)
Theorem c13_read_exact_safe : forall p r n, (2 <= p_cs p)%nat ->
  match range_read_exact p r n with
  | Ok (Some b, r') => b = bytes_from p (r_pos r) n /\ r_pos r' = r_pos r + N.of_nat n /\ r_end r' = r_end r /\
                       (n = 0%nat \/ N.of_nat n <= r_end r - r_pos r)
  | Ok (None, r') => r_end r' = r_end r
  | Err e => e = SOverrun
  | Panic _ | Hang => False
  end.
Proof. exact range_read_exact_safe. Qed.
Print Assumptions c13_read_exact_safe.

(* The 16-bit sum of PDO entry lengths cannot overflow: 255 entries of 255 bits stay below 2^16. *)
Theorem c13_pdo_bits : forall fuel md p r k bits, prov_ok p ->
  (k <= fuel)%nat -> bits + 255 * N.of_nat k <= 65535 -> fin (pdo_entries fuel md p r k bits).
Proof. exact pdo_entries_total. Qed.
Print Assumptions c13_pdo_bits.
