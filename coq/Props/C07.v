(* C07 -- one process-data cycle moves the whole image, each byte once, to the right place. *)
From EC Require Import Base.Prelude Base.Bytes Cycle.Cycle Cycle.CycleProofs Cycle.CycleResults.
Local Open Scope N_scope.

(* For all three variants, every image, split, SubDevice list, logical start, frame size from the
   smallest that carries one state check (plus the clock datagram), every build mode and WHATEVER
   the devices answer: the cycle terminates; and when it succeeds every byte of the image has been
   sent exactly once in LRW datagrams whose address ranges tile the group's logical window from
   its start without gap or overlap, every frame fits the configured frame size, and exactly one
   state check per SubDevice has been sent. *)
Theorem c07_complete : forall c md v img resps,
  (c_len c <= length img)%nat ->
  room_ok c (match v, c_dcref c with VSync, None => VPlain | _, _ => v end) ->
  cycle c md v img resps <> Hang /\
  forall st, cycle c md v img resps = Ok st ->
    l_sent st = c_len c /\ l_subs st = [] /\ l_checks st = length (c_subs c) /\
    tiles (c_start c) 0 (all_lrws st) = Some (c_len c) /\
    Forall (fun f => (frame_size f <= c_room c)%nat) (l_frames st).
Proof. exact cycle_complete. Qed.
Print Assumptions c07_complete.

(* what one frame contains: [clock datagram] ++ [the next image bytes at the next logical
   address, as many as fit] ++ [state checks in group order, as many as fit] *)
Theorem c07_frame : forall c v st frame st',
  build_frame c v st = Ok (frame, st') -> (c_len c <= length (l_img st))%nat ->
  let dc := dc_part c v st in
  let used0 := frame_size dc in
  let remaining := (c_len c - l_sent st)%nat in
  let n := Nat.min (c_room c - used0 - 12) remaining in
  exists lrw k,
    frame = dc ++ lrw ++ map DCheck (firstn k (l_subs st)) /\
    (lrw = [] \/ lrw = [DLrw (c_start c + N.of_nat (l_sent st))
                             (firstn n (skipn (Nat.min (l_sent st) (c_len c)) (l_img st)))]) /\
    (lrw = [] <-> firstn remaining (skipn (Nat.min (l_sent st) (c_len c)) (l_img st)) = [] \/
                  (c_room c - used0 - 12 = 0)%nat) /\
    (frame_size frame <= c_room c)%nat /\
    (skipn k (l_subs st) = [] \/ (c_room c < frame_size (dc ++ lrw) + 14 * k + 14)%nat \/ (128 < k)%nat) /\
    (k <= length (l_subs st))%nat /\
    l_subs st' = skipn k (l_subs st) /\ l_checks st' = (l_checks st + k)%nat /\
    l_img st' = l_img st /\ l_sent st' = l_sent st /\ l_wkc st' = l_wkc st /\
    l_states st' = l_states st /\ l_frames st' = l_frames st /\
    l_time st' = l_time st /\ l_time_read st' = l_time_read st.
Proof. exact build_frame_spec. Qed.
Print Assumptions c07_frame.

(* exactly one time-distribution datagram: first in the first frame, to the reference clock *)
Theorem c07_dc_once : forall c v st frame st',
  build_frame c v st = Ok (frame, st') -> (c_len c <= length (l_img st))%nat ->
  (l_time_read st = true \/ v = VPlain \/ c_dcref c = None ->
     forall r, ~ In (DDc r) frame) /\
  (l_time_read st = false -> v <> VPlain -> forall r, c_dcref c = Some r ->
     exists tl, frame = DDc r :: tl /\ forall r', ~ In (DDc r') tl).
Proof. exact dc_datagram_once. Qed.
Print Assumptions c07_dc_once.

(* receiving a chunk: the input part of the image takes what the network returned for those
   addresses; the output part and every other byte is untouched *)
Theorem c07_image_chunk : forall c img sent n data img',
  process_chunk c img sent n data = Ok img' -> (sent + n <= length img)%nat ->
  length img' = length img /\
  forall p, nth p img' 0 =
    if ((Nat.min sent (c_rlen c) <=? p) && (p <? Nat.min (sent + n) (c_rlen c)))%nat
    then nth (p - Nat.min sent (c_rlen c)) data 0 else nth p img 0.
Proof. exact process_chunk_spec. Qed.
Print Assumptions c07_image_chunk.

(* the whole cycle: what a successful cycle leaves behind in terms of the datagrams it sent and the
   answers they got ([pairs_of]: frame i was answered by resps[i]).  The image keeps its length and
   its output part (from read_pdi_len on) is untouched; every input byte carried by an LRW datagram
   holds what the network returned for that address (by c07_complete the LRW datagrams tile the whole
   image, so this is every input byte); the working counter is the sum of the LRW answers' counters
   modulo 2^16 (a checked build reports the overflow instead: known finding wkc-sum-overflow); the
   state list is what the devices reported, in group order, cut at MAX_SUBDEVICES *)
Theorem c07_results : forall c md v img resps st,
  (c_len c <= length img)%nat ->
  room_ok c (match v, c_dcref c with VSync, None => VPlain | _, _ => v end) ->
  cycle c md v img resps = Ok st ->
  let ps := pairs_of (l_frames st) resps in
  length (l_img st) = length img /\
  (forall p, (c_rlen c <= p)%nat -> nth p (l_img st) 0 = nth p img 0) /\
  (forall a chunk data w q, In (DLrw a chunk, (data, w)) ps -> (q < length chunk)%nat ->
     (off c a + q < c_rlen c)%nat -> nth (off c a + q) (l_img st) 0 = nth q data 0) /\
  l_wkc st = wsum ps mod 65536 /\
  l_states st = firstn (c_maxsd c) (states_of ps).
Proof. exact cycle_results. Qed.
Print Assumptions c07_results.

(* non-vacuity: a 6-byte image (4 input bytes) in frames that carry 4 image bytes, two SubDevices *)
Theorem c07_results_example :
  let c := {| c_start := 4096; c_len := 6; c_rlen := 4; c_subs := [4097; 4098];
              c_room := 16; c_maxsd := 16; c_dcref := None |} in
  exists st, cycle c Debug VPlain [0; 0; 0; 0; 9; 8]
                   [[([11; 12; 13; 14], 3)]; [([15; 16], 2)]; [([8; 0], 1)]; [([2; 0], 1)]] = Ok st /\
             l_img st = [11; 12; 13; 14; 9; 8] /\ l_wkc st = 5 /\ l_states st = [8; 2].
Proof. eexists. vm_compute. repeat split; reflexivity. Qed.
Print Assumptions c07_results_example.

(* per-cycle DC timing: offset = time mod period, wait = (period - offset) + shift, no overflow *)
Theorem c07_cycle_info : forall md time period shift,
  1 <= period -> time < 2 ^ 64 -> period < 2 ^ 64 -> shift < 2 ^ 63 -> period < 2 ^ 63 ->
  cycle_info md time period shift = Ok (time mod period, (period - time mod period) + shift).
Proof. exact cycle_info_spec. Qed.
Print Assumptions c07_cycle_info.

(* non-vacuity: a 40-byte image, 3 SubDevices, 64-byte frames, DC variant *)
Example c07_example :
  let c := {| c_start := 4096; c_len := 40; c_rlen := 16; c_subs := [4096; 4097; 4098];
              c_room := 48; c_maxsd := 16; c_dcref := Some 4096 |} in
  room_ok c VDc /\ (c_len c <= length (zeros 40))%nat.
Proof. cbn. split; lia. Qed.
