(* C01 -- every response reaches exactly the request that caused it, byte-exact. *)
From EC Require Import Base.Prelude Base.Bytes Pdu.Frame Pdu.Slots Pdu.View Pdu.Hist Pdu.SlotsProofs
  Pdu.Client Pdu.ClientProofs Pdu.ViewProofs Pdu.RouteProofs Pdu.Wake Pdu.WakeProofs Gen.WakeOrder.
Local Open Scope N_scope.

(* Routing, byte-exact.  In a state where the request in slot i awaits its response (Sent) with
   first datagram index k, free slots carry no key (c01_no_stale_keys) and no other live request
   has first index k (fewer than 256 indices allocated while it is outstanding): delivering ANY
   well-formed response frame whose first datagram carries index k - any source address but the
   MainDevice's, any command/address bytes, any data, any working counter, any further datagrams -
   is accepted, changes slot i only, completes exactly that request, and the view the caller gets
   shows exactly the returned data bytes and working counter of that datagram. *)
Theorem c01_routing : forall s i src code k raw more data wkc rest ex rt,
  wf_pstate s -> Keys s -> (i < nslots s)%nat ->
  sst (get s i) = SSent -> skey (get s i) = k -> k < 256 ->
  (forall j, j <> i -> (j < nslots s)%nat -> sst (get s j) <> SNone -> skey (get s j) <> k) ->
  length src = 6%nat -> src <> src_mac ->
  length raw = 4%nat -> (length data < 2048)%nat -> wkc < 65536 ->
  let payload := dg_bytes code k raw more data wkc ++ rest in
  (length payload <= cap s - eth_overhead)%nat -> (length payload < 2048)%nat ->
  let '(s1, r) := op_rx s (response_frame src payload) in
  r = RxProcessed /\ sst (get s1 i) = SRxDone /\
  (forall j, j <> i -> get s1 j = get s j) /\
  let '(s2, pr, _) := op_poll s1 i ex rt in
  pr = PollReady /\ sst (get s2 i) = SRxProcessing /\
  exists v, first_pdu (fbuf (sfr (get s2 i))) code k = Ok v /\
            view_bytes (fbuf (sfr (get s2 i))) v = data /\ vwkc v = wkc /\
            view_in_bounds (fbuf (sfr (get s2 i))) v = true.
Proof. exact route_exact. Qed.
Print Assumptions c01_routing.

(* the hypothesis [Keys] of c01_routing holds in every reachable state: whatever the history
   (timeouts, abandoned requests, frames dropped unsent, send errors ...), a free slot never
   carries a first-datagram index that could shadow a live request *)
Theorem c01_no_stale_keys : forall n cap ops s h, In n pow2s ->
  crun (pinit n cap, repeat HNone n) ops = Some (s, h) -> Keys s.
Proof. exact no_stale_keys. Qed.
Print Assumptions c01_no_stale_keys.

(* the view shows exactly the datagram's data area, also after being shortened from the front,
   for every trim amount *)
Theorem c01_view_exact : forall buf v ct,
  view_bytes buf (trim_front v ct) = skipn (Nat.min ct (vlen v)) (view_bytes buf v) /\
  (length (view_bytes buf (trim_front v ct)) <= length (view_bytes buf v))%nat /\
  (view_in_bounds buf v = true -> view_in_bounds buf (trim_front v ct) = true) /\
  (view_in_bounds buf v = true ->
     length (view_bytes buf (trim_front v ct)) = (vlen v - Nat.min ct (vlen v))%nat).
Proof. exact trim_exact. Qed.
Print Assumptions c01_view_exact.

Theorem c01_first_pdu_exact : forall code idx raw more data wkc rest,
  length raw = 4%nat -> (length data < 2048)%nat -> wkc < 65536 ->
  let buf := dg_bytes code idx raw more data wkc ++ rest in
  exists v, first_pdu buf code idx = Ok v /\ view_bytes buf v = data /\ vwkc v = wkc /\
            view_in_bounds buf v = true /\ vstart v = 10%nat /\ vlen v = length data.
Proof. exact first_pdu_exact. Qed.
Print Assumptions c01_first_pdu_exact.

(* REFUTED (known finding): the view returned by first_pdu outlives its frame.  The frame is
   released when first_pdu returns; another request can then be built in the slot and the held
   view shows its bytes. *)
Definition resp1 : list N :=
  bcast ++ [18;16;16;16;16;16] ++ ethertype_bytes ++ [16; 16] ++ [7;0;0;0;0;0;4;0;0;0; 1;2;3;4; 1;0].

Theorem c01_view_stable_refuted :
  let ops := [OAlloc; OPush 0 (mk_command CBrd 0 0) [] (Some 4%nat); OMark 0; OTxClaim; OTxDone 0 0;
              ORx resp1; OPoll 0 false 0; OTake 0 7 0] in
  let '(s1, _) := run_ops false (pinit 1 60) ops in
  let seen := firstn 4 (skipn 10 (fbuf (sfr (get s1 0)))) in
  let '(s2, _) := run_ops false s1 [OAlloc; OPush 0 (mk_command CFpwr 4097 0) [170; 187; 204; 221] None] in
  seen = [1; 2; 3; 4] /\ firstn 4 (skipn 10 (fbuf (sfr (get s2 0)))) = [170; 187; 204; 221].
Proof. vm_compute. split; reflexivity. Qed.
Print Assumptions c01_view_stable_refuted.

(* The waiting task is woken: no lost wake-up.  The task's poll (register the waker; test for
   RxDone; sleep) against the receive side (store RxDone; take the waker and wake it), one shared
   access per step, ALL interleavings, the task polled again whenever it is scheduled
   (Pdu/Wake.v: [reach], [stuck] = response delivered, task asleep, nobody will poll it).
   With the order the code has no reachable state is stuck ... *)
Theorem c01_no_lost_wakeup : forall s, reach true true s -> stuck s = false.
Proof. exact no_lost_wakeup. Qed.
Print Assumptions c01_no_lost_wakeup.

Theorem c01_response_reaches_task : forall s, reach true true s ->
  w_r s = RDone -> w_p s = PIdle -> w_ready s = true \/ w_sched s = true.
Proof. exact response_reaches_task. Qed.
Print Assumptions c01_response_reaches_task.

(* ... the order is the one read off /repo's sources on this run (tools/src2coq.py: position of
   replace_waker vs. the RxDone test in ReceiveFrameFut::poll, of the RxDone store vs. wake() in
   mark_received) ... *)
Theorem c01_wake_order_in_code : register_before_check = true /\ done_before_wake = true.
Proof. exact code_order. Qed.
Print Assumptions c01_wake_order_in_code.

Theorem c01_no_lost_wakeup_in_code : forall s, reach register_before_check done_before_wake s -> stuck s = false.
Proof. exact no_lost_wakeup_in_code. Qed.
Print Assumptions c01_no_lost_wakeup_in_code.

(* ... and either order reversed does lose the wake-up (the argument needs both) *)
Theorem c01_check_before_register_loses : exists s, reach false true s /\ stuck s = true.
Proof. exact check_before_register_loses. Qed.
Print Assumptions c01_check_before_register_loses.

Theorem c01_wake_before_done_loses : exists s, reach true false s /\ stuck s = true.
Proof. exact wake_before_done_loses. Qed.
Print Assumptions c01_wake_before_done_loses.
