(* C14 placeholder until the proofs are in *)
From EC Require Import Base.Prelude Sii.Range Sii.Parse.
Theorem c14_placeholder : True. Proof. exact I. Qed.
