(* C14 -- writing a station alias changes the alias and its checksum, nothing else. *)
From EC Require Import Base.Prelude Base.Bytes Sii.Range Sii.RangeProofs Sii.Parse Sii.ParseProofs.
Local Open Scope N_scope.

(* For ANY EEPROM contents and any alias: set_station_alias succeeds and stores exactly two
   words - word 4 = the alias, word 7 = the CRC-8 (polynomial 0x07, initial value 0xFF, crc8
   defined bit by bit in Sii/Parse.v) of the first fourteen bytes with the new alias in place. *)
Theorem c14_alias_writes : forall p a, prov_ok p ->
  exists p', set_station_alias p a = Ok p' /\
    wrote p p' (words_of 4 (le_bytes 2 a) ++ words_of 7 (le_bytes 2 (crc8 (new_header p a)))).
Proof. exact alias_spec. Qed.
Print Assumptions c14_alias_writes.

(* Read back afterwards: bytes 8,9 hold the alias, byte 14 the checksum of the first fourteen
   bytes AS THEY READ AFTER THE CHANGE, every other byte keeps its value. *)
Theorem c14_alias_effect : forall p a p', prov_ok p -> set_station_alias p a = Ok p' ->
  let cs := crc8 (new_header p a) in
  byte_at p' 8 = a mod 256 /\ byte_at p' 9 = a / 256 mod 256 /\
  byte_at p' 14 = cs mod 256 /\ byte_at p' 15 = cs / 256 mod 256 /\
  (forall x, x <> 8 -> x <> 9 -> x <> 14 -> x <> 15 -> byte_at p' x = byte_at p x) /\
  bytes_from p' 0 14 = new_header p a.
Proof. exact alias_effect. Qed.
Print Assumptions c14_alias_effect.

Theorem c14_alias_reads_back : forall p a p', prov_ok p -> a < 65536 -> set_station_alias p a = Ok p' ->
  q_station_alias p' = Ok [Z.of_N a].
Proof. exact alias_reads_back. Qed.
Print Assumptions c14_alias_reads_back.

(* A generic write of a payload that fits its range (eeprom_write_dangerously always makes the
   range ceil(len/2) words): exactly the given bytes from the given word on, an odd trailing byte
   padded with zero; no panic. *)
Theorem c14_write_all : forall p w lw payload,
  (length payload <= 2 * lw)%nat -> w + N.of_nat lw <= 65536 ->
  exists p' r', range_write_all p (range_new w (N.of_nat lw)) payload = Ok (p', r') /\
                wrote p p' (words_of w payload).
Proof. exact write_all_fits. Qed.
Print Assumptions c14_write_all.

(* ANY write on a word-aligned range: it never reports more than it was given and never stores
   outside the range. *)
Theorem c14_write_within : forall p w room buf,
  match range_write p {| r_pos := 2 * w; r_end := 2 * w + 2 * N.of_nat room |} buf with
  | Ok (n, p', r') =>
    (n <= length buf)%nat /\
    exists ws, wrote p p' ws /\ Forall (fun kv => 2 * w <= fst kv < 2 * w + 2 * N.of_nat room) ws
  | Err e => e = SOverrun
  | Panic _ | Hang => False
  end.
Proof. exact range_write_within. Qed.
Print Assumptions c14_write_within.

(* The device-level retry rule: a word is written at most 21 times; it is stored iff the device
   reported at most 20 command errors. *)
Theorem c14_retry_bound : forall errs,
  let '(stored, cmds, errs_left) := dev_write_word errs in
  (cmds <= 21)%nat /\ (stored = true <-> (errs <= 20)%nat) /\ (stored = true -> cmds = S errs).
Proof. exact dev_write_word_bound. Qed.
Print Assumptions c14_retry_bound.

(* SubDevice::set_alias_address: the alias the SubDevice reports afterwards is the new one exactly
   when the EEPROM update succeeded - a failed call (busy device, command errors beyond the retry
   bound) leaves the reported alias as it was, whatever it did or did not write. *)
Theorem c14_reported_alias : forall p reported a,
  (forall p', set_station_alias p a = Ok p' -> set_alias_address p reported a = (Ok p', a)) /\
  ((forall p', set_station_alias p a <> Ok p') -> snd (set_alias_address p reported a) = reported).
Proof. exact reported_alias. Qed.
Print Assumptions c14_reported_alias.
