(* C15 -- SDO transfers deliver exactly the object's bytes, whatever the transfer type. *)
From EC Require Import Base.Prelude Base.Bytes Wire.Layout Gen.SrcLayouts Coe.Sdo Coe.Server Coe.Run Coe.SdoProofs Coe.SdoArrays.
Local Open Scope N_scope.

(* The device is its out-mailbox queue (up to ten stale telegrams are read away first) and the
   replies it gives to the requests to come.  Against a conforming server's replies (Coe/Server.v),
   for every object, index, sub-index, mailbox size and destination size: *)

(* expedited: the 1..4 bytes of the object *)
Theorem c15_expedited : forall d idx sub ca cap c' data per',
  (length (d_q d) <= 10)%nat -> d_per d = [rep_expedited c' idx sub data] :: per' ->
  c' <= 7 -> idx < 65536 -> sub < 256 -> (1 <= length data <= 4)%nat -> (16 <= d_mlen d)%nat ->
  sdo_read_payload idx sub ca cap d = (Ok data, after d (req_upload (d_counter d) idx sub ca) per').
Proof. exact read_expedited. Qed.
Print Assumptions c15_expedited.

(* normal: the whole object out of the initiate response *)
Theorem c15_normal : forall d idx sub ca cap c' data per',
  (length (d_q d) <= 10)%nat -> d_per d = [rep_normal c' idx sub (N.of_nat (length data)) data] :: per' ->
  c' <= 7 -> idx < 65536 -> sub < 256 -> (length data + 16 <= d_mlen d)%nat -> N.of_nat (d_mlen d) < 65536 ->
  (length data <= cap)%nat ->
  sdo_read_payload idx sub ca cap d = (Ok data, after d (req_upload (d_counter d) idx sub ca) per').
Proof. exact read_normal. Qed.
Print Assumptions c15_normal.

(* segmented: ANY split of the object into an initiate part and non-empty segments that fit the
   mailbox (incl. segments shorter than 7 bytes) is reassembled to exactly the object *)
Theorem c15_segmented : forall d idx sub ca cap c' first chunks cs per',
  (length (d_q d) <= 10)%nat ->
  d_per d = [rep_normal c' idx sub (N.of_nat (length first + length (concat chunks))) first] :: seg_replies cs false chunks ++ per' ->
  c' <= 7 -> idx < 65536 -> sub < 256 -> (forall c, In c cs -> c <= 7) -> (length chunks <= length cs)%nat ->
  chunks <> [] -> Forall (chunk_ok (d_mlen d)) chunks ->
  (length first + 16 <= d_mlen d)%nat -> N.of_nat (d_mlen d) < 65536 ->
  (length first + length (concat chunks) <= cap)%nat -> N.of_nat cap < 4294967296 ->
  exists d', sdo_read_payload idx sub ca cap d = (Ok (first ++ concat chunks), d') /\ d_per d' = per'.
Proof. exact read_segmented. Qed.
Print Assumptions c15_segmented.

(* an abort is reported with the device's code, index and sub-index - for every request kind *)
Theorem c15_abort : forall d req k c' idx' sub' code code' per',
  (length (d_q d) <= 10)%nat -> d_per d = [rep_abort c' idx' sub' code] :: per' ->
  c' <= 7 -> idx' < 65536 -> sub' < 256 -> code < 4294967296 -> (16 <= d_mlen d)%nat ->
  ev enum_CoeAbortCode code = Ok code' ->
  exchange req k d = (Err (CAborted code' idx' sub'), after d req per').
Proof. exact exchange_abort. Qed.
Print Assumptions c15_abort.

(* an emergency message as an emergency error with its code and register *)
Theorem c15_emergency : forall d req k c' code reg extra per',
  (length (d_q d) <= 10)%nat -> d_per d = [rep_emergency c' code reg extra] :: per' ->
  c' <= 7 -> code < 65536 -> reg < 256 -> (16 <= d_mlen d)%nat ->
  exchange req k d = (Err (CEmergency code reg), after d req per').
Proof. exact exchange_emergency. Qed.
Print Assumptions c15_emergency.

(* a response for a different object as an invalid-response error *)
Theorem c15_other_object : forall d idx sub c' idx' sub' data per' req,
  (length (d_q d) <= 10)%nat -> d_per d = [rep_expedited c' idx' sub' data] :: per' ->
  c' <= 7 -> idx' < 65536 -> sub' < 256 -> (length data <= 4)%nat -> (16 <= d_mlen d)%nat ->
  (idx', sub') <> (idx, sub) ->
  exchange req (RUpload idx sub) d = (Err (CInvalidResponse idx' sub'), after d req per').
Proof. exact exchange_other_object. Qed.
Print Assumptions c15_other_object.

(* the mailbox counter cycles through 1..7, one step per request *)
Theorem c15_counter : forall c, 1 <= c <= 7 -> 1 <= next_counter c <= 7 /\ Nat.iter 7 next_counter c = c.
Proof. exact counter_cycle. Qed.
Print Assumptions c15_counter.

Theorem c15_counter_step : forall req k d, d_counter (snd (exchange req k d)) = next_counter (d_counter d).
Proof. exact exchange_counter. Qed.
Print Assumptions c15_counter_step.

(* writes: one expedited download acknowledged by the server - the request on the wire is the
   download of exactly these 1..4 bytes to this index and sub-index, the call succeeds *)
Theorem c15_write : forall d idx sub ca data c' per',
  (length (d_q d) <= 10)%nat -> d_per d = [rep_download c' idx sub] :: per' ->
  c' <= 7 -> idx < 65536 -> sub < 256 -> (length data <= 4)%nat -> (16 <= d_mlen d)%nat ->
  sdo_write idx sub ca data d = (Ok tt, after d (req_download (d_counter d) idx sub ca data) per').
Proof. exact write_ok. Qed.
Print Assumptions c15_write.

(* sdo_write_array: the count is cleared, every value goes to its sub-index 1.., then the count is
   written; exactly these requests, in this order, with the mailbox counter stepping once each *)
Theorem c15_write_array : forall d idx vals c0 cs cn per',
  d_q d = [] ->
  d_per d = [rep_download c0 idx 0] :: each_replies cs idx 1 vals ++ [rep_download cn idx 0] :: per' ->
  c0 <= 7 -> cn <= 7 -> (forall c, In c cs -> c <= 7) -> (length vals <= length cs)%nat ->
  idx < 65536 -> N.of_nat (length vals) < 256 ->
  Forall (fun v => (length v <= 4)%nat) vals -> (16 <= d_mlen d)%nat ->
  exists d', sdo_write_array idx vals d = (Ok tt, d') /\ d_per d' = per' /\
    let q0 := req_download (d_counter d) idx 0 false [0] in
    let c1 := next_counter (d_counter d) in
    let cl := Nat.iter (length vals) next_counter c1 in
    let ql := req_download cl idx 0 false [N.of_nat (length vals) mod 256] in
    d_reqs d' = d_reqs d ++ [pad_to (Nat.max (d_wlen d) (length q0)) 0 q0] ++ each_reqs (d_wlen d) c1 idx 1 vals ++
                [pad_to (Nat.max (d_wlen d) (length ql)) 0 ql].
Proof. exact write_array_ok. Qed.
Print Assumptions c15_write_array.

(* sdo_read_array::<u16, MAX>: the count from sub-index 0, then that many values from the
   sub-indices 1..count, returned in order *)
Theorem c15_read_array : forall d idx max vals c0 cs per',
  d_q d = [] -> d_per d = [rep_expedited c0 idx 0 [N.of_nat (length vals)]] :: array_replies cs idx 1 vals ++ per' ->
  c0 <= 7 -> (forall c, In c cs -> c <= 7) -> (length vals <= length cs)%nat -> idx < 65536 ->
  N.of_nat (length vals) < 256 -> (length vals <= max)%nat ->
  Forall (fun v => v < 65536) vals -> (16 <= d_mlen d)%nat ->
  exists d', sdo_read_array idx max d = (Ok vals, d') /\ d_per d' = per'.
Proof. exact read_array_ok. Qed.
Print Assumptions c15_read_array.
