(* C15 -- SDO transfers deliver exactly the object's bytes, whatever the transfer type. *)
From EC Require Import Base.Prelude Base.Bytes Wire.Layout Gen.SrcLayouts Coe.Sdo Coe.Server Coe.Run Coe.SdoProofs.
Local Open Scope N_scope.

(* The device is its out-mailbox queue (up to ten stale telegrams are read away first) and the
   replies it gives to the requests to come.  Against a conforming server's replies (Coe/Server.v),
   for every object, index, sub-index, mailbox size and destination size: *)

(* expedited: the 1..4 bytes of the object *)
Theorem c15_expedited : forall d idx sub ca cap c' data per',
  (length (d_q d) <= 10)%nat -> d_per d = [rep_expedited c' idx sub data] :: per' ->
  c' <= 7 -> idx < 65536 -> sub < 256 -> (1 <= length data <= 4)%nat -> (16 <= d_mlen d)%nat ->
  sdo_read_payload idx sub ca cap d = (Ok data, after d (req_upload (d_counter d) idx sub ca) per').
Proof. exact read_expedited. Qed.
Print Assumptions c15_expedited.

(* normal: the whole object out of the initiate response *)
Theorem c15_normal : forall d idx sub ca cap c' data per',
  (length (d_q d) <= 10)%nat -> d_per d = [rep_normal c' idx sub (N.of_nat (length data)) data] :: per' ->
  c' <= 7 -> idx < 65536 -> sub < 256 -> (length data + 16 <= d_mlen d)%nat -> N.of_nat (d_mlen d) < 65536 ->
  (length data <= cap)%nat ->
  sdo_read_payload idx sub ca cap d = (Ok data, after d (req_upload (d_counter d) idx sub ca) per').
Proof. exact read_normal. Qed.
Print Assumptions c15_normal.

(* segmented: ANY split of the object into an initiate part and non-empty segments that fit the
   mailbox (incl. segments shorter than 7 bytes) is reassembled to exactly the object *)
Theorem c15_segmented : forall d idx sub ca cap c' first chunks cs per',
  (length (d_q d) <= 10)%nat ->
  d_per d = [rep_normal c' idx sub (N.of_nat (length first + length (concat chunks))) first] :: seg_replies cs false chunks ++ per' ->
  c' <= 7 -> idx < 65536 -> sub < 256 -> (forall c, In c cs -> c <= 7) -> (length chunks <= length cs)%nat ->
  chunks <> [] -> Forall (chunk_ok (d_mlen d)) chunks ->
  (length first + 16 <= d_mlen d)%nat -> N.of_nat (d_mlen d) < 65536 ->
  (length first + length (concat chunks) <= cap)%nat -> N.of_nat cap < 4294967296 ->
  exists d', sdo_read_payload idx sub ca cap d = (Ok (first ++ concat chunks), d') /\ d_per d' = per'.
Proof. exact read_segmented. Qed.
Print Assumptions c15_segmented.

(* an abort is reported with the device's code, index and sub-index - for every request kind *)
Theorem c15_abort : forall d req k c' idx' sub' code code' per',
  (length (d_q d) <= 10)%nat -> d_per d = [rep_abort c' idx' sub' code] :: per' ->
  c' <= 7 -> idx' < 65536 -> sub' < 256 -> code < 4294967296 -> (16 <= d_mlen d)%nat ->
  ev enum_CoeAbortCode code = Ok code' ->
  exchange req k d = (Err (CAborted code' idx' sub'), after d req per').
Proof. exact exchange_abort. Qed.
Print Assumptions c15_abort.

(* an emergency message as an emergency error with its code and register *)
Theorem c15_emergency : forall d req k c' code reg extra per',
  (length (d_q d) <= 10)%nat -> d_per d = [rep_emergency c' code reg extra] :: per' ->
  c' <= 7 -> code < 65536 -> reg < 256 -> (16 <= d_mlen d)%nat ->
  exchange req k d = (Err (CEmergency code reg), after d req per').
Proof. exact exchange_emergency. Qed.
Print Assumptions c15_emergency.

(* a response for a different object as an invalid-response error *)
Theorem c15_other_object : forall d idx sub c' idx' sub' data per' req,
  (length (d_q d) <= 10)%nat -> d_per d = [rep_expedited c' idx' sub' data] :: per' ->
  c' <= 7 -> idx' < 65536 -> sub' < 256 -> (length data <= 4)%nat -> (16 <= d_mlen d)%nat ->
  (idx', sub') <> (idx, sub) ->
  exchange req (RUpload idx sub) d = (Err (CInvalidResponse idx' sub'), after d req per').
Proof. exact exchange_other_object. Qed.
Print Assumptions c15_other_object.

(* the mailbox counter cycles through 1..7, one step per request *)
Theorem c15_counter : forall c, 1 <= c <= 7 -> 1 <= next_counter c <= 7 /\ Nat.iter 7 next_counter c = c.
Proof. exact counter_cycle. Qed.
Print Assumptions c15_counter.

Theorem c15_counter_step : forall req k d, d_counter (snd (exchange req k d)) = next_counter (d_counter d).
Proof. exact exchange_counter. Qed.
Print Assumptions c15_counter_step.
