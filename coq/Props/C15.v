(* C15 placeholder until the proofs are in *)
From EC Require Import Base.Prelude Coe.Sdo Coe.Run.
Theorem c15_placeholder : True. Proof. exact I. Qed.
