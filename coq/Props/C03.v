(* C03 -- frame slots are always returned: capacity is never lost.  Pinned statements only. *)
From EC Require Import Base.Prelude Base.Bytes Pdu.Frame Pdu.Slots Pdu.SlotsProofs Pdu.Client Pdu.ClientProofs Gen.SrcConsts.
Local Open Scope N_scope.

(* After ANY history the client is entitled to issue (alloc, pushes, mark-sendable, drops, TX with
   ok / partial / error outcome, any bytes delivered to RX, polls with or without an expired
   deadline and any retry budget) on n slots (n a power of two, as PduStorage::new demands), once
   every outstanding handle has been dropped exactly n frames can be allocated again. *)
Theorem c03_capacity : forall n cap ops s h,
  In n pow2s -> crun (pinit n cap, repeat HNone n) ops = Some (s, h) ->
  let '(s1, h1) := drop_all (s, h) in
  snd (alloc_many s1 n) = n /\ snd (alloc_many s1 (S n)) = n.
Proof. exact capacity_restored. Qed.
Print Assumptions c03_capacity.

(* allocation fails only when every slot is genuinely held by a live handle *)
Theorem c03_alloc_fails_iff_full : forall n cap ops s h,
  In n pow2s -> crun (pinit n cap, repeat HNone n) ops = Some (s, h) ->
  (snd (alloc s) = None <-> forall i, (i < nslots s)%nat -> hget h i <> HNone).
Proof. exact alloc_fails_iff_all_held. Qed.
Print Assumptions c03_alloc_fails_iff_full.

(* a frame that was claimed but never marked sendable is released when dropped *)
Theorem c03_created_drop : forall n cap ops s h i,
  In n pow2s -> crun (pinit n cap, repeat HNone n) ops = Some (s, h) -> hget h i = HCreated ->
  sst (get (op_drop_created s i) i) = SNone.
Proof. exact created_drop_releases. Qed.
Print Assumptions c03_created_drop.

(* the invariant behind it: handle typestate and slot status agree in every reachable state *)
Theorem c03_ownership : forall n cap ops s h,
  In n pow2s -> crun (pinit n cap, repeat HNone n) ops = Some (s, h) ->
  length h = nslots s /\ forall i, (i < nslots s)%nat -> compat (hget h i) (sst (get s i)).
Proof.
  intros n cap ops s h I R.
  exact (proj1 (proj1 (crun_inv ops _ _ (inv_init n cap I) R))).
Qed.
Print Assumptions c03_ownership.

(* tie to the generated constants *)
Theorem c03_consts : c_FIRST_PDU_EMPTY = key_empty.
Proof. reflexivity. Qed.

(* non-vacuity: a history with a send error, a timeout with a retry and an abandoned frame *)
Example c03_example :
  let ops := [CAlloc; CPush 0 (mk_command CBrd 0 0) [] (Some 1%nat); CMark 0; CTxSend 2; CTxSend 0;
              CPoll 0 true 1; CTxSend 0; CPoll 0 true 0; CAlloc; CAlloc; CDropCreated 0] in
  exists s h, crun (pinit 2 64, repeat HNone 2) ops = Some (s, h) /\ h = [HNone; HCreated].
Proof. eexists. eexists. split; vm_compute; reflexivity. Qed.
