(* C05 -- the receive path survives any bytes and rejects strangers without side effects. *)
From EC Require Import Base.Prelude Base.Bytes Pdu.Frame Pdu.Slots Pdu.SlotsProofs.
Local Open Scope N_scope.

(* frames that are not EtherCAT, or that carry the MainDevice's own source address, are ignored and
   leave the whole state untouched *)
Theorem c05_ignore : forall s bytes,
  (14 <= length bytes)%nat ->
  nth 12 bytes 0 * 256 + nth 13 bytes 0 <> 34980 \/ slice 6 12 bytes = src_mac ->
  op_rx s bytes = (s, RxIgnored).
Proof. exact rx_ignored. Qed.
Print Assumptions c05_ignore.

(* whatever the bytes: unless the frame is accepted, nothing at all changes *)
Theorem c05_reject_pure : forall s bytes s' r,
  wf_pstate s -> op_rx s bytes = (s', r) -> r <> RxProcessed -> s' = s.
Proof. exact rx_reject_pure. Qed.
Print Assumptions c05_reject_pure.

(* an accepted frame changes exactly one slot: the first one carrying the frame's first datagram
   index, which was awaiting a response (Sent); that slot becomes RxDone with the datagram area
   copied in, its key and length untouched; every other slot and both counters are unchanged *)
Theorem c05_accept_local : forall s bytes s',
  wf_pstate s -> op_rx s bytes = (s', RxProcessed) ->
  exists k i, (k < nslots s)%nat /\
    sst (get s k) = SSent /\ skey (get s k) = nth 1 i 0 /\
    (forall m, (m < k)%nat -> skey (get s m) <> nth 1 i 0) /\
    (length i <= cap s - eth_overhead)%nat /\
    sst (get s' k) = SRxDone /\ skey (get s' k) = skey (get s k) /\
    fbuf (sfr (get s' k)) = splice 0 i (fbuf (sfr (get s k))) /\
    fused (sfr (get s' k)) = fused (sfr (get s k)) /\
    (forall j, j <> k -> get s' j = get s j) /\ nslots s' = nslots s /\
    fidx s' = fidx s /\ pidx s' = pidx s.
Proof. exact rx_accept_local. Qed.
Print Assumptions c05_accept_local.

(* a frame whose first datagram index matches no request currently awaiting a response is never
   accepted *)
Theorem c05_stranger : forall s bytes,
  wf_pstate s ->
  (forall k, (k < nslots s)%nat -> skey (get s k) = first_index bytes -> sst (get s k) <> SSent) ->
  snd (op_rx s bytes) <> RxProcessed.
Proof. exact rx_stranger. Qed.
Print Assumptions c05_stranger.

(* non-vacuity + regression for the fixed finding (size check before the claim): an over-long
   response to a request that IS awaiting it is rejected and leaves the slot awaiting *)
Example c05_oversize_leaves_slot :
  let s0 := pinit 1 44 in
  let '(s1, _) := alloc s0 in
  let '(s2, _) := op_push s1 0 (mk_command CBrd 0 0) [] (Some 1%nat) in
  let s3 := op_tx_done (fst (op_tx_claim (op_mark s2 0))) 0 0 in
  let big := bcast ++ [18;16;16;16;16;16] ++ ethertype_bytes ++ [40; 16] ++ [7; 0] ++ zeros 38 in
  sst (get s3 0) = SSent /\ op_rx s3 big = (s3, RxErr EInternal).
Proof. vm_compute. split; reflexivity. Qed.
