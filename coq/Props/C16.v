(* C16 placeholder until the proofs are in *)
From EC Require Import Base.Prelude Coe.Sdo Coe.Run.
Theorem c16_placeholder : True. Proof. exact I. Qed.
