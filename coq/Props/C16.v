(* C16 -- no mailbox reply can crash the MainDevice or make it read out of bounds. *)
From EC Require Import Base.Prelude Base.Bytes Coe.Sdo Coe.Run Coe.SdoProofs.
Local Open Scope N_scope.

(* For ANY device - any telegrams already in its out mailbox, any bytes in reply to any of the
   requests to come (other services, emergencies, aborts, truncated headers, lying length fields,
   endless 'more fragments' or 'more segments'), any mailbox size - and every entry point
   (sdo_read of any destination size, sdo_write, sdo_write_array, sdo_read_array, both SDO
   information requests): the operation ends with a value or an error.  Every list access of the
   model is a bounds-checked firstn/skipn/nth, so "never reads outside the response" is built in;
   the correspondence run shows the implementation takes the same path on every generated reply. *)
Theorem c16_total : forall d o, finr (fst (run d o)).
Proof. exact run_total. Qed.
Print Assumptions c16_total.

(* a segmented upload never accumulates more than the destination buffer holds *)
Theorem c16_buffer_bound : forall fuel toggle cap acc d out d', (length acc <= cap)%nat ->
  segments fuel toggle cap acc d = (Ok out, d') -> (length out <= cap)%nat.
Proof. exact segments_bound. Qed.
Print Assumptions c16_buffer_bound.
