(* C06 -- deadlines and retries: bounded, exact, and (not) safe to hit at any moment. *)
From EC Require Import Base.Prelude Base.Bytes Pdu.Frame Pdu.Slots Pdu.View Pdu.Hist Pdu.SlotsProofs Pdu.Client
  Pdu.ClientProofs Pdu.Deadline Pdu.DeadlineProofs Pdu.Own2 Pdu.Own2Proofs Pdu.SafeOutside.
Local Open Scope N_scope.

(* With R retries and no response the frame is transmitted exactly R+1 times, every transmission
   byte-identical to the first, the future resolves to the PDU timeout and the slot is free. *)
Theorem c06_count : forall R s i, only_sendable s i ->
  let '(txs, fin, s') := lost_run s i R (S R) in
  txs = repeat (frame_bytes s i) (S R) /\ fin = Some (PollErr ETimeout) /\
  sst (get s' i) = SNone.
Proof. exact lost_response_count. Qed.
Print Assumptions c06_count.

(* retry budget that outlasts the observation (RetryBehaviour::Forever): after k deadlines exactly
   k identical transmissions and the request is still pending, ready to be sent again *)
Theorem c06_forever : forall k R s i, (k <= R)%nat -> only_sendable s i ->
  let '(txs, fin, s') := lost_run s i R k in
  txs = repeat (frame_bytes s i) k /\ fin = None /\ only_sendable s' i.
Proof. exact lost_response_forever. Qed.
Print Assumptions c06_forever.

(* a response already received when the deadline is examined wins over the deadline *)
Theorem c06_done_wins : forall s i ex rt, sst (get s i) = SRxDone ->
  op_poll s i ex rt = (set_st s i SRxProcessing, PollReady, rt).
Proof. exact done_wins. Qed.
Print Assumptions c06_done_wins.

(* never success without a received response *)
Theorem c06_never_success : forall s i ex rt s' rt',
  op_poll s i ex rt = (s', PollReady, rt') -> sst (get s i) = SRxDone.
Proof. exact ready_only_from_done. Qed.
Print Assumptions c06_never_success.

Theorem c06_done_needs_response : forall s bytes s' r k, wf_pstate s ->
  op_rx s bytes = (s', r) -> sst (get s' k) = SRxDone -> sst (get s k) <> SRxDone -> r = RxProcessed.
Proof. exact done_only_from_rx. Qed.
Print Assumptions c06_done_needs_response.

(* ---- the safety clause is REFUTED on the faithful model (known findings) ---- *)

Definition brd1 := OPush 0 (mk_command CBrd 0 0) [] (Some 1%nat).
Definition fprd2 := OPush 0 (mk_command CFprd 4097 304) [] (Some 2%nat).

(* TX window: the future is dropped while the transmit side holds the frame.  The slot is
   re-allocated under TX, TX transmits the second request's half-built frame and then stamps
   Sent over Created; the second request's drop cannot release it: the slot is stuck in Sent
   with no handle alive, and allocation fails for good. *)
Definition tx_window_history : list op :=
  [OAlloc; brd1; OMark 0; OTxClaim; ODropFut 0; OAlloc; fprd2; OTxDone 0 0; ODropCreated 0].

Theorem c06_safe_refuted_tx_window :
  let '(s, _) := run_ops false (pinit 1 60) tx_window_history in
  sst (get s 0) = SSent /\ snd (alloc s) = None.
Proof. vm_compute. split; reflexivity. Qed.
Print Assumptions c06_safe_refuted_tx_window.

(* RX window: the future is dropped while the receive side is inside the buffer (between claim
   and copy).  The slot is re-allocated, the late copy lands in the NEW request's frame. *)
Definition resp_brd1 : list N :=
  bcast ++ [18;16;16;16;16;16] ++ ethertype_bytes ++ [13; 16] ++ [7;0;0;0;0;0;1;0;0;0; 170; 1;0].

Definition rx_window_history : list op :=
  [OAlloc; brd1; OMark 0; OTxClaim; OTxDone 0 0;
   ORxBegin resp_brd1; ODropFut 0; OAlloc; fprd2;
   ORxCopy 0 [7;0;0;0;0;0;1;0;0;0; 170; 1;0]; ORxEnd 0; OMark 0; OTxClaim; OTxDone 0 0].

Theorem c06_safe_refuted_rx_window :
  let '(s, _) := run_ops false (pinit 1 60) rx_window_history in
  (* what the second request built is not what is transmitted: its first datagram now carries
     the first request's response (command BRD=7 instead of FPRD=4) *)
  nth 16 (frame_bytes s 0) 0 = 7.
Proof. vm_compute. reflexivity. Qed.
Print Assumptions c06_safe_refuted_rx_window.

(* poll window: the response arrives between the poll's CAS and its deadline handling; the retry
   store overwrites RxDone, the response is lost and the retransmission carries the response's
   bytes instead of the request's *)
Definition poll_window_history : list op :=
  [OAlloc; brd1; OMark 0; OTxClaim; OTxDone 0 0; OPollBegin 0; ORx resp_brd1; OPollEnd 0 4 true 1].

Theorem c06_safe_refuted_poll_window :
  let '(s0, _) := run_ops false (pinit 1 60) [OAlloc; brd1; OMark 0; OTxClaim] in
  let first_tx := frame_bytes s0 0 in
  let '(s, _) := run_ops false (pinit 1 60) poll_window_history in
  sst (get s 0) = SSendable /\ frame_bytes s 0 <> first_tx.
Proof. vm_compute. split; [reflexivity|discriminate]. Qed.
Print Assumptions c06_safe_refuted_poll_window.

(* non-vacuity of the count theorem *)
Example c06_example :
  let '(s1, _) := alloc (pinit 2 60) in
  let '(s2, _) := op_push s1 0 (mk_command CBrd 0 0) [] (Some 1%nat) in
  only_sendable (op_mark s2 0) 0.
Proof. vm_compute. split; [lia|]. split; [reflexivity|]. intros j Hj; lia. Qed.

(* The safety clause OUTSIDE the windows, over the window-granular alphabet (Pdu/Own2.v: application
   operations on held handles, the transmit side's claim / send outcome, the receive side's claim /
   copy / done, poll and response-drop split at their yield points; deadlines acting between the
   poll's test and its stores with any retry budget).  The alphabet's guards exclude exactly expiry
   and abandonment while the transmit or receive side is inside the buffer (the refuted windows
   above).  For every history: at most one party is ever inside a buffer (no other request observes
   or corrupts it); the transmit / receive tasks keep their frame until they themselves move it on;
   the slot is never lost - whenever nobody holds a handle for it, it is free - so allocation only
   fails when every slot has a live handle. *)
Theorem c06_safe_mutex : forall n cap ops x, In n pow2s -> xrun (xinit n cap) ops = Some x ->
  forall i, (i < nslots (xs x))%nat ->
  (parties x i <= 1)%nat /\
  (hk_eqb (hget (xh x) i) HCreated = true <-> sst (get (xs x) i) = SCreated) /\
  (hk_eqb (hget (xh x) i) HReceived = true <-> sst (get (xs x) i) = SRxProcessing) /\
  (tx_in x i = true <-> sst (get (xs x) i) = SSending) /\
  (rx_in x i = true <-> sst (get (xs x) i) = SRxBusy).
Proof. exact mutex. Qed.
Print Assumptions c06_safe_mutex.

Theorem c06_safe_tasks_not_broken : forall n cap ops x, In n pow2s -> xrun (xinit n cap) ops = Some x ->
  forall i, (i < nslots (xs x))%nat ->
  (tx_in x i = true -> sst (get (xs x) i) = SSending /\ hget (xh x) i = HFut) /\
  (rx_in x i = true -> sst (get (xs x) i) = SRxBusy /\ hget (xh x) i = HFut).
Proof. exact tasks_not_broken. Qed.
Print Assumptions c06_safe_tasks_not_broken.

Theorem c06_safe_slot_not_lost : forall n cap ops x, In n pow2s -> xrun (xinit n cap) ops = Some x ->
  forall i, (i < nslots (xs x))%nat -> hget (xh x) i = HNone ->
  sst (get (xs x) i) = SNone /\ tx_in x i = false /\ rx_in x i = false.
Proof. exact slot_not_lost. Qed.
Print Assumptions c06_safe_slot_not_lost.

Theorem c06_safe_alloc : forall n cap ops x, In n pow2s -> xrun (xinit n cap) ops = Some x ->
  (snd (alloc (xs x)) = None -> forall i, (i < nslots (xs x))%nat -> hget (xh x) i <> HNone).
Proof. exact alloc_unless_all_held. Qed.
Print Assumptions c06_safe_alloc.
