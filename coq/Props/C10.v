(* C10 -- a group's typestate never claims a state its SubDevices are not in. *)
From EC Require Import Base.Prelude Base.Bytes Cycle.Cycle Cycle.State Cycle.StateProofs.
Local Open Scope N_scope.

(* The per-cycle summaries, for EVERY list of reported 4-bit states (any length, the empty group
   included): the single-state summary names a state iff every device reported exactly that named
   state; all_op iff the group is non-empty and every device reported OP; is_in_state(v) for a
   named state v iff every device reported v (an empty group is in state "none" only). *)
Theorem c10_summaries : forall l, Forall (fun s => s < 16) l ->
  single_state l = spec_single l /\ all_op l = spec_all_op l /\
  (forall v, named v = true ->
     let d := if v =? 0 then DNone else if v =? 1 then DInit else if v =? 2 then DPreOp
              else if v =? 4 then DSafeOp else DOp in
     is_in_state l d = match l with [] => v =? 0 | _ => forallb (N.eqb v) l end).
Proof. exact summaries_exact. Qed.
Print Assumptions c10_summaries.

(* A transition that returns Ok wrote the requested state to every member, in group order, and to
   nobody else, and then - before the transition timeout, counted in frames - saw one COMPLETE
   round of status checks, one check per member in group order, in which every answer of every
   frame named the requested state.  For all groups, frame sizes that can hold a request, limits
   and WHATEVER the devices answer. *)
Theorem c10_transition_sound : forall c resps fs, (14 <= t_room c)%nat ->
  transition c resps = (Ok tt, fs) ->
  t_subs c = [] \/
  exists reqs before answers after fs_before fs_last,
    writes_of reqs = t_subs c /\ Forall (request_frame (t_subs c) (t_desired c)) reqs /\
    fs = reqs ++ fs_before ++ fs_last /\
    resps = before ++ answers ++ after /\ length answers = length fs_last /\
    Forall (fun ans => frame_ok (t_desired c) ans = true) answers /\
    concat fs_last = map TCheck (t_subs c) /\
    (length fs_before + length fs_last < t_limit c)%nat.
Proof. exact transition_sound. Qed.
Print Assumptions c10_transition_sound.

(* Requests go to members only - also on the failing paths. *)
Theorem c10_members_only : forall room subs st resps r fs,
  request_all room subs st resps = (r, fs) ->
  exists k, writes_of fs = firstn k subs /\
            (forall rest, r = Ok rest -> k = length subs) /\
            Forall (request_frame subs st) fs.
Proof. exact requests_members_only. Qed.
Print Assumptions c10_members_only.

(* A member that does not acknowledge the request (working counter other than 1) or refuses it
   (error flag in its answer) makes the transition fail. *)
Theorem c10_refusal_is_error : forall room a sr st data wkc rest, (14 <= room)%nat ->
  (wkc <> 1 -> fst (request_all room (a :: sr) st ([(data, wkc)] :: rest)) = Err (TWkc 1 wkc)) /\
  (wkc = 1 -> al_error data = true ->
   forall r, fst (request_all room (a :: sr) st ([(data, wkc)] :: rest)) <> Ok r).
Proof. exact request_refused. Qed.
Print Assumptions c10_refusal_is_error.

(* A frame too small for a request: nothing is sent and the transition is an error (and not the
   vacuous "nothing left to check" success of the status loop). *)
Theorem c10_no_room : forall room a sr st resps, (room < 14)%nat ->
  request_all room (a :: sr) st resps = (Err TTooLong, []).
Proof. exact request_no_room. Qed.
Print Assumptions c10_no_room.

(* The transition always ends - success, an error or the timeout. *)
Theorem c10_transition_ends : forall c resps, (14 <= t_room c)%nat -> fst (transition c resps) <> Hang.
Proof. exact transition_ends. Qed.
Print Assumptions c10_transition_ends.
