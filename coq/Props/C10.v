(* C10 -- a group's typestate never claims a state its SubDevices are not in. *)
From EC Require Import Base.Prelude Base.Bytes Cycle.Cycle Cycle.State Cycle.StateProofs Cycle.WaitAll Cycle.WaitAllProofs Cycle.CycleProofs Cycle.CycleResults Cycle.CycleChecks.
Local Open Scope N_scope.

(* The per-cycle summaries, for EVERY list of reported 4-bit states (any length, the empty group
   included): the single-state summary names a state iff every device reported exactly that named
   state; all_op iff the group is non-empty and every device reported OP; is_in_state(v) for a
   named state v iff every device reported v (an empty group is in state "none" only). *)
Theorem c10_summaries : forall l, Forall (fun s => s < 16) l ->
  single_state l = spec_single l /\ all_op l = spec_all_op l /\
  (forall v, named v = true ->
     let d := if v =? 0 then DNone else if v =? 1 then DInit else if v =? 2 then DPreOp
              else if v =? 4 then DSafeOp else DOp in
     is_in_state l d = match l with [] => v =? 0 | _ => forallb (N.eqb v) l end).
Proof. exact summaries_exact. Qed.
Print Assumptions c10_summaries.

(* A transition that returns Ok wrote the requested state to every member, in group order, and to
   nobody else, and then - before the transition timeout, counted in frames - saw one COMPLETE
   round of status checks, one check per member in group order, in which every answer of every
   frame named the requested state.  For all groups, frame sizes that can hold a request, limits
   and WHATEVER the devices answer. *)
Theorem c10_transition_sound : forall c resps fs, (14 <= t_room c)%nat ->
  transition c resps = (Ok tt, fs) ->
  t_subs c = [] \/
  exists reqs before answers after fs_before fs_last,
    writes_of reqs = t_subs c /\ Forall (request_frame (t_subs c) (t_desired c)) reqs /\
    fs = reqs ++ fs_before ++ fs_last /\
    resps = before ++ answers ++ after /\ length answers = length fs_last /\
    Forall (fun ans => frame_ok (t_desired c) ans = true) answers /\
    concat fs_last = map TCheck (t_subs c) /\
    (length fs_before + length fs_last < t_limit c)%nat.
Proof. exact transition_sound. Qed.
Print Assumptions c10_transition_sound.

(* "the frame is fine" (frame_ok above) = every answer in it was serviced by exactly one device,
   names the requested state and does not carry the error indication *)
Theorem c10_frame_ok_spec : forall st ans, frame_ok st ans = true <->
  Forall (fun a => snd a = 1 /\ al_error (fst a) = false /\ al_state (fst a) = st) ans.
Proof. exact frame_ok_spec. Qed.
Print Assumptions c10_frame_ok_spec.

(* A status answer that fails while the group waits - nobody (or more than one device) serviced
   the read, or the member signals an error, whichever state its status names - before the timeout
   and before an answer naming another state is met in the same frame, ends the transition with
   that error: WorkingCounter{1, received} or StateTransition. *)
Theorem c10_error_while_waiting : forall f c subs ans more used r rest fs u e,
  is_state (S f) c subs (ans :: more) used = (r, rest, fs, u) ->
  fs <> [] -> (S used < t_limit c)%nat -> frame_scan (t_desired c) ans = VFail e ->
  r = Err e.
Proof. exact is_state_error. Qed.
Print Assumptions c10_error_while_waiting.

Theorem c10_frame_fail_spec : forall st ans e, frame_scan st ans = VFail e <->
  exists pre a post, ans = pre ++ a :: post /\ frame_ok st pre = true /\
    ((snd a <> 1 /\ e = TWkc 1 (snd a)) \/ (snd a = 1 /\ al_error (fst a) = true /\ e = TStateTransition)).
Proof. exact frame_scan_fail. Qed.
Print Assumptions c10_frame_fail_spec.

(* Requests go to members only - also on the failing paths. *)
Theorem c10_members_only : forall room subs st resps r fs,
  request_all room subs st resps = (r, fs) ->
  exists k, writes_of fs = firstn k subs /\
            (forall rest, r = Ok rest -> k = length subs) /\
            Forall (request_frame subs st) fs.
Proof. exact requests_members_only. Qed.
Print Assumptions c10_members_only.

(* A member that does not acknowledge the request (working counter other than 1) or refuses it
   (error flag in its answer) makes the transition fail. *)
Theorem c10_refusal_is_error : forall room a sr st data wkc rest, (14 <= room)%nat ->
  (wkc <> 1 -> fst (request_all room (a :: sr) st ([(data, wkc)] :: rest)) = Err (TWkc 1 wkc)) /\
  (wkc = 1 -> al_error data = true ->
   forall r, fst (request_all room (a :: sr) st ([(data, wkc)] :: rest)) <> Ok r).
Proof. exact request_refused. Qed.
Print Assumptions c10_refusal_is_error.

(* A frame too small for a request: nothing is sent and the transition is an error (and not the
   vacuous "nothing left to check" success of the status loop). *)
Theorem c10_no_room : forall room a sr st resps, (room < 14)%nat ->
  request_all room (a :: sr) st resps = (Err TTooLong, []).
Proof. exact request_no_room. Qed.
Print Assumptions c10_no_room.

(* The transition always ends - success, an error or the timeout. *)
Theorem c10_transition_ends : forall c resps, (14 <= t_room c)%nat -> fst (transition c resps) <> Hang.
Proof. exact transition_ends. Qed.
Print Assumptions c10_transition_ends.

(* ---- the per-cycle state list (tx_rx, tx_rx_sync_system_time, tx_rx_dc) ---- *)

(* A successful cycle - any variant, image, frame size that fits one check, group, build mode and
   whatever the devices answer, however many frames the status checks need - has sent exactly one
   status check to each member, in group order, and to nobody else; and its state list is what was
   answered to those checks, in that order (cut at MAX_SUBDEVICES, the capacity of the list).  With
   c10_summaries the summaries of that list say exactly what the devices reported. *)
Theorem c10_cycle_states : forall c md v img resps st,
  (c_len c <= length img)%nat ->
  room_ok c (match v, c_dcref c with VSync, None => VPlain | _, _ => v end) ->
  cycle c md v img resps = Ok st ->
  checked (l_frames st) = c_subs c /\
  l_states st = firstn (c_maxsd c) (states_of (pairs_of (l_frames st) resps)).
Proof. exact cycle_states_exact. Qed.
Print Assumptions c10_cycle_states.

(* ---- MainDevice::wait_for_state: the network-wide wait by broadcast read ---- *)

(* Ok means: the polls before the last did not end the wait, and the last one - received before the
   transition timeout, counted in frames - was answered by exactly as many devices as the
   MainDevice counted, shows no error flag and names the requested state. *)
Theorem c10_wait_network_ok : forall c resps fs, wait_network c resps = (Ok tt, fs) ->
  exists before data after,
    resps = before ++ [[(data, b_n c)]] ++ after /\
    al_error data = false /\ al_state data = b_desired c /\
    fs = repeat [BStatus] (S (length before)) /\ (S (length before) < b_limit c)%nat.
Proof. exact wait_network_ok. Qed.
Print Assumptions c10_wait_network_ok.

(* Device side of the broadcast read: the answer is the OR of the devices' status registers and
   their count.  When the OR names a single state (INIT, PRE-OP, SAFE-OP, OP) without the error
   flag, every device that answered reports exactly that state and no error.  (BOOTSTRAP is the
   documented exception: INIT | PRE-OP = 3, c10_brd_bootstrap_ambiguous.) *)
Theorem c10_brd_all_in_state : forall sts d, onehot d = true ->
  Forall (fun s => N.land s 15 <> 0) sts ->
  al_state (fst (brd_answer sts)) = d -> al_error (fst (brd_answer sts)) = false ->
  Forall (fun s => N.land s 31 = d) sts /\ snd (brd_answer sts) = N.of_nat (length sts).
Proof. exact brd_all_in_state. Qed.
Print Assumptions c10_brd_all_in_state.

Theorem c10_brd_bootstrap_ambiguous :
  al_state (fst (brd_answer [1; 2])) = 3 /\ al_error (fst (brd_answer [1; 2])) = false.
Proof. exact brd_bootstrap_ambiguous. Qed.
Print Assumptions c10_brd_bootstrap_ambiguous.

(* Both together: success of the network-wide wait, when the last poll was answered by the devices
   [sts], means there are as many of them as the MainDevice counted and each is in the requested
   state with no error flag. *)
Theorem c10_wait_network_sound : forall c sts before after fs, onehot (b_desired c) = true ->
  Forall (fun s => N.land s 15 <> 0) sts ->
  wait_network c (before ++ [[brd_answer sts]] ++ after) = (Ok tt, fs) ->
  length fs = S (length before) ->
  N.of_nat (length sts) = b_n c /\ Forall (fun s => N.land s 31 = b_desired c) sts.
Proof. exact wait_network_sound. Qed.
Print Assumptions c10_wait_network_sound.

(* An error flag from any device, or a device that does not answer, is an error - also when the
   state bits already name the requested state. *)
Theorem c10_wait_error_flag : forall f c data more used, (S used < b_limit c)%nat -> al_error data = true ->
  forall fs, wait_all (S f) c ([(data, b_n c)] :: more) used <> (Ok tt, fs).
Proof. exact wait_error_flag. Qed.
Print Assumptions c10_wait_error_flag.

Theorem c10_wait_missing_device : forall f c data wkc more used, (S used < b_limit c)%nat -> wkc <> b_n c ->
  wait_all (S f) c ([(data, wkc)] :: more) used = (Err (TWkc (b_n c) wkc), [[BStatus]]).
Proof. exact wait_missing_device. Qed.
Print Assumptions c10_wait_missing_device.

(* The wait always ends: success, an error or the timeout. *)
Theorem c10_wait_network_ends : forall c resps, fst (wait_network c resps) <> Hang.
Proof. exact wait_network_ends. Qed.
Print Assumptions c10_wait_network_ends.

(* not vacuous: three devices, two polls in OP, then all in SAFE-OP *)
Theorem c10_wait_network_example :
  wait_network {| b_n := 3; b_desired := 4; b_limit := 5 |}
    [[brd_answer [8; 8; 4]]; [brd_answer [8; 4; 4]]; [brd_answer [4; 4; 4]]] = (Ok tt, [[BStatus]; [BStatus]; [BStatus]]) /\
  fst (wait_network {| b_n := 3; b_desired := 4; b_limit := 5 |} [[brd_answer [4; 20; 4]]; [([17; 0], 1)]; [([17; 0], 1)]; [([17; 0], 1)]]) = Err TStateTransition /\
  fst (wait_network {| b_n := 3; b_desired := 4; b_limit := 3 |} [[brd_answer [8; 8; 4]]; [brd_answer [8; 4; 4]]; [brd_answer [4; 4; 4]]]) = Err TTimeout.
Proof. exact wait_network_example. Qed.
Print Assumptions c10_wait_network_example.
