(* C20 (segment part): frames of different tasks do not disturb each other's devices.
   A minimal picture of the segment: every station has a memory; a configured-address datagram
   acts on the one station it names; a logical datagram acts on a device through that device's
   FMMUs (Pd/Layout.v).  Model and proofs (small) in one file. *)
From EC Require Import Base.Prelude Base.Bytes Pd.Layout Pd.LayoutProofs.
Local Open Scope N_scope.

Definition mem := N -> N.
Record seg := { present : N -> bool; memory : N -> mem }.

Inductive dgram :=
| FpRd (station ado : N) (len : nat)
| FpWr (station ado : N) (data : list N).

Definition read_bytes (m : mem) (ado : N) (len : nat) : list N := map (fun k => m (ado + N.of_nat k)) (seq 0 len).
Fixpoint write_bytes (m : mem) (ado : N) (data : list N) : mem :=
  match data with
  | [] => m
  | b :: r => write_bytes (fun x => if x =? ado then b else m x) (ado + 1) r
  end.

(* result: data returned to the master and working counter *)
Definition exec (s : seg) (d : dgram) : seg * (list N * N) :=
  match d with
  | FpRd a ado len => if present s a then (s, (read_bytes (memory s a) ado len, 1)) else (s, (zeros len, 0))
  | FpWr a ado data =>
    if present s a
    then ({| present := present s; memory := fun st => if st =? a then write_bytes (memory s a) ado data else memory s st |}, (data, 1))
    else (s, (data, 0))
  end.

Definition station_of (d : dgram) : N := match d with FpRd a _ _ | FpWr a _ _ => a end.

Definition seg_eq (s t : seg) : Prop := (forall a, present s a = present t a) /\ forall a x, memory s a x = memory t a x.

(* two datagrams naming different stations: each gets the answer it would get alone, and the
   segment ends in the same state whichever goes first *)
Theorem fp_commute s d1 d2 : station_of d1 <> station_of d2 ->
  let '(s1, r1) := exec s d1 in let '(s12, r2) := exec s1 d2 in
  let '(s2, r2') := exec s d2 in let '(s21, r1') := exec s2 d1 in
  r1 = r1' /\ r2 = r2' /\ seg_eq s12 s21.
Proof.
  intros Hne. destruct d1 as [a1 o1 l1|a1 o1 w1]; destruct d2 as [a2 o2 l2|a2 o2 w2]; cbn [station_of] in Hne; cbn [exec];
    destruct (present s a1) eqn:P1; destruct (present s a2) eqn:P2; cbn [exec present memory]; rewrite ?P1, ?P2; cbn [present memory];
    repeat match goal with |- context [?x =? ?y] => first [ replace (x =? y) with false by (symmetry; apply N.eqb_neq; congruence) | replace (x =? y) with true by (symmetry; apply N.eqb_eq; reflexivity) ] end;
    try (split; [reflexivity|split; [reflexivity|split; intros; reflexivity]]).
  - split; [reflexivity|split; [reflexivity|]]. split; [intros; reflexivity|]. intros a x. cbn [memory].
    destruct (a =? a2) eqn:E2; destruct (a =? a1) eqn:E1; try reflexivity.
    apply N.eqb_eq in E1. apply N.eqb_eq in E2. congruence.
Qed.

(* ---------- logical datagrams through a device's FMMUs ---------- *)
Definition wr_byte (fs : fregs) (m : mem) (la b : N) : mem :=
  fold_left (fun m p => fun x => if x =? p then b else m x) (targets false fs la) m.
Definition rd_byte (fs : fregs) (m : mem) (la b : N) : N :=
  match targets true fs la with [] => b | p :: _ => m p end.

Fixpoint lrw_dev (fs : fregs) (m : mem) (la : N) (data : list N) : mem * list N :=
  match data with
  | [] => (m, [])
  | b :: r =>
    let b' := rd_byte fs m la b in
    let m' := wr_byte fs m la b in
    let '(m2, r') := lrw_dev fs m' (la + 1) r in
    (m2, b' :: r')
  end.

Lemma targets_none rd fs la : (forall j, fmap (fs j) la = None) -> targets rd fs la = [].
Proof.
  intros H. unfold targets, flist.
  induction (seq 0 16) as [|k r IH]; [reflexivity|]. cbn [map flat_map]. rewrite H, IH.
  destruct (if rd then f_rd (fs k) else f_wr (fs k)); reflexivity.
Qed.

(* a device none of whose FMMUs answers the addressed range is not touched by the datagram and
   contributes nothing to it *)
Theorem lrw_outside fs : forall data m la,
  (forall k, (k < length data)%nat -> forall j, fmap (fs j) (la + N.of_nat k) = None) ->
  lrw_dev fs m la data = (m, data).
Proof.
  induction data as [|b r IH]; intros m la H; [reflexivity|].
  cbn [lrw_dev]. assert (H0 : forall j, fmap (fs j) la = None).
  { intros j. specialize (H 0%nat (Nat.lt_0_succ _) j). replace (la + N.of_nat 0) with la in H by lia. exact H. }
  unfold rd_byte, wr_byte. rewrite !(targets_none _ _ _ H0). cbn [fold_left].
  rewrite IH; [reflexivity|]. intros k Hk j. specialize (H (S k) (proj1 (Nat.succ_lt_mono _ _) Hk) j).
  replace (la + 1 + N.of_nat k) with (la + N.of_nat (S k)) by lia. exact H.
Qed.

(* with C08: a device configured as part of one group answers nothing outside its own two windows,
   so a cycle of any other group (whose image is a disjoint logical range, c08_groups_disjoint)
   passes through it unchanged *)
Theorem other_groups_cycle_passes dv fs regs win wout data m la :
  dev_post dv fs regs win wout ->
  (forall k, (k < length data)%nat ->
     ~ (fst win <= la + N.of_nat k /\ la + N.of_nat k < snd win) /\
     ~ (fst wout <= la + N.of_nat k /\ la + N.of_nat k < snd wout)) ->
  lrw_dev fs m la data = (m, data).
Proof.
  intros P H. apply lrw_outside. intros k Hk j. destruct (H k Hk) as [A B].
  eapply nowhere_else; eauto.
Qed.

(* non-vacuity: the EEPROM-configured example device of C08 at its configured windows, and a
   frame of the neighbouring logical range *)
Example passes_example :
  exists g s, cfg_group Debug 96 64 (map init_dev [ex_io]) = Ok g /\ g_devs g = [s] /\
    lrw_dev (ds_fmmus s) (fun _ => 7) 160 [1; 2; 3] = (fun _ => 7, [1; 2; 3]) /\
    snd (lrw_dev (ds_fmmus s) (fun x => x mod 256) 96 [0; 0]) = [4360 mod 256; 4361 mod 256].
Proof.
  eexists. eexists. split; [vm_compute; reflexivity|]. split; [reflexivity|]. split.
  - apply lrw_outside. intros k Hk j. cbn [length] in Hk.
    assert (Hk3 : (k = 0 \/ k = 1 \/ k = 2)%nat) by lia.
    destruct Hk3 as [Hk3|[Hk3|Hk3]]; subst k;
      (do 16 (destruct j as [|j]; [vm_compute; reflexivity|])); vm_compute; reflexivity.
  - vm_compute. reflexivity.
Qed.

(* ---------- what a logical datagram does to a device, byte by byte ---------- *)
Lemma wr_byte_other fs m la b x : ~ In x (targets false fs la) -> wr_byte fs m la b x = m x.
Proof.
  unfold wr_byte. generalize (targets false fs la) as l. intros l. revert m.
  induction l as [|p r IH]; intros m H; [reflexivity|]. cbn [fold_left]. rewrite IH.
  - destruct (x =? p) eqn:E; [|reflexivity]. apply N.eqb_eq in E. subst. exfalso. apply H. left; reflexivity.
  - intros X. apply H. right; exact X.
Qed.

Lemma wr_byte_hit fs m la b p : targets false fs la = [p] -> wr_byte fs m la b p = b.
Proof. intros H. unfold wr_byte. rewrite H. cbn [fold_left]. rewrite N.eqb_refl. reflexivity. Qed.

Lemma lrw_dev_length fs : forall data m la, length (snd (lrw_dev fs m la data)) = length data.
Proof.
  induction data as [|b r IH]; intros m la; [reflexivity|]. cbn [lrw_dev].
  destruct (lrw_dev fs (wr_byte fs m la b) (la + 1) r) as [m2 r'] eqn:E. cbn [snd length].
  specialize (IH (wr_byte fs m la b) (la + 1)). rewrite E in IH. cbn [snd] in IH. rewrite IH. reflexivity.
Qed.

(* F1: memory that no byte of the datagram targets is untouched *)
Lemma lrw_mem_other fs : forall data m la x,
  (forall t, (t < length data)%nat -> ~ In x (targets false fs (la + N.of_nat t))) ->
  fst (lrw_dev fs m la data) x = m x.
Proof.
  induction data as [|b r IH]; intros m la x H; [reflexivity|]. cbn [lrw_dev].
  destruct (lrw_dev fs (wr_byte fs m la b) (la + 1) r) as [m2 r'] eqn:E. cbn [fst].
  specialize (IH (wr_byte fs m la b) (la + 1) x). rewrite E in IH. cbn [fst] in IH. rewrite IH.
  - apply wr_byte_other. specialize (H 0%nat (Nat.lt_0_succ _)). replace (la + N.of_nat 0) with la in H by lia. exact H.
  - intros t Ht. specialize (H (S t) (proj1 (Nat.succ_lt_mono _ _) Ht)).
    replace (la + 1 + N.of_nat t) with (la + N.of_nat (S t)) by lia. exact H.
Qed.

(* F2: a byte whose (single) target no later byte of the datagram targets ends up in that memory *)
Lemma lrw_mem_hit fs : forall data m la t p,
  (t < length data)%nat -> targets false fs (la + N.of_nat t) = [p] ->
  (forall t', (t < t' < length data)%nat -> ~ In p (targets false fs (la + N.of_nat t'))) ->
  fst (lrw_dev fs m la data) p = nth t data 0.
Proof.
  induction data as [|b r IH]; intros m la t p Ht Hp Hlater; [simpl in Ht; lia|]. cbn [lrw_dev].
  destruct (lrw_dev fs (wr_byte fs m la b) (la + 1) r) as [m2 r'] eqn:E. cbn [fst].
  destruct t as [|t].
  - replace (la + N.of_nat 0) with la in Hp by lia. cbn [nth].
    pose proof (lrw_mem_other fs r (wr_byte fs m la b) (la + 1) p) as O. rewrite E in O. cbn [fst] in O. rewrite O.
    + apply wr_byte_hit. exact Hp.
    + intros t' Ht'. specialize (Hlater (S t')). replace (la + 1 + N.of_nat t') with (la + N.of_nat (S t')) by lia.
      apply Hlater. cbn [length]. lia.
  - cbn [nth]. specialize (IH (wr_byte fs m la b) (la + 1) t p). rewrite E in IH. cbn [fst] in IH. apply IH.
    + cbn [length] in Ht. lia.
    + replace (la + 1 + N.of_nat t) with (la + N.of_nat (S t)) by lia. exact Hp.
    + intros t' Ht'. specialize (Hlater (S t')). replace (la + 1 + N.of_nat t') with (la + N.of_nat (S t')) by lia.
      apply Hlater. cbn [length]. lia.
Qed.

(* F3: what comes back: a byte no read-FMMU answers is passed through; a byte answered from
   memory that no earlier byte of the datagram wrote shows that memory *)
Lemma lrw_data fs : forall data m la t,
  (t < length data)%nat ->
  (forall t', (t' < t)%nat -> forall p, In p (targets true fs (la + N.of_nat t)) -> ~ In p (targets false fs (la + N.of_nat t'))) ->
  nth t (snd (lrw_dev fs m la data)) 0 =
  match targets true fs (la + N.of_nat t) with [] => nth t data 0 | p :: _ => m p end.
Proof.
  induction data as [|b r IH]; intros m la t Ht Hearlier; [simpl in Ht; lia|]. cbn [lrw_dev].
  destruct (lrw_dev fs (wr_byte fs m la b) (la + 1) r) as [m2 r'] eqn:E. cbn [snd].
  destruct t as [|t].
  - cbn [nth]. unfold rd_byte. replace (la + N.of_nat 0) with la by lia. reflexivity.
  - cbn [nth]. specialize (IH (wr_byte fs m la b) (la + 1) t). rewrite E in IH. cbn [snd] in IH. rewrite IH.
    + replace (la + 1 + N.of_nat t) with (la + N.of_nat (S t)) by lia.
      destruct (targets true fs (la + N.of_nat (S t))) as [|p l] eqn:T; [reflexivity|].
      apply wr_byte_other. specialize (Hearlier 0%nat (Nat.lt_0_succ _) p). replace (la + N.of_nat 0) with la in Hearlier by lia.
      apply Hearlier. left; reflexivity.
    + cbn [length] in Ht. lia.
    + intros t' Ht' p Hp. replace (la + 1 + N.of_nat t) with (la + N.of_nat (S t)) in Hp by lia.
      replace (la + 1 + N.of_nat t') with (la + N.of_nat (S t')) by lia. apply (Hearlier (S t')); [lia|exact Hp].
Qed.

(* ---------- C08's consequence: one cycle's datagram on a configured EEPROM-path device ---------- *)
Lemma wr_byte_keeps (b : N) : forall (l : list N) (m : mem) (p : N), m p = b ->
  fold_left (fun m q => fun x => if x =? q then b else m x) l m p = b.
Proof.
  induction l as [|q r IH]; intros m p H; [exact H|]. cbn [fold_left]. apply IH.
  destruct (p =? q); [reflexivity|exact H].
Qed.

Lemma wr_byte_hit_in fs m la b p : In p (targets false fs la) -> wr_byte fs m la b p = b.
Proof.
  unfold wr_byte. generalize (targets false fs la) as l. intros l. revert m.
  induction l as [|q r IH]; intros m H; [contradiction|]. cbn [fold_left].
  destruct H as [->|H]; [|apply IH; exact H].
  apply wr_byte_keeps. rewrite N.eqb_refl. reflexivity.
Qed.

Lemma lrw_mem_hit_in fs : forall data m la t p,
  (t < length data)%nat -> In p (targets false fs (la + N.of_nat t)) ->
  (forall t', (t < t' < length data)%nat -> ~ In p (targets false fs (la + N.of_nat t'))) ->
  fst (lrw_dev fs m la data) p = nth t data 0.
Proof.
  induction data as [|b r IH]; intros m la t p Ht Hp Hlater; [simpl in Ht; lia|]. cbn [lrw_dev].
  destruct (lrw_dev fs (wr_byte fs m la b) (la + 1) r) as [m2 r'] eqn:E. cbn [fst].
  destruct t as [|t].
  - replace (la + N.of_nat 0) with la in Hp by lia. cbn [nth].
    pose proof (lrw_mem_other fs r (wr_byte fs m la b) (la + 1) p) as O. rewrite E in O. cbn [fst] in O. rewrite O.
    + apply wr_byte_hit_in. exact Hp.
    + intros t' Ht'. specialize (Hlater (S t')). replace (la + 1 + N.of_nat t') with (la + N.of_nat (S t')) by lia.
      apply Hlater. cbn [length]. lia.
  - cbn [nth]. specialize (IH (wr_byte fs m la b) (la + 1) t p). rewrite E in IH. cbn [fst] in IH. apply IH.
    + cbn [length] in Ht. lia.
    + replace (la + 1 + N.of_nat t) with (la + N.of_nat (S t)) by lia. exact Hp.
    + intros t' Ht'. specialize (Hlater (S t')). replace (la + 1 + N.of_nat t') with (la + N.of_nat (S t')) by lia.
      apply Hlater. cbn [length]. lia.
Qed.

Section Cycle.
  Variables (dv : devd) (fs : fregs) (regs : list (nat * smreg)) (win wout : N * N).
  Hypothesis POST : dev_post dv fs regs win wout.
  Hypothesis EEP : d_coe dv = false.
  Hypothesis SMS16 : (length (d_sms dv) <= 16)%nat.

  (* who can write [sm_start sm + t] of output sync manager k: only logical byte a' + t *)
  Lemma only_one_writer k sm a' t la' :
    areas_disjoint dv DOut -> In (k, sm) (pdl dv DOut) -> fs k = new_fmmu DOut a' (slen dv DOut k) (sm_start sm) ->
    t < slen dv DOut k -> In (sm_start sm + t) (targets false fs la') -> la' = a' + t.
  Proof using All.
    intros AD Hin E Ht Hw. apply targets_in in Hw. destruct Hw as [j [Hj [Hfl Hm]]].
    destruct (answering_fmmu _ _ _ _ _ false _ _ _ POST EEP Hfl Hm) as [sm2 [a2 [Hin2 [_ [_ [E2 [L1 [L2 Hp]]]]]]]].
    cbn [dir_of] in *.
    destruct (Nat.eq_dec j k) as [->|Hne].
    - rewrite E in E2. inversion E2; subst. lia.
    - exfalso. destruct (AD _ _ _ _ Hin2 Hin Hne) as [X|X]; lia.
  Qed.

  (* the bytes written to the device's outputs arrive in its output memory ... *)
  Theorem outputs_arrive k sm m la data :
    areas_disjoint dv DOut -> In (k, sm) (pdl dv DOut) ->
    exists a', fst wout <= a' /\ a' + slen dv DOut k <= snd wout /\
      forall t, t < slen dv DOut k -> la <= a' -> a' + slen dv DOut k <= la + N.of_nat (length data) ->
        fst (lrw_dev fs m la data) (sm_start sm + t) = nth (N.to_nat (a' + t - la)) data 0.
  Proof using All.
    intros AD Hin. destruct POST as [_ [_ [_ [Hmap _]]]]. rewrite EEP in Hmap. destruct Hmap as [_ Co].
    destruct (chain_fmmu _ _ _ _ _ _ Co _ _ Hin) as [a' [A [B E]]].
    exists a'. split; [exact A|]. split; [exact B|]. intros t Ht L1 L2.
    apply lrw_mem_hit_in.
    - lia.
    - replace (la + N.of_nat (N.to_nat (a' + t - la))) with (a' + t) by lia.
      apply targets_in. exists k. split; [pose proof (pdl_index_bound _ _ _ _ Hin); lia|].
      rewrite E. split; [reflexivity|]. unfold fmap, new_fmmu; cbn.
      replace ((a' <=? a' + t) && (a' + t <? a' + slen dv DOut k)) with true by lia. f_equal. lia.
    - intros t' Ht' Hw. apply (only_one_writer k sm a' t) in Hw; auto. lia.
  Qed.

  (* ... and nowhere else on the device *)
  Theorem outputs_nowhere_else m la data x :
    (forall k sm, In (k, sm) (pdl dv DOut) -> ~ (sm_start sm <= x /\ x < sm_start sm + slen dv DOut k)) ->
    fst (lrw_dev fs m la data) x = m x.
  Proof using All.
    intros Hx. apply lrw_mem_other. intros t Ht Hw. apply targets_in in Hw. destruct Hw as [j [Hj [Hfl Hm]]].
    destruct (answering_fmmu _ _ _ _ _ false _ _ _ POST EEP Hfl Hm) as [sm2 [a2 [Hin2 [_ [_ [_ [L1 [L2 Hp]]]]]]]].
    cbn [dir_of] in *. apply (Hx _ _ Hin2). lia.
  Qed.

  (* the device's input memory appears in its input window (provided the cycle's own output bytes
     do not land in input memory: the two directions' areas are apart) *)
  Theorem inputs_appear k sm m la data :
    (forall k1 sm1 k2 sm2, In (k1, sm1) (pdl dv DIn) -> In (k2, sm2) (pdl dv DOut) ->
       sm_start sm1 + slen dv DIn k1 <= sm_start sm2 \/ sm_start sm2 + slen dv DOut k2 <= sm_start sm1) ->
    In (k, sm) (pdl dv DIn) ->
    exists a', fst win <= a' /\ a' + slen dv DIn k <= snd win /\
      forall t, t < slen dv DIn k -> la <= a' -> a' + slen dv DIn k <= la + N.of_nat (length data) ->
        nth (N.to_nat (a' + t - la)) (snd (lrw_dev fs m la data)) 0 = m (sm_start sm + t).
  Proof using All.
    intros IO Hin. destruct POST as [_ [_ [_ [Hmap _]]]]. rewrite EEP in Hmap. destruct Hmap as [Ci _].
    destruct (chain_fmmu _ _ _ _ _ _ Ci _ _ Hin) as [a' [A [B E]]].
    exists a'. split; [exact A|]. split; [exact B|]. intros t Ht L1 L2.
    set (tt := N.to_nat (a' + t - la)).
    assert (Hla : la + N.of_nat tt = a' + t) by (subst tt; lia).
    assert (Hmem : In (sm_start sm + t) (targets true fs (a' + t))).
    { apply targets_in. exists k. split; [pose proof (pdl_index_bound _ _ _ _ Hin); lia|].
      rewrite E. split; [reflexivity|]. unfold fmap, new_fmmu; cbn.
      replace ((a' <=? a' + t) && (a' + t <? a' + slen dv DIn k)) with true by lia. f_equal. lia. }
    assert (Huniq : forall q, In q (targets true fs (a' + t)) -> q = sm_start sm + t).
    { intros q Hq. apply targets_in in Hq. destruct Hq as [j [Hj [Hfl Hm]]].
      destruct (answering_fmmu _ _ _ _ _ true _ _ _ POST EEP Hfl Hm) as [sm2 [a2 [Hin2 [_ [_ [E2 [M1 [M2 Hp]]]]]]]].
      cbn [dir_of] in *. destruct (Nat.eq_dec j k) as [->|Hne].
      - rewrite E in E2. inversion E2; subst. lia.
      - exfalso. pose proof (chain_subwindows_apart _ _ _ _ _ _ Ci _ _ _ _ Hin2 Hin Hne) as X.
        rewrite E, E2 in X. cbn in X. lia. }
    rewrite lrw_data.
    - rewrite Hla. destruct (targets true fs (a' + t)) as [|q l] eqn:T; [contradiction|].
      rewrite (Huniq q); [reflexivity|left; reflexivity].
    - subst tt. lia.
    - intros t' Ht' p Hp Hw. rewrite Hla in Hp. apply Huniq in Hp. subst p.
      apply targets_in in Hw. destruct Hw as [j [Hj [Hfl Hm]]].
      destruct (answering_fmmu _ _ _ _ _ false _ _ _ POST EEP Hfl Hm) as [sm2 [a2 [Hin2 [_ [_ [_ [M1 [M2 Hp]]]]]]]].
      cbn [dir_of] in *. destruct (IO _ _ _ _ Hin Hin2); lia.
  Qed.

  (* every byte of the datagram outside the device's input window comes back as it went in *)
  Theorem data_elsewhere_passes m la data t :
    (t < length data)%nat -> ~ (fst win <= la + N.of_nat t /\ la + N.of_nat t < snd win) ->
    nth t (snd (lrw_dev fs m la data)) 0 = nth t data 0.
  Proof using All.
    intros Ht Hout.
    assert (Hnil : targets true fs (la + N.of_nat t) = []).
    { destruct (targets true fs (la + N.of_nat t)) as [|q l] eqn:T; [reflexivity|]. exfalso.
      assert (Hq : In q (targets true fs (la + N.of_nat t))) by (rewrite T; left; reflexivity).
      apply targets_in in Hq. destruct Hq as [j [Hj [Hfl Hm]]].
      destruct (answering_fmmu _ _ _ _ _ true _ _ _ POST EEP Hfl Hm) as [sm2 [a2 [_ [W1 [W2 [_ [M1 [M2 _]]]]]]]].
      cbn [dir_of] in *. apply Hout. lia. }
    rewrite lrw_data; [rewrite Hnil; reflexivity|exact Ht|].
    intros t' _ p Hp. rewrite Hnil in Hp. contradiction.
  Qed.
End Cycle.

(* ---------- the whole group: one logical datagram through all its devices in ring order ---------- *)
Record cdev := mkC { c_dv : devd; c_fs : fregs; c_regs : list (nat * smreg); c_win : N * N; c_wout : N * N; c_mem : mem }.

Definition io_apart (dv : devd) : Prop :=
  forall k1 sm1 k2 sm2, In (k1, sm1) (pdl dv DIn) -> In (k2, sm2) (pdl dv DOut) ->
    sm_start sm1 + slen dv DIn k1 <= sm_start sm2 \/ sm_start sm2 + slen dv DOut k2 <= sm_start sm1.

Definition cdev_ok (c : cdev) : Prop :=
  dev_post (c_dv c) (c_fs c) (c_regs c) (c_win c) (c_wout c) /\ d_coe (c_dv c) = false /\
  (length (d_sms (c_dv c)) <= 16)%nat /\ areas_disjoint (c_dv c) DOut /\ io_apart (c_dv c).

Fixpoint ring (cs : list cdev) (la : N) (data : list N) : list mem * list N :=
  match cs with
  | [] => ([], data)
  | c :: r => let '(m', d') := lrw_dev (c_fs c) (c_mem c) la data in
              let '(ms, d'') := ring r la d' in (m' :: ms, d'')
  end.

Definition disj (w w' : N * N) : Prop := snd w <= fst w' \/ snd w' <= fst w.
Fixpoint apart (cs : list cdev) : Prop :=
  match cs with
  | [] => True
  | c :: r => (forall c', In c' r -> disj (c_win c) (c_win c') /\ disj (c_win c) (c_wout c') /\ disj (c_wout c) (c_win c')) /\ apart r
  end.

Definition inside (la : N) (len : nat) (w : N * N) : Prop := la <= fst w /\ snd w <= la + N.of_nat len.

Definition dev_result (la : N) (data out : list N) (c : cdev) (m' : mem) : Prop :=
  (forall k sm, In (k, sm) (pdl (c_dv c) DOut) -> exists a', fst (c_wout c) <= a' /\ a' + slen (c_dv c) DOut k <= snd (c_wout c) /\
     forall t, t < slen (c_dv c) DOut k -> m' (sm_start sm + t) = nth (N.to_nat (a' + t - la)) data 0) /\
  (forall x, (forall k sm, In (k, sm) (pdl (c_dv c) DOut) -> ~ (sm_start sm <= x /\ x < sm_start sm + slen (c_dv c) DOut k)) -> m' x = c_mem c x) /\
  (forall k sm, In (k, sm) (pdl (c_dv c) DIn) -> exists a', fst (c_win c) <= a' /\ a' + slen (c_dv c) DIn k <= snd (c_win c) /\
     forall t, t < slen (c_dv c) DIn k -> nth (N.to_nat (a' + t - la)) out 0 = c_mem c (sm_start sm + t)).

Inductive Forall2' {A B} (P : A -> B -> Prop) : list A -> list B -> Prop :=
| F2n : Forall2' P [] []
| F2c a b la lb : P a b -> Forall2' P la lb -> Forall2' P (a :: la) (b :: lb).

Theorem ring_cycle : forall cs la data,
  Forall cdev_ok cs -> apart cs ->
  Forall (fun c => inside la (length data) (c_win c) /\ inside la (length data) (c_wout c)) cs ->
  let '(ms, out) := ring cs la data in
  length out = length data /\
  Forall2' (dev_result la data out) cs ms /\
  (forall t, (t < length data)%nat ->
     (forall c, In c cs -> ~ (fst (c_win c) <= la + N.of_nat t /\ la + N.of_nat t < snd (c_win c))) ->
     nth t out 0 = nth t data 0).
Proof.
  induction cs as [|c r IH]; intros la data Hok Hap Hin; cbn [ring].
  - split; [reflexivity|]. split; [constructor|]. intros; reflexivity.
  - inversion Hok as [|? ? [POST [EEP [S16 [AD IO]]]] Hok']; subst. inversion Hin as [|? ? [Iw Io] Hin']; subst.
    destruct Hap as [Hhead Hap'].
    destruct (lrw_dev (c_fs c) (c_mem c) la data) as [m' d'] eqn:E.
    assert (Ld : length d' = length data).
    { pose proof (lrw_dev_length (c_fs c) data (c_mem c) la) as L. rewrite E in L. exact L. }
    assert (Hin'' : Forall (fun c0 => inside la (length d') (c_win c0) /\ inside la (length d') (c_wout c0)) r) by (rewrite Ld; exact Hin').
    specialize (IH la d' Hok' Hap' Hin''). destruct (ring r la d') as [ms out] eqn:R.
    destruct IH as [Lo [Hres Hpass]].
    (* what this device does with [data] *)
    assert (Pass0 : forall t, (t < length data)%nat -> ~ (fst (c_win c) <= la + N.of_nat t /\ la + N.of_nat t < snd (c_win c)) -> nth t d' 0 = nth t data 0).
    { intros t Ht Hout. pose proof (data_elsewhere_passes _ _ _ _ _ POST EEP S16 (c_mem c) la data t Ht Hout) as X. rewrite E in X. exact X. }
    split; [lia|]. split.
    + constructor.
      * (* this device *)
        split; [|split].
        -- intros k sm Hk. destruct (outputs_arrive _ _ _ _ _ POST EEP S16 k sm (c_mem c) la data AD Hk) as [a' [A [B X]]].
           exists a'. split; [exact A|]. split; [exact B|]. intros t Ht. specialize (X t Ht).
           rewrite E in X. cbn [fst] in X. apply X; unfold inside in Io; lia.
        -- intros x Hx. pose proof (outputs_nowhere_else _ _ _ _ _ POST EEP S16 (c_mem c) la data x Hx) as X. rewrite E in X. exact X.
        -- intros k sm Hk. destruct (inputs_appear _ _ _ _ _ POST EEP S16 k sm (c_mem c) la data IO Hk) as [a' [A [B X]]].
           exists a'. split; [exact A|]. split; [exact B|]. intros t Ht. specialize (X t Ht).
           rewrite E in X. cbn [snd] in X. rewrite <- X; [|unfold inside in Iw; lia|unfold inside in Iw; lia].
           (* the later devices pass this position through *)
           apply Hpass; [unfold inside in Iw; lia|].
           intros c' Hc'. destruct (Hhead c' Hc') as [D1 _]. unfold disj in D1.
           replace (la + N.of_nat (N.to_nat (a' + t - la))) with (a' + t) by (unfold inside in Iw; lia). lia.
      * (* the later devices: their outputs come from the original image *)
        clear - Hres Hhead Pass0 Hin' Ld.
        assert (G : forall cs' ms', Forall2' (dev_result la d' out) cs' ms' -> (forall c', In c' cs' -> In c' r) -> Forall2' (dev_result la data out) cs' ms').
        { induction 1 as [|c1 m1 lc lm Hd _ IHf]; intros Sub; constructor.
          - destruct Hd as [Ho [Hx Hi]]. split; [|split; [exact Hx|exact Hi]].
            intros k sm Hk. destruct (Ho k sm Hk) as [a' [A [B X]]]. exists a'. split; [exact A|]. split; [exact B|].
            intros t Ht. rewrite (X t Ht).
            assert (Hc1 : In c1 r) by (apply Sub; left; reflexivity).
            rewrite Forall_forall in Hin'. destruct (Hin' c1 Hc1) as [_ Io1]. unfold inside in Io1.
            apply Pass0; [lia|].
            destruct (Hhead c1 Hc1) as [_ [D2 _]]. unfold disj in D2.
            replace (la + N.of_nat (N.to_nat (a' + t - la))) with (a' + t) by lia. lia.
          - apply IHf. intros c' Hc'. apply Sub. right; exact Hc'. }
        apply G; [exact Hres|auto].
    + intros t Ht Hout. rewrite Hpass; [|lia|intros c' Hc'; apply Hout; right; exact Hc'].
      apply Pass0; [exact Ht|apply Hout; left; reflexivity].
Qed.

(* ---------- ... instantiated with a group as C08's model configures it ---------- *)
Fixpoint build (start : N) (ss : list dstate) (wi wo : list (N * N)) (ms : list mem) : list cdev :=
  match ss, wi, wo, ms with
  | s :: ss', w :: wi', w' :: wo', m :: ms' =>
    mkC (ds_desc s) (ds_fmmus s) (ds_regs s) (start + fst w, start + snd w) (start + fst w', start + snd w') m
    :: build start ss' wi' wo' ms'
  | _, _, _, _ => []
  end.

Lemma build_in start : forall ss wi wo ms c, In c (build start ss wi wo ms) ->
  exists w w', In w wi /\ In w' wo /\ c_win c = (start + fst w, start + snd w) /\ c_wout c = (start + fst w', start + snd w').
Proof.
  induction ss as [|s ss IH]; intros wi wo ms c H; [contradiction|].
  destruct wi as [|w wi]; [contradiction|]. destruct wo as [|w' wo]; [contradiction|]. destruct ms as [|m ms]; [contradiction|].
  cbn [build] in H. destruct H as [<-|H].
  - exists w, w'. cbn. repeat split; auto.
  - destruct (IH _ _ _ _ H) as [x [x' [A [B [C D]]]]]. exists x, x'. cbn. repeat split; auto.
Qed.

Definition dev_sane (dv : devd) : Prop :=
  d_coe dv = false /\ (length (d_sms dv) <= 16)%nat /\ areas_disjoint dv DOut /\ io_apart dv.

Lemma build_ok start len : forall dvs ss wi wo,
  Forall4 (fun dv s win wout => ds_desc s = dv /\
             dev_post dv (ds_fmmus s) (ds_regs s) (start + fst win, start + snd win) (start + fst wout, start + snd wout)) dvs ss wi wo ->
  forall a b b' e ms, tiles a wi b -> tiles b' wo e -> b <= b' -> e <= N.of_nat len ->
  Forall dev_sane dvs -> length ms = length dvs ->
  let cs := build start ss wi wo ms in
  Forall cdev_ok cs /\ apart cs /\
  Forall (fun c => inside start len (c_win c) /\ inside start len (c_wout c)) cs.
Proof.
  induction 1 as [|dv s w w' dvs ss wi wo [Hd Hp] HF IH]; intros a b b' e ms Ti To Hb He Hs Hl; cbn [build].
  - split; [constructor|]. split; [exact I|constructor].
  - destruct ms as [|m ms]; [simpl in Hl; discriminate|]. cbn [build].
    inversion Hs as [|? ? [S1 [S2 [S3 S4]]] Hs']; subst.
    cbn [tiles] in Ti, To. destruct Ti as [Ti1 [Ti2 Ti3]]. destruct To as [To1 [To2 To3]].
    assert (Mi : snd w <= b) by (apply tiles_mono in Ti3; exact Ti3).
    assert (Mo : snd w' <= e) by (apply tiles_mono in To3; exact To3).
    cbn [length] in Hl.
    assert (Hb2 : b <= snd w') by lia.
    assert (Hl2 : length ms = length dvs) by lia.
    destruct (IH (snd w) b (snd w') e ms Ti3 To3 Hb2 He Hs' Hl2) as [I1 [I2 I3]].
    split; [|split].
    + constructor; [|exact I1]. unfold cdev_ok; cbn. split; [exact Hp|]. split; [exact S1|]. split; [exact S2|]. split; [exact S3|exact S4].
    + cbn [apart]. split; [|exact I2]. intros c' Hc'.
      destruct (build_in _ _ _ _ _ _ Hc') as [x [x' [Hx [Hx' [Ew Eo]]]]]. rewrite Ew, Eo. unfold disj; cbn.
      destruct (tiles_inside _ _ _ _ Ti3 Hx) as [A1 [A2 A3]].
      destruct (tiles_inside _ _ _ _ To3 Hx') as [B1 [B2 B3]].
      split; [left; lia|]. split; [left; lia|right; lia].
    + constructor; [|exact I3]. unfold inside; cbn. lia.
Qed.

(* the consequence clause of C08 as a theorem: for a group of EEPROM-configured devices brought up
   as the model describes, one logical datagram over the group's image delivers every device's
   output window to that device's output memory and to no other memory of any device, returns
   every device's input memory in its input window, and returns the rest of the image unchanged *)
Theorem group_cycle start max dvs g ms image :
  cfg_group Debug start max (map init_dev dvs) = Ok g ->
  Forall dev_sane dvs -> length ms = length dvs -> N.of_nat (length image) = g_pdi_len g ->
  let cs := build start (g_devs g) (g_in g) (g_out g) ms in
  let '(ms', out) := ring cs start image in
  length out = length image /\
  Forall2' (dev_result start image out) cs ms' /\
  (forall t, (t < length image)%nat ->
     (forall c, In c cs -> ~ (fst (c_win c) <= start + N.of_nat t /\ start + N.of_nat t < snd (c_win c))) ->
     nth t out 0 = nth t image 0).
Proof.
  intros H Hs Hl Hi.
  pose proof (group_devices _ _ _ _ H) as F. pose proof (group_windows _ _ _ _ H) as [T1 [T2 _]].
  destruct (build_ok start (length image) _ _ _ _ F 0 (g_read_len g) (g_read_len g) (g_pdi_len g) ms T1 T2) as [A [B C]]; auto; try lia.
  apply ring_cycle; assumption.
Qed.

(* non-vacuity of group_cycle: the example device of C08 alone in a group at logical 96 *)
Example group_cycle_example :
  exists g, cfg_group Debug 96 64 (map init_dev [ex_io]) = Ok g /\ dev_sane ex_io /\ g_pdi_len g = 15 /\
    let cs := build 96 (g_devs g) (g_in g) (g_out g) [fun x => x mod 251] in
    let '(ms', out) := ring cs 96 [0;0;0;0;0;0;0;0;0;0;0;0; 171;205;239] in
    out = [4360 mod 251; 4361 mod 251; 4400 mod 251; 4401 mod 251; 4402 mod 251; 4403 mod 251; 4404 mod 251; 4405 mod 251;
           4406 mod 251; 4407 mod 251; 4408 mod 251; 4409 mod 251; 171; 205; 239] /\
    match ms' with [m'] => [m' 4352; m' 4353; m' 4354; m' 4355; m' 4360] = [171; 205; 239; 4355 mod 251; 4360 mod 251] | _ => False end.
Proof.
  eexists. split; [vm_compute; reflexivity|]. split.
  - unfold dev_sane. split; [reflexivity|]. split; [cbn; lia|]. split.
    + intros k sm k' sm' H1 H2 Hne. vm_compute in H1, H2. destruct H1 as [H1|[]]; destruct H2 as [H2|[]]. inversion H1; inversion H2; subst. contradiction.
    + intros k1 sm1 k2 sm2 H1 H2. vm_compute in H1, H2. destruct H2 as [H2|[]]. inversion H2; subst.
      destruct H1 as [H1|[H1|[]]]; inversion H1; subst; vm_compute; right; discriminate.
  - split; [reflexivity|]. vm_compute. split; reflexivity.
Qed.

(* ---------- observation for the correspondence check: one cycle of a configured group ---------- *)
Definition mem_of (base : N) (bytes : list N) : mem :=
  fun x => if x <? base then 0 else nth (N.to_nat (x - base)) bytes 0.
Definition dump (m : mem) (base : N) (n : nat) : list N := map (fun k => m (base + N.of_nat k)) (seq 0 n).

Definition obs_cycle (md : mode) (start max : N) (dvs : list devd) (mems : list (list N)) (base : N) (image : list N) : list Z :=
  match cfg_group md start max (map init_dev dvs) with
  | Ok g =>
    let cs := build start (g_devs g) (g_in g) (g_out g) (map (mem_of base) mems) in
    let '(ms', out) := ring cs start image in
    (map Z.of_N out ++ [-7] ++
     concat (map (fun p => map Z.of_N (dump (fst p) base (length (snd p))) ++ [-8]) (combine ms' mems)))%Z
  | _ => [(-97)%Z]
  end.
