(* C20 (segment part): frames of different tasks do not disturb each other's devices.
   A minimal picture of the segment: every station has a memory; a configured-address datagram
   acts on the one station it names; a logical datagram acts on a device through that device's
   FMMUs (Pd/Layout.v).  Model and proofs (small) in one file. *)
From EC Require Import Base.Prelude Base.Bytes Pd.Layout Pd.LayoutProofs.
Local Open Scope N_scope.

Definition mem := N -> N.
Record seg := { present : N -> bool; memory : N -> mem }.

Inductive dgram :=
| FpRd (station ado : N) (len : nat)
| FpWr (station ado : N) (data : list N).

Definition read_bytes (m : mem) (ado : N) (len : nat) : list N := map (fun k => m (ado + N.of_nat k)) (seq 0 len).
Fixpoint write_bytes (m : mem) (ado : N) (data : list N) : mem :=
  match data with
  | [] => m
  | b :: r => write_bytes (fun x => if x =? ado then b else m x) (ado + 1) r
  end.

(* result: data returned to the master and working counter *)
Definition exec (s : seg) (d : dgram) : seg * (list N * N) :=
  match d with
  | FpRd a ado len => if present s a then (s, (read_bytes (memory s a) ado len, 1)) else (s, (zeros len, 0))
  | FpWr a ado data =>
    if present s a
    then ({| present := present s; memory := fun st => if st =? a then write_bytes (memory s a) ado data else memory s st |}, (data, 1))
    else (s, (data, 0))
  end.

Definition station_of (d : dgram) : N := match d with FpRd a _ _ | FpWr a _ _ => a end.

Definition seg_eq (s t : seg) : Prop := (forall a, present s a = present t a) /\ forall a x, memory s a x = memory t a x.

(* two datagrams naming different stations: each gets the answer it would get alone, and the
   segment ends in the same state whichever goes first *)
Theorem fp_commute s d1 d2 : station_of d1 <> station_of d2 ->
  let '(s1, r1) := exec s d1 in let '(s12, r2) := exec s1 d2 in
  let '(s2, r2') := exec s d2 in let '(s21, r1') := exec s2 d1 in
  r1 = r1' /\ r2 = r2' /\ seg_eq s12 s21.
Proof.
  intros Hne. destruct d1 as [a1 o1 l1|a1 o1 w1]; destruct d2 as [a2 o2 l2|a2 o2 w2]; cbn [station_of] in Hne; cbn [exec];
    destruct (present s a1) eqn:P1; destruct (present s a2) eqn:P2; cbn [exec present memory]; rewrite ?P1, ?P2; cbn [present memory];
    repeat match goal with |- context [?x =? ?y] => first [ replace (x =? y) with false by (symmetry; apply N.eqb_neq; congruence) | replace (x =? y) with true by (symmetry; apply N.eqb_eq; reflexivity) ] end;
    try (split; [reflexivity|split; [reflexivity|split; intros; reflexivity]]).
  - split; [reflexivity|split; [reflexivity|]]. split; [intros; reflexivity|]. intros a x. cbn [memory].
    destruct (a =? a2) eqn:E2; destruct (a =? a1) eqn:E1; try reflexivity.
    apply N.eqb_eq in E1. apply N.eqb_eq in E2. congruence.
Qed.

(* ---------- logical datagrams through a device's FMMUs ---------- *)
Definition wr_byte (fs : fregs) (m : mem) (la b : N) : mem :=
  fold_left (fun m p => fun x => if x =? p then b else m x) (targets false fs la) m.
Definition rd_byte (fs : fregs) (m : mem) (la b : N) : N :=
  match targets true fs la with [] => b | p :: _ => m p end.

Fixpoint lrw_dev (fs : fregs) (m : mem) (la : N) (data : list N) : mem * list N :=
  match data with
  | [] => (m, [])
  | b :: r =>
    let b' := rd_byte fs m la b in
    let m' := wr_byte fs m la b in
    let '(m2, r') := lrw_dev fs m' (la + 1) r in
    (m2, b' :: r')
  end.

Lemma targets_none rd fs la : (forall j, fmap (fs j) la = None) -> targets rd fs la = [].
Proof.
  intros H. unfold targets, flist.
  induction (seq 0 16) as [|k r IH]; [reflexivity|]. cbn [map flat_map]. rewrite H, IH.
  destruct (if rd then f_rd (fs k) else f_wr (fs k)); reflexivity.
Qed.

(* a device none of whose FMMUs answers the addressed range is not touched by the datagram and
   contributes nothing to it *)
Theorem lrw_outside fs : forall data m la,
  (forall k, (k < length data)%nat -> forall j, fmap (fs j) (la + N.of_nat k) = None) ->
  lrw_dev fs m la data = (m, data).
Proof.
  induction data as [|b r IH]; intros m la H; [reflexivity|].
  cbn [lrw_dev]. assert (H0 : forall j, fmap (fs j) la = None).
  { intros j. specialize (H 0%nat (Nat.lt_0_succ _) j). replace (la + N.of_nat 0) with la in H by lia. exact H. }
  unfold rd_byte, wr_byte. rewrite !(targets_none _ _ _ H0). cbn [fold_left].
  rewrite IH; [reflexivity|]. intros k Hk j. specialize (H (S k) (proj1 (Nat.succ_lt_mono _ _) Hk) j).
  replace (la + 1 + N.of_nat k) with (la + N.of_nat (S k)) by lia. exact H.
Qed.

(* with C08: a device configured as part of one group answers nothing outside its own two windows,
   so a cycle of any other group (whose image is a disjoint logical range, c08_groups_disjoint)
   passes through it unchanged *)
Theorem other_groups_cycle_passes dv fs regs win wout data m la :
  dev_post dv fs regs win wout ->
  (forall k, (k < length data)%nat ->
     ~ (fst win <= la + N.of_nat k /\ la + N.of_nat k < snd win) /\
     ~ (fst wout <= la + N.of_nat k /\ la + N.of_nat k < snd wout)) ->
  lrw_dev fs m la data = (m, data).
Proof.
  intros P H. apply lrw_outside. intros k Hk j. destruct (H k Hk) as [A B].
  eapply nowhere_else; eauto.
Qed.

(* non-vacuity: the EEPROM-configured example device of C08 at its configured windows, and a
   frame of the neighbouring logical range *)
Example passes_example :
  exists g s, cfg_group Debug 96 64 (map init_dev [ex_io]) = Ok g /\ g_devs g = [s] /\
    lrw_dev (ds_fmmus s) (fun _ => 7) 160 [1; 2; 3] = (fun _ => 7, [1; 2; 3]) /\
    snd (lrw_dev (ds_fmmus s) (fun x => x mod 256) 96 [0; 0]) = [4360 mod 256; 4361 mod 256].
Proof.
  eexists. eexists. split; [vm_compute; reflexivity|]. split; [reflexivity|]. split.
  - apply lrw_outside. intros k Hk j. cbn [length] in Hk.
    assert (Hk3 : (k = 0 \/ k = 1 \/ k = 2)%nat) by lia.
    destruct Hk3 as [Hk3|[Hk3|Hk3]]; subst k;
      (do 16 (destruct j as [|j]; [vm_compute; reflexivity|])); vm_compute; reflexivity.
  - vm_compute. reflexivity.
Qed.
