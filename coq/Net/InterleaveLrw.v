(* C20, composition: logical (process-data) datagrams as operations local to a footprint - the
   stations one of whose FMMUs answers an address of the datagram's range - so that the
   interleaving theorem of Net/Interleave.v covers process-data cycles of different groups next to
   register and mailbox traffic. *)
From EC Require Import Base.Prelude Base.Bytes Pd.Layout Pd.LayoutProofs Net.Commute Net.Interleave.
Local Open Scope N_scope.

Lemma wr_byte_ext fs m1 m2 la b : (forall x, m1 x = m2 x) -> forall x, wr_byte fs m1 la b x = wr_byte fs m2 la b x.
Proof.
  unfold wr_byte. generalize (targets false fs la) as l. intros l. revert m1 m2.
  induction l as [|p r IH]; intros m1 m2 H x; cbn [fold_left]; [apply H|].
  apply IH. intros y. destruct (y =? p); [reflexivity|apply H].
Qed.

Lemma rd_byte_ext fs m1 m2 la b : (forall x, m1 x = m2 x) -> rd_byte fs m1 la b = rd_byte fs m2 la b.
Proof. intros H. unfold rd_byte. destruct (targets true fs la); [reflexivity|apply H]. Qed.

Lemma lrw_dev_ext fs : forall data m1 m2 la, (forall x, m1 x = m2 x) ->
  snd (lrw_dev fs m1 la data) = snd (lrw_dev fs m2 la data) /\
  forall x, fst (lrw_dev fs m1 la data) x = fst (lrw_dev fs m2 la data) x.
Proof.
  induction data as [|b r IH]; intros m1 m2 la H; [split; [reflexivity|exact H]|].
  cbn [lrw_dev].
  destruct (IH (wr_byte fs m1 la b) (wr_byte fs m2 la b) (la + 1) (wr_byte_ext fs m1 m2 la b H)) as [I1 I2].
  destruct (lrw_dev fs (wr_byte fs m1 la b) (la + 1) r) as [ma ra]. destruct (lrw_dev fs (wr_byte fs m2 la b) (la + 1) r) as [mb rb].
  cbn [fst snd] in *. split; [rewrite (rd_byte_ext fs m1 m2 la b H), I1; reflexivity|exact I2].
Qed.

(* only the sixteen FMMU entities of a device are ever looked at *)
Lemma targets_none16 rd fs la : (forall j, (j < 16)%nat -> fmap (fs j) la = None) -> targets rd fs la = [].
Proof.
  intros H. unfold targets, flist.
  assert (G : forall l, (forall j, In j l -> (j < 16)%nat) ->
    flat_map (fun f => if (if rd then f_rd f else f_wr f) then match fmap f la with Some p => [p] | None => [] end else []) (map fs l) = []).
  { induction l as [|k r IH]; intros Hl; [reflexivity|]. cbn [map flat_map]. rewrite (H k (Hl k (or_introl eq_refl))), IH.
    - destruct (if rd then f_rd (fs k) else f_wr (fs k)); reflexivity.
    - intros j Hj. apply Hl. right. exact Hj. }
  apply G. intros j Hj. apply in_seq in Hj. lia.
Qed.

Lemma lrw_outside16 fs : forall data m la,
  (forall k, (k < length data)%nat -> forall j, (j < 16)%nat -> fmap (fs j) (la + N.of_nat k) = None) ->
  lrw_dev fs m la data = (m, data).
Proof.
  induction data as [|b r IH]; intros m la H; [reflexivity|].
  cbn [lrw_dev]. assert (H0 : forall j, (j < 16)%nat -> fmap (fs j) la = None).
  { intros j Hj. specialize (H 0%nat (Nat.lt_0_succ _) j Hj). replace (la + N.of_nat 0) with la in H by lia. exact H. }
  unfold rd_byte, wr_byte. rewrite !(targets_none16 _ _ _ H0). cbn [fold_left].
  rewrite IH; [reflexivity|]. intros k Hk j Hj. specialize (H (S k) (proj1 (Nat.succ_lt_mono _ _) Hk) j Hj).
  replace (la + 1 + N.of_nat k) with (la + N.of_nat (S k)) by lia. exact H.
Qed.

Section Ring.
  Variable conf : N -> fregs.            (* the FMMUs programmed into each station *)
  Variable order : list N.               (* the stations in ring order *)
  Hypothesis order_nodup : NoDup order.

  Definition set_mem (s : seg) (a : N) (m : mem) : seg :=
    {| present := present s; memory := fun st => if st =? a then m else memory s st |}.

  (* the datagram passes the stations in ring order; each present one applies its FMMUs *)
  Fixpoint lrw_ring (stations : list N) (s : seg) (la : N) (data : list N) : seg * list N :=
    match stations with
    | [] => (s, data)
    | a :: r =>
      if present s a
      then let '(m', d') := lrw_dev (conf a) (memory s a) la data in lrw_ring r (set_mem s a m') la d'
      else lrw_ring r s la data
    end.

  (* does one of the station's FMMUs answer an address of the range? *)
  Definition answersb (a : N) (la : N) (len : nat) : bool :=
    existsb (fun k => existsb (fun j => match fmap (conf a j) (la + N.of_nat k) with Some _ => true | None => false end) (seq 0 16)) (seq 0 len).

  Lemma silent_station a la data m : answersb a la (length data) = false -> lrw_dev (conf a) m la data = (m, data).
  Proof.
    intros NA. apply lrw_outside16. intros k Hk j Hj.
    destruct (fmap (conf a j) (la + N.of_nat k)) eqn:E; [|reflexivity]. exfalso.
    assert (X : answersb a la (length data) = true).
    { unfold answersb. apply existsb_exists. exists k. split; [apply in_seq; lia|].
      apply existsb_exists. exists j. split; [apply in_seq; lia|]. rewrite E. reflexivity. }
    congruence.
  Qed.

  Lemma lrw_dev_len fs data m la : length (snd (lrw_dev fs m la data)) = length data.
  Proof. apply lrw_dev_length. Qed.

  (* outside the answering stations of the list nothing changes *)
  Lemma ring_frame stations : forall s la data a,
    ~ (In a stations /\ answersb a la (length data) = true) ->
    present (fst (lrw_ring stations s la data)) a = present s a /\
    forall x, memory (fst (lrw_ring stations s la data)) a x = memory s a x.
  Proof.
    induction stations as [|h r IH]; intros s la data a NF; cbn [lrw_ring]; [split; intros; reflexivity|].
    destruct (present s h) eqn:Ph.
    - destruct (lrw_dev (conf h) (memory s h) la data) as [m' d'] eqn:E.
      assert (Ld : length d' = length data).
      { pose proof (lrw_dev_len (conf h) data (memory s h) la) as X. rewrite E in X. exact X. }
      destruct (IH (set_mem s h m') la d' a) as [I1 I2].
      { rewrite Ld. intros [Ia Aa]. apply NF. split; [right; exact Ia|exact Aa]. }
      split; [rewrite I1; reflexivity|]. intros x. rewrite I2. cbn [set_mem memory].
      destruct (a =? h) eqn:Eh; [|reflexivity]. apply N.eqb_eq in Eh. subst h.
      assert (Sil : answersb a la (length data) = false).
      { destruct (answersb a la (length data)) eqn:Ab; [|reflexivity]. exfalso. apply NF. split; [left; reflexivity|reflexivity]. }
      rewrite (silent_station a la data (memory s a) Sil) in E. inversion E; subst. reflexivity.
    - apply IH. intros [Ia Aa]. apply NF. split; [right; exact Ia|exact Aa].
  Qed.

  (* two segments that agree on the answering stations of the list: same returned data, and they
     agree there afterwards *)
  Lemma ring_local stations : NoDup stations -> forall s t la data,
    (forall a, In a stations -> answersb a la (length data) = true ->
       present s a = present t a /\ forall x, memory s a x = memory t a x) ->
    snd (lrw_ring stations s la data) = snd (lrw_ring stations t la data) /\
    (forall a, In a stations -> answersb a la (length data) = true ->
       present (fst (lrw_ring stations s la data)) a = present (fst (lrw_ring stations t la data)) a /\
       forall x, memory (fst (lrw_ring stations s la data)) a x = memory (fst (lrw_ring stations t la data)) a x).
  Proof.
    induction stations as [|h r IH]; intros ND s t la data AG; [split; [reflexivity|intros a []]|].
    inversion ND as [|? ? Nh Nr]; subst. cbn [lrw_ring].
    destruct (answersb h la (length data)) eqn:Ah.
    - (* h answers: both segments agree on it *)
      destruct (AG h (or_introl eq_refl) Ah) as [Pp Mm]. rewrite <- Pp.
      destruct (present s h) eqn:Ph.
      + destruct (lrw_dev_ext (conf h) data (memory s h) (memory t h) la Mm) as [D1 M1].
        destruct (lrw_dev (conf h) (memory s h) la data) as [ms ds] eqn:Es.
        destruct (lrw_dev (conf h) (memory t h) la data) as [mt dt] eqn:Et. cbn [fst snd] in D1, M1. subst dt.
        assert (Ld : length ds = length data).
        { pose proof (lrw_dev_len (conf h) data (memory s h) la) as X. rewrite Es in X. exact X. }
        destruct (IH Nr (set_mem s h ms) (set_mem t h mt) la ds) as [I1 I2].
        { rewrite Ld. intros a Ia Aa. destruct (AG a (or_intror Ia) Aa) as [P1 M2]. cbn [set_mem present memory].
          split; [exact P1|]. intros x. destruct (a =? h) eqn:E; [apply N.eqb_eq in E; subst; contradiction|apply M2]. }
        split; [exact I1|]. intros a Ia Aa. destruct Ia as [<-|Ia].
        * (* h itself: not in the rest, so the rest leaves it alone *)
          destruct (ring_frame r (set_mem s h ms) la ds h) as [F1 F2]; [intros [X _]; contradiction|].
          destruct (ring_frame r (set_mem t h mt) la ds h) as [G1 G2]; [intros [X _]; contradiction|].
          split; [rewrite F1, G1; cbn [set_mem present]; congruence|].
          intros x. rewrite F2, G2. cbn [set_mem memory]. rewrite N.eqb_refl. apply M1.
        * apply I2; [exact Ia|rewrite Ld; exact Aa].
      + destruct (IH Nr s t la data) as [I1 I2]; [intros a Ia Aa; apply AG; [right; exact Ia|exact Aa]|].
        split; [exact I1|]. intros a Ia Aa. destruct Ia as [<-|Ia].
        * destruct (ring_frame r s la data h) as [F1 F2]; [intros [X _]; contradiction|].
          destruct (ring_frame r t la data h) as [G1 G2]; [intros [X _]; contradiction|].
          split; [rewrite F1, G1; congruence|]. intros x. rewrite F2, G2. apply Mm.
        * apply I2; assumption.
    - (* h is silent: whatever it is in either segment, the datagram passes it unchanged *)
      assert (Hs : forall u, exists u', lrw_ring (h :: r) u la data = lrw_ring r u' la data /\
                  (forall a, present u' a = present u a) /\ (forall a x, memory u' a x = memory u a x)).
      { intros u. cbn [lrw_ring]. destruct (present u h) eqn:Pu.
        - rewrite (silent_station h la data (memory u h) Ah). exists (set_mem u h (memory u h)). split; [reflexivity|]. split; [reflexivity|].
          intros a x. cbn [set_mem memory]. destruct (a =? h) eqn:E; [apply N.eqb_eq in E; subst; reflexivity|reflexivity].
        - exists u. repeat split; reflexivity. }
      destruct (Hs s) as (s' & Es & Ps & Ms). destruct (Hs t) as (t' & Et & Pt & Mt). cbn [lrw_ring] in Es, Et. rewrite Es, Et.
      destruct (IH Nr s' t' la data) as [I1 I2].
      { intros a Ia Aa. destruct (AG a (or_intror Ia) Aa) as [P1 M2]. split; [rewrite Ps, Pt; exact P1|]. intros x. rewrite Ms, Mt. apply M2. }
      split; [exact I1|]. intros a Ia Aa. destruct Ia as [<-|Ia]; [congruence|]. apply I2; assumption.
  Qed.

  (* ---------- the operation and its footprint ---------- *)
  Definition lop : Type := (N * list N)%type.          (* logical start address, data *)
  Definition lex (s : seg) (o : lop) : seg * list N := lrw_ring order s (fst o) (snd o).
  Definition lfoot (o : lop) (a : N) : Prop := In a order /\ answersb a (fst o) (length (snd o)) = true.

  Lemma lex_local o s t : agree_on (lfoot o) s t ->
    snd (lex s o) = snd (lex t o) /\ agree_on (lfoot o) (fst (lex s o)) (fst (lex t o)).
  Proof.
    intros A. unfold lex.
    destruct (ring_local order order_nodup s t (fst o) (snd o)) as [R1 R2].
    { intros a Ia Aa. apply A. split; assumption. }
    split; [exact R1|]. intros a [Ia Aa]. apply R2; assumption.
  Qed.

  Lemma lex_frame o s a : ~ lfoot o a ->
    present (fst (lex s o)) a = present s a /\ forall x, memory (fst (lex s o)) a x = memory s a x.
  Proof. intros NF. unfold lex. apply ring_frame. exact NF. Qed.

  Lemma lfoot_dec o a : lfoot o a \/ ~ lfoot o a.
  Proof.
    unfold lfoot. destruct (in_dec N.eq_dec a order) as [I|I]; [|right; intros [X _]; contradiction].
    destruct (answersb a (fst o) (length (snd o))); [left; split; [exact I|reflexivity]|right; intros [_ X]; discriminate].
  Qed.

  (* Process-data cycles of two groups whose answering stations are disjoint (C08: the groups'
     logical ranges are disjoint and a device answers nothing outside its own windows), their
     logical datagrams interleaved in ANY order: each group's task gets back exactly the data of its
     run alone; each group's devices end as after that run; every other station is untouched. *)
  Theorem lrw_tasks_interleave (PA PB : N -> Prop) l s : (forall a, PA a -> PB a -> False) ->
    fits lop lfoot PA PB l ->
    let '(s', ra, rb) := run_tagged lop (list N) lex s l in
    ra = snd (run lop (list N) lex s (ops_of lop true l)) /\
    rb = snd (run lop (list N) lex s (ops_of lop false l)) /\
    agree_on PA s' (fst (run lop (list N) lex s (ops_of lop true l))) /\
    agree_on PB s' (fst (run lop (list N) lex s (ops_of lop false l))) /\
    (forall a, ~ PA a -> ~ PB a -> present s' a = present s a /\ forall x, memory s' a x = memory s a x).
  Proof. intros Ap F. apply (interleave lop (list N) lex lfoot lex_local lex_frame PA PB Ap lfoot_dec). exact F. Qed.
End Ring.

(* ---------- both kinds of traffic together ---------- *)
Section Mixed.
  Variable conf : N -> fregs.
  Variable order : list N.
  Hypothesis order_nodup : NoDup order.

  Definition mop : Type := (dgram + lop)%type.
  Definition mres : Type := ((list N * N) + list N)%type.
  Definition mex (s : seg) (o : mop) : seg * mres :=
    match o with
    | inl d => let '(s', r) := exec s d in (s', inl r)
    | inr l => let '(s', r) := lex conf order s l in (s', inr r)
    end.
  Definition mfoot (o : mop) (a : N) : Prop :=
    match o with inl d => fp_foot d a | inr l => lfoot conf order l a end.

  Lemma mex_local o s t : agree_on (mfoot o) s t ->
    snd (mex s o) = snd (mex t o) /\ agree_on (mfoot o) (fst (mex s o)) (fst (mex t o)).
  Proof.
    destruct o as [d|l]; cbn [mex mfoot]; intros A.
    - destruct (fp_local d s t A) as [R1 R2]. destruct (exec s d) as [s1 r1]. destruct (exec t d) as [t1 r2]. cbn [fst snd] in *. split; [congruence|exact R2].
    - destruct (lex_local conf order order_nodup l s t A) as [R1 R2].
      destruct (lex conf order s l) as [s1 r1]. destruct (lex conf order t l) as [t1 r2]. cbn [fst snd] in *. split; [congruence|exact R2].
  Qed.

  Lemma mex_frame o s a : ~ mfoot o a ->
    present (fst (mex s o)) a = present s a /\ forall x, memory (fst (mex s o)) a x = memory s a x.
  Proof.
    destruct o as [d|l]; cbn [mex mfoot]; intros NF.
    - pose proof (fp_frame d s a NF) as F. destruct (exec s d) as [s1 r1]. exact F.
    - pose proof (lex_frame conf order l s a NF) as F. destruct (lex conf order s l) as [s1 r1]. exact F.
  Qed.

  Lemma mfoot_dec o a : mfoot o a \/ ~ mfoot o a.
  Proof. destruct o as [d|l]; [apply fp_foot_dec|apply lfoot_dec]. Qed.

  (* Register accesses, mailbox exchanges and process-data cycles of two tasks whose footprints -
     the stations they name, the devices of their groups - are disjoint, interleaved in ANY order. *)
  Theorem mixed_tasks_interleave (PA PB : N -> Prop) l s : (forall a, PA a -> PB a -> False) ->
    fits mop mfoot PA PB l ->
    let '(s', ra, rb) := run_tagged mop mres mex s l in
    ra = snd (run mop mres mex s (ops_of mop true l)) /\
    rb = snd (run mop mres mex s (ops_of mop false l)) /\
    agree_on PA s' (fst (run mop mres mex s (ops_of mop true l))) /\
    agree_on PB s' (fst (run mop mres mex s (ops_of mop false l))) /\
    (forall a, ~ PA a -> ~ PB a -> present s' a = present s a /\ forall x, memory s' a x = memory s a x).
  Proof. intros Ap F. apply (interleave mop mres mex mfoot mex_local mex_frame PA PB Ap mfoot_dec). exact F. Qed.
End Mixed.

(* ---------- the ring of this file is the ring C08 ties to the implementation ---------- *)
(* Net/Commute.v [ring] (the devices of a group as a list, compared on every C08 run with what a real
   cycle does to the simulated devices) and [lrw_ring] (stations of a segment) are the same pass:
   same returned data, same device memories. *)
Lemma lrw_ring_is_ring conf : forall cs stations s la data,
  NoDup stations -> length stations = length cs ->
  (forall i a c, nth_error stations i = Some a -> nth_error cs i = Some c ->
     present s a = true /\ conf a = c_fs c /\ forall x, memory s a x = c_mem c x) ->
  snd (lrw_ring conf stations s la data) = snd (ring cs la data) /\
  Forall2 (fun a m' => forall x, memory (fst (lrw_ring conf stations s la data)) a x = m' x) stations (fst (ring cs la data)).
Proof.
  induction cs as [|c r IH]; intros stations s la data ND L H.
  - destruct stations; [|discriminate]. cbn. split; [reflexivity|constructor].
  - destruct stations as [|a st]; [discriminate|]. inversion ND as [|? ? Na Nst]; subst.
    destruct (H 0%nat a c eq_refl eq_refl) as (Pa & Ca & Ma).
    cbn [lrw_ring ring]. rewrite Pa, Ca.
    destruct (lrw_dev_ext (c_fs c) data (memory s a) (c_mem c) la Ma) as [D1 M1].
    destruct (lrw_dev (c_fs c) (memory s a) la data) as [ms ds] eqn:Es.
    destruct (lrw_dev (c_fs c) (c_mem c) la data) as [mc dc] eqn:Ec. cbn [fst snd] in D1, M1. subst dc.
    destruct (IH st (set_mem s a ms) la ds Nst ltac:(cbn in L; lia)) as [I1 I2].
    { intros i b c' Hb Hc. destruct (H (S i) b c' Hb Hc) as (Pb & Cb & Mb). cbn [set_mem present memory].
      split; [exact Pb|]. split; [exact Cb|]. intros x.
      destruct (b =? a) eqn:E; [|apply Mb]. apply N.eqb_eq in E. subst b. exfalso. apply Na. eapply nth_error_In. exact Hb. }
    destruct (ring r la ds) as [mr dr] eqn:Er. cbn [fst snd] in *. split; [exact I1|].
    constructor; [|exact I2].
    intros x. destruct (ring_frame conf st (set_mem s a ms) la ds a) as [_ F2]; [intros [X _]; contradiction|].
    rewrite F2. cbn [set_mem memory]. rewrite N.eqb_refl. apply M1.
Qed.
