(* C08's consequence clause for groups of EEPROM-configured AND CoE-configured devices.
   [behaves] collects what the ring argument needs of one device; Net/Commute.v shows it for
   EEPROM-path devices, this file for CoE-path devices whose data-carrying sync managers are
   adjacent (the case in which the shared FMMU is right, cf. the known finding), and re-proves the
   ring theorem for any mixture. *)
From EC Require Import Base.Prelude Base.Bytes Pd.Layout Pd.LayoutProofs Net.Commute.
Local Open Scope N_scope.

Definition behaves (c : cdev) : Prop :=
  let dv := c_dv c in let fs := c_fs c in
  (forall m la data t, (t < length data)%nat ->
     ~ (fst (c_win c) <= la + N.of_nat t /\ la + N.of_nat t < snd (c_win c)) ->
     nth t (snd (lrw_dev fs m la data)) 0 = nth t data 0) /\
  (forall k sm m la data, In (k, sm) (pdl dv DOut) ->
     exists a', fst (c_wout c) <= a' /\ a' + slen dv DOut k <= snd (c_wout c) /\
       forall t, t < slen dv DOut k -> la <= a' -> a' + slen dv DOut k <= la + N.of_nat (length data) ->
         fst (lrw_dev fs m la data) (sm_start sm + t) = nth (N.to_nat (a' + t - la)) data 0) /\
  (forall m la data x,
     (forall k sm, In (k, sm) (pdl dv DOut) -> ~ (sm_start sm <= x /\ x < sm_start sm + slen dv DOut k)) ->
     fst (lrw_dev fs m la data) x = m x) /\
  (forall k sm m la data, In (k, sm) (pdl dv DIn) ->
     exists a', fst (c_win c) <= a' /\ a' + slen dv DIn k <= snd (c_win c) /\
       forall t, t < slen dv DIn k -> la <= a' -> a' + slen dv DIn k <= la + N.of_nat (length data) ->
         nth (N.to_nat (a' + t - la)) (snd (lrw_dev fs m la data)) 0 = m (sm_start sm + t)).

Lemma eeprom_behaves c : cdev_ok c -> behaves c.
Proof.
  intros [POST [EEP [S16 [AD IO]]]]. unfold behaves. cbv zeta. split; [|split; [|split]].
  - intros m la data t Ht Ho. eapply data_elsewhere_passes; eauto.
  - intros k sm m la data Hk. eapply outputs_arrive; eauto.
  - intros m la data x Hx. eapply outputs_nowhere_else; eauto.
  - intros k sm m la data Hk. eapply inputs_appear; eauto.
Qed.

(* the ring argument, for any devices that behave *)
Theorem ring_cycle_gen : forall cs la data,
  Forall behaves cs -> apart cs ->
  Forall (fun c => inside la (length data) (c_win c) /\ inside la (length data) (c_wout c)) cs ->
  let '(ms, out) := ring cs la data in
  length out = length data /\
  Forall2' (dev_result la data out) cs ms /\
  (forall t, (t < length data)%nat ->
     (forall c, In c cs -> ~ (fst (c_win c) <= la + N.of_nat t /\ la + N.of_nat t < snd (c_win c))) ->
     nth t out 0 = nth t data 0).
Proof.
  induction cs as [|c r IH]; intros la data Hok Hap Hin; cbn [ring].
  - split; [reflexivity|]. split; [constructor|]. intros; reflexivity.
  - inversion Hok as [|? ? [BP [BO [BN BI]]] Hok']; subst. inversion Hin as [|? ? [Iw Io] Hin']; subst.
    destruct Hap as [Hhead Hap'].
    destruct (lrw_dev (c_fs c) (c_mem c) la data) as [m' d'] eqn:E.
    assert (Ld : length d' = length data).
    { pose proof (lrw_dev_length (c_fs c) data (c_mem c) la) as L. rewrite E in L. exact L. }
    assert (Hin'' : Forall (fun c0 => inside la (length d') (c_win c0) /\ inside la (length d') (c_wout c0)) r) by (rewrite Ld; exact Hin').
    specialize (IH la d' Hok' Hap' Hin''). destruct (ring r la d') as [ms out] eqn:R.
    destruct IH as [Lo [Hres Hpass]].
    assert (Pass0 : forall t, (t < length data)%nat -> ~ (fst (c_win c) <= la + N.of_nat t /\ la + N.of_nat t < snd (c_win c)) -> nth t d' 0 = nth t data 0).
    { intros t Ht Hout. pose proof (BP (c_mem c) la data t Ht Hout) as X. rewrite E in X. exact X. }
    split; [lia|]. split.
    + constructor.
      * split; [|split].
        -- intros k sm Hk. destruct (BO k sm (c_mem c) la data Hk) as [a' [A [B X]]].
           exists a'. split; [exact A|]. split; [exact B|]. intros t Ht. specialize (X t Ht).
           rewrite E in X. cbn [fst] in X. apply X; unfold inside in Io; lia.
        -- intros x Hx. pose proof (BN (c_mem c) la data x Hx) as X. rewrite E in X. exact X.
        -- intros k sm Hk. destruct (BI k sm (c_mem c) la data Hk) as [a' [A [B X]]].
           exists a'. split; [exact A|]. split; [exact B|]. intros t Ht. specialize (X t Ht).
           rewrite E in X. cbn [snd] in X. rewrite <- X; [|unfold inside in Iw; lia|unfold inside in Iw; lia].
           apply Hpass; [unfold inside in Iw; lia|].
           intros c' Hc'. destruct (Hhead c' Hc') as [D1 _]. unfold disj in D1.
           replace (la + N.of_nat (N.to_nat (a' + t - la))) with (a' + t) by (unfold inside in Iw; lia). lia.
      * clear - Hres Hhead Pass0 Hin' Ld.
        assert (G : forall cs' ms', Forall2' (dev_result la d' out) cs' ms' -> (forall c', In c' cs' -> In c' r) -> Forall2' (dev_result la data out) cs' ms').
        { induction 1 as [|c1 m1 lc lm Hd _ IHf]; intros Sub; constructor.
          - destruct Hd as [Ho [Hx Hi]]. split; [|split; [exact Hx|exact Hi]].
            intros k sm Hk. destruct (Ho k sm Hk) as [a' [A [B X]]]. exists a'. split; [exact A|]. split; [exact B|].
            intros t Ht. rewrite (X t Ht).
            assert (Hc1 : In c1 r) by (apply Sub; left; reflexivity).
            rewrite Forall_forall in Hin'. destruct (Hin' c1 Hc1) as [_ Io1]. unfold inside in Io1.
            apply Pass0; [lia|].
            destruct (Hhead c1 Hc1) as [_ [D2 _]]. unfold disj in D2.
            replace (la + N.of_nat (N.to_nat (a' + t - la))) with (a' + t) by lia. lia.
          - apply IHf. intros c' Hc'. apply Sub. right; exact Hc'. }
        apply G; [exact Hres|auto].
    + intros t Ht Hout. rewrite Hpass; [|lia|intros c' Hc'; apply Hout; right; exact Hc'].
      apply Pass0; [exact Ht|apply Hout; left; reflexivity].
Qed.

(* ---------- CoE-path devices with adjacent sync managers ---------- *)
Definition coe_adj (dv : devd) (d : dir) : Prop :=
  match first_data dv d (pdl dv d) with
  | None => True
  | Some sm0 => adjacent dv d (sm_start sm0) (pdl dv d)
  end.

Definition cdev_ok_coe (c : cdev) : Prop :=
  dev_post (c_dv c) (c_fs c) (c_regs c) (c_win c) (c_wout c) /\ d_coe (c_dv c) = true /\
  (length (d_fu (c_dv c)) <= 16)%nat /\ coe_adj (c_dv c) DIn /\ coe_adj (c_dv c) DOut /\ io_apart (c_dv c).

Lemma shared_chain_in f dv d : forall l a, shared_chain f dv d a l ->
  forall k sm, In (k, sm) l -> exists a', a <= a' /\ a' + slen dv d k <= a + total_len dv d l /\
    forall t, t < slen dv d k -> fmap f (a' + t) = Some (sm_start sm + t).
Proof.
  induction l as [|x r IH]; intros a H k sm Hin; [contradiction|].
  cbn [shared_chain] in H. destruct H as [Hh Ht].
  unfold total_len; cbn [map fold_right]. fold (total_len dv d r).
  destruct Hin as [Hin|Hin].
  - subst x. cbn [fst snd] in *. exists a. split; [lia|]. split; [lia|exact Hh].
  - destruct (IH _ Ht k sm Hin) as [a' [A [B C]]]. exists a'. split; [lia|]. split; [lia|exact C].
Qed.

Lemma adjacent_cover dv d : forall l p, adjacent dv d p l ->
  forall x, p <= x -> x < p + total_len dv d l ->
  exists k sm, In (k, sm) l /\ sm_start sm <= x /\ x < sm_start sm + slen dv d k.
Proof.
  induction l as [|y r IH]; intros p H x L U.
  - unfold total_len in U; cbn in U. lia.
  - cbn [adjacent] in H. unfold total_len in U; cbn [map fold_right] in U. fold (total_len dv d r) in U.
    destruct (0 <? sbits dv d (fst y)) eqn:Ez.
    + destruct H as [Hs Ht]. destruct (N.ltb_spec x (p + slen dv d (fst y))) as [Hx|Hx].
      * exists (fst y), (snd y). split; [left; destruct y; reflexivity|]. lia.
      * destruct (IH _ Ht x Hx ltac:(lia)) as [k [sm [A B]]]. exists k, sm. split; [right; exact A|exact B].
    + rewrite (slen_zero _ _ _ Ez) in U. destruct (IH _ H x L ltac:(lia)) as [k [sm [A B]]]. exists k, sm. split; [right; exact A|exact B].
Qed.

Lemma first_data_none_len dv d : forall l, first_data dv d l = None -> forall k sm, In (k, sm) l -> slen dv d k = 0.
Proof.
  induction l as [|y r IH]; intros H k sm Hin; [contradiction|]. cbn [first_data] in H.
  destruct (0 <? sbits dv d (fst y)) eqn:Ez; [discriminate|]. destruct Hin as [Hin|Hin].
  - subst y. cbn in Ez. apply slen_zero. exact Ez.
  - eapply IH; eauto.
Qed.

Section Coe.
  Variable c : cdev.
  Hypothesis OK : cdev_ok_coe c.
  Notation dv := (c_dv c).
  Notation fs := (c_fs c).

  (* which FMMU answers: only the direction's shared one, inside the direction's window *)
  Lemma coe_answering rd j la p :
    flag rd (fs j) = true -> fmap (fs j) la = Some p ->
    let d := dir_of rd in let w := if rd then c_win c else c_wout c in
    exists sm0, first_data dv d (pdl dv d) = Some sm0 /\ fidx dv d = Some j /\
      fs j = new_fmmu d (fst w) (total_len dv d (pdl dv d)) (sm_start sm0) /\
      fst w <= la /\ la < fst w + total_len dv d (pdl dv d) /\ p = sm_start sm0 + (la - fst w).
  Proof using OK.
    destruct OK as [[Hw1 [Hw2 [_ [Hmap Hrest]]]] [Hcoe _]]. rewrite Hcoe in Hmap. destruct Hmap as [Ci Co].
    intros Hfl Hm.
    assert (Inv : forall d' a' len ps, fs j = new_fmmu d' a' len ps ->
              d' = dir_of rd /\ a' <= la /\ la < a' + len /\ p = ps + (la - a')).
    { intros d' a' len ps E. rewrite E in Hfl, Hm. unfold fmap, new_fmmu in Hm. cbn in Hm.
      destruct ((a' <=? la) && (la <? a' + len)) eqn:R; [|discriminate]. inversion Hm; subst.
      split; [|split; [lia|split; [lia|reflexivity]]].
      unfold flag, new_fmmu in Hfl. destruct rd, d'; cbn in Hfl; try discriminate; reflexivity. }
    assert (Dec : forall d, used_by dv d j \/ ~ used_by dv d j).
    { intros d. unfold used_by. rewrite Hcoe. destruct (first_data dv d (pdl dv d)); [|right; intros [X _]; apply X; reflexivity].
      destruct (fidx dv d) as [i|]; [|right; intros [_ X]; discriminate].
      destruct (Nat.eq_dec i j) as [->|Hne]; [left; split; [discriminate|reflexivity]|right; intros [_ X]; inversion X; contradiction]. }
    unfold coe_dir in Ci, Co.
    destruct (Dec DIn) as [U1|U1].
    - unfold used_by in U1. rewrite Hcoe in U1. destruct U1 as [U1 U2].
      destruct (first_data dv DIn (pdl dv DIn)) as [sm0|] eqn:F; [|contradiction].
      destruct Ci as [i [Hi Hf]]. rewrite Hi in U2. inversion U2; subst i.
      destruct (Inv _ _ _ _ Hf) as [Hd [L1 [L2 Hp]]]. destruct rd; cbn in Hd; [|discriminate]. cbn.
      exists sm0. rewrite F. repeat split; auto.
    - destruct (Dec DOut) as [U2|U2].
      + unfold used_by in U2. rewrite Hcoe in U2. destruct U2 as [U2 U3].
        destruct (first_data dv DOut (pdl dv DOut)) as [sm0|] eqn:F; [|contradiction].
        destruct Co as [i [Hi Hf]]. rewrite Hi in U3. inversion U3; subst i.
        destruct (Inv _ _ _ _ Hf) as [Hd [L1 [L2 Hp]]]. destruct rd; cbn in Hd; [discriminate|]. cbn.
        exists sm0. rewrite F. repeat split; auto.
      + exfalso. rewrite (Hrest j U1 U2) in Hm. discriminate.
  Qed.

  (* the sub-window of sync manager k inside the direction's window, through the shared FMMU *)
  Lemma coe_subwindow rd k sm :
    let d := dir_of rd in let w := if rd then c_win c else c_wout c in
    In (k, sm) (pdl dv d) -> 0 < slen dv d k ->
    exists sm0 i a', first_data dv d (pdl dv d) = Some sm0 /\ fidx dv d = Some i /\ (i < 16)%nat /\
      fs i = new_fmmu d (fst w) (total_len dv d (pdl dv d)) (sm_start sm0) /\
      fst w <= a' /\ a' + slen dv d k <= snd w /\
      forall t, t < slen dv d k -> fmap (fs i) (a' + t) = Some (sm_start sm + t).
  Proof using OK.
    destruct OK as [[Hw1 [Hw2 [_ [Hmap Hrest]]]] [Hcoe [Hfu [Ai [Ao _]]]]]. rewrite Hcoe in Hmap. destruct Hmap as [Ci Co].
    cbv zeta. intros Hin Hpos.
    assert (G : forall d w, coe_dir dv d fs w -> coe_adj dv d -> snd w = fst w + total_len dv d (pdl dv d) ->
              In (k, sm) (pdl dv d) -> 0 < slen dv d k ->
              exists sm0 i a', first_data dv d (pdl dv d) = Some sm0 /\ fidx dv d = Some i /\ (i < 16)%nat /\
                fs i = new_fmmu d (fst w) (total_len dv d (pdl dv d)) (sm_start sm0) /\
                fst w <= a' /\ a' + slen dv d k <= snd w /\
                forall t, t < slen dv d k -> fmap (fs i) (a' + t) = Some (sm_start sm + t)).
    { clear Hin Hpos. intros d w Cd Ad Hw Hin Hpos. unfold coe_dir in Cd. unfold coe_adj in Ad.
      destruct (first_data dv d (pdl dv d)) as [sm0|] eqn:F.
      - destruct Cd as [i [Hi Hf]]. 
        assert (Hi16 : (i < 16)%nat).
        { unfold fidx in Hi. apply find_idx_some in Hi. destruct Hi as [x [X _]].
          assert (i < length (d_fu dv))%nat by (apply nth_error_Some; rewrite X; discriminate). lia. }
        assert (SC : shared_chain (fs i) dv d (fst w) (pdl dv d)).
        { rewrite Hf. unfold new_fmmu. apply shared_chain_adjacent; [lia|lia|].
          replace (sm_start sm0 + (fst w - fst w)) with (sm_start sm0) by lia. exact Ad. }
        destruct (shared_chain_in _ _ _ _ _ SC _ _ Hin) as [a' [A [B Cc]]].
        exists sm0, i, a'. repeat split; auto. lia.
      - exfalso. rewrite (first_data_none_len _ _ _ F _ _ Hin) in Hpos. lia. }
    destruct rd; cbn [dir_of] in *; [apply (G DIn (c_win c)); auto|apply (G DOut (c_wout c)); auto].
  Qed.

  Lemma coe_behaves : behaves c.
  Proof using OK.
    pose proof OK as OK'. destruct OK' as [POST [Hcoe [Hfu [Ai [Ao IO]]]]].
    unfold behaves. cbv zeta. split; [|split; [|split]].
    - (* data outside the input window passes *)
      intros m la data t Ht Hout.
      assert (Hnil : targets true fs (la + N.of_nat t) = []).
      { destruct (targets true fs (la + N.of_nat t)) as [|q l] eqn:T; [reflexivity|]. exfalso.
        assert (Hq : In q (targets true fs (la + N.of_nat t))) by (rewrite T; left; reflexivity).
        apply targets_in in Hq. destruct Hq as [j [Hj [Hfl Hm]]].
        destruct (coe_answering true j _ _ Hfl Hm) as [sm0 [_ [_ [_ [L1 [L2 _]]]]]]. cbn in L1, L2.
        destruct POST as [Hw1 _].  apply Hout. lia. }
      rewrite lrw_data; [rewrite Hnil; reflexivity|exact Ht|].
      intros t' _ p Hp. rewrite Hnil in Hp. contradiction.
    - (* outputs arrive *)
      intros k sm m la data Hk.
      destruct (N.eq_dec (slen dv DOut k) 0) as [Hz|Hnz].
      + exists (fst (c_wout c)). destruct POST as [_ [Hw2 _]].  split; [lia|]. split; [rewrite Hz, Hw2; lia|]. intros t Ht. lia.
      + assert (Hpos : 0 < slen dv DOut k) by lia.
        destruct (coe_subwindow false k sm Hk Hpos) as [sm0 [i [a' [F [Hi [Hi16 [Hf [A [B Cc]]]]]]]]]. cbn [dir_of] in *.
        exists a'. split; [exact A|]. split; [exact B|]. intros t Ht L1 L2.
        apply lrw_mem_hit_in.
        * lia.
        * replace (la + N.of_nat (N.to_nat (a' + t - la))) with (a' + t) by lia.
          apply targets_in. exists i. split; [exact Hi16|]. split; [rewrite Hf; reflexivity|apply Cc; exact Ht].
        * intros t' Ht' Hw. apply targets_in in Hw. destruct Hw as [j [Hj [Hfl Hm]]].
          destruct (coe_answering false j _ _ Hfl Hm) as [sm1 [F1 [Hj1 [Hf1 [M1 [M2 Hp]]]]]]. cbn [dir_of] in *.
          rewrite Hi in Hj1. inversion Hj1; subst j. rewrite F in F1. inversion F1; subst sm1.
          pose proof (Cc t Ht) as X. rewrite Hf in X. unfold fmap, new_fmmu in X. cbn in X.
          destruct ((fst (c_wout c) <=? a' + t) && (a' + t <? fst (c_wout c) + total_len dv DOut (pdl dv DOut))); [|discriminate].
          inversion X. lia.
    - (* nothing else is written *)
      intros m la data x Hx. apply lrw_mem_other. intros t Ht Hw. apply targets_in in Hw. destruct Hw as [j [Hj [Hfl Hm]]].
      destruct (coe_answering false j _ _ Hfl Hm) as [sm0 [F [Hj1 [Hf [M1 [M2 Hp]]]]]]. cbn [dir_of] in *.
      unfold coe_adj in Ao. rewrite F in Ao.
      destruct (adjacent_cover _ _ _ _ Ao x ltac:(lia) ltac:(lia)) as [k [sm [A B]]].
      apply (Hx k sm A). exact B.
    - (* inputs appear *)
      intros k sm m la data Hk.
      destruct (N.eq_dec (slen dv DIn k) 0) as [Hz|Hnz].
      + exists (fst (c_win c)). destruct POST as [Hw1 _].  split; [lia|]. split; [rewrite Hz, Hw1; lia|]. intros t Ht. lia.
      + assert (Hpos : 0 < slen dv DIn k) by lia.
        destruct (coe_subwindow true k sm Hk Hpos) as [sm0 [i [a' [F [Hi [Hi16 [Hf [A [B Cc]]]]]]]]]. cbn [dir_of] in *.
        exists a'. split; [exact A|]. split; [exact B|]. intros t Ht L1 L2.
        set (tt := N.to_nat (a' + t - la)).
        assert (Hla : la + N.of_nat tt = a' + t) by (subst tt; lia).
        assert (Hmem : In (sm_start sm + t) (targets true fs (a' + t))).
        { apply targets_in. exists i. split; [exact Hi16|]. split; [rewrite Hf; reflexivity|apply Cc; exact Ht]. }
        assert (Huniq : forall q, In q (targets true fs (a' + t)) -> q = sm_start sm + t).
        { intros q Hq. apply targets_in in Hq. destruct Hq as [j [Hj [Hfl Hm]]].
          destruct (coe_answering true j _ _ Hfl Hm) as [sm1 [F1 [Hj1 [Hf1 [M1 [M2 Hp]]]]]]. cbn [dir_of] in *.
          rewrite Hi in Hj1. inversion Hj1; subst j. rewrite F in F1. inversion F1; subst sm1.
          pose proof (Cc t Ht) as X. rewrite Hf in X. unfold fmap, new_fmmu in X. cbn in X.
          destruct ((fst (c_win c) <=? a' + t) && (a' + t <? fst (c_win c) + total_len dv DIn (pdl dv DIn))); [|discriminate].
          inversion X. lia. }
        rewrite lrw_data.
        * rewrite Hla. destruct (targets true fs (a' + t)) as [|q l] eqn:T; [contradiction|].
          rewrite (Huniq q); [reflexivity|left; reflexivity].
        * subst tt. lia.
        * intros t' Ht' p Hp Hw. rewrite Hla in Hp. apply Huniq in Hp. subst p.
          apply targets_in in Hw. destruct Hw as [j [Hj [Hfl Hm]]].
          destruct (coe_answering false j _ _ Hfl Hm) as [sm1 [F1 [Hj1 [Hf1 [M1 [M2 Hp]]]]]]. cbn [dir_of] in *.
          unfold coe_adj in Ao. rewrite F1 in Ao.
          destruct (adjacent_cover _ _ _ _ Ao (sm_start sm + t) ltac:(lia) ltac:(lia)) as [k2 [sm2 [A2 B2]]].
          destruct (IO _ _ _ _ Hk A2); lia.
  Qed.
End Coe.

(* ---------- any mixture ---------- *)
Definition dev_sane_any (dv : devd) : Prop :=
  dev_sane dv \/ (d_coe dv = true /\ (length (d_fu dv) <= 16)%nat /\ coe_adj dv DIn /\ coe_adj dv DOut /\ io_apart dv).

Lemma build_ok_any start len : forall dvs ss wi wo,
  Forall4 (fun dv s win wout => ds_desc s = dv /\
             dev_post dv (ds_fmmus s) (ds_regs s) (start + fst win, start + snd win) (start + fst wout, start + snd wout)) dvs ss wi wo ->
  forall a b b' e ms, tiles a wi b -> tiles b' wo e -> b <= b' -> e <= N.of_nat len ->
  Forall dev_sane_any dvs -> length ms = length dvs ->
  let cs := build start ss wi wo ms in
  Forall behaves cs /\ apart cs /\
  Forall (fun c => inside start len (c_win c) /\ inside start len (c_wout c)) cs.
Proof.
  induction 1 as [|dv s w w' dvs ss wi wo [Hd Hp] HF IH]; intros a b b' e ms Ti To Hb He Hs Hl; cbn [build].
  - split; [constructor|]. split; [exact I|constructor].
  - destruct ms as [|m ms]; [simpl in Hl; discriminate|]. cbn [build].
    inversion Hs as [|? ? Sane Hs']; subst.
    cbn [tiles] in Ti, To. destruct Ti as [Ti1 [Ti2 Ti3]]. destruct To as [To1 [To2 To3]].
    assert (Mi : snd w <= b) by (apply tiles_mono in Ti3; exact Ti3).
    assert (Mo : snd w' <= e) by (apply tiles_mono in To3; exact To3).
    cbn [length] in Hl.
    assert (Hb2 : b <= snd w') by lia.
    assert (Hl2 : length ms = length dvs) by lia.
    destruct (IH (snd w) b (snd w') e ms Ti3 To3 Hb2 He Hs' Hl2) as [I1 [I2 I3]].
    split; [|split].
    + constructor; [|exact I1]. destruct Sane as [[S1 [S2 [S3 S4]]]|[S1 [S2 [S3 [S4 S5]]]]].
      * apply eeprom_behaves. unfold cdev_ok; cbn. split; [exact Hp|]. split; [exact S1|]. split; [exact S2|]. split; [exact S3|exact S4].
      * apply coe_behaves. unfold cdev_ok_coe; cbn. split; [exact Hp|]. split; [exact S1|]. split; [exact S2|]. split; [exact S3|]. split; [exact S4|exact S5].
    + cbn [apart]. split; [|exact I2]. intros c' Hc'.
      destruct (build_in _ _ _ _ _ _ Hc') as [x [x' [Hx [Hx' [Ew Eo]]]]]. rewrite Ew, Eo. unfold disj; cbn.
      destruct (tiles_inside _ _ _ _ Ti3 Hx) as [A1 [A2 A3]].
      destruct (tiles_inside _ _ _ _ To3 Hx') as [B1 [B2 B3]].
      split; [left; lia|]. split; [left; lia|right; lia].
    + constructor; [|exact I3]. unfold inside; cbn. lia.
Qed.

Theorem group_cycle_any start max dvs g ms image :
  cfg_group Debug start max (map init_dev dvs) = Ok g ->
  Forall dev_sane_any dvs -> length ms = length dvs -> N.of_nat (length image) = g_pdi_len g ->
  let cs := build start (g_devs g) (g_in g) (g_out g) ms in
  let '(ms', out) := ring cs start image in
  length out = length image /\
  Forall2' (dev_result start image out) cs ms' /\
  (forall t, (t < length image)%nat ->
     (forall c, In c cs -> ~ (fst (c_win c) <= start + N.of_nat t /\ start + N.of_nat t < snd (c_win c))) ->
     nth t out 0 = nth t image 0).
Proof.
  intros H Hs Hl Hi.
  pose proof (group_devices _ _ _ _ H) as F. pose proof (group_windows _ _ _ _ H) as [T1 [T2 _]].
  destruct (build_ok_any start (length image) _ _ _ _ F 0 (g_read_len g) (g_read_len g) (g_pdi_len g) ms T1 T2) as [A [B C]]; auto; try lia.
  apply ring_cycle_gen; assumption.
Qed.
