(* C20, composition: operations of two tasks whose footprints on the segment are disjoint can be
   interleaved in ANY order - each task receives exactly the answers it would receive running alone
   from the same segment state, the part of the segment each task works on ends as if it had run
   alone, and nothing else changes.  Proved for any kind of operation that is local to its
   footprint, then instantiated for configured-address datagrams (Net/Commute.v exec). *)
From EC Require Import Base.Prelude Base.Bytes Pd.Layout Pd.LayoutProofs Net.Commute.
Local Open Scope N_scope.

Definition agree_on (P : N -> Prop) (s t : seg) : Prop :=
  forall a, P a -> present s a = present t a /\ forall x, memory s a x = memory t a x.

Section Local.
  Variable op : Type.
  Variable R : Type.
  Variable ex : seg -> op -> seg * R.
  Variable foot : op -> N -> Prop.
  (* an operation looks only at its footprint ... *)
  Hypothesis ex_local : forall o s t, agree_on (foot o) s t ->
    snd (ex s o) = snd (ex t o) /\ agree_on (foot o) (fst (ex s o)) (fst (ex t o)).
  (* ... and changes nothing outside it *)
  Hypothesis ex_frame : forall o s a, ~ foot o a ->
    present (fst (ex s o)) a = present s a /\ forall x, memory (fst (ex s o)) a x = memory s a x.

  Fixpoint run (s : seg) (l : list op) : seg * list R :=
    match l with
    | [] => (s, [])
    | o :: r => let '(s1, x) := ex s o in let '(s2, xs) := run s1 r in (s2, x :: xs)
    end.

  (* a schedule: each operation tagged with the task it belongs to (true = A, false = B) *)
  Fixpoint run_tagged (s : seg) (l : list (bool * op)) : seg * list R * list R :=
    match l with
    | [] => (s, [], [])
    | (tag, o) :: r =>
      let '(s1, x) := ex s o in
      let '(s2, ra, rb) := run_tagged s1 r in
      if tag then (s2, x :: ra, rb) else (s2, ra, x :: rb)
    end.

  Definition ops_of (tag : bool) (l : list (bool * op)) : list op := map snd (filter (fun p => Bool.eqb (fst p) tag) l).

  Variables PA PB : N -> Prop.
  Hypothesis apart : forall a, PA a -> PB a -> False.

  Definition fits (l : list (bool * op)) : Prop :=
    Forall (fun p : bool * op => forall a, foot (snd p) a -> if fst p then PA a else PB a) l.

  Lemma agree_sub (P Q : N -> Prop) s t : (forall a, Q a -> P a) -> agree_on P s t -> agree_on Q s t.
  Proof. intros H A a Qa. apply A. apply H. exact Qa. Qed.

  Hypothesis foot_dec : forall o a, foot o a \/ ~ foot o a.

  (* one step of a task whose footprint lies in P, against the run of that task alone *)
  Lemma step_in (P : N -> Prop) o s t : (forall a, foot o a -> P a) -> agree_on P s t ->
    snd (ex s o) = snd (ex t o) /\ agree_on P (fst (ex s o)) (fst (ex t o)).
  Proof.
    intros Hf A. destruct (ex_local o s t (agree_sub P (foot o) s t Hf A)) as [E L]. split; [exact E|].
    intros a Pa. destruct (foot_dec o a) as [F|F]; [apply L; exact F|].
    destruct (ex_frame o s a F) as [P1 M1]. destruct (ex_frame o t a F) as [P2 M2]. destruct (A a Pa) as [P0 M0].
    split; [congruence|]. intros x. rewrite M1, M2. apply M0.
  Qed.

  (* one step of the OTHER task leaves the part P of the segment alone *)
  Lemma step_out (P : N -> Prop) o s t : (forall a, foot o a -> ~ P a) -> agree_on P s t -> agree_on P (fst (ex s o)) t.
  Proof.
    intros Hf A a Pa. destruct (foot_dec o a) as [F|F]; [exfalso; exact (Hf a F Pa)|].
    destruct (ex_frame o s a F) as [P1 M1]. destruct (A a Pa) as [P0 M0]. split; [congruence|]. intros x. rewrite M1. apply M0.
  Qed.

  Lemma step_neither o s a : ~ foot o a -> present (fst (ex s o)) a = present s a /\ forall x, memory (fst (ex s o)) a x = memory s a x.
  Proof. apply ex_frame. Qed.

  (* the generalised statement: the merged run from s against the two runs alone from sa and sb *)
  Lemma interleave_gen l : forall s sa sb, fits l -> agree_on PA s sa -> agree_on PB s sb ->
    let '(s', ra, rb) := run_tagged s l in
    let '(sa', xa) := run sa (ops_of true l) in
    let '(sb', xb) := run sb (ops_of false l) in
    ra = xa /\ rb = xb /\ agree_on PA s' sa' /\ agree_on PB s' sb' /\
    (forall a, ~ PA a -> ~ PB a -> present s' a = present s a /\ forall x, memory s' a x = memory s a x).
  Proof.
    induction l as [|[tag o] r IH]; intros s sa sb F A B.
    - cbn. split; [reflexivity|]. split; [reflexivity|]. split; [exact A|]. split; [exact B|]. intros a _ _. split; intros; reflexivity.
    - inversion F as [|? ? Fo Fr]; subst. cbn [fst snd] in Fo.
      cbn [run_tagged]. destruct (ex s o) as [s1 x] eqn:E.
      assert (E1 : s1 = fst (ex s o)) by (rewrite E; reflexivity). assert (Ex : x = snd (ex s o)) by (rewrite E; reflexivity).
      destruct tag.
      + (* a step of task A *)
        unfold ops_of. cbn [filter fst Bool.eqb map snd]. fold (ops_of true r). fold (ops_of false r).
        cbn [run]. destruct (ex sa o) as [sa1 xa1] eqn:Ea.
        destruct (step_in PA o s sa Fo A) as [R1 A1]. rewrite E, Ea in R1, A1. cbn [fst snd] in R1, A1.
        assert (B1 : agree_on PB s1 sb).
        { rewrite E1. apply step_out; [|exact B]. intros a Fa Pb. exact (apart a (Fo a Fa) Pb). }
        specialize (IH s1 sa1 sb Fr A1 B1).
        destruct (run_tagged s1 r) as [[s' ra] rb]. destruct (run sa1 (ops_of true r)) as [sa' xa]. destruct (run sb (ops_of false r)) as [sb' xb].
        destruct IH as (I1 & I2 & I3 & I4 & I5).
        split; [congruence|]. split; [exact I2|]. split; [exact I3|]. split; [exact I4|].
        intros a Ha Hb. destruct (I5 a Ha Hb) as [Q1 Q2].
        destruct (step_neither o s a (fun Fa => Ha (Fo a Fa))) as [S1 S2]. rewrite <- E1 in S1, S2.
        split; [congruence|]. intros y. rewrite Q2. apply S2.
      + (* a step of task B *)
        unfold ops_of. cbn [filter fst Bool.eqb map snd]. fold (ops_of true r). fold (ops_of false r).
        cbn [run]. destruct (ex sb o) as [sb1 xb1] eqn:Eb.
        destruct (step_in PB o s sb Fo B) as [R1 B1]. rewrite E, Eb in R1, B1. cbn [fst snd] in R1, B1.
        assert (A1 : agree_on PA s1 sa).
        { rewrite E1. apply step_out; [|exact A]. intros a Fa Pa. exact (apart a Pa (Fo a Fa)). }
        specialize (IH s1 sa sb1 Fr A1 B1).
        destruct (run_tagged s1 r) as [[s' ra] rb]. destruct (run sa (ops_of true r)) as [sa' xa]. destruct (run sb1 (ops_of false r)) as [sb' xb].
        destruct IH as (I1 & I2 & I3 & I4 & I5).
        split; [exact I1|]. split; [congruence|]. split; [exact I3|]. split; [exact I4|].
        intros a Ha Hb. destruct (I5 a Ha Hb) as [Q1 Q2].
        destruct (step_neither o s a (fun Fa => Hb (Fo a Fa))) as [S1 S2]. rewrite <- E1 in S1, S2.
        split; [congruence|]. intros y. rewrite Q2. apply S2.
  Qed.

  Lemma agree_refl P s : agree_on P s s.
  Proof. intros a _. split; reflexivity. Qed.

  (* ANY interleaving: each task gets the answers of its run alone from the same state; its part of
     the segment ends as after that run; the rest of the segment is untouched *)
  Theorem interleave l s : fits l ->
    let '(s', ra, rb) := run_tagged s l in
    ra = snd (run s (ops_of true l)) /\ rb = snd (run s (ops_of false l)) /\
    agree_on PA s' (fst (run s (ops_of true l))) /\ agree_on PB s' (fst (run s (ops_of false l))) /\
    (forall a, ~ PA a -> ~ PB a -> present s' a = present s a /\ forall x, memory s' a x = memory s a x).
  Proof.
    intros F. pose proof (interleave_gen l s s s F (agree_refl PA s) (agree_refl PB s)) as G.
    destruct (run_tagged s l) as [[s' ra] rb]. destruct (run s (ops_of true l)) as [sa' xa]. destruct (run s (ops_of false l)) as [sb' xb].
    exact G.
  Qed.
End Local.

(* ---------- configured-address datagrams are local to the station they name ---------- *)
Definition fp_foot (d : dgram) (a : N) : Prop := a = station_of d.

Lemma fp_local d s t : agree_on (fp_foot d) s t ->
  snd (exec s d) = snd (exec t d) /\ agree_on (fp_foot d) (fst (exec s d)) (fst (exec t d)).
Proof.
  intros A. destruct (A (station_of d) eq_refl) as [Pp Mm].
  destruct d as [a ado len|a ado data]; cbn [station_of exec] in *; rewrite <- Pp; destruct (present s a) eqn:Ps; cbn [fst snd].
  - split; [|exact A]. f_equal. unfold read_bytes. apply map_ext. intros k. apply Mm.
  - split; [reflexivity|exact A].
  - split; [reflexivity|]. intros b Fb. unfold fp_foot in Fb. cbn [station_of] in Fb. subst b. cbn [present memory]. rewrite N.eqb_refl.
    split; [congruence|]. intros x.
    assert (W : forall data m1 m2 ado0, (forall y, m1 y = m2 y) -> forall y, write_bytes m1 ado0 data y = write_bytes m2 ado0 data y).
    { induction data0 as [|b r IH]; intros m1 m2 ado0 H y; cbn [write_bytes]; [apply H|]. apply IH. intros z. destruct (z =? ado0); [reflexivity|apply H]. }
    apply W. exact Mm.
  - split; [reflexivity|exact A].
Qed.

Lemma fp_frame d s a : ~ fp_foot d a ->
  present (fst (exec s d)) a = present s a /\ forall x, memory (fst (exec s d)) a x = memory s a x.
Proof.
  intros NF. unfold fp_foot in NF. destruct d as [st ado len|st ado data]; cbn [station_of exec] in *; destruct (present s st); cbn [fst present memory]; try (split; intros; reflexivity).
  split; [reflexivity|]. intros x. replace (a =? st) with false by (symmetry; apply N.eqb_neq; exact NF). reflexivity.
Qed.

Lemma fp_foot_dec d a : fp_foot d a \/ ~ fp_foot d a.
Proof. unfold fp_foot. destruct (N.eq_dec a (station_of d)); [left|right]; assumption. Qed.

(* Two tasks that talk to disjoint sets of stations (register accesses, mailbox exchanges - any
   sequences of configured-address datagrams), interleaved in ANY order on the shared segment. *)
Theorem fp_tasks_interleave (PA PB : N -> Prop) l s : (forall a, PA a -> PB a -> False) ->
  Forall (fun p : bool * dgram => if fst p then PA (station_of (snd p)) else PB (station_of (snd p))) l ->
  let '(s', ra, rb) := run_tagged dgram (list N * N) exec s l in
  ra = snd (run dgram (list N * N) exec s (ops_of dgram true l)) /\
  rb = snd (run dgram (list N * N) exec s (ops_of dgram false l)) /\
  agree_on PA s' (fst (run dgram (list N * N) exec s (ops_of dgram true l))) /\
  agree_on PB s' (fst (run dgram (list N * N) exec s (ops_of dgram false l))) /\
  (forall a, ~ PA a -> ~ PB a -> present s' a = present s a /\ forall x, memory s' a x = memory s a x).
Proof.
  intros Ap F. apply (interleave dgram (list N * N) exec fp_foot fp_local fp_frame PA PB Ap fp_foot_dec).
  unfold fits. eapply Forall_impl; [|exact F]. cbv beta. intros [tag d] H a Fa. unfold fp_foot in Fa. cbn [fst snd] in *. subst a. exact H.
Qed.

(* not vacuous: task A writes and reads back a register of station 0x1001 while task B writes two
   registers of 0x1002, in an interleaved order *)
Definition ex_seg : seg := {| present := fun a => (a =? 4097) || (a =? 4098); memory := fun _ _ => 0 |}.
Definition ex_sched : list (bool * dgram) :=
  [(true, FpWr 4097 16 [1; 2]); (false, FpWr 4098 16 [9]); (true, FpRd 4097 16 2); (false, FpWr 4098 17 [8]); (false, FpRd 4098 16 2)].
Lemma interleave_example :
  let '(_, ra, rb) := run_tagged dgram (list N * N) exec ex_seg ex_sched in
  ra = [([1; 2], 1); ([1; 2], 1)] /\ rb = [([9], 1); ([8], 1); ([9; 8], 1)].
Proof. vm_compute. split; reflexivity. Qed.
