(* C17: the parent search of the full model (Dc/Topo.v assign_loop: port lists with times, port
   hand-out, delays) refines the search over (children, handed out) of Dc/Tree.v - whatever the
   port times, DC capabilities and build mode - and with it gives every device of ANY tree its
   true parent. *)
From EC Require Import Base.Prelude Base.Bytes Base.BytesProofs Dc.Topo Dc.TopoProofs Dc.Tree Dc.TreeProofs.
Local Open Scope N_scope.

Definition is_down (ps : list port) (i : nat) : bool := match pdown (pnth ps i) with Some _ => true | None => false end.
Definition assigned (ps : list port) : nat := length (filter (is_down ps) (active ps)).
Definition kids (d : dev) : nat := (length (active (d_ports d)) - 1)%nat.
Definition abs_dev (d : dev) : ent := {| e_idx := d_idx d; e_c := kids d; e_a := assigned (d_ports d) |}.

(* ---------- the active ports are listed once each ---------- *)
Lemma active_go_nodup ps : forall i, NoDup (active_go ps i).
Proof.
  induction ps as [|p r IH]; intros i; cbn [active_go]; [constructor|].
  destruct (pa p); [|apply IH]. constructor; [|apply IH].
  intros H. pose proof (active_go_bound r (S i)) as B. rewrite Forall_forall in B. specialize (B i H). lia.
Qed.

Lemma filter_flip {A} (f g : A -> bool) (x : A) l : NoDup l -> In x l -> f x = false -> g x = true ->
  (forall y, y <> x -> g y = f y) -> length (filter g l) = S (length (filter f l)).
Proof.
  induction l as [|y r IH]; intros ND I F G O; [contradiction|]. inversion ND as [|? ? N1 N2]; subst.
  cbn [filter]. destruct I as [->|I].
  - rewrite F, G. cbn [length]. f_equal. f_equal. apply filter_ext_in. intros z Hz. apply O. intros ->. contradiction.
  - assert (y <> x) by (intros ->; contradiction). rewrite (O y H).
    destruct (f y); cbn [length]; rewrite (IH N2 I F G O); reflexivity.
Qed.

Lemma next_assignable_open ps e i : next_assignable ps e = Some i -> is_down ps i = false.
Proof.
  unfold next_assignable. intros H. apply find_some in H as [_ H]. unfold is_down.
  destruct (pdown (pnth ps i)); [discriminate|reflexivity].
Qed.

Lemma assign_port_counts ps c ps' : assign_port ps c = Ok (Some ps') ->
  active ps' = active ps /\ assigned ps' = S (assigned ps).
Proof.
  unfold assign_port. intros H. apply rbind_ok in H as (e & _ & H).
  destruct (next_assignable ps e) as [i|] eqn:NA; [|discriminate]. injection H as <-.
  pose proof (next_assignable_active _ _ _ NA) as IA. pose proof (active_lt _ _ IA) as IL.
  split; [apply active_set_down|].
  unfold assigned. rewrite active_set_down.
  apply (filter_flip (is_down ps) (is_down (set_down ps i c)) i).
  - apply active_go_nodup.
  - exact IA.
  - exact (next_assignable_open _ _ _ NA).
  - unfold is_down. rewrite (pnth_set_down ps i c IL). reflexivity.
  - intros y Hy. unfold is_down, set_down, pnth. rewrite nth_upd_ne by exact Hy. reflexivity.
Qed.

(* ---------- find_parent is apick ---------- *)
Lemma junction_free_abs q t : topology (d_ports q) = Ok t ->
  is_junction t && has_free_port (d_ports q) = junction_free (abs_dev q).
Proof.
  unfold topology, has_free_port, junction_free, abs_dev, kids, assigned. cbn [e_c e_a].
  fold (is_down (d_ports q)).
  set (k := length (active (d_ports q))). set (a := length (filter (is_down (d_ports q)) (active (d_ports q)))).
  destruct k as [|[|[|[|[|k]]]]]; intros H; inversion H; subst; cbn [is_junction Nat.sub Nat.leb andb]; reflexivity.
Qed.

Lemma find_parent_apick ds par : find_parent ds = Ok par -> apick (map abs_dev ds) = Some par.
Proof.
  unfold find_parent, apick. rewrite <- map_rev. destruct (rev ds) as [|p before]; cbn [map].
  - intros H. inversion H. reflexivity.
  - intros H. apply rbind_ok in H as (t & T & H).
    assert (G : forall l par0,
      (fix go (l : list dev) : res terr (option N) :=
            match l with
            | [] => Err TTopology
            | q :: r => let? tq := topology (d_ports q) in
                        if is_junction tq && has_free_port (d_ports q) then Ok (Some (d_idx q)) else go r
            end) l = Ok par0 ->
      match find junction_free (map abs_dev l) with Some q => Some (Some (e_idx q)) | None => None end = Some par0).
    { induction l as [|q r IH]; intros par0 G0; [discriminate|]. apply rbind_ok in G0 as (tq & Tq & G0).
      cbn [map find]. rewrite <- (junction_free_abs q tq Tq).
      destruct (is_junction tq && has_free_port (d_ports q)); [inversion G0; reflexivity|apply IH; exact G0]. }
    unfold topology in T. unfold abs_dev at 1, kids. cbn [e_c e_idx].
    destruct (length (active (d_ports p))) as [|[|[|[|[|k]]]]]; inversion T; subst t; cbn [Nat.sub Nat.leb].
    + apply G. exact H.
    + inversion H. reflexivity.
    + inversion H. reflexivity.
    + inversion H. reflexivity.
Qed.

(* ---------- handing out a port is abump ---------- *)
Lemma replace_abs ds pi parent ps' : find_dev ds pi = Some parent ->
  active ps' = active (d_ports parent) -> assigned ps' = S (assigned (d_ports parent)) ->
  map abs_dev (replace_dev ds pi (fun p => {| d_idx := d_idx p; d_ports := ps'; d_dc := d_dc p; d_parent := d_parent p; d_delay := d_delay p |}))
  = abump (map abs_dev ds) pi.
Proof.
  unfold find_dev. induction ds as [|d r IH]; intros F A S; [discriminate|].
  cbn [find replace_dev map abump] in *. unfold abs_dev at 2. cbn [e_idx].
  destruct (d_idx d =? pi) eqn:E.
  - inversion F; subst parent. cbn [map]. f_equal. unfold abs_dev, kids. cbn [d_idx d_ports e_idx e_c e_a]. rewrite A, S. reflexivity.
  - cbn [map]. f_equal. apply IH; assumption.
Qed.

Lemma replace_parents ds pi f : (forall d, d_parent (f d) = d_parent d) ->
  map d_parent (replace_dev ds pi f) = map d_parent ds.
Proof.
  intros Hf. induction ds as [|d r IH]; [reflexivity|]. cbn [replace_dev]. destruct (d_idx d =? pi); cbn [map]; [rewrite Hf; reflexivity|rewrite IH; reflexivity].
Qed.

(* ---------- the loop ---------- *)
Definition key (d : dev) : N * nat := (d_idx d, kids d).

Theorem loop_refines md : forall todo done accum out,
  Forall (fun d => assigned (d_ports d) = 0%nat) todo ->
  assign_loop md done todo accum = Ok out ->
  exists st' ps, arun (map abs_dev done) (map key todo) = Some (st', ps) /\
                 map d_parent out = map d_parent done ++ ps.
Proof.
  induction todo as [|sd rest IH]; intros done accum out Z H; cbn [assign_loop] in H.
  - inversion H; subst. exists (map abs_dev out), []. cbn [map arun]. rewrite app_nil_r. auto.
  - inversion Z as [|? ? Z0 Zr]; subst.
    destruct (length (active (d_ports sd)) =? 0)%nat; [discriminate|].
    apply rbind_ok in H as (par & EP & H).
    apply rbind_ok in H as (done1 & E1 & H).
    assert (D1 : map abs_dev done1 = abump' (map abs_dev done) par /\ map d_parent done1 = map d_parent done).
    { destruct par as [pi|]; [|inversion E1; split; reflexivity].
      destruct (find_dev done pi) as [parent|] eqn:FD; [|discriminate].
      destruct (d_idx sd =? 0); [discriminate|].
      apply rbind_ok in E1 as (np & EN & E1). destruct np as [ps'|]; [|discriminate].
      inversion E1; subst done1. destruct (assign_port_counts _ _ _ EN) as [A S].
      split; [apply (replace_abs done pi parent ps' FD A S)|apply replace_parents; reflexivity]. }
    destruct D1 as [D1 D2].
    cbn [map arun]. unfold key at 1. rewrite (find_parent_apick _ _ EP).
    assert (Step : forall dflag x outx, assign_loop md (done1 ++ [{| d_idx := d_idx sd; d_ports := d_ports sd; d_dc := dflag; d_parent := par; d_delay := x |}]) rest outx = Ok out ->
      exists st' ps, arun (abump' (map abs_dev done) par ++ [{| e_idx := d_idx sd; e_c := kids sd; e_a := 0 |}]) (map key rest) = Some (st', ps) /\
                     map d_parent out = map d_parent done ++ par :: ps).
    { intros dflag x outx HL. destruct (IH _ _ _ Zr HL) as (st' & ps & R1 & R2).
      rewrite map_app in R1. cbn [map] in R1. unfold abs_dev at 2 in R1. unfold kids at 1 in R1. cbn [d_idx d_ports] in R1.
      fold (kids sd) in R1. rewrite Z0, D1 in R1.
      exists st', ps. split; [exact R1|]. rewrite R2, map_app, D2. cbn [map d_parent]. rewrite <- app_assoc. reflexivity. }
    destruct (d_dc sd) eqn:DC.
    + apply rbind_ok in H as (u & _ & H). apply rbind_ok in H as (add & _ & H).
      destruct add as [a|].
      * destruct (Step _ _ _ H) as (st' & ps & R1 & R2). rewrite R1. exists st', (par :: ps). auto.
      * rewrite <- DC in H. destruct (Step _ _ _ H) as (st' & ps & R1 & R2). rewrite R1. exists st', (par :: ps). auto.
    + rewrite <- DC in H. destruct (Step _ _ _ H) as (st' & ps & R1 & R2). rewrite R1. exists st', (par :: ps). auto.
Qed.

(* ---------- the records the hook builds (Topo.mk_devs) ---------- *)
Definition nact (act : list bool) : nat := length (filter (fun k => nth k act false) (seq 0 4)).

Lemma active_mk i act times dc : length (active (d_ports (mk_dev i act times dc))) = nact act.
Proof.
  unfold mk_dev, nact, active. cbn [d_ports map seq active_go pa filter].
  destruct (nth 0 act false), (nth 1 act false), (nth 2 act false), (nth 3 act false); reflexivity.
Qed.

Lemma assigned_mk i act times dc : assigned (d_ports (mk_dev i act times dc)) = 0%nat.
Proof.
  unfold assigned. assert (E : forall l, filter (is_down (d_ports (mk_dev i act times dc))) l = []).
  { induction l as [|k r IH]; [reflexivity|]. cbn [filter]. rewrite IH.
    unfold is_down, pnth, mk_dev. cbn [d_ports map seq].
    destruct k as [|[|[|[|k]]]]; cbn [nth pdown]; try reflexivity. destruct k; reflexivity. }
  rewrite E. reflexivity.
Qed.

Lemma ipre_f_length cs : Forall (fun t => forall n, length (ipre n t) = size t) cs ->
  forall m, length (ipre_f m cs) = fsize cs.
Proof.
  induction cs as [|x r IH]; intros F m; [reflexivity|]. inversion F; subst. cbn [ipre_f fsize fold_right].
  rewrite app_length, H1, IH by assumption. reflexivity.
Qed.
Lemma ipre_length t : forall n, length (ipre n t) = size t.
Proof.
  induction t as [cs IH] using tree_ind'. intros n. rewrite ipre_T, size_T. cbn [length]. f_equal. apply ipre_f_length. exact IH.
Qed.

Lemma map_seq_from {A} (f : nat -> A) k : forall a, map f (seq a k) = map (fun j => f (a + j)%nat) (seq 0 k).
Proof.
  induction k as [|k IH]; intros a; [reflexivity|]. cbn [seq map]. rewrite Nat.add_0_r. f_equal.
  rewrite (IH (S a)). rewrite <- seq_shift, map_map. apply map_ext. intros j. f_equal. lia.
Qed.

Lemma ipre_idx t : forall n, map fst (ipre n t) = map (fun j => n + N.of_nat j) (seq 0 (size t)).
Proof.
  induction t as [cs IH] using tree_ind'. intros n. rewrite ipre_T, size_T. cbn [map fst seq]. f_equal; [f_equal; lia|].
  assert (G : forall m, map fst (ipre_f m cs) = map (fun j => m + N.of_nat j) (seq 0 (fsize cs))).
  { induction cs as [|x r IHr]; intros m; [reflexivity|]. inversion IH as [|? ? Hx Hr]; subst.
    cbn [ipre_f fsize fold_right]. fold (fsize r). rewrite map_app, Hx, (IHr Hr), seq_app, map_app. f_equal.
    cbn [Nat.add]. rewrite (map_seq_from _ (fsize r) (size x)). apply map_ext. intros j. lia. }
  rewrite (G (n + 1)), (map_seq_from _ (fsize cs) 1%nat). apply map_ext. intros j. lia.
Qed.

Lemma keys_match l : forall i ks,
  map fst ks = map (fun j => N.of_nat (i + j)) (seq 0 (length l)) ->
  map (fun x => nact (fst (fst x))) l = map (fun p => S (snd p)) ks ->
  map key (mk_devs i l) = ks.
Proof.
  induction l as [|[[a t] dc] r IH]; intros i ks H1 H2.
  - destruct ks; [reflexivity|discriminate].
  - destruct ks as [|[n0 c0] ks']; [discriminate|].
    cbn [map length seq fst snd] in H1, H2. injection H1 as N0 H1. injection H2 as C0 H2.
    cbn [mk_devs map]. f_equal.
    + unfold key, kids. rewrite active_mk. cbn [mk_dev d_idx]. rewrite Nat.add_0_r in N0. subst n0. f_equal. lia.
    + apply IH; [|exact H2]. rewrite H1, (map_seq_from _ (length r) 1%nat). apply map_ext. intros j. f_equal. lia.
Qed.

Lemma mk_devs_unassigned l : forall i, Forall (fun d => assigned (d_ports d) = 0%nat) (mk_devs i l).
Proof. induction l as [|[[a tt] dc] r IH]; intros i; cbn [mk_devs]; constructor; [apply assigned_mk|apply IH]. Qed.

(* The devices of ANY tree, reported in ring order - each with as many open ports as it has
   children plus the one it is entered through, WHATEVER their port times, DC capabilities and
   the build mode - are given their true parents whenever the assignment succeeds. *)
Theorem tree_parents_assigned md t l out :
  map (fun x => nact (fst (fst x))) l = map (fun p => S (snd p)) (ipre 0 t) ->
  assign md (mk_devs 0 l) = Ok out ->
  map d_parent out = tpar 0 None t.
Proof.
  intros Hl H. unfold assign in H.
  destruct (loop_refines md _ [] 0 out (mk_devs_unassigned l 0%nat) H) as (st' & ps & R1 & R2).
  cbn [map app] in R1, R2. rewrite R2.
  rewrite (keys_match l 0%nat (ipre 0 t)) in R1.
  - rewrite tree_parents in R1. injection R1 as _ <-. reflexivity.
  - rewrite ipre_idx. assert (L : length l = size t).
    { apply (f_equal (@length nat)) in Hl. rewrite !map_length, ipre_length in Hl. exact Hl. }
    rewrite L. apply map_ext. intros j. lia.
  - exact Hl.
Qed.

(* non-vacuity: a coupler with a line of two on port 3 and a fork on port 1 whose two branches end at
   once; all devices DC capable, receive times as a frame would stamp them *)
Definition ex_tree : tree := T [T [T []]; T [T []; T []]].
Definition ex_reports : list (list bool * list N * bool) :=
  [([true; true; true; false], [100; 700; 1900; 0], true);
   ([true; false; true; false], [200; 0; 600; 0], true);
   ([true; false; false; false], [400; 0; 0; 0], true);
   ([true; true; true; false], [800; 1100; 1800; 0], true);
   ([true; false; false; false], [950; 0; 0; 0], true);
   ([true; false; false; false], [1400; 0; 0; 0], true)].

Lemma tree_example :
  map (fun x => nact (fst (fst x))) ex_reports = map (fun p => S (snd p)) (ipre 0 ex_tree) /\
  exists out, assign Debug (mk_devs 0 ex_reports) = Ok out /\
              map d_parent out = [None; Some 0; Some 1; Some 0; Some 3; Some 3] /\
              tpar 0 None ex_tree = [None; Some 0; Some 1; Some 0; Some 3; Some 3].
Proof. split; [reflexivity|]. eexists. split; [vm_compute; reflexivity|]. split; reflexivity. Qed.

(* observation for the correspondence check: what the theorem's premise and conclusion say about a
   tree - open ports per device and the true parents, in ring order *)
Definition tree_obs (t : tree) : list Z :=
  (map (fun p => Z.of_nat (S (snd p))) (ipre 0 t) ++ [-5] ++
   map (fun o => match o with Some p => Z.of_N p | None => -1 end) (tpar 0 None t))%Z.
