(* C18: configure_dc_sync (src/subdevice_group/mod.rs) as a function from the configuration, the
   group and the devices' answers to the datagrams sent and the result; the per-cycle arithmetic
   is Cycle.cycle_info.  No proofs here. *)
From EC Require Import Base.Prelude Base.Bytes Cycle.Cycle.
Local Open Scope N_scope.

Inductive sync := SDisabled | SSync0 | SSync01 (p1 : N).   (* p1 = sync1_period.as_nanos() *)

Record sdev := { sd_addr : N; sd_dc : bool (* dc_support().any() *); sd_sync : sync }.

(* DcConfiguration as nanosecond counts (Duration::as_nanos(), below 2^128) *)
Record dconf := { d_delay : N; d_period : N; d_shift : N }.

Inductive wop :=
| WRead (addr reg len : N)
| WWrite (addr reg : N) (data : list N).

Inductive derr := ENoRef | EConv | EWkc (expected received : N) | EInternal.

Record hasdc := { h_period : N; h_shift : N; h_ref : N }.

Definition two64 : N := 18446744073709551616.
Definition two32 : N := 4294967296.

Definition reg_system_time : N := 2320.   (* 0x0910 *)
Definition reg_sync_active : N := 2433.   (* 0x0981 *)
Definition reg_start_time : N := 2448.    (* 0x0990 *)
Definition reg_sync0_cycle : N := 2464.   (* 0x09A0 *)
Definition reg_sync1_cycle : N := 2468.   (* 0x09A4 *)

Definition wants_dc (d : sdev) : bool :=
  sd_dc d && match sd_sync d with SDisabled => false | _ => true end.

(* the start time: first pulse rounded down to a whole number of cycles *)
Definition start_time (md : mode) (time delay period : N) : res derr N :=
  let sum := time + delay in
  if two64 <=? sum then Err EConv
  else if period =? 0 then Panic 1
  else Ok (sum / period * period).

(* one write; WrappedWrite::send ignores the response (working counter included), so only a missing
   answer can fail it; returns remaining answers *)
Definition wr (ignore_wkc : bool) (answers : list answer) : res derr (list answer) :=
  match answers with
  | [] => Err EInternal
  | (_, wkc) :: rest => if ignore_wkc || (wkc =? 1) then Ok rest else Err (EWkc 1 wkc)
  end.

Definition configure_one (md : mode) (time delay period : N) (d : sdev) (answers : list answer)
  : res derr (list answer) * list wop :=
  let a := sd_addr d in
  let w1 := WWrite a reg_sync_active [0] in
  match wr true answers with
  | Ok ans1 =>
    match start_time md time delay period with
    | Ok st =>
      let w2 := WWrite a reg_start_time (le_bytes 8 st) in
      match wr true ans1 with
      | Ok ans2 =>
        let w3 := WWrite a reg_sync0_cycle (le_bytes 8 period) in
        match wr true ans2 with
        | Ok ans3 =>
          match sd_sync d with
          | SSync01 p1 =>
            if two32 <=? p1 then (Err EConv, [w1; w2; w3])
            else
              let w4 := WWrite a reg_sync1_cycle (le_bytes 8 p1) in
              match wr true ans3 with
              | Ok ans4 =>
                let w5 := WWrite a reg_sync_active [7] in
                (match wr true ans4 with Ok r => Ok r | Err e => Err e | Panic s => Panic s | Hang => Hang end,
                 [w1; w2; w3; w4; w5])
              | Err e => (Err e, [w1; w2; w3; w4]) | Panic s => (Panic s, []) | Hang => (Hang, [])
              end
          | _ =>
            let w5 := WWrite a reg_sync_active [3] in
            (match wr true ans3 with Ok r => Ok r | Err e => Err e | Panic s => Panic s | Hang => Hang end,
             [w1; w2; w3; w5])
          end
        | Err e => (Err e, [w1; w2; w3]) | Panic s => (Panic s, []) | Hang => (Hang, [])
        end
      | Err e => (Err e, [w1; w2]) | Panic s => (Panic s, []) | Hang => (Hang, [])
      end
    | Err e => (Err e, [w1]) | Panic s => (Panic s, [w1]) | Hang => (Hang, [w1])
    end
  | Err e => (Err e, [w1]) | Panic s => (Panic s, []) | Hang => (Hang, [])
  end.

Fixpoint configure_all (md : mode) (time delay period : N) (ds : list sdev) (answers : list answer)
  : res derr unit * list wop :=
  match ds with
  | [] => (Ok tt, [])
  | d :: r =>
    if wants_dc d then
      let '(res1, ws) := configure_one md time delay period d answers in
      match res1 with
      | Ok rest => let '(res2, ws2) := configure_all md time delay period r rest in (res2, ws ++ ws2)
      | Err e => (Err e, ws) | Panic s => (Panic s, ws) | Hang => (Hang, ws)
      end
    else configure_all md time delay period r answers
  end.

Definition configure (md : mode) (dcref : option N) (ds : list sdev) (c : dconf) (answers : list answer)
  : res derr hasdc * list wop :=
  match dcref with
  | None => (Err ENoRef, [])
  | Some ref =>
    let rd := WRead ref reg_system_time 8 in
    match answers with
    | [] => (Err EInternal, [rd])
    | (data, wkc) :: rest =>
      if negb (wkc =? 1) then (Err (EWkc 1 wkc), [rd])
      else
        let time := of_le (firstn 8 data) in
        if two32 <=? d_period c then (Err EConv, [rd])
        else if two32 <=? d_delay c then (Err EConv, [rd])
        else
          let '(r, ws) := configure_all md time (d_delay c) (d_period c) ds rest in
          (match r with
           | Ok _ => Ok {| h_period := d_period c; h_shift := d_shift c mod two64; h_ref := ref |}
           | Err e => Err e | Panic s => Panic s | Hang => Hang
           end, rd :: ws)
    end
  end.

(* ---------- observations ---------- *)
Definition obs_wop (w : wop) : list Z :=
  match w with
  | WRead a r l => [4; Z.of_N a; Z.of_N r; Z.of_N l]%Z
  | WWrite a r data => ([5; Z.of_N a; Z.of_N r; Z.of_nat (length data)] ++ map Z.of_N data)%Z
  end.

Definition obs_configure (md : mode) (dcref : option N) (ds : list sdev) (c : dconf) (answers : list answer) : list Z :=
  let '(r, ws) := configure md dcref ds c answers in
  ((match r with
    | Ok h => [0; Z.of_N (h_period h); Z.of_N (h_shift h); Z.of_N (h_ref h)]
    | Err ENoRef => [1]
    | Err EConv => [2]
    | Err (EWkc e g) => [3; Z.of_N e; Z.of_N g]
    | Err EInternal => [4]
    | Panic _ => [-98]
    | Hang => [-99]
    end) ++ concat (map (fun w => obs_wop w ++ [-7]) ws))%Z.

Definition obs_cycle_info (md : mode) (time period shift : N) : list Z :=
  match cycle_info md time period shift with
  | Ok (off, wait) => [0; Z.of_N off; Z.of_N wait]%Z
  | Err _ => [1]%Z
  | Panic _ => [-98]%Z
  | Hang => [-99]%Z
  end.
