(* C17: parent assignment and propagation delays (src/dc.rs assign_parent_relationships,
   find_subdevice_parent, configure_subdevice_offsets; src/subdevice/ports.rs) as functions of the
   port reports.  Ports are kept in the crate's internal order [0; 3; 1; 2].  No proofs here. *)
From EC Require Import Base.Prelude Base.Bytes.
Local Open Scope N_scope.

Record port := { pa : bool; pt : N; pdown : option N }.

Record dev := {
  d_idx : N;
  d_ports : list port;       (* 4 entries *)
  d_dc : bool;
  d_parent : option N;
  d_delay : N
}.

Inductive terr := TTopology | TInternal.
Inductive topo := LineEnd | Passthrough | Fork | Cross.

Definition u32max : N := 4294967295.
Definition sat_sub (a b : N) : N := a - b.                       (* N subtraction saturates at 0 *)
Definition sat_add (a b : N) : N := N.min (a + b) u32max.

(* indices of the active ports, in order *)
Fixpoint active_go (ps : list port) (i : nat) : list nat :=
  match ps with
  | [] => []
  | p :: r => if pa p then i :: active_go r (S i) else active_go r (S i)
  end.
Definition active (ps : list port) : list nat := active_go ps 0.

Definition pnth (ps : list port) (i : nat) : port := nth i ps {| pa := false; pt := 0; pdown := None |}.

Definition topology (ps : list port) : res terr topo :=
  match length (active ps) with
  | 1%nat => Ok LineEnd | 2%nat => Ok Passthrough | 3%nat => Ok Fork | 4%nat => Ok Cross
  | _ => Panic 60         (* unreachable!("Invalid topology") *)
  end.

Definition is_junction (t : topo) : bool := match t with Fork | Cross => true | _ => false end.

(* min_by_key keeps the first of equal minima *)
Fixpoint min_time_idx (ps : list port) (idxs : list nat) (best : option nat) : option nat :=
  match idxs with
  | [] => best
  | i :: r =>
    match best with
    | None => min_time_idx ps r (Some i)
    | Some b => if pt (pnth ps i) <? pt (pnth ps b) then min_time_idx ps r (Some i) else min_time_idx ps r best
    end
  end.

Definition entry_port (ps : list port) : res terr nat :=
  match min_time_idx ps (active ps) None with Some i => Ok i | None => Panic 61 end.

Definition last_port (ps : list port) : option nat := last (map Some (active ps)) None.

(* next_assignable_port: the ACTIVE ports cycled, skipping (index of the entry port + 1) elements,
   looking at 4 *)
Fixpoint cyc_take (a : list nat) (full : list nat) (skip take : nat) (fuel : nat) : list nat :=
  match fuel with
  | O => []
  | S f =>
    match take with
    | O => []
    | S t =>
      match a with
      | [] => match full with [] => [] | _ => cyc_take full full skip take f end
      | x :: r => match skip with O => x :: cyc_take r full 0 t f | S s => cyc_take r full s take f end
      end
    end
  end.

Definition next_assignable (ps : list port) (entry : nat) : option nat :=
  let a := active ps in
  find (fun i => match pdown (pnth ps i) with None => true | Some _ => false end)
       (cyc_take a a (S entry) 4 40).

Definition set_down (ps : list port) (i : nat) (child : N) : list port :=
  upd i {| pa := pa (pnth ps i); pt := pt (pnth ps i); pdown := Some child |} ps.

(* assign_next_downstream_port *)
Definition assign_port (ps : list port) (child : N) : res terr (option (list port)) :=
  let? e := entry_port ps in
  match next_assignable ps e with
  | Some i => Ok (Some (set_down ps i child))
  | None => Ok None
  end.

(* has_unassigned_downstream_port: one open port is the entry port *)
Definition has_free_port (ps : list port) : bool :=
  (S (length (filter (fun i => match pdown (pnth ps i) with Some _ => true | None => false end) (active ps)))
   <? length (active ps))%nat.

Definition port_assigned_to (ps : list port) (child : N) : option nat :=
  find (fun i => match pdown (pnth ps i) with Some c => c =? child | None => false end) (active ps).

Definition times_of (ps : list port) (idxs : list nat) : list N := map (fun i => pt (pnth ps i)) idxs.

Definition span (ts : list N) : option N :=
  match ts with
  | [] => None
  | t :: r => let mx := fold_left N.max r t in let mn := fold_left N.min r t in
              if 0 <? mx - mn then Some (mx - mn) else None
  end.

Definition total_prop_time (ps : list port) : option N := span (times_of ps (active ps)).

(* windows(2) over all four ports; sum::<u32>() *)
Definition intermediate_time (md : mode) (ps : list port) (target : nat) : res terr N :=
  let term (a : nat) : N :=
    if (target <=? a)%nat then 0
    else if pa (pnth ps a) && pa (pnth ps (S a)) then sat_sub (pt (pnth ps (S a))) (pt (pnth ps a)) else 0 in
  let s := term 0%nat + term 1%nat + term 2%nat in
  if u32max <? s then match md with Debug => Panic 62 | Release => Ok (s mod 4294967296) end
  else Ok s.

Definition prop_time_to (ps : list port) (this : nat) : res terr (option N) :=
  let? e := entry_port ps in
  Ok (span (times_of ps (filter (fun i => (e <=? i)%nat && (i <=? this)%nat) (active ps)))).

(* find_subdevice_parent: [parents] in discovery order *)
Definition find_parent (parents : list dev) : res terr (option N) :=
  match rev parents with
  | [] => Ok None
  | p :: before =>
    let? t := topology (d_ports p) in
    match t with
    | LineEnd =>
      let fix go (l : list dev) : res terr (option N) :=
        match l with
        | [] => Err TTopology
        | q :: r => let? tq := topology (d_ports q) in
                    if is_junction tq && has_free_port (d_ports q) then Ok (Some (d_idx q)) else go r
        end in go before
    | _ => Ok (Some (d_idx p))
    end
  end.

Definition find_dev (ds : list dev) (idx : N) : option dev := find (fun d => d_idx d =? idx) ds.

(* is_child_of *)
Definition is_child_of (child_idx : N) (parent : dev) : res terr bool :=
  let? t := topology (d_ports parent) in
  let pp := port_assigned_to (d_ports parent) child_idx in
  let on_last := match pp with
                 | Some i => match last_port (d_ports parent) with Some l => Nat.eqb l i | None => false end
                 | None => false end in
  Ok (is_junction t && negb on_last).

(* configure_subdevice_offsets: returns the delay to ADD (None = no parent found: nothing done) *)
Definition offsets (md : mode) (sd : dev) (parents : list dev) (accum : N) : res terr (option N) :=
  match d_parent sd with
  | None => Ok None
  | Some pi =>
    match find_dev parents pi with
    | None => Ok None
    | Some parent =>
      match port_assigned_to (d_ports parent) (d_idx sd) with
      | None => Panic 63             (* unwrap "Parent assigned port" *)
      | Some pport =>
        let? _ := entry_port (d_ports sd) in
        let? _ := topology (d_ports parent) in         (* debug line evaluates both *)
        let? child := is_child_of (d_idx sd) parent in
        let ppt := match total_prop_time (d_ports parent) with Some x => x | None => 0 end in
        let tpt := match total_prop_time (d_ports sd) with Some x => x | None => 0 end in
        let delta := sat_sub ppt tpt in
        let? t := topology (d_ports parent) in
        match t with
        | Passthrough => Ok (Some (delta / 2))
        | Fork =>
          if child then
            let? c := prop_time_to (d_ports parent) pport in
            Ok (Some (sat_sub (match c with Some x => x | None => 0 end) tpt / 2))
          else Ok (Some (delta / 2))
        | Cross =>
          if child then
            let? c := intermediate_time md (d_ports parent) pport in
            Ok (Some (sat_sub c tpt / 2))
          else Ok (Some (sat_sub ppt accum))
        | LineEnd => Ok (Some 0)
        end
      end
    end
  end.

Fixpoint replace_dev (ds : list dev) (idx : N) (f : dev -> dev) : list dev :=
  match ds with
  | [] => []
  | d :: r => if d_idx d =? idx then f d :: r else d :: replace_dev r idx f
  end.

(* the loop of assign_parent_relationships: [done] = devices before, [todo] = rest *)
Fixpoint assign_loop (md : mode) (done todo : list dev) (accum : N) : res terr (list dev) :=
  match todo with
  | [] => Ok done
  | sd :: rest =>
    if (length (active (d_ports sd)) =? 0)%nat then Err TTopology else
    let? par := find_parent done in
    let sd1 := {| d_idx := d_idx sd; d_ports := d_ports sd; d_dc := d_dc sd; d_parent := par; d_delay := d_delay sd |} in
    let? done1 :=
      match par with
      | None => Ok done
      | Some pi =>
        match find_dev done pi with
        | None => Panic 64
        | Some parent =>
          if d_idx sd =? 0 then Err TTopology
          else
            let? np := assign_port (d_ports parent) (d_idx sd) in
            match np with
            | None => Err TTopology      (* no free ports on parent *)
            | Some ps' => Ok (replace_dev done pi (fun p => {| d_idx := d_idx p; d_ports := ps'; d_dc := d_dc p;
                                                               d_parent := d_parent p; d_delay := d_delay p |}))
            end
        end
      end in
    if d_dc sd then
      let? _ := (let? _ := topology (d_ports sd1) in Ok tt) in     (* debug_print_ports: topology() *)
      let? add := offsets md sd1 done1 accum in
      match add with
      | None => assign_loop md (done1 ++ [sd1]) rest accum
      | Some a =>
        let accum' := sat_add accum a in
        assign_loop md (done1 ++ [{| d_idx := d_idx sd1; d_ports := d_ports sd1; d_dc := true; d_parent := par; d_delay := accum' |}]) rest accum'
      end
    else assign_loop md (done1 ++ [sd1]) rest accum
  end.

Definition assign (md : mode) (ds : list dev) : res terr (list dev) := assign_loop md [] ds 0.

(* build the records the hook builds: index = position *)
Definition mk_dev (i : nat) (act : list bool) (times : list N) (dc : bool) : dev :=
  {| d_idx := N.of_nat i;
     d_ports := map (fun k => {| pa := nth k act false; pt := nth k times 0; pdown := None |}) (seq 0 4);
     d_dc := dc; d_parent := None; d_delay := 0 |}.

Fixpoint mk_devs (i : nat) (l : list (list bool * list N * bool)) : list dev :=
  match l with
  | [] => []
  | (a, t, dc) :: r => mk_dev i a t dc :: mk_devs (S i) r
  end.

Definition obs_dev (d : dev) : list Z :=
  (match d_parent d with Some p => Z.of_N p | None => (-1)%Z end) :: Z.of_N (d_delay d) ::
  map (fun p => match pdown p with Some c => Z.of_N c | None => 0%Z end) (d_ports d).

Definition obs_assign (md : mode) (l : list (list bool * list N * bool)) : list Z :=
  match assign md (mk_devs 0 l) with
  | Ok ds => (0 :: concat (map obs_dev ds))%Z
  | Err TTopology => [1]%Z
  | Err TInternal => [2]%Z
  | Panic _ => [-98]%Z
  | Hang => [-99]%Z
  end.

(* write_dc_parameters: -(receive as i64) + now as i64, as compiled *)
Definition to_i64 (x : N) : Z := if x <? 9223372036854775808 then Z.of_N x else (Z.of_N x - 18446744073709551616)%Z.
Definition wrap_i64 (z : Z) : Z := ((z + 9223372036854775808) mod 18446744073709551616 - 9223372036854775808)%Z.

Definition time_offset (md : mode) (receive now : N) : res terr Z :=
  let r := to_i64 receive in
  let neg := (- r)%Z in
  if (9223372036854775807 <? neg)%Z then match md with Debug => Panic 66 | Release =>
       let s := (wrap_i64 neg + to_i64 now)%Z in
       Ok (wrap_i64 s) end
  else
    let s := (neg + to_i64 now)%Z in
    if ((s <? -9223372036854775808) || (9223372036854775807 <? s))%Z
    then match md with Debug => Panic 67 | Release => Ok (wrap_i64 s) end
    else Ok s.
