(* C17, "the parent of every SubDevice is its true upstream neighbour" for EVERY tree.
   The parent search of src/dc.rs looks only at how many ports a device has open and how many of
   its downstream ports have been handed out; this file states that search over those two numbers
   (the refinement from the full model is Dc/TreeRefine.v) and proves it right on the ring order of
   any tree: the ring visits a device, then its subtrees in port order - the preorder. *)
From EC Require Import Base.Prelude.
Local Open Scope N_scope.

Inductive tree := T (children : list tree).

Fixpoint tree_ind' (P : tree -> Prop) (H : forall cs, Forall P cs -> P (T cs)) (t : tree) : P t :=
  match t with
  | T cs => H cs ((fix go (l : list tree) : Forall P l :=
                     match l with [] => Forall_nil P | x :: r => Forall_cons x (tree_ind' P H x) (go r) end) cs)
  end.

Fixpoint size (t : tree) : nat := match t with T cs => S (fold_right (fun x acc => (size x + acc)%nat) 0%nat cs) end.
Definition fsize (cs : list tree) : nat := fold_right (fun x acc => (size x + acc)%nat) 0%nat cs.

(* ring order: (position, number of children) *)
Fixpoint ipre (n : N) (t : tree) : list (N * nat) :=
  match t with
  | T cs => (n, length cs) ::
            (fix go (m : N) (l : list tree) : list (N * nat) :=
               match l with [] => [] | x :: r => ipre m x ++ go (m + N.of_nat (size x)) r end) (n + 1) cs
  end.
Fixpoint ipre_f (m : N) (l : list tree) : list (N * nat) :=
  match l with [] => [] | x :: r => ipre m x ++ ipre_f (m + N.of_nat (size x)) r end.

(* the true parents, in ring order *)
Fixpoint tpar (n : N) (par : option N) (t : tree) : list (option N) :=
  match t with
  | T cs => par ::
            (fix go (m : N) (l : list tree) : list (option N) :=
               match l with [] => [] | x :: r => tpar m (Some n) x ++ go (m + N.of_nat (size x)) r end) (n + 1) cs
  end.
Fixpoint tpar_f (p : N) (m : N) (l : list tree) : list (option N) :=
  match l with [] => [] | x :: r => tpar m (Some p) x ++ tpar_f p (m + N.of_nat (size x)) r end.

(* ---------- the search over (children, handed out) ---------- *)
Record ent := { e_idx : N; e_c : nat; e_a : nat }.

Definition junction_free (e : ent) : bool := (2 <=? e_c e)%nat && (e_a e <? e_c e)%nat.

Definition apick (st : list ent) : option (option N) :=
  match rev st with
  | [] => Some None
  | p :: before =>
    if (1 <=? e_c p)%nat then Some (Some (e_idx p))
    else match find junction_free before with Some q => Some (Some (e_idx q)) | None => None end
  end.

Fixpoint abump (st : list ent) (i : N) : list ent :=
  match st with
  | [] => []
  | e :: r => if e_idx e =? i then {| e_idx := e_idx e; e_c := e_c e; e_a := S (e_a e) |} :: r else e :: abump r i
  end.

Definition abump' (st : list ent) (par : option N) : list ent := match par with Some i => abump st i | None => st end.

Fixpoint arun (st : list ent) (l : list (N * nat)) : option (list ent * list (option N)) :=
  match l with
  | [] => Some (st, [])
  | (idx, c) :: r =>
    match apick st with
    | None => None
    | Some par =>
      match arun (abump' st par ++ [{| e_idx := idx; e_c := c; e_a := 0 |}]) r with
      | Some (st', ps) => Some (st', par :: ps)
      | None => None
      end
    end
  end.

(* a finished subtree: every device has handed out all its downstream ports *)
Fixpoint fulls (n : N) (t : tree) : list ent :=
  match t with
  | T cs => {| e_idx := n; e_c := length cs; e_a := length cs |} ::
            (fix go (m : N) (l : list tree) : list ent :=
               match l with [] => [] | x :: r => fulls m x ++ go (m + N.of_nat (size x)) r end) (n + 1) cs
  end.
Fixpoint fulls_f (m : N) (l : list tree) : list ent :=
  match l with [] => [] | x :: r => fulls m x ++ fulls_f (m + N.of_nat (size x)) r end.
