(* C17: on the devices of a tree the assignment does not end in the topology error either:
   together with Dc/TreeRefine.v, every tree gets its true parents. *)
From EC Require Import Base.Prelude Base.Bytes Base.BytesProofs Dc.Topo Dc.TopoProofs Dc.Tree Dc.TreeProofs Dc.TreeRefine.
Local Open Scope N_scope.

(* ---------- next_assignable_port finds any open port that has not been handed out ---------- *)
(* the active ports of a 4-port device are a sub-list of [0;1;2;3]; cycling over them from behind the
   entry port and looking at four of them visits every one *)
Definition masks : list (list bool) :=
  flat_map (fun a => flat_map (fun b => flat_map (fun c => map (fun d => [a; b; c; d]) [false; true]) [false; true]) [false; true]) [false; true].
Definition act_of (m : list bool) : list nat := filter (fun i => nth i m false) (seq 0 4).

Lemma cyc_cover_sweep : forallb (fun m => forallb (fun e =>
    forallb (fun i => existsb (Nat.eqb i) (cyc_take (act_of m) (act_of m) (S e) 4 40)) (act_of m)) (seq 0 4)) masks = true.
Proof. vm_compute. reflexivity. Qed.

Lemma active_mask ps : length ps = 4%nat -> active ps = act_of (map pa ps).
Proof.
  intros L. destruct ps as [|p0 [|p1 [|p2 [|p3 [|p4 r]]]]]; try discriminate.
  unfold active, act_of. cbn [active_go map seq filter nth].
  destruct (pa p0), (pa p1), (pa p2), (pa p3); reflexivity.
Qed.

Lemma mask_in ps : length ps = 4%nat -> In (map pa ps) masks.
Proof.
  intros L. destruct ps as [|p0 [|p1 [|p2 [|p3 [|p4 r]]]]]; try discriminate.
  cbn [map]. unfold masks. destruct (pa p0), (pa p1), (pa p2), (pa p3); cbn; tauto.
Qed.

Lemma cyc_cover ps e i : length ps = 4%nat -> (e < 4)%nat -> In i (active ps) ->
  In i (cyc_take (active ps) (active ps) (S e) 4 40).
Proof.
  intros L E I. rewrite (active_mask ps L) in *. pose proof cyc_cover_sweep as S.
  rewrite forallb_forall in S. specialize (S _ (mask_in ps L)).
  rewrite forallb_forall in S. specialize (S e ltac:(apply in_seq; lia)).
  rewrite forallb_forall in S. specialize (S i I).
  apply existsb_exists in S as (x & Hx & Ex). apply Nat.eqb_eq in Ex. subst x. exact Hx.
Qed.

Lemma entry_lt ps e : entry_port ps = Ok e -> (e < length ps)%nat.
Proof.
  unfold entry_port. intros H. destruct (min_time_idx ps (active ps) None) as [i|] eqn:M; [|discriminate]. inversion H; subst i.
  assert (G : forall idxs b r, (forall x, In x idxs -> In x (active ps)) -> (forall x, b = Some x -> In x (active ps)) ->
              min_time_idx ps idxs b = Some r -> In r (active ps)).
  { induction idxs as [|i r0 IH]; intros b r Hi Hb Hm; cbn [min_time_idx] in Hm; [apply Hb; exact Hm|].
    destruct b as [b0|].
    - destruct (pt (pnth ps i) <? pt (pnth ps b0)); eapply IH; try exact Hm; try (intros x Hx; apply Hi; right; exact Hx).
      + intros x Hx. inversion Hx; subst. apply Hi. left. reflexivity.
      + exact Hb.
    - eapply IH; [| |exact Hm]; [intros x Hx; apply Hi; right; exact Hx|]. intros x Hx. inversion Hx; subst. apply Hi. left. reflexivity. }
  apply active_lt. eapply G; [| |exact M]; [auto|discriminate].
Qed.

Lemma assign_port_succeeds ps c : length ps = 4%nat -> (assigned ps < length (active ps))%nat ->
  exists ps', assign_port ps c = Ok (Some ps').
Proof.
  intros L A. unfold assign_port.
  assert (A0 : (0 < length (active ps))%nat) by lia.
  destruct (entry_port_fin ps A0) as (e & E). rewrite E. cbn [rbind].
  pose proof (entry_lt ps e E) as El. rewrite L in El.
  (* some active port is not handed out *)
  assert (Ex : exists i, In i (active ps) /\ is_down ps i = false).
  { unfold assigned in A. clear -A. induction (active ps) as [|x r IH]; cbn [filter length] in A; [lia|].
    destruct (is_down ps x) eqn:D.
    - cbn [length] in A. destruct IH as (i & Hi & Di); [lia|]. exists i. split; [right; exact Hi|exact Di].
    - exists x. split; [left; reflexivity|exact D]. }
  destruct Ex as (i & Hi & Di).
  unfold next_assignable.
  destruct (find (fun i0 => match pdown (pnth ps i0) with None => true | Some _ => false end)
                 (cyc_take (active ps) (active ps) (S e) 4 40)) as [k|] eqn:F; [eexists; reflexivity|].
  exfalso. pose proof (find_none _ _ F i (cyc_cover ps e i L El Hi)) as X. cbv beta in X. unfold is_down in Di.
  destruct (pdown (pnth ps i)); [discriminate Di|discriminate X].
Qed.

(* ---------- apick is find_parent (converse of TreeRefine.find_parent_apick) ---------- *)
Lemma apick_find_parent ds par : Forall okdev ds -> apick (map abs_dev ds) = Some par -> find_parent ds = Ok par.
Proof.
  intros OK. unfold find_parent, apick. rewrite <- map_rev.
  assert (OKr : Forall okdev (rev ds)) by (apply Forall_rev; exact OK).
  destruct (rev ds) as [|p before]; cbn [map].
  - intros H. inversion H. reflexivity.
  - inversion OKr as [|? ? [[Lp _] Ap] OKb]; subst.
    destruct (topology_fin (d_ports p) ltac:(lia) Ap) as (t & T). rewrite T. cbn [rbind].
    assert (G : forall l par0, Forall okdev l ->
      match find junction_free (map abs_dev l) with Some q => Some (Some (e_idx q)) | None => None end = Some par0 ->
      (fix go (l : list dev) : res terr (option N) :=
            match l with
            | [] => Err TTopology
            | q :: r => let? tq := topology (d_ports q) in
                        if is_junction tq && has_free_port (d_ports q) then Ok (Some (d_idx q)) else go r
            end) l = Ok par0).
    { induction l as [|q r IH]; intros par0 Fl G0; [discriminate|].
      inversion Fl as [|? ? [[Lq _] Aq] Fr]; subst.
      destruct (topology_fin (d_ports q) ltac:(lia) Aq) as (tq & Tq). rewrite Tq. cbn [rbind].
      cbn [map find] in G0. rewrite <- (junction_free_abs q tq Tq) in G0.
      destruct (is_junction tq && has_free_port (d_ports q)); [inversion G0; reflexivity|apply IH; assumption]. }
    unfold abs_dev at 1, kids. cbn [e_c e_idx]. unfold topology in T.
    destruct (length (active (d_ports p))) as [|[|[|[|[|k]]]]]; inversion T; subst t; cbn [Nat.sub Nat.leb]; intros H.
    + apply G; assumption.
    + inversion H. reflexivity.
    + inversion H. reflexivity.
    + inversion H. reflexivity.
Qed.

(* whom find_parent names: the device before (if it is not a line end) or a junction with room *)
Lemma find_parent_witness ds pi : find_parent ds = Ok (Some pi) ->
  exists q, In q ds /\ d_idx q = pi /\
    ((exists l, ds = l ++ [q]) /\ (2 <= length (active (d_ports q)))%nat \/ has_free_port (d_ports q) = true).
Proof.
  unfold find_parent. destruct (rev ds) as [|p before] eqn:E; [discriminate|].
  assert (Dp : ds = rev before ++ [p]) by (rewrite <- (rev_involutive ds), E; reflexivity).
  intros H. apply rbind_ok in H as (t & T & H).
  assert (G : forall l,
      (fix go (l : list dev) : res terr (option N) :=
            match l with
            | [] => Err TTopology
            | q :: r => let? tq := topology (d_ports q) in
                        if is_junction tq && has_free_port (d_ports q) then Ok (Some (d_idx q)) else go r
            end) l = Ok (Some pi) -> exists q, In q l /\ d_idx q = pi /\ has_free_port (d_ports q) = true).
  { induction l as [|q r IH]; intros G0; [discriminate|]. apply rbind_ok in G0 as (tq & Tq & G0).
    destruct (is_junction tq && has_free_port (d_ports q)) eqn:J.
    - inversion G0; subst. apply andb_true_iff in J as [_ J]. exists q. repeat split; auto. left; reflexivity.
    - destruct (IH G0) as (q' & I' & D' & F'). exists q'. repeat split; auto. right; exact I'. }
  assert (Pl : t <> LineEnd -> (2 <= length (active (d_ports p)))%nat).
  { intros NL. unfold topology in T. destruct (length (active (d_ports p))) as [|[|k]]; try discriminate; [inversion T; congruence|lia]. }
  destruct t.
  - destruct (G before H) as (q & Iq & Dq & Fq). exists q. split; [|split; [exact Dq|right; exact Fq]].
    rewrite Dp. apply in_or_app. left. apply in_rev. rewrite rev_involutive. exact Iq.
  - injection H as <-. exists p. split; [rewrite Dp; apply in_or_app; right; left; reflexivity|]. split; [reflexivity|]. left. split; [exists (rev before); exact Dp|apply Pl; discriminate].
  - injection H as <-. exists p. split; [rewrite Dp; apply in_or_app; right; left; reflexivity|]. split; [reflexivity|]. left. split; [exists (rev before); exact Dp|apply Pl; discriminate].
  - injection H as <-. exists p. split; [rewrite Dp; apply in_or_app; right; left; reflexivity|]. split; [reflexivity|]. left. split; [exists (rev before); exact Dp|apply Pl; discriminate].
Qed.

Lemma find_dev_unique ds q : NoDup (map d_idx ds) -> In q ds -> find_dev ds (d_idx q) = Some q.
Proof.
  unfold find_dev. induction ds as [|d r IH]; intros ND I; [contradiction|]. cbn [map] in ND. inversion ND as [|? ? N1 N2]; subst.
  cbn [find]. destruct I as [->|I]; [rewrite N.eqb_refl; reflexivity|].
  destruct (d_idx d =? d_idx q) eqn:E; [|apply IH; assumption].
  apply N.eqb_eq in E. exfalso. apply N1. rewrite E. apply in_map. exact I.
Qed.

(* ---------- the delay computation ends with a value ---------- *)
Lemma offsets_ok md sd parents accum : okdev sd -> Forall okdev parents ->
  (forall pi, d_parent sd = Some pi -> forall parent, find_dev parents pi = Some parent ->
     exists i, port_assigned_to (d_ports parent) (d_idx sd) = Some i) ->
  exists add, offsets md sd parents accum = Ok add.
Proof.
  intros OKs OK PA. pose proof (offsets_fin md sd parents accum OKs OK PA) as F.
  destruct (offsets md sd parents accum) as [add|e|s|] eqn:O; try contradiction; [eexists; reflexivity|].
  exfalso. destruct OKs as [[Ls Fs] As]. unfold offsets in O. destruct (d_parent sd) as [pi|]; [|discriminate].
  destruct (find_dev parents pi) as [parent|] eqn:FD; [|discriminate].
  destruct (PA pi eq_refl parent FD) as (pp & PP). rewrite PP in O.
  assert (OKp : okdev parent). { rewrite Forall_forall in OK. apply OK. eapply find_dev_in. exact FD. }
  destruct OKp as [[Lp Fp] Ap].
  destruct (entry_port_fin _ As) as (es & ES). rewrite ES in O. cbn [rbind] in O.
  destruct (topology_fin (d_ports parent) ltac:(lia) Ap) as (t & T). rewrite T in O. cbn [rbind] in O.
  unfold is_child_of in O. try rewrite T in O. cbn [rbind] in O.
  destruct t; try discriminate.
  - match type of O with (if ?c then _ else _) = _ => destruct c end; [|discriminate].
    unfold prop_time_to in O. destruct (entry_port_fin _ Ap) as (ep & EP). rewrite EP in O. discriminate.
  - match type of O with (if ?c then _ else _) = _ => destruct c end; [|discriminate].
    unfold intermediate_time in O.
    match type of O with (let? c := (if ?x then _ else _) in _) = _ => destruct x end; [destruct md|]; discriminate.
Qed.

(* ---------- bookkeeping of replace_dev ---------- *)
Lemma replace_idx ds pi f : (forall d, d_idx (f d) = d_idx d) -> map d_idx (replace_dev ds pi f) = map d_idx ds.
Proof.
  intros Hf. induction ds as [|d r IH]; [reflexivity|]. cbn [replace_dev]. destruct (d_idx d =? pi); cbn [map]; [rewrite Hf; reflexivity|rewrite IH; reflexivity].
Qed.
Lemma replace_length ds pi f : length (replace_dev ds pi f) = length ds.
Proof. induction ds as [|d r IH]; [reflexivity|]. cbn [replace_dev]. destruct (d_idx d =? pi); cbn [length]; [reflexivity|rewrite IH; reflexivity]. Qed.
Lemma replace_forall (P : dev -> Prop) ds pi f : Forall P ds -> (forall d, In d ds -> d_idx d = pi -> P (f d)) -> Forall P (replace_dev ds pi f).
Proof.
  induction ds as [|d r IH]; intros F H; [constructor|]. inversion F; subst. cbn [replace_dev].
  destruct (d_idx d =? pi) eqn:E.
  - constructor; [apply H; [left; reflexivity|apply N.eqb_eq; exact E]|assumption].
  - constructor; [assumption|]. apply IH; [assumption|]. intros x Hx. apply H. right. exact Hx.
Qed.
Lemma nodup_positions n : NoDup (map N.of_nat (seq 0 n)).
Proof.
  apply NoDup_map_inv with (f := N.to_nat). rewrite map_map. erewrite map_ext; [rewrite map_id; apply seq_NoDup|].
  intros a. cbv beta. lia.
Qed.

(* ---------- the loop on the devices of a tree ---------- *)
Theorem assign_loop_tree_ok md : forall l done accum st' ps,
  Forall okdev done ->
  map d_idx done = map N.of_nat (seq 0 (length done)) ->
  (forall l0 p, done = l0 ++ [p] -> assigned (d_ports p) = 0%nat) ->
  (forall a t dc, In (a, t, dc) l -> Forall (fun x => x < 4294967296) t /\ (1 <= nact a)%nat) ->
  arun (map abs_dev done) (map key (mk_devs (length done) l)) = Some (st', ps) ->
  exists out, assign_loop md done (mk_devs (length done) l) accum = Ok out.
Proof.
  induction l as [|[[a t] dc] r IH]; intros done accum st' ps OK IDX LAST HL RUN.
  - cbn [mk_devs assign_loop]. eexists. reflexivity.
  - set (n := length done) in *. cbn [mk_devs] in *. set (sd := mk_dev n a t dc) in *.
    destruct (HL a t dc ltac:(left; reflexivity)) as [Ht Ha].
    assert (Ls : length (d_ports sd) = 4%nat) by reflexivity.
    assert (Fs : Forall (fun p => pt p < 4294967296) (d_ports sd)).
    { unfold sd, mk_dev. cbn [d_ports]. apply Forall_forall. intros p Hp. apply in_map_iff in Hp as (k & <- & _). cbn [pt].
      destruct (nth_in_or_default k t 0) as [H|H]; [rewrite Forall_forall in Ht; apply Ht; exact H|rewrite H; lia]. }
    assert (As : (0 < length (active (d_ports sd)))%nat) by (unfold sd; rewrite active_mk; lia).
    assert (OKs : okdev sd) by (repeat split; assumption).
    cbn [assign_loop].
    replace (length (active (d_ports sd)) =? 0)%nat with false by (symmetry; apply Nat.eqb_neq; lia).
    cbn [map arun] in RUN. unfold key at 1 in RUN.
    destruct (apick (map abs_dev done)) as [par|] eqn:PK; [|discriminate].
    destruct (arun (abump' (map abs_dev done) par ++ [{| e_idx := d_idx sd; e_c := kids sd; e_a := 0 |}]) (map key (mk_devs (S n) r))) as [[st2 ps2]|] eqn:RUN2; [|discriminate].
    rewrite (apick_find_parent done par OK PK). cbn [rbind].
    (* the hand-out on the parent *)
    assert (Step : exists done1,
      (match par with
       | None => Ok done
       | Some pi =>
         match find_dev done pi with
         | None => Panic 64
         | Some parent =>
           if d_idx sd =? 0 then Err TTopology
           else
             let? np := assign_port (d_ports parent) (d_idx sd) in
             match np with
             | None => Err TTopology
             | Some ps' => Ok (replace_dev done pi (fun p => {| d_idx := d_idx p; d_ports := ps'; d_dc := d_dc p;
                                                                d_parent := d_parent p; d_delay := d_delay p |}))
             end
         end
       end) = Ok done1 /\ Forall okdev done1 /\ map d_idx done1 = map d_idx done /\ length done1 = n /\
       map abs_dev done1 = abump' (map abs_dev done) par /\
       (forall pi, par = Some pi -> forall parent, find_dev done1 pi = Some parent ->
          exists i, port_assigned_to (d_ports parent) (d_idx sd) = Some i)).
    { destruct par as [pi|].
      2:{ exists done. repeat split; auto. discriminate. }
      pose proof (apick_find_parent done (Some pi) OK PK) as FP.
      destruct (find_parent_witness done pi FP) as (q & Iq & Dq & Room).
      assert (ND : NoDup (map d_idx done)) by (rewrite IDX; apply nodup_positions).
      pose proof (find_dev_unique done q ND Iq) as FD. rewrite Dq in FD. rewrite FD.
      assert (Nn : (0 < n)%nat) by (unfold n; destruct done; [contradiction|cbn; lia]).
      replace (d_idx sd =? 0) with false by (symmetry; apply N.eqb_neq; unfold sd; cbn [mk_dev d_idx]; lia).
      assert (OKq : okdev q) by (rewrite Forall_forall in OK; apply OK; exact Iq).
      destruct OKq as [[Lq Fq] Aq].
      assert (RoomN : (assigned (d_ports q) < length (active (d_ports q)))%nat).
      { destruct Room as [[(l0 & D0) K2]|Free].
        - rewrite (LAST l0 q D0). lia.
        - unfold has_free_port in Free. apply Nat.ltb_lt in Free. unfold assigned, is_down. lia. }
      destruct (assign_port_succeeds (d_ports q) (d_idx sd) Lq RoomN) as (ps' & AP). rewrite AP. cbn [rbind].
      destruct (assign_port_spec (d_ports q) (d_idx sd) Aq) as [_ AS].
      destruct (AS ps' AP) as (A1 & A2 & A3 & (i & A4)).
      destruct (assign_port_counts _ _ _ AP) as [C1 C2].
      eexists. split; [reflexivity|]. split; [|split; [|split; [|split]]].
      - apply replace_forall; [exact OK|]. intros d Hd Ed.
        assert (d = q). { pose proof (find_dev_unique done d ND Hd) as X. rewrite Ed, FD in X. congruence. }
        subst d. repeat split; cbn [d_ports]; [congruence|apply A3; exact Fq|rewrite A1; exact Aq].
      - apply replace_idx. reflexivity.
      - apply replace_length.
      - cbn [abump']. apply (replace_abs done pi q ps' FD C1 C2).
      - intros pi' Hp parent' FD'. inversion Hp; subst pi'.
        rewrite (find_dev_replace done pi _ q FD) in FD' by (cbn [d_idx]; exact Dq).
        inversion FD'; subst parent'. cbn [d_ports]. exists i. exact A4. }
    destruct Step as (done1 & E1 & OK1 & IDX1 & LEN1 & ABS1 & PA). rewrite E1. cbn [rbind].
    (* what the loop continues with *)
    assert (Next : forall dflag dly acc', exists out,
      assign_loop md (done1 ++ [{| d_idx := d_idx sd; d_ports := d_ports sd; d_dc := dflag; d_parent := par; d_delay := dly |}])
                  (mk_devs (S n) r) acc' = Ok out).
    { intros dflag dly acc'.
      set (sdx := {| d_idx := d_idx sd; d_ports := d_ports sd; d_dc := dflag; d_parent := par; d_delay := dly |}).
      assert (LN : length (done1 ++ [sdx]) = S n) by (rewrite app_length, LEN1; cbn; lia).
      rewrite <- LN. apply (IH (done1 ++ [sdx]) acc' st2 ps2).
      - apply Forall_app. split; [exact OK1|]. constructor; [repeat split; assumption|constructor].
      - rewrite LN, map_app, IDX1, IDX. fold n. rewrite seq_S, map_app. cbn [map d_idx sdx sd mk_dev Nat.add]. reflexivity.
      - intros l0 p E. apply app_inj_tail in E as [_ <-]. cbn [sdx d_ports]. unfold sd. apply assigned_mk.
      - intros a0 t0 dc0 H0. apply (HL a0 t0 dc0). right. exact H0.
      - rewrite LN, map_app, ABS1. cbn [map]. unfold abs_dev at 2. cbn [sdx d_idx d_ports]. unfold kids at 1. cbn [d_ports].
        fold (kids sd). replace (assigned (d_ports sd)) with 0%nat by (unfold sd; symmetry; apply assigned_mk). exact RUN2. }
    destruct dc.
    + unfold sd at 1. cbn [mk_dev d_dc].
      destruct (topology_fin (d_ports sd) ltac:(lia) As) as (tp & T). cbn [d_ports]. rewrite T. cbn [rbind].
      destruct (offsets_ok md {| d_idx := d_idx sd; d_ports := d_ports sd; d_dc := d_dc sd; d_parent := par; d_delay := d_delay sd |} done1 accum) as (add & O).
      * repeat split; assumption.
      * exact OK1.
      * cbn [d_parent d_idx]. exact PA.
      * rewrite O. cbn [rbind]. destruct add as [x|]; apply Next.
    + unfold sd at 1. cbn [mk_dev d_dc]. apply Next.
Qed.

(* EVERY tree: reported in ring order with children + 1 open ports per device and 32-bit port
   times, whatever those times, the DC capabilities and the build mode - the assignment succeeds and
   records for every device its true upstream neighbour. *)
Theorem tree_assignment md t l :
  map (fun x => nact (fst (fst x))) l = map (fun p => S (snd p)) (ipre 0 t) ->
  (forall a tm dc, In (a, tm, dc) l -> Forall (fun x => x < 4294967296) tm) ->
  exists out, assign md (mk_devs 0 l) = Ok out /\ map d_parent out = tpar 0 None t.
Proof.
  intros Hl Ht.
  assert (K : map key (mk_devs 0 l) = ipre 0 t).
  { apply keys_match; [|exact Hl]. rewrite ipre_idx.
    assert (L : length l = size t).
    { apply (f_equal (@length nat)) in Hl. rewrite !map_length, ipre_length in Hl. exact Hl. }
    rewrite L. apply map_ext. intros j. lia. }
  destruct (assign_loop_tree_ok md l [] 0 (fulls 0 t) (tpar 0 None t)) as (out & O).
  - constructor.
  - reflexivity.
  - intros l0 p E. destruct l0; discriminate.
  - intros a tm dc I. split; [apply (Ht a tm dc I)|].
    assert (X : In (nact a) (map (fun p => S (snd p)) (ipre 0 t))).
    { rewrite <- Hl. apply in_map_iff. exists (a, tm, dc). split; [reflexivity|exact I]. }
    apply in_map_iff in X as (p & <- & _). lia.
  - cbn [map length]. rewrite K. apply tree_parents.
  - exists out. split; [exact O|]. apply (tree_parents_assigned md t l out Hl O).
Qed.
