(* C17, the pure-chain clause as a theorem: for a chain of DC devices wired port 0 -> port 1 with
   symmetric link delays and one forwarding delay, the delay computed for every device is its true
   one-way delay from the first device.  The port times are GENERATED here from the link delays
   (the ground truth) and fed to the model of the code (Dc/Topo.v). *)
From EC Require Import Base.Prelude Base.Bytes Base.BytesProofs Dc.Topo.
Local Open Scope N_scope.

Notation off_port := {| pa := false; pt := 0; pdown := None |}.
Definition ports_pt (A B : N) (d : option N) : list port :=
  [{| pa := true; pt := A; pdown := None |}; off_port; {| pa := true; pt := B; pdown := d |}; off_port].
Definition ports_end (A : N) : list port :=
  [{| pa := true; pt := A; pdown := None |}; off_port; off_port; off_port].

Lemma mk_dev_pt i A B dc : d_ports (mk_dev i [true; false; true; false] [A; 0; B; 0] dc) = ports_pt A B None.
Proof. reflexivity. Qed.
Lemma mk_dev_end i A dc : d_ports (mk_dev i [true; false; false; false] [A; 0; 0; 0] dc) = ports_end A.
Proof. reflexivity. Qed.

Lemma topo_pt A B d : topology (ports_pt A B d) = Ok Passthrough.  Proof. reflexivity. Qed.
Lemma topo_end A : topology (ports_end A) = Ok LineEnd.  Proof. reflexivity. Qed.

Lemma entry_pt A B d : A <= B -> entry_port (ports_pt A B d) = Ok 0%nat.
Proof.
  intros H. unfold entry_port, ports_pt, active. cbn [active_go pa min_time_idx pnth nth pt].
  replace (B <? A) with false by lia. reflexivity.
Qed.
Lemma entry_end A : entry_port (ports_end A) = Ok 0%nat.  Proof. reflexivity. Qed.

Lemma assign_pt A B c : A <= B -> assign_port (ports_pt A B None) c = Ok (Some (ports_pt A B (Some c))).
Proof.
  intros H. unfold assign_port. rewrite (entry_pt A B None H). cbn [rbind]. reflexivity.
Qed.

Lemma assigned_pt A B c : port_assigned_to (ports_pt A B (Some c)) c = Some 2%nat.
Proof.
  unfold port_assigned_to, ports_pt, active. cbn [active_go pa find pnth nth pdown]. rewrite N.eqb_refl. reflexivity.
Qed.

Lemma tpt_pt A B d : total_prop_time (ports_pt A B d) = if 0 <? N.max A B - N.min A B then Some (N.max A B - N.min A B) else None.
Proof. reflexivity. Qed.
Lemma tpt_end A : total_prop_time (ports_end A) = None.
Proof. unfold total_prop_time, ports_end, active. cbn [active_go pa times_of map pnth nth pt span fold_left]. replace (0 <? A - A) with false by lia. reflexivity. Qed.

Lemma child_pt c i A B d dc par dl : is_child_of c {| d_idx := i; d_ports := ports_pt A B d; d_dc := dc; d_parent := par; d_delay := dl |} = Ok false.
Proof. unfold is_child_of. cbn [d_ports]. rewrite topo_pt. reflexivity. Qed.

(* ---------- ground truth: a chain with forwarding delay p in every device and link delays ls ---------- *)
(* the frame is back at the upstream side of a device it reached at time a *)
Fixpoint back (a p : N) (ls : list N) : N :=
  match ls with [] => a + p | l :: r => back (a + p + l) p r + l + p end.

(* arrival times at port 0 *)
Fixpoint arrivals (a p : N) (ls : list N) : list N :=
  a :: match ls with [] => [] | l :: r => arrivals (a + p + l) p r end.

(* what each device reports: open ports and latched port times (ports 0 and 1), all DC capable *)
Fixpoint reps (a p : N) (ls : list N) : list (list bool * list N * bool) :=
  match ls with
  | [] => [([true; false; false; false], [a; 0; 0; 0], true)]
  | l :: r => ([true; false; true; false], [a; 0; back (a + p + l) p r + l; 0], true) :: reps (a + p + l) p r
  end.

Lemma back_ge a p ls : a <= back a p ls.
Proof. revert a. induction ls as [|l r IH]; intros a; cbn [back]; [lia|]. specialize (IH (a + p + l)). lia. Qed.

(* ---------- bookkeeping lemmas over "everything before ++ [the last device]" ---------- *)
Definition mkd (i : N) (ps : list port) (par : option N) (dl : N) : dev :=
  {| d_idx := i; d_ports := ps; d_dc := true; d_parent := par; d_delay := dl |}.

Lemma find_dev_last pre d : (forall x, In x pre -> d_idx x <> d_idx d) -> find_dev (pre ++ [d]) (d_idx d) = Some d.
Proof.
  unfold find_dev. induction pre as [|x r IH]; intros H; cbn [app find].
  - rewrite N.eqb_refl. reflexivity.
  - assert (d_idx x =? d_idx d = false) by (apply N.eqb_neq; apply H; left; reflexivity). rewrite H0.
    apply IH. intros y Hy. apply H. right; exact Hy.
Qed.

Lemma replace_dev_last pre d f : (forall x, In x pre -> d_idx x <> d_idx d) ->
  replace_dev (pre ++ [d]) (d_idx d) f = pre ++ [f d].
Proof.
  induction pre as [|x r IH]; intros H; cbn [app replace_dev].
  - rewrite N.eqb_refl. reflexivity.
  - assert (d_idx x =? d_idx d = false) by (apply N.eqb_neq; apply H; left; reflexivity). rewrite H0.
    f_equal. apply IH. intros y Hy. apply H. right; exact Hy.
Qed.

Lemma find_parent_last pre i A B par dl :
  find_parent (pre ++ [mkd i (ports_pt A B None) par dl]) = Ok (Some i).
Proof. unfold find_parent. rewrite rev_app_distr. cbn [rev app]. cbn [d_ports mkd]. rewrite topo_pt. reflexivity. Qed.

(* ---------- one iteration: the next device of the chain, behind a pass-through device ---------- *)
Section Step.
  Variable md : mode.
  Variables (pre : list dev) (i : N) (A B : N) (par : option N) (dl : N).
  Let last := mkd i (ports_pt A B None) par dl.
  Hypothesis FRESH : forall x, In x pre -> d_idx x <> i.
  Hypothesis AB : A < B.

  Lemma step_pt j A' B' rest accum : j <> 0 -> j <> i -> A' <= B' -> B' - A' <= B - A ->
    accum + (B - A - (B' - A')) / 2 <= u32max ->
    assign_loop md (pre ++ [last]) ({| d_idx := j; d_ports := ports_pt A' B' None; d_dc := true; d_parent := None; d_delay := 0 |} :: rest) accum =
    assign_loop md ((pre ++ [mkd i (ports_pt A B (Some j)) par dl]) ++ [mkd j (ports_pt A' B' None) (Some i) (accum + (B - A - (B' - A')) / 2)])
                rest (accum + (B - A - (B' - A')) / 2).
  Proof using FRESH AB.
    intros J0 Ji AB' Le Sat. cbn [assign_loop d_ports d_idx d_dc d_delay].
    replace (length (active (ports_pt A' B' None)) =? 0)%nat with false by reflexivity.
    subst last. rewrite find_parent_last. cbn [rbind].
    assert (Fd : find_dev (pre ++ [mkd i (ports_pt A B None) par dl]) i = Some (mkd i (ports_pt A B None) par dl)).
    { apply (find_dev_last pre (mkd i (ports_pt A B None) par dl)). exact FRESH. }
    rewrite Fd. replace (j =? 0) with false by (symmetry; apply N.eqb_neq; exact J0).
    cbn [d_ports mkd]. rewrite assign_pt by lia. cbn [rbind].
    rewrite (replace_dev_last pre (mkd i (ports_pt A B None) par dl)) by exact FRESH. cbn [mkd d_idx d_ports d_dc d_parent d_delay].
    rewrite topo_pt. cbn [rbind].
    (* offsets *)
    unfold offsets. cbn [d_parent d_idx d_ports].
    assert (Fd2 : find_dev (pre ++ [{| d_idx := i; d_ports := ports_pt A B (Some j); d_dc := true; d_parent := par; d_delay := dl |}]) i =
                  Some {| d_idx := i; d_ports := ports_pt A B (Some j); d_dc := true; d_parent := par; d_delay := dl |}).
    { apply (find_dev_last pre {| d_idx := i; d_ports := ports_pt A B (Some j); d_dc := true; d_parent := par; d_delay := dl |}). exact FRESH. }
    rewrite Fd2. cbn [d_ports]. rewrite assigned_pt. rewrite entry_pt by exact AB'. cbn [rbind]. rewrite topo_pt. cbn [rbind].
    rewrite child_pt. cbn [rbind]. rewrite !tpt_pt.
    replace (N.max A B - N.min A B) with (B - A) by lia. replace (N.max A' B' - N.min A' B') with (B' - A') by lia.
    replace (0 <? B - A) with true by lia.
    assert (Tp : match (if 0 <? B' - A' then Some (B' - A') else None) with Some x => x | None => 0 end = B' - A').
    { destruct (0 <? B' - A') eqn:E; [reflexivity|lia]. }
    rewrite Tp. unfold sat_sub, sat_add. replace (N.min (accum + (B - A - (B' - A')) / 2) u32max) with (accum + (B - A - (B' - A')) / 2) by lia.
    unfold mkd. reflexivity.
  Qed.

  Lemma step_end j A' rest accum : j <> 0 -> j <> i ->
    accum + (B - A) / 2 <= u32max ->
    assign_loop md (pre ++ [last]) ({| d_idx := j; d_ports := ports_end A'; d_dc := true; d_parent := None; d_delay := 0 |} :: rest) accum =
    assign_loop md ((pre ++ [mkd i (ports_pt A B (Some j)) par dl]) ++ [mkd j (ports_end A') (Some i) (accum + (B - A) / 2)])
                rest (accum + (B - A) / 2).
  Proof using FRESH AB.
    intros J0 Ji Sat. cbn [assign_loop d_ports d_idx d_dc d_delay].
    replace (length (active (ports_end A')) =? 0)%nat with false by reflexivity.
    subst last. rewrite find_parent_last. cbn [rbind].
    assert (Fd : find_dev (pre ++ [mkd i (ports_pt A B None) par dl]) i = Some (mkd i (ports_pt A B None) par dl)).
    { apply (find_dev_last pre (mkd i (ports_pt A B None) par dl)). exact FRESH. }
    rewrite Fd. replace (j =? 0) with false by (symmetry; apply N.eqb_neq; exact J0).
    cbn [d_ports mkd]. rewrite assign_pt by lia. cbn [rbind].
    rewrite (replace_dev_last pre (mkd i (ports_pt A B None) par dl)) by exact FRESH. cbn [mkd d_idx d_ports d_dc d_parent d_delay].
    rewrite topo_end. cbn [rbind].
    unfold offsets. cbn [d_parent d_idx d_ports].
    assert (Fd2 : find_dev (pre ++ [{| d_idx := i; d_ports := ports_pt A B (Some j); d_dc := true; d_parent := par; d_delay := dl |}]) i =
                  Some {| d_idx := i; d_ports := ports_pt A B (Some j); d_dc := true; d_parent := par; d_delay := dl |}).
    { apply (find_dev_last pre {| d_idx := i; d_ports := ports_pt A B (Some j); d_dc := true; d_parent := par; d_delay := dl |}). exact FRESH. }
    rewrite Fd2. cbn [d_ports]. rewrite assigned_pt. rewrite entry_end. cbn [rbind]. rewrite topo_pt. cbn [rbind].
    rewrite child_pt. cbn [rbind]. rewrite tpt_pt, tpt_end.
    replace (N.max A B - N.min A B) with (B - A) by lia.
    replace (0 <? B - A) with true by lia.
    unfold sat_sub, sat_add. replace (B - A - 0) with (B - A) by lia.
    replace (N.min (accum + (B - A) / 2) u32max) with (accum + (B - A) / 2) by lia.
    unfold mkd. reflexivity.
  Qed.
End Step.

(* ---------- the whole chain ---------- *)
Lemma back_step a p l r : back a p (l :: r) = back (a + p + l) p r + l + p.
Proof. reflexivity. Qed.

Lemma arrivals_ge p : forall ls a x, In x (arrivals a p ls) -> a <= x.
Proof.
  induction ls as [|l r IH]; intros a x H; cbn [arrivals] in H.
  - destruct H as [<-|[]]. lia.
  - destruct H as [<-|H]; [lia|]. apply IH in H. lia.
Qed.

Lemma chain_loop md p : 0 < p -> forall r l A pre k par dl accum,
  Forall (fun x => d_idx x < N.of_nat k) pre ->
  let B := back (A + p + l) p r + l in
  accum + (back (A + p + l) p r - A) <= u32max ->
  exists out,
    assign_loop md (pre ++ [mkd (N.of_nat k) (ports_pt A B None) par dl]) (mk_devs (S k) (reps (A + p + l) p r)) accum = Ok out /\
    map d_delay out = map d_delay pre ++ [dl] ++ map (fun x => accum + (x - A)) (arrivals (A + p + l) p r).
Proof.
  intros Hp. induction r as [|l' r' IH]; intros l A pre k par dl accum Hpre B Hb.
  - (* the next device is the end of the line *)
    subst B. cbn [reps mk_devs back arrivals map].
    change (mk_dev (S k) [true; false; false; false] [A + p + l; 0; 0; 0] true)
      with {| d_idx := N.of_nat (S k); d_ports := ports_end (A + p + l); d_dc := true; d_parent := None; d_delay := 0 |}.
    cbn [back] in Hb.
    assert (D : (A + p + l + p + l - A) / 2 = p + l).
    { replace (A + p + l + p + l - A) with (2 * (p + l)) by lia. rewrite N.mul_comm, N.div_mul; lia. }
    rewrite step_end.
    + cbn [assign_loop]. eexists. split; [reflexivity|].
      rewrite !map_app. cbn [map d_delay mkd]. rewrite D.
      replace (A + p + l - A) with (p + l) by lia. rewrite <- app_assoc. reflexivity.
    + intros x Hx. rewrite Forall_forall in Hpre. specialize (Hpre x Hx). lia.
    + lia.
    + lia.
    + lia.
    + rewrite D. lia.
  - (* the next device passes the frame on *)
    subst B. cbn [reps mk_devs arrivals map].
    set (A' := A + p + l) in *. set (B' := back (A' + p + l') p r' + l').
    change (mk_dev (S k) [true; false; true; false] [A'; 0; B'; 0] true)
      with {| d_idx := N.of_nat (S k); d_ports := ports_pt A' B' None; d_dc := true; d_parent := None; d_delay := 0 |}.
    rewrite back_step in *. fold B' in Hb |- *.
    pose proof (back_ge (A' + p + l') p r') as G.
    assert (D : (B' + p + l - A - (B' - A')) / 2 = p + l).
    { replace (B' + p + l - A - (B' - A')) with (2 * (p + l)) by (subst A' B'; lia). rewrite N.mul_comm, N.div_mul; lia. }
    rewrite step_pt.
    + rewrite D.
      destruct (IH l' A' (pre ++ [mkd (N.of_nat k) (ports_pt A (B' + p + l) (Some (N.of_nat (S k)))) par dl]) (S k) (Some (N.of_nat k)) (accum + (p + l)) (accum + (p + l))) as [out [E M]].
      * apply Forall_app. split.
        -- eapply Forall_impl; [|exact Hpre]. intros x Hx. cbn in Hx. lia.
        -- constructor; [cbn; lia|constructor].
      * fold B'. subst A' B'. lia.
      * exists out. split; [exact E|]. rewrite M. rewrite !map_app. cbn [map d_delay mkd]. rewrite <- !app_assoc. cbn [app].
        f_equal. f_equal. f_equal; [subst A'; f_equal; lia|].
        apply map_ext_in. intros x Hx. apply arrivals_ge in Hx. subst A'. lia.
    + intros x Hx. rewrite Forall_forall in Hpre. specialize (Hpre x Hx). lia.
    + subst A' B'. lia.
    + lia.
    + lia.
    + subst B'. lia.
    + subst A' B'. lia.
    + rewrite D. subst A' B'. lia.
Qed.

(* For every chain - any number of devices, any forwarding delay p > 0, any link delays, any start
   time, as long as the times fit 32 bits - the model of assign_parent_relationships succeeds and
   the delay it gives device i is exactly the time the frame needs from the first device to device i *)
Lemma first_step md A B rest :
  assign_loop md [] ({| d_idx := 0; d_ports := ports_pt A B None; d_dc := true; d_parent := None; d_delay := 0 |} :: rest) 0 =
  assign_loop md ([] ++ [mkd 0 (ports_pt A B None) None 0]) rest 0.
Proof. reflexivity. Qed.

Theorem chain_delays_exact md a p ls : 0 < p -> back a p ls <= u32max ->
  exists out, assign md (mk_devs 0 (reps a p ls)) = Ok out /\
    map d_delay out = map (fun x => x - a) (arrivals a p ls).
Proof.
  intros Hp Hb. unfold assign. destruct ls as [|l r].
  - cbn [reps mk_devs arrivals map]. eexists. split; [reflexivity|]. cbn [map d_delay]. rewrite N.sub_diag. reflexivity.
  - cbn [reps mk_devs arrivals map].
    change (mk_dev 0 [true; false; true; false] [a; 0; back (a + p + l) p r + l; 0] true)
      with {| d_idx := 0; d_ports := ports_pt a (back (a + p + l) p r + l) None; d_dc := true; d_parent := None; d_delay := 0 |}.
    rewrite first_step.
    cbn [back] in Hb. pose proof (back_ge (a + p + l) p r) as G.
    destruct (chain_loop md p Hp r l a [] 0%nat None 0 0) as [out [E M]].
    + constructor.
    + lia.
    + exists out. split; [exact E|]. rewrite M. cbn [map app]. rewrite N.sub_diag. f_equal.
Qed.

(* non-vacuity: four devices, 300 ns forwarding delay, links of 50, 120 and 80 ns *)
Example chain_example :
  exists out, assign Debug (mk_devs 0 (reps 1000 300 [50; 120; 80])) = Ok out /\ map d_delay out = [0; 350; 770; 1150].
Proof. eexists. split; vm_compute; reflexivity. Qed.
