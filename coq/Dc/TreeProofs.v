From EC Require Import Base.Prelude Dc.Tree.
Local Open Scope N_scope.

(* ---------- unfolding the nested fixpoints ---------- *)
Lemma ipre_T n cs : ipre n (T cs) = (n, length cs) :: ipre_f (n + 1) cs.
Proof. reflexivity. Qed.
Lemma tpar_T n par cs : tpar n par (T cs) = par :: tpar_f n (n + 1) cs.
Proof.
  cbn [tpar]. f_equal. generalize (n + 1). induction cs as [|x r IH]; intros m; cbn [tpar_f]; [reflexivity|].
  rewrite IH. reflexivity.
Qed.
Lemma fulls_T n cs : fulls n (T cs) = {| e_idx := n; e_c := length cs; e_a := length cs |} :: fulls_f (n + 1) cs.
Proof. reflexivity. Qed.
Lemma size_T cs : size (T cs) = S (fsize cs).
Proof. reflexivity. Qed.

(* ---------- finished subtrees ---------- *)
Lemma fulls_not_free t : forall n, Forall (fun e => junction_free e = false) (fulls n t).
Proof.
  induction t as [cs IH] using tree_ind'. intros n. rewrite fulls_T. constructor.
  - unfold junction_free. cbn [e_c e_a]. rewrite Nat.ltb_irrefl, andb_false_r. reflexivity.
  - generalize (n + 1). induction cs as [|x r IHr]; intros m; cbn [fulls_f]; [constructor|].
    inversion IH as [|? ? Hx Hr]; subst. apply Forall_app. split; [apply Hx|apply IHr; exact Hr].
Qed.

Lemma fulls_bound t : forall n, Forall (fun e => n <= e_idx e < n + N.of_nat (size t)) (fulls n t).
Proof.
  induction t as [cs IH] using tree_ind'. intros n. rewrite fulls_T, size_T. constructor; [cbn [e_idx]; lia|].
  assert (G : forall m, Forall (fun e => m <= e_idx e < m + N.of_nat (fsize cs)) (fulls_f m cs)).
  { induction cs as [|x r IHr]; intros m; cbn [fulls_f fsize fold_right]; [constructor|].
    inversion IH as [|? ? Hx Hr]; subst. apply Forall_app. split.
    - eapply Forall_impl; [|apply Hx]. cbv beta. intros e He. fold (fsize r). lia.
    - eapply Forall_impl; [|apply IHr; exact Hr]. cbv beta. intros e He. fold (fsize r) in *. lia. }
  eapply Forall_impl; [|apply (G (n + 1))]. cbv beta. intros e He. lia.
Qed.

(* the device visited last in a subtree is a line end *)
Lemma fulls_last t : forall n, exists l e, fulls n t = l ++ [e] /\ e_c e = 0%nat.
Proof.
  induction t as [cs IH] using tree_ind'. intros n. rewrite fulls_T.
  destruct cs as [|x r].
  - exists [], {| e_idx := n; e_c := 0; e_a := 0 |}. split; reflexivity.
  - assert (G : forall m y ys, Forall (fun t => forall n, exists l e, fulls n t = l ++ [e] /\ e_c e = 0%nat) (y :: ys) ->
                exists l e, fulls_f m (y :: ys) = l ++ [e] /\ e_c e = 0%nat).
    { intros m y ys. revert m y. induction ys as [|z zs IHz]; intros m y F; inversion F as [|? ? Hy Hys]; subst; cbn [fulls_f].
      - destruct (Hy m) as (l & e & E & C). exists l, e. rewrite app_nil_r. auto.
      - destruct (IHz (m + N.of_nat (size y)) z Hys) as (l & e & E & C).
        exists (fulls m y ++ l), e. cbn [fulls_f] in E. rewrite E, app_assoc. auto. }
    destruct (G (n + 1) x r IH) as (l & e & E & C).
    exists ({| e_idx := n; e_c := length (x :: r); e_a := length (x :: r) |} :: l), e. rewrite E. auto.
Qed.

(* ---------- the search ---------- *)
Lemma find_app_skip {A} (f : A -> bool) l1 l2 : Forall (fun x => f x = false) l1 -> find f (l1 ++ l2) = find f l2.
Proof. induction l1 as [|x r IH]; intros H; [reflexivity|]. inversion H; subst. cbn [app find]. rewrite H2. apply IH. assumption. Qed.

Lemma abump_hit st0 e rest i : Forall (fun x => e_idx x < i) st0 -> e_idx e = i ->
  abump (st0 ++ e :: rest) i = st0 ++ {| e_idx := e_idx e; e_c := e_c e; e_a := S (e_a e) |} :: rest.
Proof.
  intros F E. induction st0 as [|x r IH]; cbn [app abump].
  - rewrite E, N.eqb_refl. reflexivity.
  - inversion F; subst. destruct (e_idx x =? e_idx e) eqn:X; [apply N.eqb_eq in X; lia|]. rewrite IH by assumption. reflexivity.
Qed.

Lemma abump_idx st i : map e_idx (abump st i) = map e_idx st.
Proof. induction st as [|x r IH]; cbn [abump map]; [reflexivity|]. destruct (e_idx x =? i); cbn [map e_idx]; [reflexivity|]. rewrite IH. reflexivity. Qed.

Lemma abump'_bound st par n : Forall (fun e => e_idx e < n) st -> Forall (fun e => e_idx e < n) (abump' st par).
Proof.
  intros H. destruct par as [i|]; [|exact H]. cbn [abump'].
  rewrite Forall_forall in *. intros e He. apply (in_map e_idx) in He. rewrite abump_idx in He.
  apply in_map_iff in He as (e' & <- & He'). apply H. exact He'.
Qed.

Lemma arun_app l1 : forall st l2 st1 p1, arun st l1 = Some (st1, p1) ->
  arun st (l1 ++ l2) = match arun st1 l2 with Some (st2, p2) => Some (st2, p1 ++ p2) | None => None end.
Proof.
  induction l1 as [|[idx c] r IH]; intros st l2 st1 p1 H; cbn [arun app] in *.
  - inversion H; subst. destruct (arun st1 l2) as [[? ?]|]; reflexivity.
  - destruct (apick st) as [par|]; [|discriminate].
    destruct (arun (abump' st par ++ [{| e_idx := idx; e_c := c; e_a := 0 |}]) r) as [[st' ps]|] eqn:E; [|discriminate].
    inversion H; subst. rewrite (IH _ l2 _ _ E). destruct (arun st1 l2) as [[? ?]|]; reflexivity.
Qed.

Definition P (t : tree) : Prop := forall st par n, apick st = Some par -> Forall (fun e => e_idx e < n) st ->
  arun st (ipre n t) = Some (abump' st par ++ fulls n t, tpar n par t).

Definition rent (n : N) (c j : nat) : ent := {| e_idx := n; e_c := c; e_a := j |}.

(* the device at position n with c children, j of them finished (their entries are F), is about to
   get its remaining children cs *)
Lemma forest cs : Forall P cs -> forall st0 n c j F m,
  Forall (fun e => e_idx e < n) st0 ->
  Forall (fun e => junction_free e = false) F -> Forall (fun e => e_idx e < m) F -> n < m ->
  (j = 0%nat -> F = []) -> ((0 < j)%nat -> exists l e, F = l ++ [e] /\ e_c e = 0%nat) ->
  (j + length cs <= c)%nat ->
  arun (st0 ++ [rent n c j] ++ F) (ipre_f m cs)
  = Some (st0 ++ [rent n c (j + length cs)] ++ F ++ fulls_f m cs, tpar_f n m cs).
Proof.
  induction cs as [|x r IH]; intros HP st0 n c j F m B0 NF BF NM J0 J1 JC.
  - cbn [ipre_f arun fulls_f tpar_f length]. rewrite Nat.add_0_r, app_nil_r. reflexivity.
  - inversion HP as [|? ? Px Pr]; subst. cbn [ipre_f fulls_f tpar_f length] in *.
    set (S0 := st0 ++ [rent n c j] ++ F).
    assert (Pick : apick S0 = Some (Some n)).
    { unfold apick, S0. destruct j as [|j'].
      - rewrite (J0 eq_refl). cbn [app]. rewrite rev_app_distr. cbn [rev app].
        replace (1 <=? e_c (rent n c 0))%nat with true; [reflexivity|]. symmetry. apply Nat.leb_le. cbn. lia.
      - destruct (J1 ltac:(lia)) as (l & e & -> & Ce).
        rewrite !rev_app_distr. cbn [rev app]. rewrite Ce. cbn [Nat.leb].
        rewrite <- app_assoc. rewrite find_app_skip.
        + cbn [app find]. unfold junction_free at 1. cbn [rent e_c e_a].
          replace (2 <=? c)%nat with true by (symmetry; apply Nat.leb_le; lia).
          replace (S j' <? c)%nat with true by (symmetry; apply Nat.ltb_lt; lia). reflexivity.
        + apply Forall_rev. apply Forall_app in NF as [NF _]. exact NF. }
    assert (BS : Forall (fun e => e_idx e < m) S0).
    { unfold S0. apply Forall_app. split; [eapply Forall_impl; [|exact B0]; cbv beta; intros; lia|].
      apply Forall_app. split; [constructor; [cbn; lia|constructor]|exact BF]. }
    rewrite (arun_app _ _ _ _ _ (Px S0 (Some n) m Pick BS)).
    cbn [abump']. unfold S0. cbn [app]. rewrite (abump_hit st0 (rent n c j) F n B0 eq_refl).
    cbn [rent e_idx e_c e_a]. fold (rent n c (S j)).
    replace (st0 ++ rent n c (S j) :: F) with (st0 ++ [rent n c (S j)] ++ F) by reflexivity.
    rewrite <- !app_assoc. cbn [app].
    replace (st0 ++ rent n c (S j) :: F ++ fulls m x) with (st0 ++ [rent n c (S j)] ++ (F ++ fulls m x)) by reflexivity.
    rewrite (IH Pr st0 n c (S j) (F ++ fulls m x) (m + N.of_nat (size x))); try assumption.
    + replace (S j + length r)%nat with (j + S (length r))%nat by lia. rewrite <- !app_assoc. reflexivity.
    + apply Forall_app. split; [exact NF|apply fulls_not_free].
    + apply Forall_app. split; [eapply Forall_impl; [|exact BF]; cbv beta; intros; lia|].
      eapply Forall_impl; [|apply fulls_bound]. cbv beta. intros e He. lia.
    + lia.
    + discriminate.
    + intros _. destruct (fulls_last x m) as (l & e & E & Ce). exists (F ++ l), e. rewrite E, app_assoc. auto.
    + lia.
Qed.

Theorem subtree t : P t.
Proof.
  induction t as [cs IH] using tree_ind'. intros st par n Pick B.
  rewrite ipre_T, tpar_T, fulls_T. cbn [arun]. rewrite Pick.
  pose proof (forest cs IH (abump' st par) n (length cs) 0 [] (n + 1)) as F.
  cbn [app] in F. unfold rent in F. rewrite F; auto.
  - apply abump'_bound. exact B.
  - lia.
  - intros X; lia.
Qed.

(* The whole network: the search run over the ring order of ANY tree gives every device its true
   parent, never fails, and leaves every device with all its downstream ports handed out. *)
Theorem tree_parents t : arun [] (ipre 0 t) = Some (fulls 0 t, tpar 0 None t).
Proof. apply (subtree t [] None 0); [reflexivity|constructor]. Qed.
