From EC Require Import Base.Prelude Base.Bytes Base.BytesProofs Cycle.Cycle Cycle.CycleProofs Dc.Sync.
Local Open Scope N_scope.

(* ---------- the start time ---------- *)

Theorem start_time_spec md time delay period : 1 <= period -> time + delay < two64 ->
  exists st, start_time md time delay period = Ok st /\
    (exists k, st = k * period) /\ time + delay < st + period /\ st <= time + delay /\ st < two64.
Proof.
  intros P S. unfold start_time.
  replace (two64 <=? time + delay) with false by (symmetry; apply N.leb_gt; exact S).
  replace (period =? 0) with false by (symmetry; apply N.eqb_neq; lia).
  exists ((time + delay) / period * period). split; [reflexivity|].
  pose proof (N.div_mod (time + delay) period ltac:(lia)) as DM.
  pose proof (N.mod_lt (time + delay) period ltac:(lia)) as ML.
  split; [eexists; reflexivity|]. nia.
Qed.

Theorem start_time_overflow md time delay period : two64 <= time + delay ->
  start_time md time delay period = Err EConv.
Proof.
  intros S. unfold start_time. replace (two64 <=? time + delay) with true by (symmetry; apply N.leb_le; exact S).
  reflexivity.
Qed.

(* ---------- what one device is sent ---------- *)

Definition flags_of (s : sync) : N := match s with SSync01 _ => 7 | _ => 3 end.

Definition dev_writes (st period : N) (d : sdev) : list wop :=
  let a := sd_addr d in
  [WWrite a reg_sync_active [0]; WWrite a reg_start_time (le_bytes 8 st);
   WWrite a reg_sync0_cycle (le_bytes 8 period)] ++
  (match sd_sync d with SSync01 p1 => [WWrite a reg_sync1_cycle (le_bytes 8 p1)] | _ => [] end) ++
  [WWrite a reg_sync_active [flags_of (sd_sync d)]].

Definition sync1_ok (d : sdev) : Prop :=
  match sd_sync d with SSync01 p1 => p1 < two32 | _ => True end.

Lemma wr_true ans : wr true ans = match ans with [] => Err EInternal | _ :: r => Ok r end.
Proof. destruct ans as [|[d w] r]; reflexivity. Qed.

Lemma configure_one_ok md time delay period d answers rest ws :
  configure_one md time delay period d answers = (Ok rest, ws) ->
  exists st, start_time md time delay period = Ok st /\ ws = dev_writes st period d /\ sync1_ok d.
Proof.
  unfold configure_one, dev_writes, sync1_ok. rewrite wr_true.
  destruct answers as [|a0 ans1]; [discriminate|].
  destruct (start_time md time delay period) as [st|e|s|]; try discriminate.
  rewrite wr_true. destruct ans1 as [|a1 ans2]; [discriminate|].
  rewrite wr_true. destruct ans2 as [|a2 ans3]; [discriminate|].
  destruct (sd_sync d) as [| |p1].
  - rewrite wr_true. destruct ans3 as [|a3 ans4]; [discriminate|]. intros H; inversion H; subst.
    exists st. repeat split; reflexivity.
  - rewrite wr_true. destruct ans3 as [|a3 ans4]; [discriminate|]. intros H; inversion H; subst.
    exists st. repeat split; reflexivity.
  - destruct (two32 <=? p1) eqn:E; [discriminate|]. apply N.leb_gt in E.
    rewrite wr_true. destruct ans3 as [|a3 ans4]; [discriminate|].
    rewrite wr_true. destruct ans4 as [|a4 ans5]; [discriminate|]. intros H; inversion H; subst.
    exists st. repeat split; auto.
Qed.

(* every write of configure_one goes to the device itself *)
Definition write_to (a : N) (w : wop) : Prop := match w with WWrite a' _ _ => a' = a | WRead _ _ _ => False end.

Lemma configure_one_addr md time delay period d answers r ws :
  configure_one md time delay period d answers = (r, ws) -> Forall (write_to (sd_addr d)) ws.
Proof.
  unfold configure_one. rewrite wr_true.
  destruct answers as [|a0 ans1]; [intros H; inversion H; subst; repeat constructor|].
  destruct (start_time md time delay period) as [st|e|s|];
    [|intros H; inversion H; subst; repeat constructor..].
  rewrite wr_true. destruct ans1 as [|a1 ans2]; [intros H; inversion H; subst; repeat constructor|].
  rewrite wr_true. destruct ans2 as [|a2 ans3]; [intros H; inversion H; subst; repeat constructor|].
  destruct (sd_sync d) as [| |p1].
  - intros H; inversion H; subst; repeat constructor.
  - intros H; inversion H; subst; repeat constructor.
  - destruct (two32 <=? p1); [intros H; inversion H; subst; repeat constructor|].
    rewrite wr_true. destruct ans3 as [|a3 ans4]; [intros H; inversion H; subst; repeat constructor|].
    intros H; inversion H; subst; repeat constructor.
Qed.

(* never a hang; a panic only from a zero period *)
Lemma configure_one_total md time delay period d answers : 1 <= period ->
  match fst (configure_one md time delay period d answers) with Panic _ | Hang => False | _ => True end.
Proof.
  intros P. unfold configure_one. rewrite wr_true.
  destruct answers as [|a0 ans1]; [exact I|].
  assert (S : match start_time md time delay period with Panic _ | Hang => False | _ => True end).
  { unfold start_time. destruct (two64 <=? time + delay); [exact I|].
    replace (period =? 0) with false by (symmetry; apply N.eqb_neq; lia). exact I. }
  destruct (start_time md time delay period) as [st|e|s|]; try exact I; try contradiction.
  rewrite wr_true. destruct ans1 as [|a1 ans2]; [exact I|].
  rewrite wr_true. destruct ans2 as [|a2 ans3]; [exact I|].
  destruct (sd_sync d) as [| |p1].
  - rewrite wr_true. destruct ans3; exact I.
  - rewrite wr_true. destruct ans3; exact I.
  - destruct (two32 <=? p1); [exact I|].
    rewrite wr_true. destruct ans3 as [|a3 ans4]; [exact I|]. rewrite wr_true. destruct ans4; exact I.
Qed.

(* ---------- the group ---------- *)

Lemma configure_all_ok md time delay period ds : forall answers ws,
  configure_all md time delay period ds answers = (Ok tt, ws) ->
  filter wants_dc ds = [] /\ ws = [] \/
  exists st, start_time md time delay period = Ok st /\
    ws = concat (map (dev_writes st period) (filter wants_dc ds)) /\
    Forall sync1_ok (filter wants_dc ds).
Proof.
  induction ds as [|d r IH]; intros answers ws H; cbn [configure_all] in H.
  - inversion H; subst. left. split; reflexivity.
  - cbn [filter]. destruct (wants_dc d) eqn:W.
    + destruct (configure_one md time delay period d answers) as [res1 ws1] eqn:E1.
      destruct res1 as [rest|e|s|]; try discriminate.
      destruct (configure_all md time delay period r rest) as [res2 ws2] eqn:E2.
      inversion H; subst res2 ws; clear H.
      destruct (configure_one_ok _ _ _ _ _ _ _ _ E1) as (st & S1 & S2 & S3). right. exists st.
      split; [exact S1|]. destruct (IH _ _ E2) as [[F1 F2]|(st' & T1 & T2 & T3)].
      * rewrite F1, F2. cbn [map concat]. subst ws1. rewrite !app_nil_r. split; [reflexivity|].
        constructor; [exact S3|constructor].
      * assert (st' = st) by congruence. subst st'. cbn [map concat]. subst ws1 ws2.
        split; [reflexivity|]. constructor; assumption.
    + exact (IH _ _ H).
Qed.

Lemma configure_all_touch md time delay period ds : forall answers r ws,
  configure_all md time delay period ds answers = (r, ws) ->
  Forall (fun w => exists d, In d ds /\ wants_dc d = true /\ write_to (sd_addr d) w) ws.
Proof.
  induction ds as [|d rr IH]; intros answers r ws H; cbn [configure_all] in H.
  - inversion H; subst. constructor.
  - destruct (wants_dc d) eqn:W.
    + destruct (configure_one md time delay period d answers) as [res1 ws1] eqn:E1.
      pose proof (configure_one_addr _ _ _ _ _ _ _ _ E1) as A1.
      assert (F1 : Forall (fun w => exists d0, In d0 (d :: rr) /\ wants_dc d0 = true /\ write_to (sd_addr d0) w) ws1).
      { eapply Forall_impl; [|exact A1]. intros w Hw. exists d. repeat split; auto. left; reflexivity. }
      destruct res1 as [rest|e|s|]; try (inversion H; subst; exact F1).
      destruct (configure_all md time delay period rr rest) as [res2 ws2] eqn:E2.
      inversion H; subst. apply Forall_app. split; [exact F1|].
      eapply Forall_impl; [|exact (IH _ _ _ E2)]. intros w (d0 & I0 & W0 & A0). exists d0. repeat split; auto.
      right; exact I0.
    + eapply Forall_impl; [|exact (IH _ _ _ H)]. intros w (d0 & I0 & W0 & A0). exists d0. repeat split; auto.
      right; exact I0.
Qed.

Lemma configure_all_total md time delay period ds : 1 <= period -> forall answers,
  match fst (configure_all md time delay period ds answers) with Panic _ | Hang => False | _ => True end.
Proof.
  intros P. induction ds as [|d r IH]; intros answers; cbn [configure_all]; [exact I|].
  destruct (wants_dc d); [|apply IH].
  pose proof (configure_one_total md time delay period d answers P) as T1.
  destruct (configure_one md time delay period d answers) as [res1 ws1]. cbn [fst] in T1.
  destruct res1 as [rest|e|s|]; try exact I; try contradiction.
  specialize (IH rest). destruct (configure_all md time delay period r rest) as [res2 ws2]. exact IH.
Qed.

(* ---------- configure_dc_sync ---------- *)

Theorem configure_no_reference md ds c answers : configure md None ds c answers = (Err ENoRef, []).
Proof. reflexivity. Qed.

Theorem configure_range md ref ds c answers :
  two32 <= d_period c \/ two32 <= d_delay c ->
  (exists e, fst (configure md (Some ref) ds c answers) = Err e) /\
  snd (configure md (Some ref) ds c answers) = [WRead ref reg_system_time 8].
Proof.
  intros R. unfold configure. destruct answers as [|[data wkc] rest]; [split; [eexists|]; reflexivity|].
  destruct (negb (wkc =? 1)); [split; [eexists|]; reflexivity|].
  destruct (two32 <=? d_period c) eqn:E1; [split; [eexists|]; reflexivity|].
  destruct (two32 <=? d_delay c) eqn:E2; [split; [eexists|]; reflexivity|].
  apply N.leb_gt in E1, E2. lia.
Qed.

Theorem configure_touches_only md dcref ds c answers :
  Forall (fun w => match w with
                   | WRead a r l => dcref = Some a /\ r = reg_system_time /\ l = 8
                   | WWrite a _ _ => exists d, In d ds /\ wants_dc d = true /\ sd_addr d = a
                   end) (snd (configure md dcref ds c answers)).
Proof.
  unfold configure. destruct dcref as [ref|]; [|constructor].
  assert (R : Forall (fun w => match w with
                   | WRead a r l => Some ref = Some a /\ r = reg_system_time /\ l = 8
                   | WWrite a _ _ => exists d, In d ds /\ wants_dc d = true /\ sd_addr d = a
                   end) [WRead ref reg_system_time 8]) by (repeat constructor).
  destruct answers as [|[data wkc] rest]; [exact R|].
  destruct (negb (wkc =? 1)); [exact R|].
  destruct (two32 <=? d_period c); [exact R|]. destruct (two32 <=? d_delay c); [exact R|].
  destruct (configure_all md (of_le (firstn 8 data)) (d_delay c) (d_period c) ds rest) as [r ws] eqn:E.
  cbn [snd]. constructor; [repeat split|].
  eapply Forall_impl; [|exact (configure_all_touch _ _ _ _ _ _ _ _ E)].
  intros w (d & I0 & W0 & A0). destruct w as [a r0 l|a r0 dat]; cbn in A0; [contradiction|].
  exists d. repeat split; auto.
Qed.

Theorem configure_ok md dcref ds c answers h ws :
  configure md dcref ds c answers = (Ok h, ws) ->
  exists ref data rest,
    dcref = Some ref /\ answers = (data, 1) :: rest /\
    d_period c < two32 /\ d_delay c < two32 /\
    h = {| h_period := d_period c; h_shift := d_shift c mod two64; h_ref := ref |} /\
    let time := of_le (firstn 8 data) in
    (filter wants_dc ds = [] /\ ws = [WRead ref reg_system_time 8] \/
     exists st, start_time md time (d_delay c) (d_period c) = Ok st /\
       ws = WRead ref reg_system_time 8 :: concat (map (dev_writes st (d_period c)) (filter wants_dc ds)) /\
       Forall sync1_ok (filter wants_dc ds)).
Proof.
  unfold configure. intros H. destruct dcref as [ref|]; [|discriminate].
  destruct answers as [|[data wkc] rest]; [discriminate|].
  destruct (wkc =? 1) eqn:EW; cbn [negb] in H; [|discriminate]. apply N.eqb_eq in EW. subst wkc.
  destruct (two32 <=? d_period c) eqn:E1; [discriminate|].
  destruct (two32 <=? d_delay c) eqn:E2; [discriminate|]. apply N.leb_gt in E1, E2.
  destruct (configure_all md (of_le (firstn 8 data)) (d_delay c) (d_period c) ds rest) as [r ws0] eqn:E.
  destruct r as [[]|e|s|]; try discriminate. inversion H; subst h ws; clear H.
  exists ref, data, rest. repeat split; auto.
  destruct (configure_all_ok _ _ _ _ _ _ _ E) as [[F1 F2]|(st & S1 & S2 & S3)].
  - left. subst ws0. split; [exact F1|reflexivity].
  - right. exists st. subst ws0. repeat split; auto.
Qed.

Theorem configure_total md dcref ds c answers : 1 <= d_period c ->
  match fst (configure md dcref ds c answers) with Panic _ | Hang => False | _ => True end.
Proof.
  intros P. unfold configure. destruct dcref as [ref|]; [|exact I].
  destruct answers as [|[data wkc] rest]; [exact I|].
  destruct (negb (wkc =? 1)); [exact I|].
  destruct (two32 <=? d_period c); [exact I|]. destruct (two32 <=? d_delay c); [exact I|].
  pose proof (configure_all_total md (of_le (firstn 8 data)) (d_delay c) (d_period c) ds P rest) as T.
  destruct (configure_all md (of_le (firstn 8 data)) (d_delay c) (d_period c) ds rest) as [r ws]. cbn [fst] in *.
  destruct r as [[]|e|s|]; auto.
Qed.

(* ---------- the per-cycle arithmetic ---------- *)
Theorem cycle_arith md time period shift :
  1 <= period -> time < two64 -> period + shift < two64 ->
  cycle_info md time period shift = Ok (time mod period, (period - time mod period) + shift) /\
  time mod period < period /\
  shift < (period - time mod period) + shift <= period + shift.
Proof.
  intros P T S. unfold two64 in *. pose proof (N.mod_lt time period ltac:(lia)) as ML.
  unfold cycle_info. replace (period =? 0) with false by (symmetry; apply N.eqb_neq; lia).
  cbv zeta. replace (18446744073709551615 <? period - time mod period + shift) with false
    by (symmetry; apply N.ltb_ge; lia).
  repeat split; lia.
Qed.

(* non-vacuity *)
Example configure_example :
  configure Debug (Some 4096)
    [ {| sd_addr := 4096; sd_dc := true; sd_sync := SSync0 |};
      {| sd_addr := 4097; sd_dc := false; sd_sync := SSync0 |};
      {| sd_addr := 4098; sd_dc := true; sd_sync := SSync01 500 |} ]
    {| d_delay := 100; d_period := 1000; d_shift := 7 |}
    [(le_bytes 8 123456, 1); ([0],1); ([0],1); ([0],1); ([0],1); ([0],1); ([0],1); ([0],1); ([0],1); ([0],1)]
  = (Ok {| h_period := 1000; h_shift := 7; h_ref := 4096 |},
     WRead 4096 reg_system_time 8 ::
     dev_writes 123000 1000 {| sd_addr := 4096; sd_dc := true; sd_sync := SSync0 |} ++
     dev_writes 123000 1000 {| sd_addr := 4098; sd_dc := true; sd_sync := SSync01 500 |}).
Proof. vm_compute. reflexivity. Qed.
