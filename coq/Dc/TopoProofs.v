From EC Require Import Base.Prelude Base.Bytes Base.BytesProofs Dc.Topo.
Local Open Scope N_scope.

Definition fin {A} (r : res terr A) : Prop := match r with Panic _ | Hang => False | _ => True end.

Lemma fin_bind {A B} (r : res terr A) (f : A -> res terr B) :
  fin r -> (forall x, r = Ok x -> fin (f x)) -> fin (rbind r f).
Proof. destruct r as [a|e|s|]; cbn; intros H G; auto. Qed.

Lemma rbind_ok {A B} (r : res terr A) (f : A -> res terr B) y :
  rbind r f = Ok y -> exists x, r = Ok x /\ f x = Ok y.
Proof. destruct r as [a|e|s|]; cbn; intros H; try discriminate. exists a. auto. Qed.

(* ---------- ports ---------- *)
Lemma active_go_bound ps : forall i, Forall (fun k => (i <= k < i + length ps)%nat) (active_go ps i).
Proof.
  induction ps as [|p r IH]; intros i; cbn [active_go]; [constructor|].
  destruct (pa p).
  - constructor; [cbn [length]; lia|]. eapply Forall_impl; [|apply (IH (S i))]. cbn [length]. intros k; lia.
  - eapply Forall_impl; [|apply (IH (S i))]. cbn [length]. intros k; lia.
Qed.

Lemma active_length_le ps : forall i, (length (active_go ps i) <= length ps)%nat.
Proof. induction ps as [|p r IH]; intros i; cbn [active_go length]; [lia|]. destruct (pa p); cbn [length]; specialize (IH (S i)); lia. Qed.

(* a device with at least one open port (and at most four ports) has a topology *)
Lemma topology_fin ps : (length ps <= 4)%nat -> (0 < length (active ps))%nat -> exists t, topology ps = Ok t.
Proof.
  intros L A. unfold topology. pose proof (active_length_le ps 0) as B. unfold active in *.
  destruct (length (active_go ps 0)) as [|[|[|[|[|n]]]]]; try lia; eexists; reflexivity.
Qed.

Lemma min_time_idx_some ps idxs b : exists i, min_time_idx ps idxs (Some b) = Some i.
Proof.
  revert b. induction idxs as [|i r IH]; intros b; cbn [min_time_idx]; [eexists; reflexivity|].
  destruct (pt (pnth ps i) <? pt (pnth ps b)); apply IH.
Qed.

Lemma entry_port_fin ps : (0 < length (active ps))%nat -> exists i, entry_port ps = Ok i.
Proof.
  intros A. unfold entry_port. destruct (active ps) as [|i r]; [cbn in A; lia|]. cbn [min_time_idx].
  destruct (min_time_idx_some ps r i) as (j & E). rewrite E. eexists; reflexivity.
Qed.

(* ---------- every DC delay is the running maximum: delays never decrease ---------- *)
Definition dc_delays (ds : list dev) : list N := map d_delay (filter d_dc ds).

Fixpoint nondecreasing (l : list N) : Prop :=
  match l with
  | [] => True
  | x :: r => match r with [] => True | y :: _ => x <= y end /\ nondecreasing r
  end.

Lemma nondecreasing_snoc l x : nondecreasing l -> Forall (fun y => y <= x) l -> nondecreasing (l ++ [x]).
Proof.
  induction l as [|a r IH]; intros N F; cbn; [auto|].
  inversion F as [|? ? Fa Fr]; subst. destruct N as [N1 N2]. split; [|apply IH; assumption].
  destruct r as [|b r']; cbn; [exact Fa|exact N1].
Qed.

Lemma replace_dev_delays ds idx ps' :
  dc_delays (replace_dev ds idx (fun p => {| d_idx := d_idx p; d_ports := ps'; d_dc := d_dc p; d_parent := d_parent p; d_delay := d_delay p |}))
  = dc_delays ds.
Proof.
  unfold dc_delays. induction ds as [|d r IH]; cbn [replace_dev]; [reflexivity|].
  destruct (d_idx d =? idx).
  - cbn [filter d_dc]. destruct (d_dc d); reflexivity.
  - cbn [filter]. destruct (d_dc d); cbn [map]; rewrite ?IH; fold (dc_delays r) in *; congruence.
Qed.

Lemma sat_add_ge a b : a <= u32max -> a <= sat_add a b.
Proof. unfold sat_add, u32max. intros H. apply N.min_glb; lia. Qed.

Lemma sat_add_le a b : sat_add a b <= u32max.
Proof. unfold sat_add. apply N.le_min_r. Qed.

Lemma find_parent_none ds : find_parent ds = Ok None -> ds = [].
Proof.
  unfold find_parent. destruct (rev ds) as [|p before] eqn:E.
  - intros _. apply (f_equal (@rev dev)) in E. rewrite rev_involutive in E. exact E.
  - intros H. apply rbind_ok in H as (t & _ & H). destruct t; try discriminate.
    exfalso. clear E. revert H. induction before as [|q r IH]; intros H; [discriminate|].
    apply rbind_ok in H as (tq & _ & H). destruct (is_junction tq && has_free_port (d_ports q)); [discriminate|].
    exact (IH H).
Qed.

Lemma find_dev_replace ds idx f d : find_dev ds idx = Some d -> d_idx (f d) = idx ->
  find_dev (replace_dev ds idx f) idx = Some (f d).
Proof.
  unfold find_dev. induction ds as [|x r IH]; cbn [find replace_dev]; [discriminate|].
  intros H E. destruct (d_idx x =? idx) eqn:X.
  - injection H as Hd. subst x. cbn [find]. rewrite E, N.eqb_refl. reflexivity.
  - cbn [find]. rewrite X. apply IH; assumption.
Qed.

Lemma find_dev_idx ds idx d : find_dev ds idx = Some d -> d_idx d = idx.
Proof. unfold find_dev. intros H. apply find_some in H as [_ H]. apply N.eqb_eq in H. exact H. Qed.

Lemma offsets_none md sd parents accum :
  offsets md sd parents accum = Ok None ->
  d_parent sd = None \/ exists pi, d_parent sd = Some pi /\ find_dev parents pi = None.
Proof.
  unfold offsets. destruct (d_parent sd) as [pi|]; [|auto]. intros H. right. exists pi. split; [reflexivity|].
  destruct (find_dev parents pi) as [parent|]; [|reflexivity]. exfalso.
  destruct (port_assigned_to (d_ports parent) (d_idx sd)); [|discriminate].
  apply rbind_ok in H as (? & _ & H). apply rbind_ok in H as (? & _ & H). apply rbind_ok in H as (child & _ & H).
  apply rbind_ok in H as (t & _ & H). destruct t.
  - discriminate.
  - discriminate.
  - destruct child; [apply rbind_ok in H as (? & _ & H)|]; discriminate.
  - destruct child; [apply rbind_ok in H as (? & _ & H)|]; discriminate.
Qed.

Theorem assign_loop_monotone md : forall todo done accum out,
  Forall (fun d => d_delay d = 0) todo ->
  nondecreasing (dc_delays done) -> Forall (fun y => y <= accum) (dc_delays done) -> accum <= u32max ->
  assign_loop md done todo accum = Ok out -> nondecreasing (dc_delays out).
Proof.
  induction todo as [|sd rest IH]; intros done accum out Z ND LE AM H; cbn [assign_loop] in H.
  - inversion H; subst. exact ND.
  - inversion Z as [|? ? Z0 Zr]; subst.
    destruct (length (active (d_ports sd)) =? 0)%nat; [discriminate|].
    apply rbind_ok in H as (par & EP & H).
    apply rbind_ok in H as (done1 & E1 & H).
    assert (D1 : dc_delays done1 = dc_delays done /\
                 (forall pi, par = Some pi -> exists q, find_dev done1 pi = Some q)).
    { destruct par as [pi|]; [|inversion E1; split; [reflexivity|discriminate]].
      destruct (find_dev done pi) as [parent|] eqn:FD; [|discriminate].
      destruct (d_idx sd =? 0); [discriminate|].
      apply rbind_ok in E1 as (np & _ & E1). destruct np as [ps'|]; [|discriminate].
      inversion E1; subst. split; [apply replace_dev_delays|].
      intros pi' Hp. inversion Hp; subst pi'. eexists. apply find_dev_replace; [exact FD|].
      cbn [d_idx]. apply (find_dev_idx _ _ _ FD). }
    destruct D1 as [D1 D2].
    assert (Snoc : forall x dflag, dc_delays (done1 ++ [{| d_idx := d_idx sd; d_ports := d_ports sd; d_dc := dflag; d_parent := par; d_delay := x |}])
                   = dc_delays done ++ (if dflag then [x] else [])).
    { intros x dflag. unfold dc_delays. rewrite filter_app, map_app. cbn [filter d_dc]. fold (dc_delays done1).
      rewrite D1. destruct dflag; reflexivity. }
    destruct (d_dc sd) eqn:DC.
    + apply rbind_ok in H as (u & _ & H). apply rbind_ok in H as (add & EA & H).
      destruct add as [a|].
      * eapply IH; [exact Zr| | | |exact H].
        -- rewrite Snoc. apply nondecreasing_snoc; [exact ND|].
           eapply Forall_impl; [|exact LE]. intros y Hy. cbv beta in *. pose proof (sat_add_ge accum a AM). lia.
        -- rewrite Snoc. apply Forall_app. split.
           ++ eapply Forall_impl; [|exact LE]. intros y Hy. cbv beta in *. pose proof (sat_add_ge accum a AM). lia.
           ++ constructor; [lia|constructor].
        -- apply sat_add_le.
      * (* no delay of its own: only the very first device *)
        assert (done = []).
        { destruct (offsets_none _ _ _ _ EA) as [P0|(pi & P1 & P2)]; cbn [d_parent] in *.
          - subst par. apply find_parent_none. exact EP.
          - destruct (D2 pi P1) as (q & Q). congruence. }
        subst done. eapply IH; [exact Zr| | |exact AM|exact H].
        -- rewrite <- DC. rewrite Snoc. rewrite DC. cbn. auto.
        -- rewrite <- DC. rewrite Snoc. rewrite DC, Z0. cbn. constructor; [lia|constructor].
    + eapply IH; [exact Zr| | |exact AM|exact H].
      * rewrite <- DC at 1. rewrite Snoc, DC, app_nil_r. exact ND.
      * rewrite <- DC at 1. rewrite Snoc, DC, app_nil_r. exact LE.
Qed.

Theorem assign_monotone md l out :
  assign md (mk_devs 0 l) = Ok out -> nondecreasing (dc_delays out).
Proof.
  unfold assign. apply assign_loop_monotone; cbn; auto; [|unfold u32max; lia].
  generalize 0%nat. induction l as [|[[a t] dc] r IH]; intros i; cbn [mk_devs]; constructor; [reflexivity|apply IH].
Qed.

(* ---------- impossible reports give an error, never a panic ---------- *)
Definition shaped (d : dev) : Prop := length (d_ports d) = 4%nat /\ Forall (fun p => pt p < 4294967296) (d_ports d).
Definition okdev (d : dev) : Prop := shaped d /\ (0 < length (active (d_ports d)))%nat.

Lemma active_set_down ps i c : active (set_down ps i c) = active ps.
Proof.
  unfold active, set_down. generalize 0%nat as k. revert i.
  induction ps as [|p r IH]; intros i k; [destruct i; reflexivity|].
  destruct i as [|i]; cbn [upd active_go pa].
  - unfold pnth. cbn [nth pa]. reflexivity.
  - unfold pnth in *. cbn [nth]. rewrite IH. reflexivity.
Qed.

Lemma set_down_shape ps i c : length (set_down ps i c) = length ps /\
  (Forall (fun p => pt p < 4294967296) ps -> Forall (fun p => pt p < 4294967296) (set_down ps i c)).
Proof.
  unfold set_down. split; [apply upd_length|].
  revert i. induction ps as [|p r IH]; intros i F; [destruct i; exact F|].
  inversion F as [|? ? F1 F2]; subst. destruct i as [|i]; cbn [upd].
  - constructor; [unfold pnth; cbn [nth pt]; exact F1|exact F2].
  - constructor; [exact F1|]. unfold pnth in *. cbn [nth]. apply IH. exact F2.
Qed.

Lemma pnth_set_down ps i c : (i < length ps)%nat -> pdown (pnth (set_down ps i c) i) = Some c.
Proof. intros H. unfold set_down, pnth. rewrite nth_upd_eq by exact H. reflexivity. Qed.

Lemma cyc_take_in a : forall fuel cur skip take x, incl cur a -> In x (cyc_take cur a skip take fuel) -> In x a.
Proof.
  induction fuel as [|f IH]; intros cur skip take x I H; cbn [cyc_take] in H; [contradiction|].
  destruct take as [|t]; [contradiction|]. destruct cur as [|y r].
  - destruct a as [|a0 a']; [contradiction|]. eapply IH; [|exact H]. apply incl_refl.
  - destruct skip as [|s].
    + destruct H as [<-|H]; [apply I; left; reflexivity|]. eapply IH; [|exact H]. intros z Hz. apply I. right. exact Hz.
    + eapply IH; [|exact H]. intros z Hz. apply I. right. exact Hz.
Qed.

Lemma next_assignable_active ps e i : next_assignable ps e = Some i -> In i (active ps).
Proof.
  unfold next_assignable. intros H. apply find_some in H as [H _].
  eapply cyc_take_in; [apply incl_refl|exact H].
Qed.

Lemma active_lt ps i : In i (active ps) -> (i < length ps)%nat.
Proof.
  intros H. pose proof (active_go_bound ps 0) as B. rewrite Forall_forall in B. specialize (B i H). lia.
Qed.

Lemma assign_port_spec ps c : (0 < length (active ps))%nat ->
  fin (assign_port ps c) /\
  forall ps', assign_port ps c = Ok (Some ps') ->
    active ps' = active ps /\ length ps' = length ps /\
    (Forall (fun p => pt p < 4294967296) ps -> Forall (fun p => pt p < 4294967296) ps') /\
    exists i, port_assigned_to ps' c = Some i.
Proof.
  intros A. unfold assign_port. destruct (entry_port_fin ps A) as (e & E). rewrite E. cbn [rbind].
  destruct (next_assignable ps e) as [i|] eqn:NA; [|split; [exact I|discriminate]].
  split; [exact I|]. intros ps' H. inversion H; subst ps'; clear H.
  pose proof (next_assignable_active _ _ _ NA) as IA. pose proof (active_lt _ _ IA) as IL.
  destruct (set_down_shape ps i c) as [S1 S2].
  repeat split; [apply active_set_down|exact S1|exact S2|].
  unfold port_assigned_to. rewrite active_set_down.
  destruct (find (fun k => match pdown (pnth (set_down ps i c) k) with Some c0 => c0 =? c | None => false end) (active ps)) as [k|] eqn:F;
    [eexists; reflexivity|].
  exfalso. apply (find_none _ _ F) in IA. rewrite (pnth_set_down ps i c IL), N.eqb_refl in IA. discriminate.
Qed.

Lemma find_parent_spec ds : Forall okdev ds ->
  fin (find_parent ds) /\ forall pi, find_parent ds = Ok (Some pi) -> exists d, find_dev ds pi = Some d.
Proof.
  intros OK. unfold find_parent. destruct (rev ds) as [|p before] eqn:E; [split; [exact I|discriminate]|].
  assert (OKr : Forall okdev (p :: before)).
  { rewrite <- E. apply Forall_rev. exact OK. }
  assert (Inn : forall d, In d (p :: before) -> In d ds).
  { intros d Hd. rewrite <- E in Hd. apply in_rev. exact Hd. }
  assert (FD : forall d, In d ds -> exists d', find_dev ds (d_idx d) = Some d').
  { intros d Hd. unfold find_dev. destruct (find (fun x => d_idx x =? d_idx d) ds) eqn:F; [eexists; reflexivity|].
    apply (find_none _ _ F) in Hd. rewrite N.eqb_refl in Hd. discriminate. }
  inversion OKr as [|? ? [[Lp _] Ap] OKb]; subst.
  destruct (topology_fin (d_ports p) ltac:(lia) Ap) as (t & T). rewrite T. cbn [rbind].
  assert (G : forall l, Forall okdev l -> (forall d, In d l -> In d ds) ->
    fin ((fix go (l : list dev) : res terr (option N) :=
            match l with
            | [] => Err TTopology
            | q :: r => let? tq := topology (d_ports q) in
                        if is_junction tq && has_free_port (d_ports q) then Ok (Some (d_idx q)) else go r
            end) l) /\
    forall pi, (fix go (l : list dev) : res terr (option N) :=
            match l with
            | [] => Err TTopology
            | q :: r => let? tq := topology (d_ports q) in
                        if is_junction tq && has_free_port (d_ports q) then Ok (Some (d_idx q)) else go r
            end) l = Ok (Some pi) -> exists d, find_dev ds pi = Some d).
  { induction l as [|q r IH]; intros Fl Il; [split; [exact I|discriminate]|].
    inversion Fl as [|? ? [[Lq _] Aq] Fr]; subst.
    destruct (topology_fin (d_ports q) ltac:(lia) Aq) as (tq & Tq). rewrite Tq. cbn [rbind].
    destruct (is_junction tq && has_free_port (d_ports q)).
    - split; [exact I|]. intros pi H. inversion H; subst. apply FD. apply Il. left. reflexivity.
    - apply IH; [exact Fr|]. intros d Hd. apply Il. right. exact Hd. }
  destruct t.
  - apply G; [exact OKb|]. intros d Hd. apply Inn. right. exact Hd.
  - split; [exact I|]. intros pi H. inversion H; subst. apply FD. apply Inn. left. reflexivity.
  - split; [exact I|]. intros pi H. inversion H; subst. apply FD. apply Inn. left. reflexivity.
  - split; [exact I|]. intros pi H. inversion H; subst. apply FD. apply Inn. left. reflexivity.
Qed.

Lemma find_dev_in ds idx d : find_dev ds idx = Some d -> In d ds.
Proof. unfold find_dev. intros H. apply find_some in H as [H _]. exact H. Qed.

(* the sum of at most two consecutive saturating deltas of 32-bit times fits 32 bits *)
Lemma intermediate_fin md ps target : (target <= 2)%nat -> Forall (fun p => pt p < 4294967296) ps ->
  fin (intermediate_time md ps target).
Proof.
  intros T F. unfold intermediate_time.
  assert (B : forall k, pt (pnth ps k) < 4294967296).
  { intros k. unfold pnth. destruct (nth_in_or_default k ps {| pa := false; pt := 0; pdown := None |}) as [H|H].
    - rewrite Forall_forall in F. apply F. exact H.
    - rewrite H. cbn. lia. }
  pose proof (B 0%nat). pose proof (B 1%nat). pose proof (B 2%nat). pose proof (B 3%nat).
  replace (target <=? 2)%nat with true by (symmetry; apply Nat.leb_le; exact T).
  cbv zeta. unfold sat_sub, u32max.
  match goal with |- fin (if ?c then _ else _) => replace c with false; [exact I|] end.
  symmetry. apply N.ltb_ge.
  destruct (target <=? 0)%nat; destruct (target <=? 1)%nat;
    destruct (pa (pnth ps 0) && pa (pnth ps 1)); destruct (pa (pnth ps 1) && pa (pnth ps 2)); lia.
Qed.

Lemma port_assigned_active ps c i : port_assigned_to ps c = Some i -> In i (active ps).
Proof. unfold port_assigned_to. intros H. apply find_some in H as [H _]. exact H. Qed.

Lemma last_port_spec ps : (length ps = 4)%nat -> length (active ps) = 4%nat -> last_port ps = Some 3%nat.
Proof.
  intros L A. unfold last_port, active in *.
  destruct ps as [|p0 [|p1 [|p2 [|p3 [|]]]]]; try discriminate. cbn [active_go] in *.
  destruct (pa p0), (pa p1), (pa p2), (pa p3); cbn in A; try discriminate. reflexivity.
Qed.

Lemma offsets_fin md sd parents accum : okdev sd -> Forall okdev parents ->
  (forall pi, d_parent sd = Some pi -> forall parent, find_dev parents pi = Some parent ->
     exists i, port_assigned_to (d_ports parent) (d_idx sd) = Some i) ->
  fin (offsets md sd parents accum).
Proof.
  intros [[Ls Fs] As] OK PA. unfold offsets. destruct (d_parent sd) as [pi|]; [|exact I].
  destruct (find_dev parents pi) as [parent|] eqn:FD; [|exact I].
  destruct (PA pi eq_refl parent FD) as (pp & PP). rewrite PP.
  assert (OKp : okdev parent). { rewrite Forall_forall in OK. apply OK. eapply find_dev_in. exact FD. }
  destruct OKp as [[Lp Fp] Ap].
  destruct (entry_port_fin _ As) as (es & ES). rewrite ES. cbn [rbind].
  destruct (topology_fin (d_ports parent) ltac:(lia) Ap) as (t & T). rewrite T. cbn [rbind].
  unfold is_child_of. rewrite T. cbn [rbind]. rewrite PP.
  destruct t; cbn [is_junction andb]; try exact I.
  - (* fork *)
    match goal with |- fin (if ?c then _ else _) => destruct c end; [|exact I].
    unfold prop_time_to. destruct (entry_port_fin _ Ap) as (ep & EP). rewrite EP. cbn [rbind]. exact I.
  - (* cross: all four ports open, the child is not on the last one *)
    assert (A4 : length (active (d_ports parent)) = 4%nat).
    { unfold topology in T. pose proof (active_length_le (d_ports parent) 0) as B. unfold active in *.
      destruct (length (active_go (d_ports parent) 0)) as [|[|[|[|[|n]]]]]; try discriminate; try lia; try reflexivity. }
    rewrite (last_port_spec _ Lp A4).
    destruct (Nat.eqb 3 pp) eqn:E3; cbn [negb]; [exact I|].
    apply Nat.eqb_neq in E3. pose proof (active_lt _ _ (port_assigned_active _ _ _ PP)) as PL.
    apply fin_bind; [apply intermediate_fin; [lia|exact Fp]|]. intros c _. exact I.
Qed.

Theorem assign_loop_total md : forall todo done accum,
  Forall shaped todo -> Forall okdev done -> fin (assign_loop md done todo accum).
Proof.
  induction todo as [|sd rest IH]; intros done accum ST OK; cbn [assign_loop]; [exact I|].
  inversion ST as [|? ? [Ls Fs] STr]; subst.
  destruct (length (active (d_ports sd)) =? 0)%nat eqn:E0; [exact I|]. apply Nat.eqb_neq in E0.
  assert (As : (0 < length (active (d_ports sd)))%nat) by lia.
  destruct (find_parent_spec done OK) as [FP1 FP2].
  apply fin_bind; [exact FP1|]. intros par EP.
  set (sd1 := {| d_idx := d_idx sd; d_ports := d_ports sd; d_dc := d_dc sd; d_parent := par; d_delay := d_delay sd |}).
  assert (OK1 : okdev sd1) by (repeat split; assumption).
  (* the port assignment on the parent *)
  assert (Step : match (match par with
      | None => Ok done
      | Some pi =>
        match find_dev done pi with
        | None => Panic 64
        | Some parent =>
          if d_idx sd =? 0 then Err TTopology
          else
            let? np := assign_port (d_ports parent) (d_idx sd) in
            match np with
            | None => Err TTopology
            | Some ps' => Ok (replace_dev done pi (fun p => {| d_idx := d_idx p; d_ports := ps'; d_dc := d_dc p;
                                                               d_parent := d_parent p; d_delay := d_delay p |}))
            end
        end
      end) with
    | Ok done1 => Forall okdev done1 /\
                  (forall pi, par = Some pi -> forall parent, find_dev done1 pi = Some parent ->
                     exists i, port_assigned_to (d_ports parent) (d_idx sd) = Some i)
    | Err _ => True
    | Panic _ | Hang => False
    end).
  { destruct par as [pi|]; [|split; [exact OK|discriminate]].
    destruct (FP2 pi EP) as (parent & FD). rewrite FD.
    destruct (d_idx sd =? 0); [exact I|].
    assert (OKp : okdev parent). { rewrite Forall_forall in OK. apply OK. eapply find_dev_in. exact FD. }
    destruct OKp as [[Lp Fp] Ap].
    destruct (assign_port_spec (d_ports parent) (d_idx sd) Ap) as [AF AS].
    destruct (assign_port (d_ports parent) (d_idx sd)) as [[ps'|]|e|s|]; cbn [rbind]; try exact I; try contradiction.
    destruct (AS ps' eq_refl) as (A1 & A2 & A3 & (i & A4)).
    split.
    - clear -OK A1 A2 A3 Lp Fp Ap FD. induction done as [|x r IHd]; cbn [replace_dev]; [constructor|].
      inversion OK as [|? ? Ox Or]; subst. unfold find_dev in FD. cbn [find] in FD.
      destruct (d_idx x =? pi) eqn:X.
      + inversion FD; subst x. constructor; [|exact Or].
        repeat split; cbn [d_ports]; [congruence|apply A3; exact Fp|rewrite A1; exact Ap].
      + constructor; [exact Ox|]. apply IHd; [exact Or|exact FD].
    - intros pi' Hp parent' FD'. inversion Hp; subst pi'.
      rewrite (find_dev_replace done pi _ parent FD) in FD' by (cbn [d_idx]; apply (find_dev_idx _ _ _ FD)).
      inversion FD'; subst parent'. cbn [d_ports]. exists i. exact A4. }
  match type of Step with match ?x with _ => _ end => destruct x as [done1|e|s|] end; cbn [rbind]; try exact I; try contradiction.
  destruct Step as [OKd PA].
  assert (OKn : forall dly dflag, Forall okdev (done1 ++ [{| d_idx := d_idx sd; d_ports := d_ports sd; d_dc := dflag; d_parent := par; d_delay := dly |}])).
  { intros dly dflag. apply Forall_app. split; [exact OKd|]. constructor; [repeat split; assumption|constructor]. }
  destruct (d_dc sd) eqn:DC.
  - destruct (topology_fin (d_ports sd) ltac:(lia) As) as (t & T). subst sd1. cbn [d_ports]. rewrite T. cbn [rbind].
    apply fin_bind.
    + apply offsets_fin; [exact OK1|exact OKd|]. cbn [d_parent d_idx]. exact PA.
    + intros add _. destruct add as [a|]; apply IH; auto; cbn [d_idx d_ports]; rewrite <- DC; apply OKn.
  - apply IH; [exact STr|]. subst sd1. rewrite <- DC. apply OKn.
Qed.

Lemma mk_devs_shaped l : (forall a t dc, In (a, t, dc) l -> Forall (fun x => x < 4294967296) t) ->
  forall i, Forall shaped (mk_devs i l).
Proof.
  induction l as [|[[a t] dc] r IH]; intros H i; cbn [mk_devs]; constructor.
  - unfold shaped, mk_dev. cbn [d_ports]. split; [reflexivity|].
    specialize (H a t dc (or_introl eq_refl)).
    assert (B : forall k, nth k t 0 < 4294967296).
    { intros k. destruct (nth_in_or_default k t 0) as [X|X]; [rewrite Forall_forall in H; apply H; exact X|rewrite X; lia]. }
    repeat constructor; cbn [pt]; apply B.
  - apply IH. intros a' t' dc' Hin. eapply H. right. exact Hin.
Qed.

(* For ANY port report of ANY number of devices (32-bit port times): a value or an error. *)
Theorem assign_total md l : (forall a t dc, In (a, t, dc) l -> Forall (fun x => x < 4294967296) t) ->
  fin (assign md (mk_devs 0 l)).
Proof. intros H. unfold assign. apply assign_loop_total; [apply mk_devs_shaped; exact H|constructor]. Qed.

(* ---------- the system time offset ---------- *)
Theorem time_offset_exact md receive now : receive < 9223372036854775808 -> now < 9223372036854775808 ->
  time_offset md receive now = Ok (Z.of_N now - Z.of_N receive)%Z.
Proof.
  intros R W. unfold time_offset, to_i64.
  replace (receive <? 9223372036854775808) with true by (symmetry; apply N.ltb_lt; exact R).
  replace (now <? 9223372036854775808) with true by (symmetry; apply N.ltb_lt; exact W).
  cbv zeta.
  replace (9223372036854775807 <? - Z.of_N receive)%Z with false by (symmetry; apply Z.ltb_ge; lia).
  replace ((- Z.of_N receive + Z.of_N now <? -9223372036854775808) || (9223372036854775807 <? - Z.of_N receive + Z.of_N now))%Z
    with false by (symmetry; apply orb_false_iff; split; apply Z.ltb_ge; lia).
  f_equal. lia.
Qed.

(* ---------- the known finding: port times that cross the 32-bit wrap ---------- *)
(* two devices in a line, 100 ns apart, the first one's clock wrapping between the outgoing and the
   returning frame: the delay programmed into the second device is not the true 100 ns *)
Example wrap_refuted :
  exists l out, (forall a t dc, In (a, t, dc) l -> Forall (fun x => x < 4294967296) t) /\
    assign Debug (mk_devs 0 l) = Ok out /\
    map d_delay out <> [0; 100].
Proof.
  exists [([true; false; true; false], [4294967200; 0; 104; 0], true);       (* 4294967200 + 200 wraps to 104 *)
          ([true; false; false; false], [5000; 0; 0; 0], true)].
  eexists. split; [|split; [vm_compute; reflexivity|vm_compute; discriminate]].
  intros a t dc [H|[H|[]]]; inversion H; subst; repeat constructor.
Qed.

(* the same line without the wrap is exact *)
Example no_wrap_exact :
  option_map (map d_delay)
    (match assign Debug (mk_devs 0 [([true; false; true; false], [1000; 0; 1200; 0], true);
                                    ([true; false; false; false], [5000; 0; 0; 0], true)]) with Ok x => Some x | _ => None end)
  = Some [0; 100].
Proof. vm_compute. reflexivity. Qed.
