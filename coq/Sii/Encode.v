(* C12, "parse to what they encode": the encodings of the fixed-layout EEPROM items (ETG.2010
   tables, as the device description tools write them) and the round trips through the model's
   decoders (Sii/Parse.v), for every field value. *)
From EC Require Import Base.Prelude Base.Bytes Base.BytesProofs Wire.Layout Gen.SrcLayouts Sii.Range Sii.Parse.
Local Open Scope N_scope.

Lemma le16_bytes x rest : x < 65536 -> le16 (le_bytes 2 x ++ rest) = x.
Proof. intros H. unfold le16, le_bytes. cbn [app firstn of_le]. lia. Qed.

Lemma le32_bytes x rest : x < 4294967296 -> le32 (le_bytes 4 x ++ rest) = x.
Proof. intros H. unfold le32, le_bytes. cbn [app firstn of_le]. lia. Qed.

(* ---------- sync manager item (ETG.2010 Table 11), 8 bytes ---------- *)
Record smv := { v_start : N; v_len : N; v_om : N; v_dir : N; v_b4 : bool; v_b5 : bool; v_b6 : bool;
                v_status : N; v_en : N; v_ut : N }.

Definition sm_wf (v : smv) : Prop :=
  v_start v < 65536 /\ v_len v < 65536 /\ (v_om v = 0 \/ v_om v = 2) /\ (v_dir v = 0 \/ v_dir v = 1) /\
  v_status v < 256 /\ v_en v < 16 /\ v_ut v <= 4.

Definition sm_encode (v : smv) : list N :=
  le_bytes 2 (v_start v) ++ le_bytes 2 (v_len v) ++
  [v_om v + 4 * v_dir v + 16 * N.b2n (v_b4 v) + 32 * N.b2n (v_b5 v) + 64 * N.b2n (v_b6 v); v_status v; v_en v; v_ut v].

(* usage type as EtherCrab derives it when the EEPROM says "unused" *)
Definition sm_derived (v : smv) : N :=
  if negb (v_ut v =? 0) then v_ut v
  else match v_om v, v_dir v with 0, 0 => 4 | 0, _ => 3 | _, 0 => 2 | _, _ => 1 end.

Theorem sm_roundtrip v : sm_wf v ->
  parse_sm (sm_encode v) =
  Ok (map Z.of_N [v_start v; v_len v; v_om v; v_dir v; N.b2n (v_b4 v); N.b2n (v_b5 v); N.b2n (v_b6 v); v_en v; v_ut v; sm_derived v]).
Proof.
  destruct v as [st ln om dr b4 b5 b6 sts en ut]. unfold sm_wf, sm_encode, sm_derived; cbn [v_start v_len v_om v_dir v_b4 v_b5 v_b6 v_status v_en v_ut].
  intros (Hs & Hl & Ho & Hd & Hst & He & Hu).
  unfold parse_sm.
  rewrite (le16_bytes st _ Hs).
  assert (L2 : le16 (skipn 2 (le_bytes 2 st ++ le_bytes 2 ln ++ [om + 4 * dr + 16 * N.b2n b4 + 32 * N.b2n b5 + 64 * N.b2n b6; sts; en; ut])) = ln).
  { unfold le_bytes at 1. cbn [app skipn]. apply le16_bytes. exact Hl. }
  rewrite L2.
  replace (nth 4 (le_bytes 2 st ++ le_bytes 2 ln ++ [om + 4 * dr + 16 * N.b2n b4 + 32 * N.b2n b5 + 64 * N.b2n b6; sts; en; ut]) 0)
    with (om + 4 * dr + 16 * N.b2n b4 + 32 * N.b2n b5 + 64 * N.b2n b6) by reflexivity.
  replace (nth 6 (le_bytes 2 st ++ le_bytes 2 ln ++ [om + 4 * dr + 16 * N.b2n b4 + 32 * N.b2n b5 + 64 * N.b2n b6; sts; en; ut]) 0) with en by reflexivity.
  replace (nth 7 (le_bytes 2 st ++ le_bytes 2 ln ++ [om + 4 * dr + 16 * N.b2n b4 + 32 * N.b2n b5 + 64 * N.b2n b6; sts; en; ut]) 0) with ut by reflexivity.
  assert (En : en = 0 \/ en = 1 \/ en = 2 \/ en = 3 \/ en = 4 \/ en = 5 \/ en = 6 \/ en = 7 \/ en = 8 \/ en = 9 \/ en = 10 \/ en = 11 \/ en = 12 \/ en = 13 \/ en = 14 \/ en = 15) by lia.
  assert (Ut : ut = 0 \/ ut = 1 \/ ut = 2 \/ ut = 3 \/ ut = 4) by lia.
  destruct Ho as [-> | ->]; destruct Hd as [-> | ->]; destruct b4, b5, b6;
    repeat (destruct En as [-> | En]); try subst en;
    repeat (destruct Ut as [-> | Ut]); try subst ut; reflexivity.
Qed.

(* ---------- identity (words 8..15), mailbox settings (words 24..28), size word ---------- *)
Definition identity_bytes (vendor product revision serial : N) : list N :=
  le_bytes 4 vendor ++ le_bytes 4 product ++ le_bytes 4 revision ++ le_bytes 4 serial.

Theorem identity_roundtrip vendor product revision serial :
  vendor < 4294967296 -> product < 4294967296 -> revision < 4294967296 -> serial < 4294967296 ->
  let b := identity_bytes vendor product revision serial in
  [le32 b; le32 (skipn 4 b); le32 (skipn 8 b); le32 (skipn 12 b)] = [vendor; product; revision; serial].
Proof.
  intros Hv Hp Hr Hs. cbv zeta. unfold identity_bytes.
  rewrite (le32_bytes vendor _ Hv).
  replace (skipn 4 (le_bytes 4 vendor ++ le_bytes 4 product ++ le_bytes 4 revision ++ le_bytes 4 serial)) with (le_bytes 4 product ++ le_bytes 4 revision ++ le_bytes 4 serial) by reflexivity.
  replace (skipn 8 (le_bytes 4 vendor ++ le_bytes 4 product ++ le_bytes 4 revision ++ le_bytes 4 serial)) with (le_bytes 4 revision ++ le_bytes 4 serial) by reflexivity.
  replace (skipn 12 (le_bytes 4 vendor ++ le_bytes 4 product ++ le_bytes 4 revision ++ le_bytes 4 serial)) with (le_bytes 4 serial ++ []) by (rewrite app_nil_r; reflexivity).
  rewrite (le32_bytes product _ Hp), (le32_bytes revision _ Hr), (le32_bytes serial _ Hs). reflexivity.
Qed.

Definition mailbox_bytes (rx_off rx_size tx_off tx_size protocols : N) : list N :=
  le_bytes 2 rx_off ++ le_bytes 2 rx_size ++ le_bytes 2 tx_off ++ le_bytes 2 tx_size ++ le_bytes 2 protocols.

Theorem mailbox_roundtrip rx_off rx_size tx_off tx_size protocols :
  rx_off < 65536 -> rx_size < 65536 -> tx_off < 65536 -> tx_size < 65536 -> protocols < 64 ->
  let b := mailbox_bytes rx_off rx_size tx_off tx_size protocols in
  [le16 b; le16 (skipn 2 b); le16 (skipn 4 b); le16 (skipn 6 b)] = [rx_off; rx_size; tx_off; tx_size] /\
  bits_val 63 (nth 8 b 0) = Ok protocols.
Proof.
  intros H1 H2 H3 H4 H5. cbv zeta. unfold mailbox_bytes. split.
  - rewrite (le16_bytes rx_off _ H1).
    replace (skipn 2 (le_bytes 2 rx_off ++ le_bytes 2 rx_size ++ le_bytes 2 tx_off ++ le_bytes 2 tx_size ++ le_bytes 2 protocols)) with (le_bytes 2 rx_size ++ le_bytes 2 tx_off ++ le_bytes 2 tx_size ++ le_bytes 2 protocols) by reflexivity.
    replace (skipn 4 (le_bytes 2 rx_off ++ le_bytes 2 rx_size ++ le_bytes 2 tx_off ++ le_bytes 2 tx_size ++ le_bytes 2 protocols)) with (le_bytes 2 tx_off ++ le_bytes 2 tx_size ++ le_bytes 2 protocols) by reflexivity.
    replace (skipn 6 (le_bytes 2 rx_off ++ le_bytes 2 rx_size ++ le_bytes 2 tx_off ++ le_bytes 2 tx_size ++ le_bytes 2 protocols)) with (le_bytes 2 tx_size ++ le_bytes 2 protocols) by reflexivity.
    rewrite (le16_bytes rx_size _ H2), (le16_bytes tx_off _ H3), (le16_bytes tx_size _ H4). reflexivity.
  - replace (nth 8 (le_bytes 2 rx_off ++ le_bytes 2 rx_size ++ le_bytes 2 tx_off ++ le_bytes 2 tx_size ++ le_bytes 2 protocols) 0) with (protocols mod 256) by reflexivity.
    rewrite N.mod_small by lia.
    assert (forallb (fun x => match bits_val 63 x with Ok y => y =? x | _ => false end) (map N.of_nat (seq 0 64)) = true) as F by (vm_compute; reflexivity).
    rewrite forallb_forall in F. specialize (F protocols).
    assert (In protocols (map N.of_nat (seq 0 64))).
    { apply in_map_iff. exists (N.to_nat protocols). split; [lia|apply in_seq; lia]. }
    specialize (F H). destruct (bits_val 63 protocols); try discriminate. apply N.eqb_eq in F. subst. reflexivity.
Qed.

(* EEPROM size: the size word holds Kbit - 1, reported in bytes *)
Theorem size_roundtrip kbit : 1 <= kbit -> kbit <= 65536 ->
  (le16 (le_bytes 2 (kbit - 1)) + 1) * 128 = kbit * 128.
Proof. intros H1 H2. rewrite <- (app_nil_r (le_bytes 2 (kbit - 1))). rewrite le16_bytes by lia. lia. Qed.

(* ---------- FMMU usage bytes and FMMU_EX items ---------- *)
Theorem fmmu_usage_roundtrip u : u <= 3 -> enum_val enum_FmmuUsage u = Ok u.
Proof. intros H. assert (u = 0 \/ u = 1 \/ u = 2 \/ u = 3) as [-> | [-> | [-> | ->]]] by lia; reflexivity. Qed.

Theorem fmmu_usage_ff : enum_val enum_FmmuUsage 255 = Ok 0.    (* 0xFF also means "unused" *)
Proof. reflexivity. Qed.

(* ---------- PDO header (ETG.2010 Table 14): index, entry count, sync manager ---------- *)
Definition pdo_header_bytes (index n_entries sm sync name_idx flags : N) : list N :=
  le_bytes 2 index ++ [n_entries; sm; sync; name_idx] ++ le_bytes 2 flags.

Theorem pdo_header_roundtrip index n_entries sm sync name_idx flags : index < 65536 ->
  let b := pdo_header_bytes index n_entries sm sync name_idx flags in
  le16 b = index /\ nth 2 b 0 = n_entries /\ nth 3 b 0 = sm /\ length b = 8%nat.
Proof. intros H. cbv zeta. unfold pdo_header_bytes. rewrite (le16_bytes index _ H). repeat split; reflexivity. Qed.
