From EC Require Import Base.Prelude Base.Bytes Base.BytesProofs Sii.Range.
Local Open Scope N_scope.

(* the stored bytes a .. a+n *)
Definition bytes_from (p : prov) (a : N) (n : nat) : list N :=
  map (fun i => byte_at p (a + N.of_nat i)) (seq 0 n).

Lemma bytes_from_length p a n : length (bytes_from p a n) = n.
Proof. unfold bytes_from. rewrite map_length, seq_length. reflexivity. Qed.

Lemma map_seq_shift {A} (f g : nat -> A) k : (forall i, f (k + i)%nat = g i) ->
  forall m s, map f (seq (k + s) m) = map g (seq s m).
Proof.
  intros H. induction m as [|m IH]; intros s; [reflexivity|]. cbn [seq map]. rewrite H. f_equal.
  replace (S (k + s))%nat with (k + S s)%nat by lia. apply IH.
Qed.

Lemma bytes_from_app p a n m :
  bytes_from p a (n + m) = bytes_from p a n ++ bytes_from p (a + N.of_nat n) m.
Proof.
  unfold bytes_from. rewrite seq_app, map_app. f_equal. cbn [plus].
  replace n with (n + 0)%nat at 1 by lia. apply map_seq_shift. intros i. f_equal. lia.
Qed.

Lemma skipn_seq0 k : forall s n, skipn k (seq s n) = seq (s + k) (n - k).
Proof.
  induction k as [|k IH]; intros s n.
  - cbn. rewrite Nat.add_0_r, Nat.sub_0_r. reflexivity.
  - destruct n as [|n]; [reflexivity|]. cbn [seq skipn]. rewrite IH. f_equal; lia.
Qed.

Lemma skipn_map_seq {A} (f : nat -> A) k n : skipn k (map f (seq 0 n)) = map f (seq k (n - k)).
Proof. rewrite skipn_map, skipn_seq0. reflexivity. Qed.

Lemma firstn_bytes_from p a n k : (k <= n)%nat -> firstn k (bytes_from p a n) = bytes_from p a k.
Proof.
  intros H. replace n with (k + (n - k))%nat by lia. rewrite bytes_from_app.
  rewrite firstn_app, bytes_from_length, Nat.sub_diag, firstn_O, app_nil_r.
  rewrite firstn_all2; [reflexivity|rewrite bytes_from_length; lia].
Qed.

(* what one access delivers from byte position pos on *)
Lemma chunk_from p pos : (2 <= p_cs p)%nat ->
  skipn (N.to_nat (pos mod 2)) (read_chunk p (pos / 2))
  = bytes_from p pos (p_cs p - N.to_nat (pos mod 2)).
Proof.
  intros C. unfold read_chunk. rewrite skipn_map_seq. unfold bytes_from.
  pose proof (N.div_mod pos 2 ltac:(lia)) as DM. pose proof (N.mod_lt pos 2 ltac:(lia)) as ML.
  set (k := N.to_nat (pos mod 2)) in *.
  replace k with (k + 0)%nat at 1 by lia. apply map_seq_shift. intros i. f_equal. subst k. lia.
Qed.

Lemma word_addr_ok pos : pos < 131072 -> word_addr pos = Ok (pos / 2).
Proof.
  intros H. unfold word_addr. replace (pos / 2 <? 65536) with true; [reflexivity|].
  symmetry. apply N.ltb_lt. apply N.div_lt_upper_bound; lia.
Qed.

Lemma word_addr_total pos : word_addr pos = Ok (pos / 2) \/ word_addr pos = Err SOverrun.
Proof. unfold word_addr. destruct (pos / 2 <? 65536); auto. Qed.

(* ---------- the read loop delivers exactly the stored bytes ---------- *)
Lemma read_loop_exact fuel p : (2 <= p_cs p)%nat -> forall pos want acc,
  (want < fuel)%nat -> pos + N.of_nat want <= 131072 ->
  read_loop fuel p pos want acc = Ok (acc ++ bytes_from p pos want, pos + N.of_nat want).
Proof.
  intros C. induction fuel as [|f IH]; intros pos want acc F A; [lia|].
  destruct want as [|w].
  - cbn [read_loop]. unfold bytes_from. cbn. rewrite app_nil_r, N.add_0_r. reflexivity.
  - cbn [read_loop]. rewrite word_addr_ok by lia. cbn [rbind].
    rewrite (chunk_from p pos C). set (len := (p_cs p - N.to_nat (pos mod 2))%nat).
    pose proof (N.mod_lt pos 2 ltac:(lia)) as ML.
    assert (L1 : (1 <= len)%nat) by (subst len; lia).
    rewrite bytes_from_length. destruct (S w <? len)%nat eqn:E.
    + apply Nat.ltb_lt in E. rewrite firstn_bytes_from by lia. reflexivity.
    + apply Nat.ltb_ge in E. destruct (bytes_from p pos len) as [|x xs] eqn:EB.
      { apply (f_equal (@length N)) in EB. rewrite bytes_from_length in EB. cbn in EB. lia. }
      rewrite <- EB. rewrite IH by lia.
      assert (X : bytes_from p pos (S w) = bytes_from p pos len ++ bytes_from p (pos + N.of_nat len) (S w - len)).
      { rewrite <- bytes_from_app. f_equal. lia. }
      rewrite X, app_assoc. f_equal. f_equal. lia.
Qed.

(* without the address-space bound: never a panic, never a hang, and whatever is delivered is a
   prefix of the stored bytes *)
Lemma read_loop_total fuel p : (2 <= p_cs p)%nat -> forall pos want acc,
  (want < fuel)%nat ->
  (exists k, (k <= want)%nat /\
     read_loop fuel p pos want acc = Ok (acc ++ bytes_from p pos k, pos + N.of_nat k) /\ k = want) \/
  read_loop fuel p pos want acc = Err SOverrun.
Proof.
  intros C. induction fuel as [|f IH]; intros pos want acc F; [lia|].
  destruct want as [|w].
  - left. exists 0%nat. cbn [read_loop]. unfold bytes_from. cbn. rewrite app_nil_r, N.add_0_r. auto.
  - cbn [read_loop]. destruct (word_addr_total pos) as [W|W]; rewrite W; cbn [rbind]; [|right; reflexivity].
    rewrite (chunk_from p pos C). set (len := (p_cs p - N.to_nat (pos mod 2))%nat).
    pose proof (N.mod_lt pos 2 ltac:(lia)) as ML.
    assert (L1 : (1 <= len)%nat) by (subst len; lia).
    rewrite bytes_from_length. destruct (S w <? len)%nat eqn:E.
    + apply Nat.ltb_lt in E. left. exists (S w). rewrite firstn_bytes_from by lia. auto.
    + apply Nat.ltb_ge in E. destruct (bytes_from p pos len) as [|x xs] eqn:EB.
      { apply (f_equal (@length N)) in EB. rewrite bytes_from_length in EB. cbn in EB. lia. }
      rewrite <- EB.
      destruct (IH (pos + N.of_nat len) (S w - len)%nat (acc ++ bytes_from p pos len) ltac:(lia))
        as [(k & K1 & K2 & K3)|K]; [|right; exact K].
      left. exists (S w). split; [lia|]. split; [|reflexivity]. rewrite K2. subst k.
      assert (X : bytes_from p pos (S w) = bytes_from p pos len ++ bytes_from p (pos + N.of_nat len) (S w - len)).
      { rewrite <- bytes_from_app. f_equal. lia. }
      rewrite X, app_assoc. f_equal. f_equal. lia.
Qed.

(* ---------- Read::read ---------- *)
Theorem range_read_spec p r n : (2 <= p_cs p)%nat -> r_pos r <= r_end r -> r_end r <= 131072 ->
  let k := Nat.min n (N.to_nat (r_end r - r_pos r)) in
  range_read p r n = Ok (bytes_from p (r_pos r) k, {| r_pos := r_pos r + N.of_nat k; r_end := r_end r |}).
Proof.
  intros C L A k. unfold range_read. destruct (N.to_nat (r_end r - r_pos r) =? 0)%nat eqn:E.
  - apply Nat.eqb_eq in E. subst k. rewrite E, Nat.min_0_r. unfold bytes_from. cbn.
    rewrite N.add_0_r. destruct r; reflexivity.
  - fold k. rewrite read_loop_exact by (try exact C; subst k; lia). cbn [rbind app]. reflexivity.
Qed.

(* for ANY range (also one reaching beyond the address space): never more than asked for, never
   beyond the end of the range, only stored bytes, no panic, no hang *)
Theorem range_read_safe p r n : (2 <= p_cs p)%nat ->
  (exists k, (k <= n)%nat /\ N.of_nat k <= r_end r - r_pos r /\
     range_read p r n = Ok (bytes_from p (r_pos r) k, {| r_pos := r_pos r + N.of_nat k; r_end := r_end r |})) \/
  range_read p r n = Err SOverrun.
Proof.
  intros C. unfold range_read. destruct (N.to_nat (r_end r - r_pos r) =? 0)%nat eqn:E.
  - left. exists 0%nat. unfold bytes_from. cbn. rewrite N.add_0_r. repeat split; try lia. destruct r; reflexivity.
  - set (want := Nat.min n (N.to_nat (r_end r - r_pos r))).
    destruct (read_loop_total (S want) p C (r_pos r) want [] ltac:(lia)) as [(k & K1 & K2 & K3)|K].
    + left. exists k. rewrite K2. cbn [rbind app]. subst k. repeat split; subst want; lia.
    + right. rewrite K. reflexivity.
Qed.

(* ---------- read_exact ---------- *)
Theorem range_read_exact_spec p r n : (2 <= p_cs p)%nat -> r_pos r <= r_end r -> r_end r <= 131072 ->
  range_read_exact p r n =
    if (n <=? N.to_nat (r_end r - r_pos r))%nat
    then Ok (Some (bytes_from p (r_pos r) n), {| r_pos := r_pos r + N.of_nat n; r_end := r_end r |})
    else Ok (None, {| r_pos := r_end r; r_end := r_end r |}).
Proof.
  intros C L A. unfold range_read_exact. destruct n as [|n].
  - cbn [read_exact_loop]. cbn. rewrite N.add_0_r. destruct r; reflexivity.
  - cbn [read_exact_loop]. rewrite range_read_spec by assumption. cbv zeta. cbn [rbind].
    set (room := N.to_nat (r_end r - r_pos r)).
    destruct (S n <=? room)%nat eqn:E.
    + apply Nat.leb_le in E. rewrite Nat.min_l by lia.
      destruct (bytes_from p (r_pos r) (S n)) as [|x xs] eqn:EB.
      { apply (f_equal (@length N)) in EB. rewrite bytes_from_length in EB. discriminate. }
      rewrite <- EB, bytes_from_length, Nat.sub_diag. destruct n; reflexivity.
    + apply Nat.leb_gt in E. rewrite Nat.min_r by lia.
      destruct room as [|room'] eqn:ER.
      * unfold bytes_from. cbn. rewrite N.add_0_r. f_equal. f_equal. destruct r; cbn in *. f_equal. lia.
      * destruct (bytes_from p (r_pos r) (S room')) as [|x xs] eqn:EB.
        { apply (f_equal (@length N)) in EB. rewrite bytes_from_length in EB. discriminate. }
        rewrite <- EB, bytes_from_length.
        assert (P : r_pos r + N.of_nat (S room') = r_end r) by lia. rewrite P.
        destruct n as [|n']; [lia|]. destruct (S (S n') - S room')%nat eqn:ED; [lia|].
        cbn [read_exact_loop]. unfold range_read. cbn [r_end r_pos]. rewrite N.sub_diag. cbn. reflexivity.
Qed.

Theorem range_read_exact_safe p r n : (2 <= p_cs p)%nat ->
  match range_read_exact p r n with
  | Ok (Some b, r') => b = bytes_from p (r_pos r) n /\ r_pos r' = r_pos r + N.of_nat n /\ r_end r' = r_end r /\
                       (n = 0%nat \/ N.of_nat n <= r_end r - r_pos r)
  | Ok (None, r') => r_end r' = r_end r
  | Err e => e = SOverrun
  | Panic _ | Hang => False
  end.
Proof.
  intros C. unfold range_read_exact.
  assert (G : forall fuel r0 m acc, (m < fuel)%nat ->
    match read_exact_loop fuel p r0 m acc with
    | Ok (Some b, r') => b = acc ++ bytes_from p (r_pos r0) m /\ r_pos r' = r_pos r0 + N.of_nat m /\ r_end r' = r_end r0 /\
                         (m = 0%nat \/ N.of_nat m <= r_end r0 - r_pos r0)
    | Ok (None, r') => r_end r' = r_end r0
    | Err e => e = SOverrun
    | Panic _ | Hang => False
    end).
  { induction fuel as [|f IH]; intros r0 m acc F; [lia|]. destruct m as [|m].
    - cbn [read_exact_loop]. unfold bytes_from. cbn. rewrite app_nil_r, N.add_0_r. auto.
    - cbn [read_exact_loop]. destruct (range_read_safe p r0 (S m) C) as [(k & K1 & K2 & K3)|K].
      + rewrite K3. cbn [rbind]. destruct k as [|k].
        * unfold bytes_from at 1. cbn. reflexivity.
        * destruct (bytes_from p (r_pos r0) (S k)) as [|x xs] eqn:EB.
          { apply (f_equal (@length N)) in EB. rewrite bytes_from_length in EB. discriminate. }
          rewrite <- EB, bytes_from_length.
          specialize (IH {| r_pos := r_pos r0 + N.of_nat (S k); r_end := r_end r0 |} (S m - S k)%nat
                         (acc ++ bytes_from p (r_pos r0) (S k)) ltac:(lia)).
          destruct (read_exact_loop f p _ (S m - S k) _) as [[[b|] r']|e|s|]; cbn [r_pos r_end] in IH; auto.
          destruct IH as (I1 & I2 & I3 & I4).
          split; [|split; [lia|split; [exact I3|right; destruct I4 as [I4|I4]; lia]]].
          rewrite I1, <- app_assoc. f_equal. rewrite <- bytes_from_app. f_equal. lia.
      + rewrite K. cbn. reflexivity. }
  specialize (G (S n) r n [] ltac:(lia)). cbn [app] in G. exact G.
Qed.

(* ---------- read_byte, skip ---------- *)
Lemma range_read_byte_safe p r : (2 <= p_cs p)%nat ->
  match range_read_byte p r with
  | Ok (b, r') => b = byte_at p (r_pos r) /\ r_pos r' = r_pos r + 1 /\ r_end r' = r_end r /\ r_pos r < 131072
  | Err e => e = SOverrun
  | Panic _ | Hang => False
  end.
Proof.
  intros C. unfold range_read_byte, word_addr. destruct (r_pos r / 2 <? 65536) eqn:E; cbn [rbind]; [|reflexivity].
  apply N.ltb_lt in E. pose proof (N.div_mod (r_pos r) 2 ltac:(lia)) as DM.
  pose proof (N.mod_lt (r_pos r) 2 ltac:(lia)) as ML.
  unfold read_chunk. rewrite nth_error_map.
  destruct (nth_error (seq 0 (p_cs p)) (N.to_nat (r_pos r mod 2))) as [i|] eqn:EN.
  - cbn [option_map]. apply nth_error_In in EN as IN. apply in_seq in IN.
    assert (i = N.to_nat (r_pos r mod 2)).
    { pose proof (nth_error_nth _ _ 0%nat EN) as X. rewrite seq_nth in X by lia. lia. }
    subst i. repeat split; auto; [f_equal; lia|lia].
  - apply nth_error_None in EN. rewrite seq_length in EN. lia.
Qed.

Lemma range_skip_safe r s :
  match range_skip r s with
  | Ok r' => r_pos r' = r_pos r + s /\ r_end r' = r_end r /\ r_pos r' < r_end r
  | Err e => e = SOverrun
  | Panic _ | Hang => False
  end.
Proof.
  unfold range_skip. destruct (r_end r <=? r_pos r + s) eqn:E; [reflexivity|].
  apply N.leb_gt in E. cbn. auto.
Qed.

(* ---------- writes ---------- *)
(* the byte writes a payload turns into, oldest first: whole words, an odd last byte padded with 0 *)
Fixpoint words_of (w : N) (payload : list N) : list (N * N) :=
  match payload with
  | [] => []
  | [b0] => [(2 * w, b0); (2 * w + 1, 0)]
  | b0 :: (b1 :: rest) as tl => (2 * w, b0) :: (2 * w + 1, b1) :: words_of (w + 1) rest
  end.

Definition wrote (p p' : prov) (ws : list (N * N)) : Prop :=
  p_byte p' = p_byte p /\ p_cs p' = p_cs p /\ p_writes p' = rev ws ++ p_writes p.

Lemma wrote_refl p : wrote p p [].
Proof. repeat split. Qed.

Lemma wrote_trans p1 p2 p3 a b : wrote p1 p2 a -> wrote p2 p3 b -> wrote p1 p3 (a ++ b).
Proof.
  intros (A1 & A2 & A3) (B1 & B2 & B3). repeat split; try congruence.
  rewrite B3, A3, rev_app_distr, app_assoc. reflexivity.
Qed.

(* a payload that fits: every byte is stored, in order, from word w on, nothing else *)
Lemma write_loop_fits fuel : forall p w room payload written,
  (length payload < fuel)%nat -> (length payload <= 2 * room)%nat -> w + N.of_nat room <= 65536 ->
  exists p' r',
    write_loop fuel p {| r_pos := 2 * w; r_end := 2 * w + 2 * N.of_nat room |} payload written
      = Ok ((written + length payload)%nat, p', r') /\
    wrote p p' (words_of w payload).
Proof.
  induction fuel as [|f IH]; intros p w room payload written F L A; [lia|].
  cbn [write_loop r_pos r_end].
  destruct payload as [|b0 rest0].
  - destruct (2 * w + 2 * N.of_nat room - 2 * w =? 0); eexists _, _; rewrite Nat.add_0_r;
      (split; [reflexivity|apply wrote_refl]).
  - destruct room as [|room]; [cbn in L; lia|].
    replace (2 * w + 2 * N.of_nat (S room) - 2 * w =? 0) with false by (symmetry; apply N.eqb_neq; lia).
    rewrite word_addr_ok by lia. replace (2 * w / 2) with w by (rewrite N.mul_comm, N.div_mul; lia).
    destruct rest0 as [|b1 rest].
    + cbn [rbind]. destruct f as [|f']; [cbn in F; lia|]. cbn [write_loop r_pos r_end].
      destruct (2 * w + 2 * N.of_nat (S room) - (2 * w + 2) =? 0);
        eexists _, _; (split; [cbn [length]; f_equal; f_equal; f_equal; lia|]);
        cbn [words_of length]; repeat split.
    + cbn [rbind].
      destruct (IH (write_word p w b0 b1) (w + 1) room rest (written + 2)%nat) as (p' & r' & W1 & W2);
        [cbn [length] in F; lia|cbn [length] in L; lia|lia|].
      replace (2 * w + 2) with (2 * (w + 1)) by lia.
      replace (2 * w + 2 * N.of_nat (S room)) with (2 * (w + 1) + 2 * N.of_nat room) by lia.
      exists p', r'. split; [rewrite W1; cbn [length]; f_equal; f_equal; f_equal; lia|].
      cbn [words_of].
      change ((2 * w, b0) :: (2 * w + 1, b1) :: words_of (w + 1) rest)
        with ([(2 * w, b0); (2 * w + 1, b1)] ++ words_of (w + 1) rest).
      eapply wrote_trans; [|exact W2]. repeat split.
Qed.

(* write_all of a payload that fits the range: no panic, exactly those bytes *)
Theorem write_all_fits p w lw payload :
  (length payload <= 2 * lw)%nat -> w + N.of_nat lw <= 65536 ->
  exists p' r', range_write_all p (range_new w (N.of_nat lw)) payload = Ok (p', r') /\
                wrote p p' (words_of w payload).
Proof.
  intros L A. unfold range_write_all, range_new.
  replace (w * 2) with (2 * w) by lia. replace (N.of_nat lw * 2) with (2 * N.of_nat lw) by lia.
  destruct payload as [|b0 rest].
  - cbn. eexists _, _. split; [reflexivity|apply wrote_refl].
  - cbn [write_all_loop]. unfold range_write. set (pl := b0 :: rest) in *.
    assert (NE : (0 < length pl)%nat) by (subst pl; cbn; lia).
    destruct (write_loop_fits (S (length pl)) p w lw pl 0 ltac:(lia) L A) as (p' & r' & W1 & W2).
    rewrite W1. cbn [rbind plus].
    replace (length pl =? 0)%nat with false by (symmetry; apply Nat.eqb_neq; lia).
    rewrite Nat.ltb_irrefl, skipn_all. exists p', r'. split; [|exact W2].
    destruct (length pl); reflexivity.
Qed.

(* reading back through the writes *)
Lemma byte_at_wrote p p' ws a : wrote p p' ws ->
  byte_at p' a = match lookup a (rev ws) with Some v => v | None => byte_at p a end.
Proof.
  intros (A1 & A2 & A3). unfold byte_at. rewrite A3, A1. clear A3.
  induction (rev ws) as [|[k v] r IH]; cbn [app lookup]; [reflexivity|].
  destruct (k =? a); [reflexivity|exact IH].
Qed.

(* ANY write on a word-aligned range: no panic, it never reports more than it was given, and it
   never stores outside the range *)
Lemma write_loop_within fuel : forall p w room buf written, (length buf < fuel)%nat ->
  match write_loop fuel p {| r_pos := 2 * w; r_end := 2 * w + 2 * N.of_nat room |} buf written with
  | Ok (n, p', r') =>
    (written <= n <= written + length buf)%nat /\
    exists ws, wrote p p' ws /\ Forall (fun kv => 2 * w <= fst kv < 2 * w + 2 * N.of_nat room) ws
  | Err e => e = SOverrun
  | Panic _ | Hang => False
  end.
Proof.
  induction fuel as [|f IH]; intros p w room buf written F; [lia|]. cbn [write_loop r_pos r_end].
  destruct (2 * w + 2 * N.of_nat room - 2 * w =? 0) eqn:E0.
  - split; [lia|]. exists []. split; [apply wrote_refl|constructor].
  - apply N.eqb_neq in E0. destruct room as [|room]; [lia|].
    destruct buf as [|b0 rest0]; [split; [lia|]; exists []; split; [apply wrote_refl|constructor]|].
    assert (Step : forall b1 rest consumed, (length rest < f)%nat -> (consumed + length rest <= length (b0 :: rest0))%nat -> (1 <= consumed)%nat ->
      match (let? w0 := word_addr (2 * w) in
             write_loop f (write_word p w0 b0 b1) {| r_pos := 2 * w + 2; r_end := 2 * w + 2 * N.of_nat (S room) |} rest (written + consumed)) with
      | Ok (n, p', r') =>
        (written <= n <= written + length (b0 :: rest0))%nat /\
        exists ws, wrote p p' ws /\ Forall (fun kv => 2 * w <= fst kv < 2 * w + 2 * N.of_nat (S room)) ws
      | Err e => e = SOverrun
      | Panic _ | Hang => False
      end).
    { intros b1 rest consumed Fr Lc C1. unfold word_addr. destruct (2 * w / 2 <? 65536); cbn [rbind]; [|reflexivity].
      replace (2 * w / 2) with w by (rewrite N.mul_comm, N.div_mul; lia).
      replace (2 * w + 2) with (2 * (w + 1)) by lia.
      replace (2 * w + 2 * N.of_nat (S room)) with (2 * (w + 1) + 2 * N.of_nat room) by lia.
      specialize (IH (write_word p w b0 b1) (w + 1) room rest (written + consumed)%nat Fr).
      destruct (write_loop f _ _ rest _) as [[[n p'] r']|e|s|]; auto.
      destruct IH as (I1 & ws & I2 & I3). split; [lia|].
      exists ([(2 * w, b0); (2 * w + 1, b1)] ++ ws). split.
      - eapply wrote_trans; [|exact I2]. repeat split.
      - apply Forall_app. split; [repeat constructor; cbn [fst]; lia|].
        eapply Forall_impl; [|exact I3]. intros [k v]; cbn [fst]. lia. }
    destruct rest0 as [|b1 rest].
    + apply (Step 0 [] 1%nat); cbn [length] in *; lia.
    + apply (Step b1 rest 2%nat); cbn [length] in *; lia.
Qed.

Theorem range_write_within p w room buf :
  match range_write p {| r_pos := 2 * w; r_end := 2 * w + 2 * N.of_nat room |} buf with
  | Ok (n, p', r') =>
    (n <= length buf)%nat /\
    exists ws, wrote p p' ws /\ Forall (fun kv => 2 * w <= fst kv < 2 * w + 2 * N.of_nat room) ws
  | Err e => e = SOverrun
  | Panic _ | Hang => False
  end.
Proof.
  unfold range_write. pose proof (write_loop_within (S (length buf)) p w room buf 0 ltac:(lia)) as H.
  destruct (write_loop _ _ _ buf 0) as [[[n p'] r']|e|s|]; auto. destruct H as (H1 & H2). split; [lia|exact H2].
Qed.
