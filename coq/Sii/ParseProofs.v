From EC Require Import Base.Prelude Base.Bytes Base.BytesProofs Wire.Layout Gen.SrcLayouts
  Sii.Range Sii.RangeProofs Sii.Parse.
Local Open Scope N_scope.
Ltac Zify.zify_post_hook ::= Z.div_mod_to_equations.
(* ---------- "finishes with a value, 'absent' or an error" ---------- *)
Definition fin {A} (r : res serr A) : Prop := match r with Panic _ | Hang => False | _ => True end.

Lemma fin_bind {A B} (r : res serr A) (f : A -> res serr B) :
  fin r -> (forall x, r = Ok x -> fin (f x)) -> fin (rbind r f).
Proof. destruct r as [a|e|s|]; cbn; intros H G; auto. Qed.

Lemma rbind_ok {A B} (r : res serr A) (f : A -> res serr B) y :
  rbind r f = Ok y -> exists x, r = Ok x /\ f x = Ok y.
Proof. destruct r as [a|e|s|]; cbn; intros H; try discriminate. exists a. auto. Qed.

Lemma fin_ok {A} (x : A) : fin (Ok x : res serr A).  Proof. exact I. Qed.
Lemma fin_err {A} e : fin (Err e : res serr A).  Proof. exact I. Qed.
#[global] Hint Resolve fin_ok fin_err : fin.

(* a provider: at least one word per access, and what it stores are bytes *)
Definition prov_ok (p : prov) : Prop := (2 <= p_cs p)%nat /\ forall a, byte_at p a < 256.

Lemma bytes_from_nth p a n i : (i < n)%nat -> nth i (bytes_from p a n) 0 = byte_at p (a + N.of_nat i).
Proof.
  intros H. unfold bytes_from.
  rewrite (nth_indep _ 0 (byte_at p (a + N.of_nat 0))) by (rewrite map_length, seq_length; lia).
  rewrite (map_nth (fun i => byte_at p (a + N.of_nat i)) (seq 0 n) 0%nat i), seq_nth by lia. reflexivity.
Qed.

Lemma bytes_from_byte p a n i : prov_ok p -> nth i (bytes_from p a n) 0 < 256.
Proof.
  intros [_ B]. destruct (Nat.lt_ge_cases i n) as [H|H].
  - rewrite bytes_from_nth by exact H. apply B.
  - rewrite nth_overflow by (rewrite bytes_from_length; lia). lia.
Qed.

Lemma fin_enum_val e raw : fin (enum_val e raw).
Proof. unfold enum_val. destruct (enum_unpack e (Z.of_N raw)); exact I. Qed.

Lemma fin_bits_val m raw : fin (bits_val m raw).
Proof. unfold bits_val. destruct (_ =? 0); exact I. Qed.

Lemma fin_read_exact p r n : prov_ok p -> fin (range_read_exact p r n).
Proof.
  intros [C _]. pose proof (range_read_exact_safe p r n C) as H.
  destruct (range_read_exact p r n) as [[[b|] r']|e|s|]; auto; exact I.
Qed.

Lemma fin_exact p r n : prov_ok p -> fin (exact p r n).
Proof.
  intros P. unfold exact. apply fin_bind; [apply fin_read_exact; exact P|].
  intros [[b|] r'] _; exact I.
Qed.

Lemma exact_bytes p r n b r' : prov_ok p -> exact p r n = Ok (b, r') ->
  b = bytes_from p (r_pos r) n /\ r_pos r' = r_pos r + N.of_nat n /\ r_end r' = r_end r.
Proof.
  intros [C _] H. unfold exact in H. pose proof (range_read_exact_safe p r n C) as S.
  destruct (range_read_exact p r n) as [[[b0|] r0]|e|s|]; cbn in H; try discriminate.
  inversion H; subst. tauto.
Qed.

Lemma fin_read p r n : prov_ok p -> fin (range_read p r n).
Proof.
  intros [C _]. destruct (range_read_safe p r n C) as [(k & _ & _ & K)|K]; rewrite K; exact I.
Qed.

Lemma fin_read_byte p r : prov_ok p -> fin (range_read_byte p r).
Proof.
  intros [C _]. pose proof (range_read_byte_safe p r C) as H.
  destruct (range_read_byte p r) as [[b r']|e|s|]; auto; exact I.
Qed.

Lemma fin_skip r s : fin (range_skip r s).
Proof. pose proof (range_skip_safe r s) as H. destruct (range_skip r s); auto; exact I. Qed.

(* ---------- the category walk ends ---------- *)
Lemma walk_total fuel : forall p want wa e, (65536 - wa) / 2 < N.of_nat fuel -> fin (walk fuel p want wa e).
Proof.
  induction fuel as [|f IH]; intros p want wa e F; [lia|]. cbn [walk].
  destruct (65536 <=? wa + 2) eqn:E1; [exact I|]. apply N.leb_gt in E1.
  pose proof (fin_enum_val enum_CategoryType (le16 (read_chunk p wa))) as FE.
  destruct (enum_val enum_CategoryType (le16 (read_chunk p wa))) as [ct|e0|s|]; try exact I; try contradiction.
  destruct (32 <=? _); [exact I|]. destruct (ct =? want); [exact I|]. destruct (ct =? cat_end); [exact I|].
  destruct (65536 <=? wa + 2 + le16 (skipn 2 (read_chunk p wa))) eqn:E2; [exact I|]. apply N.leb_gt in E2.
  apply IH. lia.
Qed.

Lemma walk_fuel_enough : (65536 - 64) / 2 < N.of_nat walk_fuel.
Proof. vm_compute. reflexivity. Qed.

Theorem category_total p want : fin (category p want).
Proof. unfold category. apply walk_total. exact walk_fuel_enough. Qed.

(* ---------- fixed-position queries ---------- *)
Lemma fin_station_alias p : prov_ok p -> fin (q_station_alias p).
Proof. intros P. unfold q_station_alias. apply fin_bind; [apply fin_exact; exact P|]. intros [b r] _. exact I. Qed.

Lemma fin_identity p : prov_ok p -> fin (q_identity p).
Proof. intros P. unfold q_identity. apply fin_bind; [apply fin_exact; exact P|]. intros [b r] _. exact I. Qed.

Lemma fin_size p : prov_ok p -> fin (q_size p).
Proof. intros P. unfold q_size. apply fin_bind; [apply fin_exact; exact P|]. intros [b r] _. exact I. Qed.

Lemma fin_mailbox p : prov_ok p -> fin (q_mailbox p).
Proof.
  intros P. unfold q_mailbox. apply fin_bind; [apply fin_exact; exact P|]. intros [b r] _.
  apply fin_bind; [apply fin_bits_val|]. intros x _. exact I.
Qed.

Lemma fin_parse_general b : fin (parse_general b).
Proof.
  unfold parse_general.
  repeat (apply fin_bind; [first [apply fin_bits_val | apply fin_enum_val]|intros ? _]). exact I.
Qed.

Lemma fin_general_raw p : prov_ok p -> fin (q_general_raw p).
Proof.
  intros P. unfold q_general_raw. apply fin_bind; [apply category_total|]. intros [r|] _; [|exact I].
  apply fin_bind; [apply fin_exact; exact P|]. intros [b r'] _. apply fin_parse_general.
Qed.

Lemma fin_general p : prov_ok p -> fin (q_general p).
Proof. intros P. unfold q_general. apply fin_bind; [apply fin_general_raw; exact P|]. intros g _. exact I. Qed.

(* ---------- item lists ---------- *)
Lemma fin_items_range p cat : fin (items_range p cat).
Proof. unfold items_range. apply fin_bind; [apply category_total|]. intros [r|] _; exact I. Qed.

Lemma collect_total fuel : forall p r size parse cap item n acc, prov_ok p ->
  (forall b, fin (parse b)) -> (cap - n < fuel)%nat ->
  fin (collect fuel p r size parse cap item n acc).
Proof.
  induction fuel as [|f IH]; intros p r size parse cap item n acc P PF F; [lia|]. cbn [collect].
  apply fin_bind; [apply fin_read_exact; exact P|]. intros [[b|] r'] _; [|exact I].
  apply fin_bind; [apply PF|]. intros v _. destruct (cap <=? n)%nat eqn:E; [exact I|].
  apply Nat.leb_gt in E. apply IH; auto. lia.
Qed.

Lemma fin_parse_sm b : fin (parse_sm b).
Proof.
  unfold parse_sm.
  repeat (apply fin_bind; [first [apply fin_bits_val | apply fin_enum_val]|intros ? _]). exact I.
Qed.

Lemma fin_sync_managers p : prov_ok p -> fin (q_sync_managers p).
Proof.
  intros P. unfold q_sync_managers. apply fin_bind; [apply fin_items_range|]. intros r _.
  apply fin_bind; [apply collect_total; [exact P|intros; apply fin_parse_sm|lia]|]. intros [n acc] _. exact I.
Qed.

Lemma fin_fmmu_mappings p : prov_ok p -> fin (q_fmmu_mappings p).
Proof.
  intros P. unfold q_fmmu_mappings. apply fin_bind; [apply fin_items_range|]. intros r _.
  apply fin_bind; [apply collect_total; [exact P|intros; exact I|lia]|]. intros [n acc] _. exact I.
Qed.

Lemma fin_map_res {A B} (f : A -> res serr B) l : (forall x, fin (f x)) -> fin (map_res f l).
Proof.
  intros F. induction l as [|x r IH]; cbn [map_res]; [exact I|].
  apply fin_bind; [apply F|]. intros y _. apply fin_bind; [exact IH|]. intros ys _. exact I.
Qed.

Lemma fin_fmmus p : prov_ok p -> fin (q_fmmus p).
Proof.
  intros P. unfold q_fmmus. apply fin_bind; [apply category_total|]. intros [r|] _; [|exact I].
  apply fin_bind; [apply fin_read; exact P|]. intros [b r'] _.
  apply fin_bind; [apply fin_map_res; intros; apply fin_enum_val|]. intros us _. exact I.
Qed.

(* PDO entries: the 16-bit sum of up to 255 entries of up to 255 bits cannot overflow *)
Lemma pdo_entries_total fuel : forall md p r k bits, prov_ok p ->
  (k <= fuel)%nat -> bits + 255 * N.of_nat k <= 65535 -> fin (pdo_entries fuel md p r k bits).
Proof.
  induction fuel as [|f IH]; intros md p r k bits P F B; destruct k as [|k]; cbn [pdo_entries]; try exact I; [lia|].
  apply fin_bind; [apply fin_read_exact; exact P|]. intros [[b|] r'] E; [|exact I].
  assert (NB : nth 5 b 0 < 256).
  { destruct P as [C Bt]. pose proof (range_read_exact_safe p r 8 C) as S. unfold next_item in E. rewrite E in S.
    destruct S as (S1 & _). subst b. apply bytes_from_byte. split; assumption. }
  unfold u16. replace (bits + nth 5 b 0 <? 65536) with true by (symmetry; apply N.ltb_lt; lia).
  cbn [rbind]. apply IH; auto; lia.
Qed.

Lemma collect_pdos_total fuel : forall md p r n acc, prov_ok p -> (64 - n < fuel)%nat ->
  fin (collect_pdos fuel md p r n acc).
Proof.
  induction fuel as [|f IH]; intros md p r n acc P F; [lia|]. cbn [collect_pdos].
  apply fin_bind; [apply fin_read_exact; exact P|]. intros [[b|] r'] E; [|exact I].
  assert (NB : nth 2 b 0 < 256).
  { destruct P as [C Bt]. pose proof (range_read_exact_safe p r 8 C) as S. unfold next_item in E. rewrite E in S.
    destruct S as (S1 & _). subst b. apply bytes_from_byte. split; assumption. }
  apply fin_bind; [apply pdo_entries_total; auto; lia|]. intros [bits r''] _.
  destruct (64 <=? n)%nat eqn:E6; [exact I|]. apply Nat.leb_gt in E6. apply IH; auto. lia.
Qed.

Lemma fin_pdos md p cat : prov_ok p -> fin (q_pdos md p cat).
Proof.
  intros P. unfold q_pdos. apply fin_bind; [apply fin_items_range|]. intros r _.
  apply fin_bind; [apply collect_pdos_total; auto; lia|]. intros [n acc] _. exact I.
Qed.

(* ---------- strings ---------- *)
Lemma skip_strings_total fuel : forall p r k, prov_ok p -> (k <= fuel)%nat -> fin (skip_strings fuel p r k).
Proof.
  induction fuel as [|f IH]; intros p r k P F; destruct k as [|k]; cbn [skip_strings]; try exact I; [lia|].
  apply fin_bind; [apply fin_read_byte; exact P|]. intros [len r1] _.
  apply fin_bind; [apply fin_skip|]. intros r2 _. apply IH; auto. lia.
Qed.

Lemma fin_find_string p cap idx : prov_ok p -> idx < 256 -> fin (find_string p cap idx).
Proof.
  intros P L. unfold find_string. destruct (idx =? 0); [exact I|].
  apply fin_bind; [apply category_total|]. intros [r|] _; [|exact I].
  apply fin_bind; [apply fin_read_byte; exact P|]. intros [num r1] _.
  destruct (num <=? idx - 1); [exact I|].
  apply fin_bind; [apply skip_strings_total; auto; lia|]. intros r2 _.
  apply fin_bind; [apply fin_read_byte; exact P|]. intros [len r3] _.
  destruct (cap <? len); [exact I|].
  apply fin_bind; [apply fin_exact; exact P|]. intros [b r4] _. exact I.
Qed.

Lemma fin_ignore {A} (r : res serr A) : fin r -> fin (ignore_no_category r).
Proof. destruct r as [x|[]|s|]; cbn; auto. Qed.

Lemma parse_general_idx b g : parse_general b = Ok g ->
  g_order_idx g = nth 2 b 0 /\ g_name_idx g = nth 3 b 0.
Proof.
  unfold parse_general. intros H. do 6 (apply rbind_ok in H as (? & _ & H)).
  injection H as X. rewrite <- X. split; reflexivity.
Qed.

(* conversion should not try to run the model on symbolic images (fuel 32800 ...) *)
Local Strategy opaque [exact category walk parse_general parse_sm range_read_exact range_read range_read_byte
  range_write_all range_write find_string items_range collect collect_pdos pdo_entries skip_strings].

Lemma general_idx_bytes p g : prov_ok p -> q_general_raw p = Ok g -> g_order_idx g < 256 /\ g_name_idx g < 256.
Proof.
  intros P H. unfold q_general_raw in H.
  apply rbind_ok in H as ([r|] & _ & H); [|discriminate].
  apply rbind_ok in H as ([b r'] & E & H).
  destruct (exact_bytes _ _ _ _ _ P E) as (B & _).
  destruct (parse_general_idx _ _ H) as [G1 G2]. rewrite G1, G2, B.
  split; apply bytes_from_byte; exact P.
Qed.

Local Strategy transparent [exact category walk parse_general parse_sm range_read_exact range_read range_read_byte
  range_write_all range_write find_string items_range collect collect_pdos pdo_entries skip_strings].


Lemma fin_device_name p : prov_ok p -> fin (q_device_name p).
Proof.
  intros P. unfold q_device_name.
  apply fin_bind; [apply fin_ignore, fin_general_raw; exact P|]. intros [g|] E; [|exact I].
  assert (G : q_general_raw p = Ok g).
  { destruct (q_general_raw p) as [g0|[]|s|]; cbn in E; try discriminate; inversion E; reflexivity. }
  destruct (general_idx_bytes p g P G) as [G1 G2].
  apply fin_bind; [apply fin_ignore, fin_find_string; auto|]. intros s _. exact I.
Qed.

Lemma fin_device_description p : prov_ok p -> fin (q_device_description p).
Proof.
  intros P. unfold q_device_description.
  apply fin_bind; [apply fin_general_raw; exact P|]. intros g G.
  destruct (general_idx_bytes p g P G) as [G1 G2].
  apply fin_bind; [apply fin_find_string; auto|]. intros s _. exact I.
Qed.

(* ---------- the station alias (C14) ---------- *)
Lemma exact_fresh p w n : prov_ok p -> 2 * w + N.of_nat n <= 131072 ->
  exact p (start_at w (N.of_nat n)) n
  = Ok (bytes_from p (2 * w) n, {| r_pos := 2 * w + N.of_nat n; r_end := 2 * w + (N.of_nat n + 1) / 2 * 2 |}).
Proof.
  intros [C _] A. unfold exact, start_at, range_new.
  rewrite range_read_exact_spec; cbn [r_pos r_end]; try exact C; try lia.
  replace (n <=? N.to_nat (w * 2 + (N.of_nat n + 1) / 2 * 2 - w * 2))%nat with true
    by (symmetry; apply Nat.leb_le; lia).
  cbn [rbind]. replace (w * 2) with (2 * w) by lia. reflexivity.
Qed.

Definition new_header (p : prov) (alias : N) : list N :=
  firstn 8 (bytes_from p 0 14) ++ le_bytes 2 alias ++ skipn 10 (bytes_from p 0 14).

Theorem alias_spec p a : prov_ok p ->
  exists p', set_station_alias p a = Ok p' /\
    wrote p p' (words_of 4 (le_bytes 2 a) ++ words_of 7 (le_bytes 2 (crc8 (new_header p a)))).
Proof.
  intros P. unfold set_station_alias.
  change (start_at 0 14) with (start_at 0 (N.of_nat 14)). rewrite exact_fresh by (try exact P; cbn; lia).
  cbn [rbind]. change (2 * 0) with 0. fold (new_header p a).
  destruct (write_all_fits p 4 1 (le_bytes 2 a) ltac:(rewrite le_bytes_length; lia) ltac:(cbn; lia))
    as (p1 & r1 & W1 & X1).
  change (start_at 4 2) with (range_new 4 (N.of_nat 1)). rewrite W1. cbn [rbind].
  destruct (write_all_fits p1 7 1 (le_bytes 2 (crc8 (new_header p a))) ltac:(rewrite le_bytes_length; lia) ltac:(cbn; lia))
    as (p2 & r2 & W2 & X2).
  change (start_at 7 2) with (range_new 7 (N.of_nat 1)). rewrite W2. cbn [rbind].
  exists p2. split; [reflexivity|]. eapply wrote_trans; eassumption.
Qed.

(* what reads back afterwards *)
Theorem alias_effect p a p' : prov_ok p -> set_station_alias p a = Ok p' ->
  let cs := crc8 (new_header p a) in
  byte_at p' 8 = a mod 256 /\ byte_at p' 9 = a / 256 mod 256 /\
  byte_at p' 14 = cs mod 256 /\ byte_at p' 15 = cs / 256 mod 256 /\
  (forall x, x <> 8 -> x <> 9 -> x <> 14 -> x <> 15 -> byte_at p' x = byte_at p x) /\
  bytes_from p' 0 14 = new_header p a.
Proof.
  intros P H cs. destruct (alias_spec p a P) as (p2 & E & W). rewrite H in E. inversion E; subst p2; clear E.
  fold cs in W. cbn [le_bytes words_of app] in W.
  assert (B : forall x, byte_at p' x =
     match lookup x [(15, cs / 256 mod 256); (14, cs mod 256); (9, a / 256 mod 256); (8, a mod 256)] with
     | Some v => v | None => byte_at p x end).
  { intros x. rewrite (byte_at_wrote p p' _ x W). reflexivity. }
  repeat split.
  - rewrite B. reflexivity.
  - rewrite B. reflexivity.
  - rewrite B. reflexivity.
  - rewrite B. reflexivity.
  - intros x N8 N9 N14 N15. rewrite B. cbn [lookup].
    replace (15 =? x) with false by (symmetry; apply N.eqb_neq; congruence).
    replace (14 =? x) with false by (symmetry; apply N.eqb_neq; congruence).
    replace (9 =? x) with false by (symmetry; apply N.eqb_neq; congruence).
    replace (8 =? x) with false by (symmetry; apply N.eqb_neq; congruence). reflexivity.
  - unfold new_header, bytes_from. cbn [seq map firstn skipn app le_bytes N.of_nat Pos.of_succ_nat Pos.succ].
    rewrite !B. cbn [lookup N.add N.eqb Pos.eqb Pos.add Pos.succ]. reflexivity.
Qed.

(* the alias reported afterwards is the new one *)
Theorem alias_reads_back p a p' : prov_ok p -> a < 65536 -> set_station_alias p a = Ok p' ->
  q_station_alias p' = Ok [Z.of_N a].
Proof.
  intros P A H. destruct (alias_effect p a p' P H) as (B8 & B9 & _).
  destruct (alias_spec p a P) as (p2 & E & (W1 & W2 & W3)). rewrite H in E. inversion E; subst p2; clear E.
  assert (P' : prov_ok p').
  { destruct P as [C Bt]. split; [congruence|]. intros x.
    destruct (alias_effect p a p' (conj C Bt) H) as (E8 & E9 & E14 & E15 & EO & _).
    destruct (N.eq_dec x 8) as [->|N8]; [rewrite E8; apply N.mod_lt; lia|].
    destruct (N.eq_dec x 9) as [->|N9]; [rewrite E9; apply N.mod_lt; lia|].
    destruct (N.eq_dec x 14) as [->|N14]; [rewrite E14; apply N.mod_lt; lia|].
    destruct (N.eq_dec x 15) as [->|N15]; [rewrite E15; apply N.mod_lt; lia|].
    rewrite EO by assumption. apply Bt. }
  unfold q_station_alias. change (start_at 4 2) with (start_at 4 (N.of_nat 2)).
  rewrite exact_fresh by (try exact P'; cbn; lia). cbn [rbind]. f_equal. f_equal. f_equal.
  unfold le16, bytes_from. cbn [seq map firstn N.of_nat Pos.of_succ_nat N.mul N.add Pos.mul Pos.add Pos.succ of_le].
  change (2 * 4 + 0) with 8. change (2 * 4 + 1) with 9. rewrite B8, B9. lia.
Qed.

(* the device-level retry rule *)
Theorem dev_write_word_bound errs :
  let '(stored, cmds, errs_left) := dev_write_word errs in
  (cmds <= 21)%nat /\ (stored = true <-> (errs <= 20)%nat) /\ (stored = true -> cmds = S errs).
Proof.
  unfold dev_write_word. destruct (errs <=? 20)%nat eqn:E.
  - apply Nat.leb_le in E. repeat split; auto; lia.
  - apply Nat.leb_gt in E. repeat split; try lia; intros; discriminate.
Qed.

(* ---------- every query finishes (C13) ---------- *)
Lemma fin_set_alias p a : prov_ok p -> fin (set_station_alias p a).
Proof. intros P. destruct (alias_spec p a P) as (p' & E & _). rewrite E. exact I. Qed.

Local Opaque q_identity q_device_name q_device_description q_size q_mailbox q_general q_sync_managers q_fmmus
  q_fmmu_mappings q_pdos q_station_alias find_string set_station_alias.

Theorem query_total md p q arg : prov_ok p -> fin (fst (query md p q arg)).
Proof.
  intros P. pose proof (fin_set_alias p arg P) as FA. pose proof (N.mod_lt arg 256 ltac:(lia)) as AM.
  assert (F11 : fin (let? s := find_string p 64 (arg mod 256) in Ok (obs_string s))).
  { apply fin_bind; [apply fin_find_string; auto|]. intros s _. exact I. }
  unfold query. destruct q as [|q]; [cbn [fst]; apply fin_identity; exact P|].
  do 4 (try destruct q as [q|q|]); cbn [fst];
    first [ exact I | exact F11
          | apply fin_device_name; exact P | apply fin_device_description; exact P | apply fin_size; exact P
          | apply fin_mailbox; exact P | apply fin_general; exact P | apply fin_sync_managers; exact P
          | apply fin_fmmus; exact P | apply fin_fmmu_mappings; exact P | apply fin_pdos; exact P
          | apply fin_station_alias; exact P
          | destruct (set_station_alias p arg); cbn [fst]; auto; exact I ].
Qed.

(* ---------- the category walk finds the category (C12) ---------- *)
(* category headers (raw type, length in words) laid out one after the other from word wa *)
Fixpoint headers_at (p : prov) (wa : N) (cats : list (N * N)) : Prop :=
  match cats with
  | [] => True
  | (ty, len) :: r =>
    le16 (read_chunk p wa) = ty /\ le16 (skipn 2 (read_chunk p wa)) = len /\ headers_at p (wa + 2 + len) r
  end.

Fixpoint end_of (wa : N) (cats : list (N * N)) : N :=
  match cats with [] => wa | (_, len) :: r => end_of (wa + 2 + len) r end.

Definition empties_in (cats : list (N * N)) : N :=
  N.of_nat (length (filter (fun c => snd c =? 0) cats)).

(* a category the walk steps over: its type is (after the decoding the code applies) neither the
   wanted one nor the end marker *)
Definition stepped_over (want : N) (c : N * N) : Prop :=
  exists ct, enum_val enum_CategoryType (fst c) = Ok ct /\ ct <> want /\ ct <> cat_end.

Theorem walk_finds p want : forall pre wa e len fuel,
  headers_at p wa (pre ++ [(want, len)]) ->
  Forall (stepped_over want) pre ->
  enum_val enum_CategoryType want = Ok want ->
  e + empties_in (pre ++ [(want, len)]) < 32 ->
  end_of wa pre + 2 < 65536 ->
  (length pre < fuel)%nat ->
  walk fuel p want wa e = Ok (Some (range_new (end_of wa pre + 2) len)).
Proof.
  induction pre as [|[ty l] pre IH]; intros wa e len fuel H St W E A F.
  - destruct fuel as [|f]; [cbn in F; lia|]. cbn [app headers_at] in H. destruct H as (H1 & H2 & _).
    cbn [end_of] in *. cbn [walk]. replace (65536 <=? wa + 2) with false by (symmetry; apply N.leb_gt; lia).
    rewrite H1, W, H2. unfold empties_in in E. cbn [app filter snd length] in E.
    destruct (len =? 0) eqn:EL.
    + cbn [length] in E. replace (32 <=? e + 1) with false by (symmetry; apply N.leb_gt; lia).
      rewrite N.eqb_refl. reflexivity.
    + replace (32 <=? e) with false by (symmetry; apply N.leb_gt; cbn [length] in E; lia).
      rewrite N.eqb_refl. reflexivity.
  - destruct fuel as [|f]; [cbn in F; lia|]. cbn [app headers_at] in H. destruct H as (H1 & H2 & H3).
    apply Forall_cons_iff in St as [(ct & C1 & C2 & C3) St']. cbn [fst] in C1.
    cbn [end_of] in A |- *.
    assert (Mono : forall cats x, x <= end_of x cats).
    { induction cats as [|[t0 l0] cats IHc]; intros x; cbn [end_of]; [lia|]. specialize (IHc (x + 2 + l0)). lia. }
    pose proof (Mono pre (wa + 2 + l)) as M.
    cbn [walk]. replace (65536 <=? wa + 2) with false by (symmetry; apply N.leb_gt; lia).
    rewrite H1, C1, H2. unfold empties_in in E. cbn [app filter snd] in E.
    replace (ct =? want) with false by (symmetry; apply N.eqb_neq; exact C2).
    replace (ct =? cat_end) with false by (symmetry; apply N.eqb_neq; exact C3).
    replace (65536 <=? wa + 2 + l) with false by (symmetry; apply N.leb_gt; lia).
    destruct (l =? 0) eqn:EL.
    + cbn [length] in E. replace (32 <=? e + 1) with false by (symmetry; apply N.leb_gt; lia).
      apply IH; auto; try (unfold empties_in; lia); cbn [length] in F; lia.
    + replace (32 <=? e) with false by (symmetry; apply N.leb_gt; lia).
      apply IH; auto; try (unfold empties_in; lia); cbn [length] in F; lia.
Qed.

(* the wanted types decode to themselves, everything unknown is stepped over *)
Lemma wanted_types :
  Forall (fun t => enum_val enum_CategoryType t = Ok t)
         [cat_strings; cat_general; cat_fmmu; cat_sm; cat_fmmu_ex; cat_txpdo; cat_rxpdo].
Proof. repeat constructor. Qed.

(* ---------- item lists parse to their items, in order (C12) ---------- *)
Theorem collect_spec p size parse cap item : prov_ok p -> (0 < size)%nat ->
  forall k r n acc vs fuel,
  r_pos r <= r_end r -> r_end r <= 131072 ->
  (N.to_nat (r_end r - r_pos r) / size = k)%nat ->
  (n + k <= cap)%nat -> (k < fuel)%nat ->
  Forall2 (fun i v => parse (bytes_from p (r_pos r + N.of_nat (size * i)) size) = Ok v) (seq 0 k) vs ->
  collect fuel p r size parse cap item n acc = Ok ((n + k)%nat, acc ++ concat vs).
Proof.
  intros P Sz. induction k as [|k IH]; intros r n acc vs fuel L A K C F V.
  - inversion V; subst. destruct fuel as [|f]; [lia|]. cbn [collect]. unfold next_item.
    rewrite range_read_exact_spec by (try apply P; assumption).
    replace (size <=? N.to_nat (r_end r - r_pos r))%nat with false.
    + cbn [rbind concat]. rewrite app_nil_r, Nat.add_0_r. reflexivity.
    + symmetry. apply Nat.leb_gt. apply Nat.div_small_iff in K; lia.
  - destruct vs as [|v vs]; [inversion V|]. cbn [seq] in V. inversion V as [|? ? ? ? V1 V2]; subst.
    destruct fuel as [|f]; [lia|]. cbn [collect]. unfold next_item.
    rewrite range_read_exact_spec by (try apply P; assumption).
    assert (Room : (size <= N.to_nat (r_end r - r_pos r))%nat).
    { destruct (Nat.lt_ge_cases (N.to_nat (r_end r - r_pos r)) size) as [X|X]; [|exact X].
      apply Nat.div_small in X. lia. }
    replace (size <=? N.to_nat (r_end r - r_pos r))%nat with true by (symmetry; apply Nat.leb_le; exact Room).
    cbn [rbind]. rewrite Nat.mul_0_r, N.add_0_r in V1. rewrite V1. cbn [rbind].
    replace (cap <=? n)%nat with false by (symmetry; apply Nat.leb_gt; lia).
    rewrite (IH {| r_pos := r_pos r + N.of_nat size; r_end := r_end r |} (S n) (acc ++ v) vs f);
      cbn [r_pos r_end]; try lia.
    + cbn [concat]. rewrite <- app_assoc. f_equal. f_equal. lia.
    + replace (N.to_nat (r_end r - (r_pos r + N.of_nat size))) with (N.to_nat (r_end r - r_pos r) - size)%nat by lia.
      set (T := N.to_nat (r_end r - r_pos r)) in *.
      pose proof (Nat.div_mod T size ltac:(lia)) as DM. rewrite K in DM.
      pose proof (Nat.mod_upper_bound T size ltac:(lia)) as MB.
      symmetry. apply (Nat.div_unique (T - size) size k (T mod size)); [exact MB|].
      rewrite Nat.mul_succ_r in DM. lia.
    + rewrite <- seq_shift in V2. apply Forall2_map_l in V2 || idtac.
      clear -V2. revert V2. generalize (seq 0 k). intros l V2.
      remember (map S l) as l' eqn:EL. revert l EL. induction V2 as [|x y l' vs H0 V2 IHV]; intros l EL.
      * destruct l; [constructor|discriminate].
      * destruct l as [|i l]; [discriminate|]. cbn [map] in EL. inversion EL; subst. constructor.
        -- rewrite <- H0. f_equal. f_equal. lia.
        -- apply IHV. reflexivity.
Qed.

Lemma reported_alias p reported a :
  (forall p', set_station_alias p a = Ok p' -> set_alias_address p reported a = (Ok p', a)) /\
  ((forall p', set_station_alias p a <> Ok p') -> snd (set_alias_address p reported a) = reported).
Proof.
  unfold set_alias_address. split.
  - intros p' H. rewrite H. reflexivity.
  - intros H. destruct (set_station_alias p a) as [p'| | |]; try reflexivity. exfalso. exact (H p' eq_refl).
Qed.
