(* C12/C13/C14: the EEPROM byte-range reader/writer (src/eeprom/mod.rs, EepromRange) over a
   provider that serves 4 or 8 bytes per word address and stores one word per write.
   Where the code still computes in 16 bits the arithmetic is the code's: in Debug mode an overflow
   is a panic, in Release mode it wraps.  No proofs here. *)
From EC Require Import Base.Prelude Base.Bytes.
Local Open Scope N_scope.

(* ---------- the provider: the whole word-addressable space ---------- *)
Record prov := {
  p_byte : N -> N;           (* the stored byte at every byte address: ANY contents *)
  p_cs : nat;                (* bytes per read access: 4 or 8 *)
  p_writes : list (N * N)    (* byte address -> value written since, newest first *)
}.

Fixpoint lookup (a : N) (w : list (N * N)) : option N :=
  match w with
  | [] => None
  | (k, v) :: r => if k =? a then Some v else lookup a r
  end.

Definition byte_at (p : prov) (a : N) : N :=
  match lookup a (p_writes p) with
  | Some v => v
  | None => p_byte p a
  end.

Definition read_chunk (p : prov) (w : N) : list N :=
  map (fun i => byte_at p (2 * w + N.of_nat i)) (seq 0 (p_cs p)).

Definition write_word (p : prov) (w b0 b1 : N) : prov :=
  {| p_byte := p_byte p; p_cs := p_cs p;
     p_writes := (2 * w + 1, b1) :: (2 * w, b0) :: p_writes p |}.

(* ---------- 16-bit arithmetic as compiled ---------- *)
Inductive serr :=
| SOverrun | SNoCategory | SDecode | SCapacity (item : N) | SWireInvalid | SWireShort
| SStringTooLong (len : N) | SInternal.

Definition u16 (md : mode) (site : N) (x : N) : res serr N :=
  if x <? 65536 then Ok x else match md with Debug => Panic site | Release => Ok (x mod 65536) end.

(* ---------- EepromRange ---------- *)
(* byte positions are u32 in the code; they stay below 2^18 (Proofs: range_pos_bound), so plain
   numbers model them exactly *)
Record range := { r_pos : N; r_end : N }.

(* EepromRange::new: byte_pos = start_word * 2; end = start_word * 2 + len_words * 2 *)
Definition range_new (sw lw : N) : range := {| r_pos := sw * 2; r_end := sw * 2 + lw * 2 |}.

(* skip_ahead_bytes *)
Definition range_skip (r : range) (skip : N) : res serr range :=
  if r_end r <=? r_pos r + skip then Err SOverrun
  else Ok {| r_pos := r_pos r + skip; r_end := r_end r |}.

(* the word address of the current position, if it is one *)
Definition word_addr (r_pos : N) : res serr N :=
  if r_pos / 2 <? 65536 then Ok (r_pos / 2) else Err SOverrun.

(* read_byte: no end check; stops only at the end of the address space *)
Definition range_read_byte (p : prov) (r : range) : res serr (N * range) :=
  let? w := word_addr (r_pos r) in
  let chunk := read_chunk p w in
  let skip := N.to_nat (r_pos r mod 2) in
  match nth_error chunk skip with
  | Some b => Ok (b, {| r_pos := r_pos r + 1; r_end := r_end r |})
  | None => Err SInternal
  end.

(* the loop of Read::read: [want] bytes still to deliver *)
Fixpoint read_loop (fuel : nat) (p : prov) (pos : N) (want : nat) (acc : list N)
  : res serr (list N * N) :=
  match want with
  | O => Ok (acc, pos)
  | _ =>
    match fuel with
    | O => Hang
    | S f =>
      let? w := word_addr pos in
      let chunk := skipn (N.to_nat (pos mod 2)) (read_chunk p w) in
      if (want <? length chunk)%nat then Ok (acc ++ firstn want chunk, pos + N.of_nat want)
      else
        match chunk with
        | [] => Hang          (* a provider serving nothing would spin; excluded by p_cs >= 2 *)
        | _ => read_loop f p (pos + N.of_nat (length chunk)) (want - length chunk) (acc ++ chunk)
        end
    end
  end.

(* Read::read with a buffer of n bytes: the bytes delivered and the range afterwards *)
Definition range_read (p : prov) (r : range) (n : nat) : res serr (list N * range) :=
  let max_read := N.to_nat (r_end r - r_pos r) in     (* saturating_sub *)
  if (max_read =? 0)%nat then Ok ([], r)
  else
    let want := Nat.min n max_read in
    let? '(bytes, np) := read_loop (S want) p (r_pos r) want [] in
    Ok (bytes, {| r_pos := np; r_end := r_end r |}).

(* embedded-io-async read_exact: read until full, or until a read returns nothing.
   Result: Some bytes, or None for UnexpectedEof; the range afterwards in both cases. *)
Fixpoint read_exact_loop (fuel : nat) (p : prov) (r : range) (n : nat) (acc : list N)
  : res serr (option (list N) * range) :=
  match n with
  | O => Ok (Some acc, r)
  | _ =>
    match fuel with
    | O => Hang
    | S f =>
      let? '(bytes, r') := range_read p r n in
      match bytes with
      | [] => Ok (None, r')
      | _ => read_exact_loop f p r' (n - length bytes) (acc ++ bytes)
      end
    end
  end.

Definition range_read_exact (p : prov) (r : range) (n : nat)
  : res serr (option (list N) * range) := read_exact_loop (S n) p r n [].

(* Write::write: returns the count it reports, the provider and range afterwards *)
Fixpoint write_loop (fuel : nat) (p : prov) (r : range) (buf : list N) (written : nat)
  : res serr (nat * prov * range) :=
  match fuel with
  | O => Hang
  | S f =>
    if (r_end r - r_pos r =? 0) then Ok (written, p, r)
    else
      match buf with
      | [] => Ok (written, p, r)
      | b0 :: rest0 =>
        let '(b1, consumed, rest) := match rest0 with [] => (0, 1%nat, []) | b1 :: rest => (b1, 2%nat, rest) end in
        let? w := word_addr (r_pos r) in
        let p' := write_word p w b0 b1 in
        write_loop f p' {| r_pos := r_pos r + 2; r_end := r_end r |} rest (written + consumed)
      end
  end.

Definition range_write (p : prov) (r : range) (buf : list N) : res serr (nat * prov * range) :=
  write_loop (S (length buf)) p r buf 0.

(* embedded-io-async write_all: panics when write reports 0, and when it reports more than it
   was given (the slice index) *)
Fixpoint write_all_loop (fuel : nat) (p : prov) (r : range) (buf : list N)
  : res serr (prov * range) :=
  match buf with
  | [] => Ok (p, r)
  | _ =>
    match fuel with
    | O => Hang
    | S f =>
      let? '(n, p', r') := range_write p r buf in
      if (n =? 0)%nat then Panic 20
      else if (length buf <? n)%nat then Panic 21
      else write_all_loop f p' r' (skipn n buf)
    end
  end.

Definition range_write_all (p : prov) (r : range) (buf : list N) : res serr (prov * range) :=
  write_all_loop (S (length buf)) p r buf.

(* the hook's op 5: write() repeated until everything is written or a write reports 0;
   reporting more than it was given is still the slice-index panic *)
Fixpoint write_rep_loop (fuel : nat) (p : prov) (r : range) (buf : list N)
  : res serr (bool * prov * range) :=
  match buf with
  | [] => Ok (true, p, r)
  | _ =>
    match fuel with
    | O => Hang
    | S f =>
      let? '(n, p', r') := range_write p r buf in
      if (n =? 0)%nat then Ok (false, p', r')
      else if (length buf <? n)%nat then Panic 21
      else write_rep_loop f p' r' (skipn n buf)
    end
  end.

(* ---------- an operation sequence on one range (the hook verif::sii_range) ---------- *)
Inductive rop := RRead (n : nat) | RReadExact (n : nat) | RReadByte | RSkip (n : N)
               | RWrite (n : nat) | RWriteAll (n : nat).

Definition pattern (k n : nat) : list N :=
  map (fun i => N.of_nat ((i * 7 + k * 31 + 1) mod 256)) (seq 0 n).

Fixpoint run_rops (p : prov) (r : range) (ops : list rop) (k : nat) (out : list Z)
  : res serr (list Z) * list Z * prov :=
  match ops with
  | [] => (Ok out, out, p)
  | op :: rest =>
    match op with
    | RRead n =>
      match range_read p r (Nat.min n 600) with
      | Ok (bytes, r') => run_rops p r' rest (S k) (out ++ Z.of_nat (length bytes) :: map Z.of_N bytes)
      | Err e => (Err e, out, p) | Panic s => (Panic s, out, p) | Hang => (Hang, out, p)
      end
    | RReadExact n =>
      match range_read_exact p r (Nat.min n 600) with
      | Ok (Some bytes, r') => run_rops p r' rest (S k) (out ++ 1%Z :: map Z.of_N bytes)
      | Ok (None, r') => run_rops p r' rest (S k) (out ++ [(-2)%Z])
      | Err e => (Err e, out, p) | Panic s => (Panic s, out, p) | Hang => (Hang, out, p)
      end
    | RReadByte =>
      match range_read_byte p r with
      | Ok (b, r') => run_rops p r' rest (S k) (out ++ [Z.of_N b])
      | Err e => (Err e, out, p) | Panic s => (Panic s, out, p) | Hang => (Hang, out, p)
      end
    | RSkip n =>
      match range_skip r n with
      | Ok r' => run_rops p r' rest (S k) (out ++ [0%Z])
      | Err SOverrun => run_rops p r rest (S k) (out ++ [(-3)%Z])
      | Err e => (Err e, out, p) | Panic s => (Panic s, out, p) | Hang => (Hang, out, p)
      end
    | RWrite n =>
      match range_write p r (pattern k (Nat.min n 600)) with
      | Ok (w, p', r') => run_rops p' r' rest (S k) (out ++ [Z.of_nat w])
      | Err e => (Err e, out, p) | Panic s => (Panic s, out, p) | Hang => (Hang, out, p)
      end
    | RWriteAll n =>
      match write_rep_loop (S (Nat.min n 600)) p r (pattern k (Nat.min n 600)) with
      | Ok (done, p', r') => run_rops p' r' rest (S k) (out ++ [if done then 0%Z else (-4)%Z])
      | Err e => (Err e, out, p) | Panic s => (Panic s, out, p) | Hang => (Hang, out, p)
      end
    end
  end.

Definition obs_err (e : serr) : list Z :=
  match e with
  | SOverrun => [1] | SNoCategory => [2] | SDecode => [3] | SCapacity i => [4; Z.of_N i]
  | SWireInvalid => [5; 1] | SWireShort => [5; 0] | SStringTooLong l => [6; Z.of_N l] | SInternal => [7]
  end%Z.

(* result code, emitted values, and the writes performed (byte address, value) oldest first *)
Definition obs_range (p : prov) (sw lw : N) (ops : list rop) : list Z :=
  let '(res, out, p') := run_rops p (range_new sw lw) ops 0 [] in
  ((match res with Ok _ => [0] | Err e => (-1) :: obs_err e | Panic _ => [-98] | Hang => [-99] end)
   ++ [-7] ++ out ++ [-7] ++
   match res with
   | Ok _ => concat (map (fun kv => [Z.of_N (fst kv); Z.of_N (snd kv)]) (rev (p_writes p')))
   | _ => []     (* writes of a failed sequence are not compared *)
   end)%Z.
